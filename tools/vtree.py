"""Value trees over descriptor schemas (fbenc.py descriptors + nested-buffer kinds):
generation, rendering as h_build / fmodel protocol tokens, canonical form, and an independent strict decoder
(format checker + reader) that never looks at flatcc code.

Extra field kinds on top of fbenc's: "nt" (nested buffer, table root a), "ns" (nested buffer, struct root size a align b).
Canonical value of a table: {id: value}; value = bytes (inline) | ("s", bytes) | ("v", bytes) | ("sv", [bytes]) |
dict (table) | [dict] (table vector) | ("uv", [None | member value]) | ("st", bytes) (union struct member) |
("nb", ident|None, root canonical) (nested buffer)
"""
import struct
import fbenc


class Node:
    def __init__(self, k, **kw):
        self.k = k
        self.idx = None
        self.__dict__.update(kw)


def schema_line(tables, unions):
    """descriptor line for h_verify / the model verifier: nested buffers appear as aligned ubyte vectors"""
    def conv(f):
        # what generated verifiers check on the container: a [ubyte] vector (size 1, align 1); the nested content is
        # verified standalone by the callers of this module (as flatcc_verify_*_as_nested_root does, and as C15 demands)
        if f["kind"] in ("nt", "ns"): return fbenc.fld(f["id"], f["req"], "v", 1, 1, 0xffffffff)
        return f
    return fbenc.schema_line([[conv(f) for f in fs] for fs in tables], unions)


def random_schema(r, nested=0.0, ntab=None):
    tables, unions = fbenc.random_schema(r, ntab)
    for ms in unions:
        for m in ms:
            if m["kind"] == "st" and m["a"] == 0: m["a"] = max(1, m["b"])     # create_struct rejects empty structs
    if nested:
        for fs in tables:
            fid = (max(f["id"] for f in fs) + 1) if fs else 0
            while r.random() < nested and fid < 12:
                if r.random() < 0.7: fs.append(fbenc.fld(fid, 0, "nt", r.randrange(len(tables)), 0))
                else:
                    al = r.choice([1, 2, 4, 8, 16, 32]); fs.append(fbenc.fld(fid, 0, "ns", al * r.randint(1, 3), al))
                fid += 1
    return tables, unions


BOUNDARY = [b"\0", b"\xff", b"\x7f", b"\x80", b"\x01"]


# values whose shortest decimal form is hard for the float printer / parser (grisu3 gives up or sits on a rounding boundary, powers of
# two with an asymmetric neighbourhood, the largest / smallest normal and denormal values, exponent forms with a sign)
HARD_D = [1e23, 1e22, 9.5e21, 2.0**64, 2.0**-25, 2.0**-44, 2.0**85, 2.0**1002, 5e-324, 2.2250738585072014e-308, 2.225073858507201e-308, 1.7976931348623157e308,
          9007199254740992.0, 9007199254740994.0, 0.1, 1.0 / 3.0, 1.2345678901234568e20, 1e17, 1.5e300, 4.35e18, 8.41e21, 3.5844466002796428e298, 1e-7, 123456.789e3]
HARD_F = [1e23, 3.4028234663852886e38, 1.1754943508222875e-38, 1e-45, 16777216.0, 16777218.0, 0.1, 1e10, 2.0**64, 2.0**-25, 7.038531e-26, 9.9e-20, 8.589973e9]


def rbytes(r, n):
    if n == 0: return b""
    c = r.random()
    if n == 8 and c < 0.12: return struct.pack("<d", r.choice(HARD_D) * r.choice([1, 1, -1]))
    if n == 8 and c < 0.18: return struct.pack("<d", r.choice([1, -1]) * r.uniform(1, 10) * 10.0 ** r.randint(17, 300))
    if n == 4 and c < 0.12: return struct.pack("<f", r.choice(HARD_F) * r.choice([1, 1, -1]))
    if c < 0.15: return bytes([r.choice([0, 0xff, 0x7f, 0x80])]) * n
    if c < 0.25: return b"\0" * (n - 1) + bytes([r.choice([0x80, 0x7f, 1])])
    return bytes(r.randrange(256) for _ in range(n))


def rstring(r, big=False):
    n = r.choice([0, 0, 1, 2, 3, 4, 5, 7, 8, 13, 31, 32] + ([300, 3000] if big else []))
    s = bytearray(r.choice(b"abcxyz \0\xc3\xa9\"\\") for _ in range(n))
    return bytes(s)


class Gen:
    def __init__(self, r, tables, unions, maxdepth=5, big=False, share=0.15, nested_ws=0.0, embed=0.0, nest_aligns=(0, 0, 0, 8, 16, 64)):
        self.r, self.tables, self.unions = r, tables, unions
        self.maxdepth, self.big, self.share = maxdepth, big, share
        self.nested_ws, self.embed, self.nest_aligns = nested_ws, embed, nest_aligns
        self.budget = 120      # tables per tree: beyond it only required heavy fields are generated
        self.pool = [[]]      # per open buffer: completed shareable nodes (strings, tables)
        self.long_vectors = 0.0   # probability that an offset / union vector gets 20..130 elements (the builder's stacks grow while it is open)

    def ocount(self, deep, small):
        """element count of a string / table / union vector"""
        r = self.r
        if deep: return 0
        if self.long_vectors and r.random() < self.long_vectors:
            self.budget += 60
            return r.choice([20, 25, 31, 40, 50, 63, 64, 79, 100, 130])
        return r.choice(small)

    def string(self):
        r = self.r
        cands = [n for n in self.pool[-1] if n.k == "s"]
        if cands and r.random() < self.share:
            return Node("r", target=r.choice(cands))
        n = Node("s", data=rstring(r, self.big)); self.pool[-1].append(n); return n

    def member(self, m, depth):
        if m["kind"] == "t": return self.table(m["a"], depth + 1)
        if m["kind"] == "str": return self.string()
        return Node("u", align=max(1, m["b"]), data=rbytes(self.r, m["a"]))

    def table(self, ti, depth, shareable=True):
        r = self.r
        cands = [n for n in self.pool[-1] if n.k == "T" and n.ti == ti]
        if shareable and cands and r.random() < self.share:
            return Node("r", target=r.choice(cands))
        fields = []
        self.budget -= 1
        deep = depth >= self.maxdepth or self.budget <= 0
        fl = list(self.tables[ti])
        if r.random() < 0.3: r.shuffle(fl)          # call order need not follow ids
        for f in fl:
            k = f["kind"]
            heavy = k in ("t", "tv", "u", "uv", "nt")
            if not f["req"] and (r.random() < getattr(self, "skip", 0.3) or (deep and heavy)):
                continue
            if k == "s":
                v = Node("i", size=f["a"], align=max(1, f["b"]), data=rbytes(r, f["a"]))
            elif k == "str":
                v = self.string()
            elif k == "v":
                n = r.choice([0, 0, 1, 2, 3, 5] + ([64, 1000] if self.big else []))
                data = rbytes(r, n * f["a"])
                if n and f["a"] in (4, 8) and r.random() < 0.2:
                    # one element with only the top bit set: -0.0 for float / double vectors (stored, printed as -0, must come back as -0.0), MIN for integers
                    j = r.randrange(n) * f["a"]
                    data = data[:j] + b"\0" * (f["a"] - 1) + b"\x80" + data[j + f["a"]:]
                v = Node("v", esz=f["a"], align=max(1, f["b"]), data=data)
            elif k == "sv":
                v = Node("o", items=[self.string() for _ in range(self.ocount(False, [0, 1, 2, 3]))])
            elif k == "t":
                v = self.table(f["a"], depth + 1)
            elif k == "tv":
                cnt = self.ocount(deep, [0, 1, 2])
                # the elements of a long vector are leaves, so that the tree stays small
                v = Node("o", items=[self.table(f["a"], (depth + 2) if cnt < 10 else self.maxdepth) for _ in range(cnt)])
            elif k == "u":
                ms = self.unions[f["a"]]
                m = r.choice(ms + [None]) if ms and not deep else None
                if m is None and f["req"] and ms: m = next((x for x in ms if x["kind"] != "t"), ms[0])
                if m is None:
                    if r.random() < 0.5: continue
                    v = Node("U", type=0, value=Node("N"), member=None)
                else:
                    v = Node("U", type=m["code"] & 0xff, value=self.member(m, depth), member=m)
            elif k == "uv":
                ms = self.unions[f["a"]]
                items = []
                cnt = self.ocount(deep, [0, 1, 2, 3])
                for _ in range(cnt):
                    m = r.choice(ms + [None]) if ms else None
                    items.append((0, Node("N"), None) if m is None else (m["code"] & 0xff, self.member(m, (depth + 1) if cnt < 10 else self.maxdepth), m))
                v = Node("W", items=items)
            elif k == "nt":
                if r.random() < self.embed:
                    # an existing buffer (from the independent encoder) embedded as nested buffer
                    try:
                        data, _, minal = fbenc.encode_table_root(r, [[x for x in fs if x["kind"] not in ("nt", "ns")] for fs in self.tables], self.unions, f["a"],
                                                                 r.choice([None, b"EMBD"]), False, {})
                    except RecursionError:
                        continue
                    exp, _ = decode_root(data, self.tables, self.unions, ("t", f["a"]), False, None, 1)
                    v = Node("E", with_size=0, block_align=r.choice(self.nest_aligns), align=minal, data=data, root=("t", f["a"]), expect=exp)
                else:
                    self.pool.append([])
                    root = self.table(f["a"], depth + 1, shareable=False)
                    self.pool.pop()
                    v = Node("B", ident=r.choice([None, None, b"NEST", bytes(r.randrange(1, 256) for _ in range(4))]),
                             with_size=int(r.random() < self.nested_ws), block_align=r.choice(self.nest_aligns), root=root)
            elif k == "ns":
                v = Node("B", ident=r.choice([None, b"NSTR"]), with_size=int(r.random() < self.nested_ws), block_align=r.choice(self.nest_aligns),
                         root=Node("u", align=max(1, f["b"]), data=rbytes(r, f["a"])))
            fields.append((f, v))
        n = Node("T", ti=ti, fields=fields)
        self.pool[-1].append(n)
        return n


def hx(b): return b.hex() if b else "-"


def render(root):
    """protocol tokens; assigns creation indices exactly as the builder remembers created objects"""
    counter = [0]
    out = []

    def done(n):
        n.idx = counter[0]; counter[0] += 1

    def val(n):
        k = n.k
        if k == "N": out.append("N")
        elif k == "i": out.extend(["i", str(n.size), str(n.align), hx(n.data)])
        elif k == "s": out.extend(["s", hx(n.data)]); done(n)
        elif k == "v": out.extend(["v", str(n.esz), str(n.align), hx(n.data)]); done(n)
        elif k == "u": out.extend(["u", str(n.align), hx(n.data)]); done(n)
        elif k == "E": out.extend(["E", str(n.with_size), str(n.block_align), str(n.align), hx(n.data)]); done(n)
        elif k == "r": out.extend(["r", str(n.target.idx)])
        elif k == "o":
            out.extend(["o", str(len(n.items))])
            for it in n.items: val(it)
            done(n)
        elif k == "U":
            out.extend(["U", str(n.type)]); val(n.value)
        elif k == "W":
            out.extend(["W", str(len(n.items))])
            for (t, v, _) in n.items:
                out.append(str(t)); val(v)
        elif k == "B":
            out.extend(["B", hx(n.ident) if n.ident else "-", str(n.with_size), str(n.block_align)]); val(n.root); done(n)
        elif k == "T":
            out.extend(["T", str(len(n.fields))])
            for (f, v) in n.fields:
                out.append(str(f["id"])); val(v)
            done(n)
        else:
            raise ValueError(k)
    val(root)
    return out


def canon(n):
    k = n.k
    if k == "r": return canon(n.target)
    if k == "i": return (n.data + b"\0" * n.size)[:n.size]
    if k == "s": return ("s", n.data)
    if k == "v": return ("v", n.data[:len(n.data) - (len(n.data) % n.esz if n.esz else 0)])
    if k == "u": return ("st", n.data)
    if k == "B": return ("nb", n.ident, canon(n.root), bool(n.with_size))
    if k == "E": return ("nb", None, n.expect, False)
    if k == "T":
        d = {}
        for (f, v) in n.fields:
            fk = f["kind"]
            if fk == "u":
                d[f["id"] - 1] = bytes([v.type])
                if v.value.k != "N": d[f["id"]] = canon(v.value)
            elif fk == "uv":
                d[f["id"] - 1] = ("v", bytes(t for (t, _, _) in v.items))
                d[f["id"]] = ("uv", [None if x.k == "N" else canon(x) for (_, x, _) in v.items])
            elif fk == "sv":
                d[f["id"]] = ("sv", [canon(x)[1] for x in v.items])
            elif fk == "tv":
                d[f["id"]] = [canon(x) for x in v.items]
            else:
                d[f["id"]] = canon(v)
        return d
    raise ValueError(k)


# ---------------- independent strict decoder ----------------
class FormatError(Exception):
    pass


class Dec:
    """Reads a buffer per the FlatBuffers binary format (doc/binary-format.md), checking every rule the property
    names; `base_align` is the alignment the writer reported: all alignment checks are relative to buffer start."""

    def __init__(self, buf, tables, unions, max_align):
        self.b, self.tables, self.unions, self.max_align = buf, tables, unions, max_align
        self.n = len(buf)
        self.spans = []      # (start, end, what) of every object visited, for overlap / sharing checks
        self.depth = 0
        self.seen_align = 4
        self.nested = []     # (data offset, length, sub decoder) of nested buffers
        self.graph = {}      # address of every separately stored object -> addresses it refers to, in reading order
        self._kids = []      # stack of the kid lists of the objects being read
        self.root = None

    def _obj(self, p, fn):
        """read the object at p with fn(); the offsets followed meanwhile are its referents"""
        self._kids.append([])
        try:
            return fn()
        finally:
            self.graph[p] = self._kids.pop()

    def need(self, cond, why):
        if not cond: raise FormatError(why)

    def u16(self, p):
        self.need(0 <= p and p + 2 <= self.n, "u16 read at %d out of range" % p); self.need(p % 2 == 0, "u16 at %d misaligned" % p)
        return struct.unpack_from("<H", self.b, p)[0]

    def u32(self, p):
        self.need(0 <= p and p + 4 <= self.n, "u32 read at %d out of range" % p); self.need(p % 4 == 0, "u32 at %d misaligned" % p)
        return struct.unpack_from("<I", self.b, p)[0]

    def follow(self, p, what):
        o = self.u32(p)
        self.need(o != 0, "%s offset at %d is null" % (what, p))
        self.need(o < 2**31, "%s offset at %d points backward / too far" % (what, p))
        t = p + o
        self.need(t <= self.n, "%s offset at %d leaves the buffer" % (what, p))
        if self._kids: self._kids[-1].append(t)
        return t

    def string(self, p):
        n = self.u32(p)
        self.need(p + 4 + n + 1 <= self.n, "string at %d exceeds buffer" % p)
        self.need(self.b[p + 4 + n] == 0, "string at %d not zero terminated" % p)
        self.spans.append((p, p + 4 + n + 1, "s"))
        self.graph.setdefault(p, [])
        return ("s", bytes(self.b[p + 4:p + 4 + n]))

    def vector(self, p, esz, align):
        n = self.u32(p)
        self.need(p + 4 + n * esz <= self.n, "vector at %d exceeds buffer" % p)
        self.need((p + 4) % max(1, align) == 0, "vector data at %d not aligned to %d" % (p + 4, align))
        self.seen_align = max(self.seen_align, align)
        self.spans.append((p, p + 4 + n * esz, "v"))
        self.graph.setdefault(p, [])
        return n, p + 4

    def struct_at(self, p, size, align):
        self.need(p % max(1, align) == 0, "struct at %d not aligned to %d" % (p, align))
        self.seen_align = max(self.seen_align, align)
        self.need(p + size <= self.n, "struct at %d exceeds buffer" % p)
        return bytes(self.b[p:p + size])

    def member(self, m, p):
        t = self.follow(p, "union value")
        if m["kind"] == "t": return self.table(m["a"], t)
        if m["kind"] == "str": return self.string(t)
        self.spans.append((t, t + m["a"], "st"))
        self.graph.setdefault(t, [])
        return ("st", self.struct_at(t, m["a"], m["b"]))

    def table(self, ti, p):
        return self._obj(p, lambda: self._table(ti, p))

    def _table(self, ti, p):
        self.depth += 1
        self.need(self.depth <= 200, "nesting too deep")
        so = struct.unpack("<i", struct.pack("<I", self.u32(p)))[0]
        vt = p - so
        self.need(0 <= vt and vt + 4 <= self.n, "vtable of table at %d out of range" % p)
        vsize, tsize = self.u16(vt), self.u16(vt + 2)
        self.need(vsize >= 4 and vsize % 2 == 0 and vt + vsize <= self.n, "vtable at %d has bad size %d" % (vt, vsize))
        self.need(tsize >= 4 and p + tsize <= self.n, "table at %d has bad size %d" % (p, tsize))
        self.spans.append((p, p + tsize, "T")); self.spans.append((vt, vt + vsize, "vt"))
        nent = (vsize - 4) // 2
        ent = [self.u16(vt + 4 + 2 * i) for i in range(nent)]
        d = {}
        known = {}
        for f in self.tables[ti]:
            k = f["kind"]
            ids = [(f["id"], f)] if k not in ("u", "uv") else [(f["id"] - 1, dict(f, kind="utype" if k == "u" else "utypes")), (f["id"], f)]
            for (i, ff) in ids: known[i] = ff
        for i, f in sorted(known.items()):
            e = ent[i] if i < nent else 0
            k = f["kind"]
            if e == 0:
                if f["req"] and k not in ("utype", "utypes"):
                    self.need(False, "required field %d of table at %d absent" % (i, p))
                continue
            size = {"s": f["a"], "utype": 1}.get(k, 4)
            self.need(e >= 4 and e + size <= tsize, "field %d of table at %d outside the table (%d+%d > %d)" % (i, p, e, size, tsize))
            a = p + e
            if k == "s":
                d[i] = self.struct_at(a, f["a"], f["b"])
            elif k == "utype":
                d[i] = bytes([self.b[a]])
            elif k == "str":
                d[i] = self.string(self.follow(a, "string"))
            elif k == "v":
                t = self.follow(a, "vector"); n, data = self.vector(t, f["a"], f["b"])
                d[i] = ("v", bytes(self.b[data:data + n * f["a"]]))
            elif k == "utypes":
                t = self.follow(a, "type vector"); n, data = self.vector(t, 1, 1)
                d[i] = ("v", bytes(self.b[data:data + n]))
            elif k == "sv":
                t = self.follow(a, "string vector"); n, data = self.vector(t, 4, 4)
                d[i] = ("sv", self._obj(t, lambda: [self.string(self.follow(data + 4 * j, "string element"))[1] for j in range(n)]))
            elif k == "t":
                d[i] = self.table(f["a"], self.follow(a, "table"))
            elif k == "tv":
                t = self.follow(a, "table vector"); n, data = self.vector(t, 4, 4)
                d[i] = self._obj(t, lambda: [self.table(f["a"], self.follow(data + 4 * j, "table element")) for j in range(n)])
            elif k == "u":
                ty = d.get(i - 1, b"\0")[0]
                self.need(ty != 0, "union value present with type NONE in table at %d" % p)
                m = next((x for x in self.unions[f["a"]] if (x["code"] & 0xff) == ty), None)
                self.need(m is not None, "unknown union type %d" % ty)
                d[i] = self.member(m, a)
            elif k == "uv":
                self.need((i - 1) in d, "union vector without type vector in table at %d" % p)
                types = d[i - 1][1]
                t = self.follow(a, "union vector"); n, data = self.vector(t, 4, 4)
                self.need(n == len(types), "union vector length %d differs from type vector length %d" % (n, len(types)))
                items = []
                self._kids.append([])
                try:
                    for j in range(n):
                        o = self.u32(data + 4 * j)
                        if types[j] == 0:
                            self.need(o == 0, "union vector element %d has a value with type NONE" % j); items.append(None)
                        else:
                            m = next((x for x in self.unions[f["a"]] if (x["code"] & 0xff) == types[j]), None)
                            self.need(m is not None, "unknown union type %d" % types[j])
                            items.append(self.member(m, data + 4 * j))
                finally:
                    self.graph[t] = self._kids.pop()
                d[i] = ("uv", items)
            elif k in ("nt", "ns"):
                t = self.follow(a, "nested buffer"); n, data = self.vector(t, 1, 1)
                root = ("t", f["a"]) if k == "nt" else ("st", f["a"], f["b"])
                sub = bytes(self.b[data:data + n])
                ws = False
                try:
                    v, sd = decode_root(sub, self.tables, self.unions, root, False, None, 1)
                    start = data
                    self.need(data % sd.seen_align == 0, "nested buffer content at %d needs alignment %d inside the parent" % (data, sd.seen_align))
                except FormatError as e1:
                    # a nested buffer built with the size flag is consumed from its length field on (size-prefixed buffer)
                    sub = bytes(self.b[data - 4:data + n]); ws = True
                    try:
                        v, sd = decode_root(sub, self.tables, self.unions, root, True, None, 1)
                    except FormatError as e2:
                        raise FormatError("nested buffer at %d (extracted standalone): %s | as size-prefixed: %s" % (data, e1, e2))
                    start = data - 4
                    self.need(start % sd.seen_align == 0, "size-prefixed nested buffer at %d needs alignment %d inside the parent" % (start, sd.seen_align))
                self.seen_align = max(self.seen_align, sd.seen_align)
                self.nested.append((start, len(sub), sd, root, ws))
                self.nested.extend((start + a, b, c, e, w) for (a, b, c, e, w) in sd.nested)
                o = 4 if ws else 0
                d[i] = ("nb", sub[o + 4:o + 8] if struct.unpack_from("<I", sub, o)[0] >= 8 else None, v, ws)
        for f in self.tables[ti]:
            if f["kind"] == "u" and f["req"]:
                self.need(f["id"] in d, "required union %d absent" % f["id"])
            if f["kind"] == "u" and (f["id"] - 1) in d and d[f["id"] - 1] != b"\0" and f["id"] not in d:
                self.need(False, "union type %d set without a value in table at %d" % (f["id"] - 1, p))
            if f["kind"] == "uv" and ((f["id"] - 1) in d) != (f["id"] in d):
                self.need(False, "union vector %d has only one of type/value vectors" % f["id"])
        self.depth -= 1
        return d


def decode_root(buf, tables, unions, root, with_size, ident, align):
    """root: ("t", ti) or ("st", size, align). Returns canonical value. Checks header rules."""
    d = Dec(buf, tables, unions, align)
    base = 0
    if with_size:
        d.need(len(buf) >= 8, "size-prefixed buffer shorter than 8 bytes")
        sz = struct.unpack_from("<I", buf, 0)[0]
        d.need(sz + 4 == len(buf), "size prefix %d does not match length %d" % (sz, len(buf)))
        base = 4
    d.need(len(buf) >= base + 4, "buffer shorter than its header")
    o = struct.unpack_from("<I", buf, base)[0]
    t = base + o
    d.need(o >= 4 and t <= len(buf), "root offset out of range")
    if ident is not None:
        d.need(o >= 8 and bytes(buf[base + 4:base + 8]) == ident, "identifier missing or different")
    if root[0] == "t":
        d.need(t + 4 <= len(buf), "root table out of range")
        d.root = t
        v = d.table(root[1], t)
    else:
        v = ("st", d.struct_at(t, root[1], root[2]))
    return v, d




def same(exp, got):
    """expected canonical value (from the tree) vs decoded value; returns None or a description of the difference"""
    if isinstance(exp, dict):
        if not isinstance(got, dict): return "table expected"
        if set(exp) != set(got): return "present field ids %s, expected %s" % (sorted(got), sorted(exp))
        for k in sorted(exp):
            w = same(exp[k], got[k])
            if w: return "field %d: %s" % (k, w)
        return None
    if isinstance(exp, list):
        if not isinstance(got, list) or len(exp) != len(got): return "table vector length differs"
        for i, (a, b) in enumerate(zip(exp, got)):
            w = same(a, b)
            if w: return "[%d]: %s" % (i, w)
        return None
    if isinstance(exp, tuple) and exp[0] == "uv":
        if not (isinstance(got, tuple) and got[0] == "uv" and len(got[1]) == len(exp[1])): return "union vector length differs"
        for i, (a, b) in enumerate(zip(exp[1], got[1])):
            if (a is None) != (b is None): return "[%d]: null-ness differs" % i
            if a is not None:
                w = same(a, b)
                if w: return "[%d]: %s" % (i, w)
        return None
    if isinstance(exp, tuple) and exp[0] == "nb":
        if not (isinstance(got, tuple) and got[0] == "nb"): return "nested buffer expected"
        if exp[1] is not None and got[1] != exp[1]: return "nested identifier %r, expected %r" % (got[1], exp[1])
        # a nested buffer built with the size flag may also decode from its root offset on (when that happens to be aligned);
        # one built without it must not need the size-prefixed reading
        if len(exp) > 3 and len(got) > 3 and got[3] and not exp[3]: return "nested buffer is only aligned when read as size-prefixed from its length field"
        return same(exp[2], got[2])
    return None if exp == got else "value %r, expected %r" % (got, exp)
