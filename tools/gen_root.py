"""Regenerates lean/FlatccModel.lean (the library root) so that every module is built and audited."""
import os
V = os.path.dirname(os.path.dirname(os.path.abspath(__file__)))
L = os.path.join(V, "lean", "FlatccModel")
mods = sorted(f[:-5] for f in os.listdir(L) if f.endswith(".lean"))
gen = sorted("Generated." + f[:-5] for f in os.listdir(os.path.join(L, "Generated")) if f.endswith(".lean"))
props = sorted("Props." + f[:-5] for f in os.listdir(os.path.join(L, "Props")) if f.endswith(".lean"))
txt = "-- Root of the `FlatccModel` library: every model, proof and property file.\n" + "".join("import FlatccModel.%s\n" % m for m in sorted(mods + gen) + props)
p = os.path.join(V, "lean", "FlatccModel.lean")
if not os.path.exists(p) or open(p).read() != txt:
    open(p, "w").write(txt)
