"""Translator: the decision code (trie) of a generated JSON parser function -> a Tree term for the Lean validator.

Recognised statement shapes (everything else raises TranslateError = broken tie, never silently skipped):
  w = flatcc_json_parser_symbol_part(buf, end);
  if (w < 0xT) { S } else { S }
  if ((w & 0xM) == 0xT) { S } else { S }          mask must be "top n bytes"
  if (w == 0xT) { S } else { S }                   full 8-byte equality
  buf = flatcc_json_parser_match_symbol|match_constant|match_scope(ctx, (mark = buf), end, N[, aggregate]);
      if (mark != buf) { HANDLER } else { S }     (or `if (buf != mark)`)
  buf += 8; w = flatcc_json_parser_symbol_part(buf, end); S
  buf = flatcc_json_parser_unmatched_symbol(ctx, buf, end);   |   return unmatched;
  goto pfguardN;   ...   goto endpfguardN; pfguardN: S endpfguardN:
Tree encoding (comma separated prefix form): L,<tag16hex>,l,r | E,<n>,<hex>,t,e | M,<idx>,<n>,fail | D,t | U
"""
import re


class TranslateError(Exception):
    pass


def function_body(text, name):
    m = re.search(r"^static const char \*%s\([^)]*\)\n\{\n" % re.escape(name), text, re.M)
    if not m:
        raise TranslateError("function %s not found" % name)
    i = m.end()
    depth = 1
    j = i
    while depth:
        c = text[j]
        if c == "{": depth += 1
        elif c == "}": depth -= 1
        j += 1
    return text[i:j - 1]


def mask_n(mask):
    for n in range(1, 9):
        if mask == (0xffffffffffffffff << (8 * (8 - n))) & 0xffffffffffffffff:
            return n
    raise TranslateError("mask %x is not a top-n-bytes mask" % mask)


class Parser:
    def __init__(self, lines, handler_idx):
        self.L = lines
        self.i = 0
        self.handler_idx = handler_idx     # handler text -> dictionary index

    def peek(self):
        return self.L[self.i].strip() if self.i < len(self.L) else None

    def next(self):
        s = self.L[self.i].strip(); self.i += 1; return s

    def skip_balanced(self):
        """after an opening `{` line: return the lines up to the matching close, positioned on the closing line"""
        depth, start = 1, self.i
        while True:
            s = self.L[self.i]
            code = re.sub(r"/\*.*?\*/", "", s)
            for ch in code:
                if ch == "{": depth += 1
                elif ch == "}":
                    depth -= 1
                    if depth == 0:
                        return self.L[start:self.i]
            self.i += 1

    def block(self):
        """statements until a line starting with `}`; returns a tree with Goto nodes resolved"""
        pending = None        # tree of the statement parsed so far
        guards = []           # (N, tree-before) waiting for their label
        while True:
            s = self.peek()
            if s is None or s.startswith("}") or s.startswith("buf = flatcc_json_parser_object_end(") or s == "return buf;":
                break
            if s == "w = flatcc_json_parser_symbol_part(buf, end);" or re.fullmatch(r"/\*.*\*/", s) or s in ("", "(void)0;"):
                self.next(); continue
            m = re.match(r"goto endpfguard(\d+);", s)
            if m:
                self.next()
                lab = self.next()
                if lab != "pfguard%s:" % m.group(1):
                    raise TranslateError("expected label pfguard%s, got %r" % (m.group(1), lab))
                before = pending
                pending = None
                # the statement(s) after the label, up to endpfguardN:
                after = self.block_until_label("endpfguard%s:" % m.group(1))
                pending = subst_goto(before, int(m.group(1)), after)
                continue
            if re.match(r"(end)?pfguard\d+:", s):
                break
            t = self.statement()
            if pending is not None:
                raise TranslateError("two consecutive decision statements without a guard at line %r" % s)
            pending = t
        if pending is None:
            raise TranslateError("empty block before %r" % self.peek())
        return pending

    def block_until_label(self, label):
        t = self.block()
        s = self.next()
        if s != label:
            raise TranslateError("expected %s, got %r" % (label, s))
        return t

    def expect_close_else(self):
        s = self.next()
        if not re.match(r"\} else \{", s):
            raise TranslateError("expected `} else {`, got %r" % s)

    def expect_close(self):
        s = self.next()
        if not s.startswith("}"):
            raise TranslateError("expected `}`, got %r" % s)

    def statement(self):
        s = self.next()
        m = re.match(r"if \(w < 0x([0-9a-f]+)\) \{", s)
        if m:
            l = self.block(); self.expect_close_else(); r = self.block(); self.expect_close()
            return ("L", int(m.group(1), 16), l, r)
        m = re.match(r"if \(\(w & 0x([0-9a-f]+)\) == 0x([0-9a-f]+)\) \{", s)
        if m:
            n = mask_n(int(m.group(1), 16)); tag = int(m.group(2), 16)
            if tag & ~int(m.group(1), 16) & 0xffffffffffffffff:
                raise TranslateError("tag has bits outside its mask: %s" % s)
            t = self.block(); self.expect_close_else(); e = self.block(); self.expect_close()
            return ("E", n, tag.to_bytes(8, "big")[:n], t, e)
        m = re.match(r"if \(w == 0x([0-9a-f]+)\) \{", s)
        if m:
            t = self.block(); self.expect_close_else(); e = self.block(); self.expect_close()
            return ("E", 8, int(m.group(1), 16).to_bytes(8, "big"), t, e)
        m = re.match(r"buf = flatcc_json_parser_match_(symbol|constant|scope)\(ctx, \(mark = buf\), end, (\d+)(, aggregate)?\);", s)
        if m:
            n = int(m.group(2))
            s2 = self.next()
            if s2 not in ("if (mark != buf) {", "if (buf != mark) {"):
                raise TranslateError("expected `if (mark != buf) {` after match call, got %r" % s2)
            handler = self.skip_balanced()
            self.expect_close_else()
            fail = self.block()
            self.expect_close()
            idx = self.handler_idx("\n".join(handler), m.group(1))
            return ("M", idx, n, fail)
        if s == "buf += 8;":
            s2 = self.next()
            if s2 != "w = flatcc_json_parser_symbol_part(buf, end);":
                raise TranslateError("expected symbol_part after buf += 8, got %r" % s2)
            return ("D", self.block())
        if s in ("buf = flatcc_json_parser_unmatched_symbol(ctx, buf, end);", "return unmatched;"):
            return ("U",)
        m = re.match(r"goto pfguard(\d+);", s)
        if m:
            return ("G", int(m.group(1)))
        raise TranslateError("unrecognised statement in trie: %r" % s)


def subst_goto(t, n, repl):
    k = t[0]
    if k == "G":
        return repl if t[1] == n else t
    if k == "L": return ("L", t[1], subst_goto(t[2], n, repl), subst_goto(t[3], n, repl))
    if k == "E": return ("E", t[1], t[2], subst_goto(t[3], n, repl), subst_goto(t[4], n, repl))
    if k == "M": return ("M", t[1], t[2], subst_goto(t[3], n, repl))
    if k == "D": return ("D", subst_goto(t[1], n, repl))
    return t


def has_goto(t):
    if t[0] == "G": return True
    return any(has_goto(x) for x in t[1:] if isinstance(x, tuple))


def encode(t):
    k = t[0]
    if k == "L": return "L,%016x,%s,%s" % (t[1], encode(t[2]), encode(t[3]))
    if k == "E": return "E,%d,%s,%s,%s" % (t[1], t[2].hex(), encode(t[3]), encode(t[4]))
    if k == "M": return "M,%d,%d,%s" % (t[1], t[2], encode(t[3]))
    if k == "D": return "D,%s" % encode(t[1])
    if k == "U": return "U"
    raise TranslateError("unresolved goto pfguard%s" % t[1])


def extract_trie(text, fname, handler_idx):
    body = function_body(text, fname)
    lines = body.split("\n")
    # the trie starts at the first symbol_part read
    start = next((i for i, l in enumerate(lines) if l.strip() == "w = flatcc_json_parser_symbol_part(buf, end);"), None)
    if start is None:
        raise TranslateError("no trie in %s" % fname)
    p = Parser(lines[start:], handler_idx)
    t = p.block()
    if has_goto(t):
        raise TranslateError("unresolved prefix guard in %s" % fname)
    return t


def dict_sort(names):
    """the generator's dictionary order (dict_cmp: memcmp on the common prefix, then length)"""
    return sorted(set(names), key=lambda s: s.encode())
