"""Random schema generator (AST + .fbs text) for C07 / C20 / C06: enums, structs (nested, fixed arrays, force_align),
tables with every field kind and attribute, unions of tables / structs / strings, namespaces."""
import random

SCALARS = {"bool": 1, "byte": 1, "ubyte": 1, "short": 2, "ushort": 2, "int": 4, "uint": 4, "long": 8, "ulong": 8, "float": 4, "double": 8}
INTS = ["byte", "ubyte", "short", "ushort", "int", "uint", "long", "ulong"]


def gen_schema(r, size=1.0):
    S = {"namespace": r.choice([None, "NS", "A.B"]), "enums": [], "structs": [], "unions": [], "tables": []}
    for i in range(r.randint(0, 3)):
        ty = r.choice(INTS)
        n = r.randint(1, 5)
        start = r.choice([0, 0, 1, 5])
        vals, cur = [], start
        for k in range(n):
            vals.append(("V%d" % k, cur)); cur += r.choice([1, 1, 2, 7])
        S["enums"].append({"name": "E%d" % i, "type": ty, "values": vals})
    for i in range(r.randint(0, int(5 * size))):
        fields = []
        for k in range(r.randint(1, 6)):
            c = r.random()
            if c < 0.6:
                t = r.choice(list(SCALARS)); f = {"name": "f%d" % k, "type": t}
            elif c < 0.75 and S["enums"]:
                f = {"name": "f%d" % k, "type": r.choice(S["enums"])["name"], "enum": True}
            elif S["structs"] and c < 0.95:
                f = {"name": "f%d" % k, "type": r.choice(S["structs"])["name"], "struct": True}
            else:
                f = {"name": "f%d" % k, "type": r.choice(list(SCALARS))}
            if r.random() < 0.25:
                f["len"] = r.choice([1, 2, 3, 5, 16])
            fields.append(f)
        st = {"name": "S%d" % i, "fields": fields, "force_align": None}
        S["structs"].append(st)
    # force_align must be >= natural alignment: decided after computing the natural one (see layout())
    for i in range(r.randint(1, int(4 * size) + 1)):
        S["tables"].append({"name": "T%d" % i, "fields": []})
    for i in range(r.randint(0, 2)):
        ms = []
        for k in range(r.randint(1, 4)):
            c = r.random()
            if c < 0.6: ms.append(("T", r.choice(S["tables"])["name"]))
            elif c < 0.8 and S["structs"]: ms.append(("S", r.choice(S["structs"])["name"]))
            else: ms.append(("str", "M%d" % k))
        # member names must be unique
        seen, uniq = set(), []
        for m in ms:
            nm = m[1]
            if nm in seen: continue
            seen.add(nm); uniq.append(m)
        S["unions"].append({"name": "U%d" % i, "members": uniq})
    for t in S["tables"]:
        for k in range(r.randint(0, 8)):
            c = r.random(); f = {"name": "g%d" % k}
            if c < 0.3:
                f.update(kind="scalar", type=r.choice(list(SCALARS)))
                if r.random() < 0.4 and f["type"] not in ("float", "double", "bool"):
                    f["default"] = str(r.choice([0, 1, 7, 100]))
            elif c < 0.4: f.update(kind="string")
            elif c < 0.5 and S["enums"]:
                e = r.choice(S["enums"]); f.update(kind="enum", type=e["name"], default=e["values"][0][0])
            elif c < 0.6 and S["structs"]: f.update(kind="struct", type=r.choice(S["structs"])["name"])
            elif c < 0.7: f.update(kind="table", type=r.choice(S["tables"])["name"])
            elif c < 0.78:
                f.update(kind="vec_scalar", type=r.choice(list(SCALARS)))
                if r.random() < 0.2:       # a nested buffer: [ubyte] holding a table or struct root
                    f.update(type="ubyte", nested=r.choice(S["tables"] + S["structs"])["name"])
            elif c < 0.84: f.update(kind="vec_string")
            elif c < 0.9 and S["structs"]: f.update(kind="vec_struct", type=r.choice(S["structs"])["name"])
            elif c < 0.95: f.update(kind="vec_table", type=r.choice(S["tables"])["name"])
            elif S["unions"]:
                f.update(kind=r.choice(["union", "vec_union"]), type=r.choice(S["unions"])["name"])
            else: f.update(kind="string")
            if f["kind"] not in ("scalar", "enum", "struct") and r.random() < 0.1 and f["kind"] not in ("union", "vec_union"):
                f["required"] = True
            if r.random() < 0.08 and not f.get("required"): f["deprecated"] = True
            # optional scalars / enums: `= null` instead of a default
            if f["kind"] in ("scalar", "enum") and not f.get("deprecated") and r.random() < 0.12:
                f.pop("default", None); f["optional"] = True
            # flatcc accepts several key fields per table; the one with the lowest id is the default (primary) key
            if f["kind"] in ("scalar", "string", "enum") and not f.get("deprecated") and not f.get("optional") and f.get("type") not in ("bool", "float", "double") and r.random() < 0.15:
                f["key"] = True
            t["fields"].append(f)
    # sorted vectors (scalar, string, tables with a key): what the generated recursive sorter walks
    keyed = {t["name"] for t in S["tables"] if any(f.get("key") for f in t["fields"])}
    for t in S["tables"]:
        for f in t["fields"]:
            if f.get("deprecated") or f.get("nested"): continue
            if f["kind"] in ("vec_scalar", "vec_string") and r.random() < 0.25: f["sorted"] = True
            if f["kind"] == "vec_table" and f["type"] in keyed and r.random() < 0.6: f["sorted"] = True
    # explicit ids: assigned in list order (a union takes two, its type field first), the text order is a permutation of it
    for t in S["tables"]:
        if t["fields"] and r.random() < 0.25:
            nid = 0
            for f in t["fields"]:
                nid += 1 if f["kind"] in ("union", "vec_union") else 0
                f["id"] = nid; nid += 1
            order = list(range(len(t["fields"]))); r.shuffle(order)
            t["order"] = order
    S["root"] = S["tables"][0]["name"]
    S["unions_last"] = bool(S["unions"]) and r.random() < 0.3
    return S


def render(S):
    out = []
    if S["namespace"]: out.append("namespace %s;" % S["namespace"])
    for e in S["enums"]:
        out.append("enum %s:%s { %s }" % (e["name"], e["type"], ", ".join("%s = %d" % v for v in e["values"])))
    for s in S["structs"]:
        fs = []
        for f in s["fields"]:
            t = f["type"]
            fs.append("%s:%s;" % (f["name"], "[%s:%d]" % (t, f["len"]) if "len" in f else t))
        out.append("struct %s%s { %s }" % (s["name"], " (force_align: %d)" % s["force_align"] if s["force_align"] else "", " ".join(fs)))
    # tables and unions reference each other: flatcc resolves later definitions; a union may be declared before or after the tables using it
    utext = []
    for u in S["unions"]:
        ms = []
        for kind, nm in u["members"]:
            ms.append("%s:string" % nm if kind == "str" else nm)
        utext.append("union %s { %s }" % (u["name"], ", ".join(ms)))
    if not S.get("unions_last"): out += utext
    for t in S["tables"]:
        fs = []
        for f in ([t["fields"][i] for i in t["order"]] if t.get("order") else t["fields"]):
            k = f["kind"]
            ty = {"scalar": f.get("type"), "string": "string", "enum": f.get("type"), "struct": f.get("type"), "table": f.get("type"),
                  "vec_scalar": "[%s]" % f.get("type"), "vec_string": "[string]", "vec_struct": "[%s]" % f.get("type"),
                  "vec_table": "[%s]" % f.get("type"), "union": f.get("type"), "vec_union": "[%s]" % f.get("type")}[k]
            attrs = [a for a in ("required", "deprecated", "key", "sorted") if f.get(a)]
            if "id" in f: attrs.append("id: %d" % f["id"])
            if f.get("nested"): attrs.append('nested_flatbuffer: "%s"' % f["nested"])
            d = " = null" if f.get("optional") else " = %s" % f["default"] if "default" in f else ""
            fs.append("%s:%s%s%s;" % (f["name"], ty, d, " (%s)" % ", ".join(attrs) if attrs else ""))
        out.append("table %s { %s }" % (t["name"], " ".join(fs)))
    if S.get("unions_last"): out += utext
    out.append("root_type %s;" % S["root"])
    return "\n".join(out) + "\n"
