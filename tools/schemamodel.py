"""What the Lean model (Layout.lean: struct layout, implicit field ids — the functions the C07 theorems are about) says about a schema AST
of tools/schemagen.py. Used by C01 (demanded verifier descriptors), C07, C20."""
import schemagen
from vlib import run_lines, FMODEL


def struct_members(S, st, known):
    ms = []
    for f in st["fields"]:
        n = f.get("len", 1)
        if f.get("struct"): sz, al = known[f["type"]][:2]
        elif f.get("enum"):
            e = [e for e in S["enums"] if e["name"] == f["type"]][0]; sz = al = schemagen.SCALARS[e["type"]]
        else: sz = al = schemagen.SCALARS[f["type"]]
        ms.append((sz * n, al))
    return ms


def layouts(S, r=None):
    """{struct: (size, align, [offsets])}; with `r`, a force_align >= the natural alignment is chosen for some structs (and written into S)"""
    known = {}
    for st in S["structs"]:
        ms = struct_members(S, st, known)
        fa = st.get("force_align") or 0
        rc, out, _ = run_lines(FMODEL, ["layout %d " % fa + ",".join("%d:%d" % m for m in ms)])
        size, al, offs = out[0].split(" ")
        if r is not None and not fa and r.random() < 0.3:
            fa = r.choice([a for a in (1, 2, 4, 8, 16, 32, 64, 256) if a >= int(al)])
            st["force_align"] = fa
            rc, out, _ = run_lines(FMODEL, ["layout %d " % fa + ",".join("%d:%d" % m for m in ms)])
            size, al, offs = out[0].split(" ")
        known[st["name"]] = (int(size), int(al), [int(x) for x in offs.split(",")])
    return known


def ids(S):
    """{table: [id of each declared field (the value id for unions)]}"""
    lines = ["ids " + (",".join("1" if f["kind"] in ("union", "vec_union") else "0" for f in t["fields"]) or "_") for t in S["tables"]]
    rc, out, _ = run_lines(FMODEL, lines)
    return {t["name"]: ([int(x) for x in o.split(",")] if o else []) for t, o in zip(S["tables"], out)}
