#!/usr/bin/env python3
"""Protocol lines for the generic JSON scanners: jscan <fn> <flags> <startpos> <hex-bytes>.
Deterministic (fixed seed). flags: parser flags (1 = skip_unknown ...), +256 = ctx->unquoted initially set."""
import random, sys
import sys
R = random.Random(int(sys.argv[1]) if len(sys.argv) > 1 else 20260929)
MAX_NEST = 512
out = []
FNS2 = ["space", "spaceext", "number", "skipconst", "unmatched", "generic", "symstart", "symend", "conststart",
        "strstart", "strend", "strpart", "stresc", "objstart", "objend", "arrstart", "arrend"]

def hx(b):
    return b.hex() if len(b) else "-"
def emit(fn, flags, start, b):
    if isinstance(b, str):
        b = b.encode("latin-1")
    assert 0 <= start <= len(b)
    out.append("jscan %s %d %d %s" % (fn, flags, start, hx(b)))
def flags_for(fn):
    f = R.choice([0, 1, 1, 2, 8, 16, 31])
    if fn in ("symend", "unmatched", "conststart", "symstart"):
        f += 256 * R.randint(0, 1)
    return f

WS = [" ", "\t", "\n", "\r", "\r\n", "  ", " \t", "\n ", ""]
def ws():
    r = R.random()
    if r < 0.5: return ""
    if r < 0.8: return R.choice(WS)
    return "".join(R.choice(" \t\n\r") for _ in range(R.choice([1, 2, 3, 7, 8, 15, 16, 17, 33])))

def gstring():
    parts = []
    for _ in range(R.randint(0, 6)):
        r = R.random()
        if r < 0.5: parts.append(R.choice(["a", "b", "xyz", " ", "\xc3\xa9", "0", "_", "{", "]", ","]))
        elif r < 0.7: parts.append("\\" + R.choice('tnrbf"\\/'))
        elif r < 0.8: parts.append("\\x%02x" % R.randint(0, 255))
        elif r < 0.9: parts.append("\\u%04x" % R.randint(0, 0xffff))
        elif r < 0.95: parts.append("\\u%04X\\u%04x" % (R.randint(0xd800, 0xdbff), R.randint(0xdc00, 0xdfff)))
        else: parts.append("\\u%04x\\u%04x" % (R.randint(0xd800, 0xdbff), R.randint(0, 0xffff)))
    return '"' + "".join(parts) + '"'
def gnumber():
    s = R.choice(["", "-"]) + R.choice(["0", "1", "7", "12", "900", str(R.randint(0, 10**R.randint(1, 20)))])
    if R.random() < 0.4: s += "." + str(R.randint(0, 9999))
    if R.random() < 0.4: s += R.choice("eE") + R.choice(["", "+", "-"]) + str(R.randint(0, 400))
    return s
def gname():
    r = R.random()
    if r < 0.6: return '"' + R.choice(["a", "b", "name", "x.y", "a\\\"b", "", "k k", "\\\\"]) + '"'
    return R.choice(["a", "abc", "x.y", "_z", "A9", "caf\xc3\xa9", "a.b.c"])
def gvalue(depth):
    r = R.random()
    if depth <= 0 or r < 0.35:
        k = R.random()
        if k < 0.3: return gstring()
        if k < 0.6: return gnumber()
        return R.choice(["true", "false", "null", "Red", "Red Green", "ns.Enum.Val", "_x1"])
    if r < 0.68:
        n = R.randint(0, 3)
        items = [ws() + gvalue(depth - 1) + ws() for _ in range(n)]
        body = ",".join(items)
        if n and R.random() < 0.15: body += "," + ws()
        return "[" + (ws() if not n else "") + body + "]"
    n = R.randint(0, 3)
    items = [ws() + gname() + ws() + ":" + ws() + gvalue(depth - 1) + ws() for _ in range(n)]
    body = ",".join(items)
    if n and R.random() < 0.15: body += "," + ws()
    return "{" + (ws() if not n else "") + body + "}"
def deep(depth, kind):
    """nesting `depth` deep; kind: 'a' arrays, 'o' objects, 'm' mixed"""
    o, c = [], []
    for _ in range(depth):
        k = kind if kind != "m" else R.choice("ao")
        if k == "a":
            o.append("["); c.append("]")
        else:
            o.append('{"a":' if R.random() < 0.7 else "{b :"); c.append("}")
    return "".join(o) + R.choice(["1", '"s"', "null", "[]", "{}", ""]) + "".join(reversed(c))

TAILS = ["", ",", "}", "]", " ", " ,", "x", "\n}"]

# 1. grammar-derived values through generic / unmatched, at offset 0 and behind a prefix
for _ in range(7000):
    v = gvalue(R.randint(0, 6)) + R.choice(TAILS)
    pre = R.choice(["", "", " ", "x", "{\"k\":"])
    emit("generic", flags_for("generic"), len(pre), pre + v)
for _ in range(2500):
    v = gvalue(R.randint(0, 4)) + R.choice(TAILS)
    unq = R.randint(0, 1)
    name = (R.choice(["a", "abc", "x.y", "_z", "a."]) if unq else R.choice(["a\"", "name\"", "a\\\"b\"", "\"", "abc"]))
    emit("unmatched", R.choice([1, 1, 1, 0, 3]) + 256 * unq, 0, name + ws() + R.choice([":", ":", ":", "", ";"]) + ws() + v)

# 2. nesting up to and over MAX_NEST
for d in [1, 2, 3, 31, 255, MAX_NEST - 2, MAX_NEST - 1, MAX_NEST, MAX_NEST + 1, MAX_NEST + 2]:
    for kind in "aom":
        for _ in range(4):
            t = deep(d, kind)
            emit("generic", 0, 0, t)
            emit("generic", 0, 0, t[: len(t) - R.randint(0, min(len(t), d + 3))])
            emit("unmatched", 1, 0, "k\":" + t)
    emit("generic", 0, 0, "[" * d)
    emit("generic", 0, 0, "{" * d)
    emit("generic", 0, 0, "[ " * d)
    emit("generic", 0, 0, '{"a":' * d)

# 3. every truncation of several valid texts
TEXTS = [
    '{"a": [1, 2.5e+3, -0.1E-2, "s\\u00e9\\ud83d\\ude00\\n\\x41"], "b": {"c": true, d: null, "e": Red Green}, "f": [ ], "g": { } , }',
    '[ {"k" : "v" } , [ [ ] , [ 1 , ] ] , "\\\\" , -12.25e10 , false ]',
    ' \t\r\n{ \r\n "x.y" :\t[ 0 ,\n1 ]\r}\n',
    '"\\ud83d\\ude00 \\ud83dx \\udbff\\udfff \\uD800\\u0041 \\x7f\\xFf"',
    '{a:1,b.c:[x,y z],"q":"\\"",_u:{}}',
    '-0.0e-0,', '123456789012345678901234567890.5E+300]', 'true ,', 'ns.Enum.Val more}',
]
for t in TEXTS:
    for k in range(len(t) + 1):
        emit("generic", 0, 0, t[:k])
        emit("generic", 1, min(1, k), t[:k])
        emit("unmatched", 1, 0, 'n"  :' + t[:k])
    for k in range(len(t) + 1):
        for fn in ("number", "skipconst", "space", "symend", "strpart", "stresc"):
            emit(fn, flags_for(fn), k, t)

# 4. runs of white space before the end / before a byte
RUNS = [0, 1, 2, 3, 7, 8, 9, 15, 16, 17, 18, 31, 32, 33, 47, 48, 49, 64]
for n in RUNS:
    for ch in [" ", "\t", "\n", "\r", "\r\n", " \t", "\t ", " \n", "  \t", " \r"]:
        run = (ch * n)[: max(n, 0)] if len(ch) == 1 else ch * n
        for tail in ["", "x", ",", "\x01", "\x80", "\x00", " ", "\r", "}", "\x0b", "\x0c", "\x7f", "!"]:
            for fn in ("space", "spaceext"):
                emit(fn, 0, 0, run + tail)
            emit("space", 0, min(1, len(run)), run + tail)
            emit("skipconst", 0, 0, "ab" + run + tail)
            emit("objend", 0, 0, run + "," + run + tail)
            emit("arrend", 0, 0, run + "]" + run + tail)
            emit("arrstart", 0, 0, "[" + run + tail)
            emit("objstart", 0, 0, "{" + run + "}" + run + tail)
# mixed runs: random white space of the interesting lengths, spaces then something else inside the 16-byte window
for _ in range(3000):
    n = R.choice(RUNS)
    alphabet = R.choice([" ", " \t", " \t\n\r", "  \n", " \r\n"])
    run = "".join(R.choice(alphabet) for _ in range(n))
    tail = R.choice(["", "x", "\x1f", "\xff", "{", "\""]) + "".join(R.choice(" x\t") for _ in range(R.choice([0, 0, 1, 14, 15, 16])))
    s = run + tail
    fn = R.choice(["space", "spaceext", "space", "skipconst", "objend", "arrend", "conststart"])
    emit(fn, flags_for(fn), R.randint(0, min(len(s), 3)), s)

# 5. numbers: all truncations, ends right after - . e e+, every terminator
NUMS = ["-", "0", "-0", "1", "10", "-12", "0.", "1.", "1.5", "1e", "1E", "1e+", "1e-", "1e5", "1e+5", "1.5e-10", "01", "00",
        "-.5", ".5", "+1", "1.e5", "1ee", "1e+-", "0x10", "9" * 40, "-" + "9" * 25 + "." + "1" * 25 + "e" + "9" * 25, "1.2.3", "--1", "- 1"]
TERM = ["", ",", ":", "]", "}", " ", "\r", "\t", "\n", "\x0b", "\x0c", "x", "\x00", "\x80", ";", "e", ".", "-", "\""]
for t in NUMS:
    for term in TERM:
        emit("number", 0, 0, t + term)
        emit("generic", 0, 0, t + term)
        emit("generic", 0, 1, "[" + t + term)
    for k in range(len(t) + 1):
        emit("number", 0, 0, t[:k])
        emit("number", 0, k, t)
for _ in range(1500):
    t = gnumber()
    k = R.randint(0, len(t))
    emit("number", 0, 0, t[:k] + R.choice(TERM))

# 6. strings ending inside escapes
STRS = ['"', '""', '"a', '"a"', '"\\', '"\\"', '"\\""', '"\\n"', '"\\q"', '"\\x', '"\\x4', '"\\x41', '"\\x41"', '"\\xg1"', '"\\x4g"',
        '"\\u', '"\\u0', '"\\u00', '"\\u004', '"\\u0041', '"\\u0041"', '"\\u00g1"', '"\\ud83d', '"\\ud83d\\', '"\\ud83d\\u', '"\\ud83d\\ude0',
        '"\\ud83d\\ude00', '"\\ud83d\\ude00"', '"\\ud83d\\u0041"', '"\\ud83d\\ude0g"', '"\\ud83dabcdef"', '"\\udbff\\udfff"', '"\\uDBFF\\uDFFF"',
        '"a\x01b"', '"a\x1fb"', '"a\x7fb"', '"a\x80b"', '"a\xffb"', '"tab\there"', '"nl\nhere"', '"\\/\\b\\f\\r\\t\\\\"']
for t in STRS:
    for k in range(len(t) + 1):
        emit("generic", 0, 0, t[:k])
        emit("generic", 0, 1, "[" + t[:k])
        emit("strpart", 0, min(1, k), t[:k])
        emit("symend", 0, min(1, k), t[:k])
        emit("symend", 256, min(1, k), t[:k])
        emit("unmatched", 1, min(1, k), t[:k] + ":1,")
    for k in range(len(t) + 1):
        emit("stresc", 0, k, t)
        emit("strstart", 0, k, t)
        emit("strend", 0, k, t)
for _ in range(1500):
    t = gstring()
    k = R.randint(0, len(t))
    emit("generic", 0, 0, t[:k])
    emit("stresc", 0, R.randint(0, len(t)), t)

# 7. symbols, constants, group functions
SYMS = ['"', 'a', '.', '.a', 'a.', 'a.b', 'a..b', '"a.b"', 'abc:', 'abc :', 'a b', '_9z:', '\xc3\xa9:', 'a\x80', 'a\x01', 'a!', 'a"',
        'a\\"b":', 'a\\', 'a\\\\', 'a\\"', '', ' ', ' a', '9a', '-a', 'A.Z.', 'true', 'null ', 'false,', 'Red Green Blue,', 'a  b  c  }']
for t in SYMS:
    for k in range(len(t) + 1):
        for fl in (0, 256):
            emit("symstart", fl, k, t)
            emit("symend", fl, k, t)
            emit("conststart", fl, k, t)
        emit("skipconst", 0, k, t)
        emit("generic", 0, k, t)
        emit("unmatched", 1, k, t)
        emit("unmatched", 257, k, t)
GROUPS = ["{", "{}", "{ }", "{ } ", "{a", "{ \"a\"", "[", "[]", "[ ]", "[ ] x", "[1", "}", "]", ",", ", ", ",}", ",]", ", }", ", ]", " , 1", " } ", " ] ",
          "x", "", " ", "{]", "[}", ",,"]
for t in GROUPS:
    for k in range(len(t) + 1):
        for fn in ("objstart", "objend", "arrstart", "arrend"):
            emit(fn, 0, k, t)

# 8. random bytes, uniform and from JSON-ish alphabets, every function, random start
ALPH = b' \t\r\n"\\{}[],:-+.0123456789eEaxu_truefalsn\x00\x1f\x7f\x80\xff'
for _ in range(9000):
    fn = R.choice(FNS2)
    n = R.choice([0, 1, 2, 3, 4, 5, 6, 7, 8, 11, 12, 13, 15, 16, 17, 20, 31, 32, 33, 40, 64])
    if R.random() < 0.35:
        b = bytes(R.randint(0, 255) for _ in range(n))
    else:
        b = bytes(R.choice(ALPH) for _ in range(n))
    emit(fn, flags_for(fn), R.randint(0, n) if R.random() < 0.5 else 0, b)

sys.stdout.write("\n".join(out) + "\n")
sys.stderr.write("%d lines\n" % len(out))
