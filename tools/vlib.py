"""Shared machinery for the /verif checks (see DESIGN.md §5).

Every check: (1) regenerate source-derived Lean data, (2) `lake build` the model + theorems,
(3) audit the property's theorems (forbidden tokens, `#print axioms`), (4) build a C harness from
/repo's working tree, (5) run the correspondence (C harness vs. compiled Lean model `fmodel`) on
seeded generated inputs + corpus, (6) decide, write evidence.
"""
import fcntl, hashlib, json, os, random, re, shutil, subprocess, sys, time
from concurrent.futures import ThreadPoolExecutor

VERIF = os.path.dirname(os.path.dirname(os.path.abspath(__file__)))
REPO = os.environ.get("VERIF_REPO", "/repo")
LEAN = os.path.join(VERIF, "lean")
WORK = os.path.join(VERIF, "_work")
EVID = os.environ.get("VERIF_EVID", os.path.join(VERIF, "evidence"))   # seeded runs write elsewhere
REPLAYS = os.environ.get("VERIF_REPLAYS", os.path.join(VERIF, "replays"))      # seeded runs write elsewhere
FMODEL = os.path.join(LEAN, ".lake", "build", "bin", "fmodel")
ALLOWED_AXIOMS = {"propext", "Classical.choice", "Quot.sound"}
FORBIDDEN = [r"\bsorry\b", r"\badmit\b", r"^\s*axiom\s", r"\bnative_decide\b", r"\bbv_decide\b",
             r"\bimplemented_by\b", r"\bunsafe\s", r"maxHeartbeats\s+0\b", r"\bextern\b"]
TRUSTED_BASE = [
    "Lean 4.33.0 kernel",
    "axioms: propext, Classical.choice, Quot.sound (checked with #print axioms on every property theorem)",
    "hand-written Lean model of the named C functions; tied to /repo by the differential run of this check",
    "C harness + generators in /verif/harness and /verif/tools (correspondence only)",
    "gcc, ASan/UBSan for the C side",
]


class Ctx:
    def __init__(self, prop, tier, seed):
        self.prop, self.tier, self.seed = prop, tier, seed
        self.rng = random.Random(seed * 1000003 + int(prop[1:]))
        self.t0 = time.time()
        self.work = os.path.join(WORK, prop)
        shutil.rmtree(self.work, ignore_errors=True)
        os.makedirs(self.work, exist_ok=True)
        shutil.rmtree(os.path.join(REPLAYS, prop), ignore_errors=True)   # replays of earlier runs are stale
        self.violations = []       # (replay_path, no_failing_input)
        self.known_hits = []
        self.cov = {}
        self.samples = []
        self.notes = []

    def quick(self):
        return self.tier == "quick"


def sh(cmd, timeout=600, cwd=None, input=None, env=None):
    e = dict(os.environ)
    if env:
        e.update(env)
    try:
        p = subprocess.run(cmd, cwd=cwd, input=input, capture_output=True, timeout=timeout, env=e,
                           shell=isinstance(cmd, str))
        return p.returncode, p.stdout.decode("utf-8", "replace"), p.stderr.decode("utf-8", "replace")
    except subprocess.TimeoutExpired as ex:
        out = (ex.stdout or b"").decode("utf-8", "replace")
        err = (ex.stderr or b"").decode("utf-8", "replace")
        return -999, out, err + "\n[timeout]"


# ---------------------------------------------------------------- Lean side

def _lock():
    os.makedirs(WORK, exist_ok=True)
    f = open(os.path.join(WORK, ".lean.lock"), "w")
    fcntl.flock(f, fcntl.LOCK_EX)
    return f


def write_if_changed(path, text):
    try:
        if open(path).read() == text:
            return False
    except OSError:
        pass
    os.makedirs(os.path.dirname(path), exist_ok=True)
    with open(path + ".tmp", "w") as f:
        f.write(text)
    os.replace(path + ".tmp", path)
    return True


def lake_build(targets=("FlatccModel", "fmodel"), locked=False):
    """Returns (ok, log). Serialised across concurrently running checks."""
    lk = None if locked else _lock()
    try:
        rc, out, err = sh(["lake", "build", *targets], timeout=3000, cwd=LEAN)
        return rc == 0, out + err
    finally:
        if lk: lk.close()


def lean_sources():
    res = []
    for d, _, fs in os.walk(LEAN):
        if ".lake" in d:
            continue
        for f in fs:
            if f.endswith(".lean"):
                res.append(os.path.join(d, f))
    return sorted(res)


def strip_lean_comments(src):
    # nested block comments + line comments
    out, i, depth, n = [], 0, 0, len(src)
    while i < n:
        if src.startswith("/-", i):
            depth += 1; i += 2; continue
        if depth and src.startswith("-/", i):
            depth -= 1; i += 2; continue
        if depth:
            if src[i] == "\n":
                out.append("\n")
            i += 1; continue
        if src.startswith("--", i):
            while i < n and src[i] != "\n":
                i += 1
            continue
        out.append(src[i]); i += 1
    return "".join(out)


def audit_tokens():
    bad = []
    for p in lean_sources():
        code = strip_lean_comments(open(p).read())
        for ln, line in enumerate(code.split("\n"), 1):
            for pat in FORBIDDEN:
                if re.search(pat, line):
                    bad.append("%s:%d: %s" % (os.path.relpath(p, VERIF), ln, line.strip()[:100]))
    return bad


def prop_files(prop):
    """Props/<prop>.lean plus supplementary Props/<prop>_*.lean (theorems of the same property that need later modules)"""
    d = os.path.join(LEAN, "FlatccModel", "Props")
    return [prop] + sorted(f[:-5] for f in os.listdir(d) if f.startswith(prop + "_") and f.endswith(".lean"))


def prop_theorems(prop):
    """Names (fully qualified) of the theorems in Props/<prop>.lean and Props/<prop>_*.lean"""
    names = []
    for mod in prop_files(prop):
        p = os.path.join(LEAN, "FlatccModel", "Props", mod + ".lean")
        code = strip_lean_comments(open(p).read())
        ns = []
        for line in code.split("\n"):
            m = re.match(r"\s*namespace\s+(\S+)", line)
            if m:
                ns.append(m.group(1)); continue
            m = re.match(r"\s*end\s+(\S+)", line)
            if m and ns and ns[-1].split(".")[-1] == m.group(1).split(".")[-1]:
                ns.pop(); continue
            m = re.match(r"\s*(?:private\s+|protected\s+)?theorem\s+([^\s:({\[]+)", line)
            if m:
                names.append(".".join(ns + [m.group(1)]))
    return names


def audit_axioms(prop, workdir):
    """Runs `#print axioms` on every theorem of Props/<prop>.lean.
    Returns (list of {name, axioms, ok}, log)."""
    names = prop_theorems(prop)
    src = "".join("import FlatccModel.Props.%s\n" % m for m in prop_files(prop)) + "".join("#print axioms %s\n" % n for n in names)
    f = os.path.join(workdir, "axioms_%s.lean" % prop)
    open(f, "w").write(src)
    lk = _lock()
    try:
        rc, out, err = sh(["lake", "env", "lean", f], timeout=900, cwd=LEAN)
    finally:
        lk.close()
    text = out + err
    res = {}
    # "'Name' depends on axioms: [a, b]" (may wrap lines) / "'Name' does not depend on any axioms"
    flat = re.sub(r"\s+", " ", text)
    for m in re.finditer(r"'(\S+)' depends on axioms: \[([^\]]*)\]", flat):
        res[m.group(1)] = [a.strip() for a in m.group(2).split(",") if a.strip()]
    for m in re.finditer(r"'(\S+)' does not depend on any axioms", flat):
        res[m.group(1)] = []
    items = []
    for n in names:
        if n in res:
            ax = res[n]
            items.append({"name": n, "axioms": ax, "ok": set(ax) <= ALLOWED_AXIOMS})
        else:
            items.append({"name": n, "axioms": None, "ok": False})
    return items, text


# ---------------------------------------------------------------- C side

RUNTIME_SRCS = ["builder.c", "emitter.c", "json_parser.c", "json_printer.c", "refmap.c", "verifier.c"]
# alignment is excluded: flatcc stores/loads unaligned 16/32/64-bit words on x86 by design (pprintint.h, punaligned.h);
# alignment of *reader* accesses is checked explicitly by the C01 machinery instead.
# nonnull-attribute is excluded: builder.c calls memset(NULL, 0, 0) in exit_frame on an empty data stack (harmless; noted in DESIGN).
SAN = ["-O1", "-g", "-fsanitize=address,undefined", "-fno-sanitize=alignment", "-fno-sanitize=nonnull-attribute", "-fno-sanitize-recover=all", "-fno-omit-frame-pointer"]


def cc(args, timeout=600):
    rc, out, err = sh(["gcc"] + args, timeout=timeout)
    return rc, out + err


def build_runtime_objs(ctx, flags=None, tag="rt", extra_defs=()):
    """Compile /repo/src/runtime/*.c (current working tree) to objects, in parallel."""
    flags = list(SAN if flags is None else flags)
    od = os.path.join(ctx.work, tag)
    os.makedirs(od, exist_ok=True)
    jobs = []
    for s in RUNTIME_SRCS:
        o = os.path.join(od, s[:-2] + ".o")
        jobs.append((["-c", os.path.join(REPO, "src/runtime", s), "-o", o, "-I", os.path.join(REPO, "include")]
                     + flags + list(extra_defs), o))
    with ThreadPoolExecutor(8) as ex:
        rs = list(ex.map(lambda j: cc(j[0]), jobs))
    for (rc, log), j in zip(rs, jobs):
        if rc != 0:
            raise BuildError("runtime build failed: " + log[-2000:])
    return [j[1] for j in jobs]


class BuildError(Exception):
    pass


COMPILER_SRCS = ["external/hash/str_set.c", "external/hash/ptr_set.c",
                 "src/compiler/hash_tables/symbol_table.c", "src/compiler/hash_tables/scope_table.c",
                 "src/compiler/hash_tables/name_table.c", "src/compiler/hash_tables/schema_table.c",
                 "src/compiler/hash_tables/value_set.c", "src/compiler/fileio.c", "src/compiler/parser.c",
                 "src/compiler/semantics.c", "src/compiler/coerce.c", "src/compiler/flatcc.c",
                 "src/compiler/codegen_c.c", "src/compiler/codegen_c_reader.c", "src/compiler/codegen_c_sort.c",
                 "src/compiler/codegen_c_builder.c", "src/compiler/codegen_c_verifier.c",
                 "src/compiler/codegen_c_sorter.c", "src/compiler/codegen_c_json_parser.c",
                 "src/compiler/codegen_c_json_printer.c", "src/compiler/codegen_schema.c",
                 "src/runtime/builder.c", "src/runtime/emitter.c", "src/runtime/refmap.c"]


def build_flatcc(ctx, flags=None, tag="cc", with_cli=True):
    """Build the schema compiler from /repo's working tree (as the CMake build does: FLATCC_REFLECTION on).
    Returns (path to the flatcc executable or None, list of library objects)."""
    flags = list(["-O1", "-g"] if flags is None else flags)
    od = os.path.join(ctx.work, tag)
    os.makedirs(od, exist_ok=True)
    inc = ["-I", os.path.join(REPO, "include"), "-I", os.path.join(REPO, "external"), "-I", os.path.join(REPO, "config"),
           "-DFLATCC_REFLECTION=1"]
    jobs = []
    srcs = list(COMPILER_SRCS) + (["src/cli/flatcc_cli.c"] if with_cli else [])
    for s in srcs:
        o = os.path.join(od, s.replace("/", "_")[:-2] + ".o")
        jobs.append((["-c", os.path.join(REPO, s), "-o", o] + inc + flags, o))
    with ThreadPoolExecutor(16) as ex:
        rs = list(ex.map(lambda j: cc(j[0]), jobs))
    for (rc, log), j in zip(rs, jobs):
        if rc != 0:
            raise BuildError("compiler build failed: " + log[-2000:])
    objs = [j[1] for j in jobs]
    exe = None
    if with_cli:
        exe = os.path.join(od, "flatcc")
        rc, log = cc(flags + objs + ["-o", exe])
        if rc != 0:
            raise BuildError("flatcc link failed: " + log[-2000:])
        objs = objs[:-1]
    return exe, objs


def flatcc_generate(ctx, flatcc, schema_path, outdir, opts=("-a",)):
    os.makedirs(outdir, exist_ok=True)
    rc, out, err = sh([flatcc, *opts, "-o", outdir, schema_path], timeout=120)
    return rc, out + err


def build_harness(ctx, name, srcs, objs=(), flags=None, incs=(), defs=(), libs=()):
    flags = list(SAN if flags is None else flags)
    out = os.path.join(ctx.work, name)
    args = [*flags, "-I", os.path.join(REPO, "include"), "-I", os.path.join(VERIF, "harness")]
    for i in incs:
        args += ["-I", i]
    args += list(defs) + list(srcs) + list(objs) + ["-o", out] + list(libs)
    rc, log = cc(args)
    if rc != 0:
        raise BuildError("harness %s build failed: %s" % (name, log[-3000:]))
    return out


ASAN_ENV = {"ASAN_OPTIONS": "detect_leaks=0:abort_on_error=0:allocator_may_return_null=1",
            "UBSAN_OPTIONS": "print_stacktrace=1"}


def _run_once(binary, lines, timeout, env):
    data = ("\n".join(lines) + "\n").encode()
    e = dict(ASAN_ENV)
    if env:
        e.update(env)
    rc, out, err = sh(binary if isinstance(binary, list) else [binary], timeout=timeout, input=data, env=e)
    outl = out.split("\n")
    if outl and outl[-1] == "":
        outl.pop()
    return rc, outl, err


def run_lines(binary, lines, timeout=300, env=None, max_restarts=40, sticky="schema "):
    """Feed protocol lines; returns (rc, one output line per input line, stderr).
    If the process dies on line k (sanitizer report, signal, timeout) that line's output is
    `<crash rc=..>` and the run resumes after it, so one fault does not hide the rest.
    Lines starting with `sticky` set process state: the latest one is re-sent on resume."""
    out, errs, rc_first, pos, restarts = [], "", 0, 0, 0
    while pos < len(lines):
        pre = []
        if pos > 0 and sticky:
            for j in range(pos - 1, -1, -1):
                if lines[j].startswith(sticky):
                    pre = [lines[j]]
                    break
        rc, o, err = _run_once(binary, pre + lines[pos:], timeout, env)
        o = o[len(pre):] if len(o) >= len(pre) else []
        n = len(lines) - pos
        if rc == 0 and len(o) >= n:
            out += o[:n]
            break
        if rc_first == 0:
            rc_first = rc if rc != 0 else -1
        errs += err[-4000:]
        k = min(len(o), n - 1)
        out += o[:k] + ["<crash rc=%d>" % rc]
        pos += k + 1
        restarts += 1
        if restarts >= max_restarts:
            out += ["<skipped>"] * (len(lines) - pos)
            break
    return rc_first, out, errs


def run_blocks(binary, blocks, chunks=16, timeout=900, env=None, sticky="schema "):
    """blocks: list of line lists, each starting with its state-setting line. Blocks are distributed over
    `chunks` concurrent processes; output is returned in the original order, flattened."""
    chunks = max(1, min(chunks, len(blocks)))
    groups = [[] for _ in range(chunks)]
    for i, b in enumerate(blocks):
        groups[i % chunks].append(i)
    def job(g):
        lines = [l for i in g for l in blocks[i]]
        return run_lines(binary, lines, timeout, env, sticky=sticky)
    with ThreadPoolExecutor(chunks) as ex:
        rs = list(ex.map(job, groups))
    outs = [None] * len(blocks); rc = 0; err = ""
    for g, (r, o, e) in zip(groups, rs):
        if r != 0 and rc == 0:
            rc = r
        err += e
        k = 0
        for i in g:
            outs[i] = o[k:k + len(blocks[i])]; k += len(blocks[i])
    flat = [l for o in outs for l in o]
    return rc, flat, err


def run_parallel(binary, lines, chunks=8, timeout=600, env=None):
    """Split lines into chunks run concurrently (stateless ops only)."""
    if len(lines) < 64 or chunks <= 1:
        return run_lines(binary, lines, timeout, env)
    size = (len(lines) + chunks - 1) // chunks
    parts = [lines[i:i + size] for i in range(0, len(lines), size)]
    with ThreadPoolExecutor(len(parts)) as ex:
        rs = list(ex.map(lambda p: run_lines(binary, p, timeout, env), parts))
    rc = 0; out = []; err = ""
    for p, (r, o, e) in zip(parts, rs):
        if r != 0 and rc == 0:
            rc = r
        # keep alignment with the input: pad a crashed chunk
        o = o[:len(p)] + ["<no-output>"] * (len(p) - len(o))
        out += o; err += e
    return rc, out, err


def diff_streams(lines, a, b):
    """Indices where the two output streams differ (streams padded to len(lines))."""
    n = len(lines)
    a = a[:n] + ["<no-output>"] * (n - len(a))
    b = b[:n] + ["<no-output>"] * (n - len(b))
    return [i for i in range(n) if a[i] != b[i]], a, b


# ---------------------------------------------------------------- findings / verdicts

def load_known():
    p = os.path.join(VERIF, "known_findings.json")
    try:
        return json.load(open(p)).get("findings", [])
    except OSError:
        return []


def write_replay(ctx, name, payload):
    os.makedirs(os.path.join(REPLAYS, ctx.prop), exist_ok=True)
    p = os.path.join(REPLAYS, ctx.prop, name)
    with open(p, "w") as f:
        if isinstance(payload, str):
            f.write(payload)
        else:
            json.dump(payload, f, indent=1)
    return p


def violation(ctx, name, payload, no_failing_input=False):
    p = write_replay(ctx, name, payload)
    ctx.violations.append((p, no_failing_input))
    print("VIOLATION property=%s replay=%s%s" % (ctx.prop, p, " no-failing-input-found" if no_failing_input else ""),
          flush=True)


def known_finding(ctx, fid, what):
    ctx.known_hits.append(fid)
    print("KNOWN-FINDING: property=%s %s: %s" % (ctx.prop, fid, what), flush=True)


def structural_hash(s):
    return hashlib.sha1(s.encode()).hexdigest()[:16]


def write_evidence(ctx, theorems, extra=None):
    os.makedirs(EVID, exist_ok=True)
    obligations = len(theorems)
    discharged = sum(1 for t in theorems if t["ok"])
    cov = {
        "obligations": obligations,
        "discharged": discharged,
        "checker_cmd": "cd /verif/lean && lake build FlatccModel fmodel && lake env lean <#print axioms of every theorem in FlatccModel/Props/%s.lean>" % ctx.prop,
        "trusted_base": TRUSTED_BASE,
        "theorems": [{"name": t["name"], "axioms": t["axioms"]} for t in theorems],
        "evaluations": int(ctx.cov.get("evaluations", 0)),
        "distinct_nontrivial": int(ctx.cov.get("distinct_nontrivial", 0)),
        "rule": ctx.cov.get("rule", ""),
        "samples": ctx.samples[:12] if ctx.samples else ["<none>"],
    }
    for k, v in ctx.cov.items():
        if k not in cov:
            cov[k] = v
    if extra:
        cov.update(extra)
    ev = {
        "property_id": ctx.prop,
        "tier": ctx.tier,
        "seed": ctx.seed,
        "level": "proof",
        "coverage": cov,
        "assumptions": ctx.notes,
        "wall_s": round(time.time() - ctx.t0, 2),
        "violations": len(ctx.violations),
        "known_findings_hit": ctx.known_hits,
    }
    with open(os.path.join(EVID, ctx.prop + ".json"), "w") as f:
        json.dump(ev, f, indent=1)


def proof_stage(ctx):
    """Steps 2+3: build, audit. Returns theorem list; reports violations for broken obligations."""
    # regenerate + build under ONE lock: the theorems are checked against the data extracted from this run's tree even when
    # several checks (seeded runs against scratch trees) run concurrently
    lk = _lock()
    try:
        try:
            import gen_consts
            gen_consts.regenerate()
        except BuildError as e:
            violation(ctx, "consts_probe.json", {"kind": "translator-failed", "log": str(e)}, no_failing_input=True)
            return None
        ok, log = lake_build(locked=True)
    finally:
        lk.close()
    if not ok:
        # which modules failed?
        failed = re.findall(r"^- (\S+)", log, re.M)
        mine = [m for m in failed]
        violation(ctx, "lake_build_failed.json",
                  {"kind": "proof-obligation-broken", "failed_modules": mine, "log_tail": log[-6000:]},
                  no_failing_input=True)
        return None
    bad = audit_tokens()
    if bad:
        violation(ctx, "audit_tokens.json", {"kind": "forbidden-token", "hits": bad}, no_failing_input=True)
        return None
    ths, text = audit_axioms(ctx.prop, ctx.work)
    badth = [t for t in ths if not t["ok"]]
    if badth or not ths:
        violation(ctx, "audit_axioms.json", {"kind": "axiom-audit", "theorems": badth, "log_tail": text[-3000:]},
                  no_failing_input=True)
    return ths


def finish(ctx, theorems, extra=None):
    write_evidence(ctx, theorems or [], extra)
    if not os.environ.get("VERIF_KEEP_WORK"):
        shutil.rmtree(ctx.work, ignore_errors=True)
    sys.exit(1 if ctx.violations else 0)
