"""Independent FlatBuffers encoder over schema descriptors (for generating valid buffers, their interesting
positions, and layout variations). Not derived from flatcc's builder: back-to-front prepending, offsets
computed from distances to the end of the buffer.

Descriptor (same as the protocol `schema` line):
  tables: list of field lists; field = dict(id, req, kind, a, b, c)
  unions: list of member lists; member = dict(code, kind, a, b)
"""
import random, struct


def fld(id, req, kind, a=0, b=0, c=0):
    return dict(id=id, req=req, kind=kind, a=a, b=b, c=c)


def schema_line(tables, unions):
    def f2s(f):
        k = f["kind"]
        if k == "s": return "%d:%d:s:%d:%d" % (f["id"], f["req"], f["a"], f["b"])
        if k == "v": return "%d:%d:v:%d:%d:%d" % (f["id"], f["req"], f["a"], f["b"], f["c"])
        if k in ("str", "sv"): return "%d:%d:%s" % (f["id"], f["req"], k)
        if k in ("nt", "ns"): return "%d:%d:%s:%d:%d" % (f["id"], f["req"], k, f["a"], f["b"])     # nested root: table + align / struct size + align
        return "%d:%d:%s:%d" % (f["id"], f["req"], k, f["a"])
    def m2s(m):
        if m["kind"] == "t": return "%d:t:%d" % (m["code"], m["a"])
        if m["kind"] == "st": return "%d:st:%d:%d" % (m["code"], m["a"], m["b"])
        return "%d:str" % m["code"]
    t = ";".join(",".join(f2s(f) for f in fs) if fs else "_" for fs in tables)
    u = "|".join(",".join(m2s(m) for m in ms) if ms else "_" for ms in unions)
    return "schema " + t + ("#" + u if unions else "")


def random_schema(r, ntab=None, nested=False):
    ntab = ntab or r.randint(1, 4)
    nun = r.randint(0, 2)
    unions = []
    for _ in range(nun):
        ms, code = [], 1
        for _ in range(r.randint(1, 4)):
            k = r.choice(["t", "t", "st", "str"])
            if k == "t": ms.append(dict(code=code, kind="t", a=r.randrange(ntab), b=0))
            elif k == "st":
                al = r.choice([1, 2, 4, 8, 16]); ms.append(dict(code=code, kind="st", a=al * r.randint(0, 3), b=al))
            else: ms.append(dict(code=code, kind="str", a=0, b=0))
            code += r.choice([1, 1, 2])
        unions.append(ms)
    tables = []
    for _ in range(ntab):
        fs, fid = [], 0
        for _ in range(r.randint(0, 7)):
            kinds = ["s", "s", "str", "v", "sv", "t", "tv"] + (["u", "uv"] if nun else [])
            k = r.choice(kinds)
            req = 1 if r.random() < 0.15 and k not in ("s",) else 0
            if r.random() < 0.15: fid += r.randint(1, 3)       # gaps (deprecated fields)
            if nested and r.random() < 0.15:
                # nested_flatbuffer fields: a table root (the generated call passes the ubyte vector's alignment, 1) or a struct root
                if r.random() < 0.6:
                    fs.append(fld(fid, req, "nt", r.randrange(ntab), 1)); fid += 1
                else:
                    al = r.choice([1, 2, 4, 8, 16]); fs.append(fld(fid, req, "ns", al * r.randint(0, 3), al)); fid += 1
                continue
            if k == "s":
                al = r.choice([1, 2, 4, 8, 16]); sz = al * r.choice([1, 1, 1, 2, 3]) if r.random() < 0.9 else 0
                fs.append(fld(fid, 0, "s", sz, al)); fid += 1
            elif k == "v":
                al = r.choice([1, 2, 4, 8, 16]); esz = al * r.choice([1, 1, 2, 3])
                fs.append(fld(fid, req, "v", esz, al, 0xffffffff // esz)); fid += 1
            elif k in ("str", "sv"):
                fs.append(fld(fid, req, k)); fid += 1
            elif k in ("t", "tv"):
                fs.append(fld(fid, req, k, r.randrange(ntab))); fid += 1
            else:
                fs.append(fld(fid + 1, req, k, r.randrange(nun))); fid += 2
        tables.append(fs)
    return tables, unions


class Enc:
    def __init__(self, r, tables, unions, knobs=None):
        self.r, self.tables, self.unions = r, tables, unions
        self.buf = bytearray()
        self.minalign = 4
        self.marks = []          # (from_end, size, what) of interesting words
        self.knobs = knobs or {}
        self.vtcache = {}

    def L(self): return len(self.buf)
    def prepend(self, b): self.buf[0:0] = b
    def pad(self, align, size):
        self.minalign = max(self.minalign, align)
        p = (-(self.L() + size)) % align
        if self.knobs.get("extra_pad") and self.r.random() < 0.2: p += align
        self.prepend(b"\0" * p)
    def mark(self, from_end, size, what): self.marks.append((from_end, size, what))
    def patch32(self, from_end, v):
        i = self.L() - from_end; self.buf[i:i + 4] = struct.pack("<I", v & 0xffffffff)

    def string(self, data):
        self.pad(4, len(data) + 1)
        self.prepend(data + b"\0"); self.prepend(struct.pack("<I", len(data)))
        self.mark(self.L(), 4, "strlen"); return self.L()

    def vector(self, elems_bytes, n, align):
        self.pad(max(4, align), len(elems_bytes)) if n or True else None
        self.prepend(elems_bytes); self.prepend(struct.pack("<I", n))
        self.mark(self.L(), 4, "veclen"); return self.L()

    def offset_vector(self, targets):
        """vector of uoffsets to objects at `targets` (from_end positions; None = null element)"""
        n = len(targets)
        self.pad(4, 4 * n)
        self.prepend(b"\0" * (4 * n)); start = self.L()
        for i, t in enumerate(targets):
            slot = start - 4 * i
            if t is not None: self.patch32(slot, slot - t)
            self.mark(slot, 4, "elem")
        self.prepend(struct.pack("<I", n)); self.mark(self.L(), 4, "veclen"); return self.L()

    def nested(self, f, depth):
        """a [ubyte] vector holding a complete buffer of its own (root table f.a / root struct of size f.a, alignment f.b), placed so that
        the nested buffer starts at a multiple of its own largest alignment (knob `misalign_nested`: only at a multiple of 4)"""
        r = self.r
        if f["kind"] == "nt":
            sub = Enc(r, self.tables, self.unions, self.knobs)
            root = sub.table(f["a"], depth + 2)
            ident = r.choice([None, None, b"NEST"])
            data, marks = sub.finish(root, ident, False)
            al = sub.minalign
        else:
            size, al = f["a"], max(1, f["b"])
            hdr = 8
            padn = (-hdr) % al
            data = struct.pack("<I", hdr + padn) + b"\0\0\0\0" + b"\0" * padn + r.randbytes(size)
            marks = [(0, 4, "root")]
            al = max(4, al)
        if self.knobs.get("misalign_nested") and r.random() < 0.5: al = 4
        pos = self.vector(data, len(data), al)
        # interesting words inside the nested buffer, in the coordinates of this buffer (from_end of byte p = from_end of the data start - p)
        for (p, sz, what) in marks:
            self.mark(pos - 4 - p, sz, "n" + what)
        return pos

    def member(self, m, depth):
        if m["kind"] == "t": return self.table(m["a"], depth + 1)
        if m["kind"] == "str": return self.string(self.rand_bytes())
        self.pad(max(1, m["b"]), m["a"]); self.prepend(self.r.randbytes(m["a"]) if m["a"] else b""); return self.L()

    def rand_bytes(self):
        n = self.r.choice([0, 0, 1, 2, 3, 4, 5, 7, 8, 13])
        return bytes(self.r.randrange(256) for _ in range(n))

    def table(self, ti, depth):
        r = self.r
        fields = self.tables[ti]
        present = []   # (id, bytes or ('off', target), size, align)
        for f in fields:
            k = f["kind"]
            absent_ok = not f["req"]
            if absent_ok and (r.random() < 0.3 or (depth > 3 and k in ("t", "tv", "u", "uv"))):
                continue
            if depth > 5 and k in ("t", "tv", "u", "uv"):
                if f["req"] and k in ("t",):   # cannot satisfy: produce shallow child anyway
                    pass
                else:
                    if not f["req"]: continue
            if k == "s":
                present.append((f["id"], r.randbytes(f["a"]) if f["a"] else b"", f["a"], max(1, f["b"])))
            elif k == "str":
                present.append((f["id"], ("off", self.string(self.rand_bytes())), 4, 4))
            elif k == "v":
                n = r.choice([0, 0, 1, 2, 3, 5])
                present.append((f["id"], ("off", self.vector(r.randbytes(n * f["a"]), n, max(1, f["b"]))), 4, 4))
            elif k == "sv":
                ts = [self.string(self.rand_bytes()) for _ in range(r.choice([0, 1, 2, 3]))]
                present.append((f["id"], ("off", self.offset_vector(ts)), 4, 4))
            elif k in ("nt", "ns"):
                if depth > 2 and not f["req"]: continue
                present.append((f["id"], ("off", self.nested(f, depth)), 4, 4))
            elif k == "t":
                present.append((f["id"], ("off", self.table(f["a"], depth + 1)), 4, 4))
            elif k == "tv":
                ts = [self.table(f["a"], depth + 2) for _ in range(r.choice([0, 1, 2]) if depth < 4 else 0)]
                present.append((f["id"], ("off", self.offset_vector(ts)), 4, 4))
            elif k == "u":
                ms = self.unions[f["a"]]
                m = r.choice(ms + [None]) if ms else None
                if m is None:
                    if r.random() < 0.5 and not f["req"]:
                        present.append((f["id"] - 1, b"\0", 1, 1))   # explicit NONE
                    elif f["req"] and ms:
                        m = ms[0]
                if m is not None:
                    present.append((f["id"] - 1, bytes([m["code"] & 0xff]), 1, 1))
                    present.append((f["id"], ("off", self.member(m, depth)), 4, 4))
            elif k == "uv":
                ms = self.unions[f["a"]]
                n = r.choice([0, 1, 2, 3]) if depth < 4 else 0
                types, targs = [], []
                for _ in range(n):
                    m = r.choice(ms + [None]) if ms else None
                    if m is None: types.append(0); targs.append(None)
                    else: types.append(m["code"] & 0xff); targs.append(self.member(m, depth + 1))
                vals = self.offset_vector(targs)
                tv = self.vector(bytes(types), n, 1)
                present.append((f["id"] - 1, ("off", tv), 4, 4))
                present.append((f["id"], ("off", vals), 4, 4))
        # layout: larger alignment first (or shuffled with the knob)
        order = sorted(present, key=lambda p: -p[3])
        if self.knobs.get("shuffle_fields"): r.shuffle(order)
        off, body, slots, vt = 4, bytearray(b"\0\0\0\0"), [], {}
        maxal = 4
        for (fid, val, size, al) in order:
            maxal = max(maxal, al)
            p = (-off) % al
            body += b"\0" * p; off += p
            vt[fid] = off
            if isinstance(val, tuple):
                slots.append((off, val[1])); body += b"\0\0\0\0"
            else:
                body += val
            off += size
        p = (-off) % 4; body += b"\0" * p; off += p
        tsize = off
        self.pad(maxal, tsize)
        self.prepend(bytes(body)); tpos = self.L()
        for (o, target) in slots:
            slot = tpos - o
            self.patch32(slot, slot - target); self.mark(slot, 4, "offset")
        nent = (max(vt) + 1) if vt else 0
        if self.knobs.get("long_vtable") and r.random() < 0.3: nent += r.randint(1, 3)
        ent = [vt.get(i, 0) for i in range(nent)]
        vtb = struct.pack("<HH", 4 + 2 * nent, tsize) + b"".join(struct.pack("<H", e) for e in ent)
        key = bytes(vtb)
        if key in self.vtcache and not self.knobs.get("no_vt_share"):
            vpos = self.vtcache[key]
        else:
            self.pad(2, len(vtb)) ; self.prepend(vtb); vpos = self.L(); self.vtcache[key] = vpos
            for i in range(nent + 2): self.mark(vpos - 2 * i, 2, "vt")
        # soffset = table_abs - vtable_abs = vpos - tpos (vtable at lower address => positive)
        self.patch32(tpos, vpos - tpos); self.mark(tpos, 4, "soffset")
        return tpos

    def finish(self, root_from_end, ident=None, with_size=False):
        extra = 4 + (4 if ident is not None or self.knobs.get("always_id_space", True) else 0) + (4 if with_size else 0)
        self.pad(self.minalign, extra)
        if ident is not None or self.knobs.get("always_id_space", True):
            self.prepend(ident if ident is not None else b"\0\0\0\0")
        self.prepend(b"\0\0\0\0"); slot = self.L()
        self.patch32(slot, slot - root_from_end); self.mark(slot, 4, "root")
        if with_size:
            self.prepend(struct.pack("<I", self.L())); self.mark(self.L(), 4, "size")
        total = self.L()
        marks = sorted(set((total - fe, sz, w) for (fe, sz, w) in self.marks))
        return bytes(self.buf), marks


def encode_table_root(r, tables, unions, ti, ident=None, with_size=False, knobs=None):
    e = Enc(r, tables, unions, knobs)
    root = e.table(ti, 0)
    return e.finish(root, ident, with_size) + (e.minalign,)
