"""Generated-code scenarios: from a descriptor schema (vtree.random_schema) produce
  - a .fbs schema (explicit ids, deprecated fillers for id gaps, force_align structs, unions with explicit values,
    nested_flatbuffer fields, optional scalars, defaults),
  - a C program that builds every value tree through the *generated* builder API in several call styles and dumps each
    finished buffer through the *generated* reader API in a canonical text form,
  - the expected canonical text computed from the tree alone.
Names: tables T<i>, unions U<i>, structs S<size>_<align>, fields f<id>.
"""
import os, struct
import vtree

SC = {1: ["ubyte", "byte", "bool"], 2: ["ushort", "short"], 4: ["uint", "int", "float"], 8: ["ulong", "long", "double"]}
CTYPE = {"ubyte": "uint8_t", "byte": "int8_t", "bool": "flatbuffers_bool_t", "ushort": "uint16_t", "short": "int16_t",
         "uint": "uint32_t", "int": "int32_t", "float": "float", "ulong": "uint64_t", "long": "int64_t", "double": "double"}
VECN = {"ubyte": "uint8", "byte": "int8", "bool": "bool", "ushort": "uint16", "short": "int16", "uint": "uint32", "int": "int32",
        "float": "float", "ulong": "uint64", "long": "int64", "double": "double"}


def is_scalar(a, b): return a == b and a in (1, 2, 4, 8)


def sname(a, b): return "S%d_%d" % (a, b)


class Typing:
    """assigns concrete schema types to descriptor fields (scalar type, default, optional; struct otherwise)"""

    def __init__(self, r, tables, unions, json=False):
        self.r, self.tables, self.unions = r, tables, unions
        self.json = json
        self.structs = set()
        self.ftype = {}          # (ti, id) -> dict(kind=..., ...)
        for ti, fs in enumerate(tables):
            for f in fs:
                k = f["kind"]
                if k == "s":
                    if f["a"] == 0: f["a"] = max(1, f["b"])
                    if is_scalar(f["a"], f["b"]) and r.random() < 0.8:
                        t = r.choice(SC[f["a"]])
                        opt = r.random() < 0.15
                        d = 0 if (opt or r.random() < 0.5) else self.rand_scalar(t)
                        en = None
                        if json and t == "ubyte" and r.random() < 0.5: en, d, opt = "E8", 0, False
                        if json and t == "ushort" and r.random() < 0.5: en, d, opt = "F16", 1, False     # bit flags have no 0 member: default Xa
                        if json and t == "ulong" and r.random() < 0.5: en, d, opt = "F64", 1, False      # flags above bit 31: see prep_values
                        self.ftype[(ti, f["id"])] = dict(kind="scalar", t=t, default=d, optional=opt, enum=en)
                    else:
                        self.structs.add((f["a"], f["b"])); self.ftype[(ti, f["id"])] = dict(kind="struct", a=f["a"], b=f["b"])
                elif k == "v":
                    if is_scalar(f["a"], f["b"]) and r.random() < 0.8:
                        t = r.choice(SC[f["a"]])
                        if json and f["a"] == 1 and r.random() < 0.5: t = "ubyte"
                        self.ftype[(ti, f["id"])] = dict(kind="svec", t=t, b64=(r.choice(["base64", "base64url"]) if json and t == "ubyte" and r.random() < 0.6 else None))
                    else:
                        self.structs.add((f["a"], f["b"])); self.ftype[(ti, f["id"])] = dict(kind="stvec", a=f["a"], b=f["b"])
                elif k == "ns":
                    self.structs.add((f["a"], f["b"]))
        for ms in unions:
            for m in ms:
                if m["kind"] == "st": self.structs.add((m["a"], m["b"]))

    def rand_scalar(self, t):
        r = self.r
        if t == "bool": return r.choice([0, 1])
        if t in ("float", "double"): return r.choice([0, 1, -1, 2, -2, 3])      # as small integers: exact in the schema text
        bits = 8 * [k for k, v in SC.items() if t in v][0]
        signed = t in ("byte", "short", "int", "long")
        lo, hi = (-(1 << (bits - 1)), (1 << (bits - 1)) - 1) if signed else (0, (1 << bits) - 1)
        return r.choice([lo, hi, 1, 2, 42, hi - 1, lo + 1])

    def fbs(self, ident=None):
        out = ["namespace g;"]
        if self.json:
            out.append("enum E8:ubyte { Zero = 0, One = 1, Five = 5, Last = 255 }")
            out.append("enum F16:ushort (bit_flags) { Xa, Yb, Zc, Hi = 15 }")
            out.append("enum F64:ulong (bit_flags) { Xa, Yb, Mid = 32, Top = 63 }")
        for (a, b) in sorted(self.structs):
            out.append("struct %s (force_align: %d) { d:[ubyte:%d]; }" % (sname(a, b), b, a))
        for ti in range(len(self.tables)):
            out.append("table T%d;" % ti) if False else None
        for ui, ms in enumerate(self.unions):
            items = []
            for m in ms:
                tn = "T%d" % m["a"] if m["kind"] == "t" else sname(m["a"], m["b"]) if m["kind"] == "st" else "string"
                items.append("M%d:%s = %d" % (m["code"], tn, m["code"]))
            out.append("union U%d { %s }" % (ui, ", ".join(items)))
        for ti, fs in enumerate(self.tables):
            lines = []
            used = set()
            for f in fs:
                k, i = f["kind"], f["id"]
                req = " , required" if f["req"] and k not in ("s",) else ""
                used.add(i)
                if k == "s":
                    ft = self.ftype[(ti, i)]
                    if ft["kind"] == "scalar":
                        dv = " = null" if ft["optional"] else (" = %s" % self.lit(ft["t"], ft["default"]) if ft["default"] != 0 else "")
                        lines.append(("f%d" + FIELD_SUFFIX + ":%s%s (id: %d);") % (i, ft.get("enum") or ft["t"], dv if not ft.get("enum") else (" = Xa" if ft.get("enum") in ("F16", "F64") else ""), i))
                    else:
                        lines.append(("f%d" + FIELD_SUFFIX + ":%s (id: %d);") % (i, sname(f["a"], f["b"]), i))
                elif k == "str": lines.append(("f%d" + FIELD_SUFFIX + ":string (id: %d%s);") % (i, i, req))
                elif k == "v":
                    ft = self.ftype[(ti, i)]
                    et = ft["t"] if ft["kind"] == "svec" else sname(f["a"], f["b"])
                    lines.append(("f%d" + FIELD_SUFFIX + ":[%s] (id: %d%s%s);") % (i, et, i, req, (", " + ft["b64"]) if ft.get("b64") else ""))
                elif k == "sv": lines.append(("f%d" + FIELD_SUFFIX + ":[string] (id: %d%s);") % (i, i, req))
                elif k == "t": lines.append(("f%d" + FIELD_SUFFIX + ":T%d (id: %d%s);") % (i, f["a"], i, req))
                elif k == "tv": lines.append(("f%d" + FIELD_SUFFIX + ":[T%d] (id: %d%s);") % (i, f["a"], i, req))
                elif k == "u": lines.append(("f%d" + FIELD_SUFFIX + ":U%d (id: %d%s);") % (i, f["a"], i, req)); used.add(i - 1)
                elif k == "uv": lines.append(("f%d" + FIELD_SUFFIX + ":[U%d] (id: %d%s);") % (i, f["a"], i, req)); used.add(i - 1)
                elif k == "nt": lines.append(('f%d' + FIELD_SUFFIX + ':[ubyte] (id: %d, nested_flatbuffer: "T%d");') % (i, i, f["a"]))
                elif k == "ns": lines.append(('f%d' + FIELD_SUFFIX + ':[ubyte] (id: %d, nested_flatbuffer: "%s");') % (i, i, sname(f["a"], f["b"])))
            top = max(used) + 1 if used else 0
            for i in range(top):
                if i in used: continue
                if self.unions and i + 1 < top and i + 1 not in used and (ti + i) % 2 == 0:
                    # a deprecated union / union vector (two ids), declared BEFORE the live fields: generators that number unions per table must skip it
                    lines.insert(0, "g%d:%sU%d%s (id: %d, deprecated);" % (i, "[" if i % 3 == 0 else "", (ti + i) % len(self.unions), "]" if i % 3 == 0 else "", i + 1))
                    used.add(i); used.add(i + 1)
                    continue
                lines.append("g%d:int (id: %d, deprecated);" % (i, i))
            out.append("table T%d {\n  %s\n}" % (ti, "\n  ".join(lines)))
        if ident: out.append('file_identifier "%s";' % ident)
        out.append("root_type T0;")
        return "\n".join(x for x in out if x) + "\n"

    @staticmethod
    def lit(t, v):
        return ("true" if v else "false") if t == "bool" else str(v)


def scalar_value(t, data):
    """raw little-endian bytes -> C literal and canonical hex (integer value of the raw bits)"""
    n = len(data)
    u = int.from_bytes(data, "little")
    if t == "float": return "u2f(0x%08xu)" % u
    if t == "double": return "u2d(0x%016xull)" % u
    if t == "bool": return "%d" % (1 if u else 0)
    if t in ("byte", "short", "int", "long"):
        s = u - (1 << (8 * n)) if u >> (8 * n - 1) else u
        if t == "long": return "((int64_t)0x%016xull)" % u
        return "(%s)%d" % (CTYPE[t], s)
    return "(%s)0x%xu%s" % (CTYPE[t], u, "ll" if n == 8 else "")


def default_bits(t, d):
    if t == "float": return struct.unpack("<I", struct.pack("<f", float(d)))[0]
    if t == "double": return struct.unpack("<Q", struct.pack("<d", float(d)))[0]
    n = [k for k, v in SC.items() if t in v][0]
    return d & ((1 << (8 * n)) - 1)


FIELD_SUFFIX = ""       # JSON scenarios use "x": see known finding C10 unquoted-name-colon-vs-digit-sibling
FINITE_ONLY = False      # JSON scenarios: the property excludes Inf as well as NaN


def fix_scalar_bytes(t, data, keep_negzero=False):
    """make raw bytes a legal, comparable value of the type: bool 0/1, no NaN (payloads do not survive by-value passing)"""
    if t == "bool": return bytes([data[0] & 1])
    if t == "float":
        u = struct.unpack("<I", data)[0]
        if (u >> 23) & 0xff == 0xff and (u & 0x7fffff or FINITE_ONLY): u &= ~(0xff << 23) | (0x7f << 23); u &= 0xffffffff
        # -0.0 in a table field whose default is +0.0: see known finding C03 negative-zero-elided (a deterministic case covers it);
        # vector elements and fields with another default or none keep it: it is stored, printed as -0 and must come back as -0.0
        if FINITE_ONLY and u == 0x80000000 and not keep_negzero: u = 0x80000001
        return struct.pack("<I", u)
    if t == "double":
        u = struct.unpack("<Q", data)[0]
        if (u >> 52) & 0x7ff == 0x7ff and (u & ((1 << 52) - 1) or FINITE_ONLY): u &= ~(1 << 52) & 0xffffffffffffffff
        if FINITE_ONLY and u == 1 << 63 and not keep_negzero: u |= 1
        return struct.pack("<Q", u)
    return data


def children(n):
    if n.k == "T": return [v for (_, v) in n.fields]
    if n.k == "o": return list(n.items)
    if n.k == "U": return [n.value]
    if n.k == "W": return [c for (_, c, _) in n.items]
    if n.k == "B": return [n.root]
    return []


class Prog:
    """C source for one schema: case functions + generic dump functions"""

    def __init__(self, ty):
        self.ty = ty
        self.tables, self.unions = ty.tables, ty.unions
        self.tmp = 0
        self.cases = []
        self.expect = []
        self.meta = []
        self.lowered = []
        self.expect_known = []
        self.known_mode = False

    def nt(self, p="v"):
        self.tmp += 1; return "%s%d" % (p, self.tmp)

    # ---------- expected canonical text ----------
    def exp_table(self, n, force):
        """n: vtree Node T (or r -> target). `force`: scalars equal to the default are force-added"""
        if n.k == "r": n = n.target
        ti = n.ti
        vals = {f["id"]: v for (f, v) in n.fields}
        parts = []
        for f in sorted(self.tables[ti], key=lambda f: f["id"]):
            k, i = f["kind"], f["id"]
            v = vals.get(i)
            if k == "s":
                ft = self.ty.ftype[(ti, i)]
                if ft["kind"] == "scalar":
                    dbits = default_bits(ft["t"], ft["default"])
                    if v is None:
                        parts.append("%d~%s" % (i, "null" if ft["optional"] else "%x" % dbits))
                    else:
                        u = int.from_bytes(v.cdata, "little")
                        nz = ft["t"] in ("float", "double") and dbits == 0 and u == 1 << (8 * len(v.cdata) - 1)
                        if (u == dbits or (nz and self.known_mode)) and not ft["optional"] and not force: parts.append("%d~%x" % (i, dbits))
                        else: parts.append("%d=%x" % (i, u))
                else:
                    parts.append("%d~" % i if v is None else "%d=%s" % (i, v.data.hex()))
            elif v is None and k not in ("u", "uv"):
                parts.append("%d~" % i)
            elif k == "str": parts.append("%d=%s" % (i, self.exp_str(v)))
            elif k == "v": parts.append("%d=[%s]" % (i, v.cdata.hex()))
            elif k == "sv": parts.append("%d=[%s]" % (i, ",".join(self.exp_str(x) for x in v.items)))
            elif k == "t": parts.append("%d=%s" % (i, self.exp_table(v, force)))
            elif k == "tv": parts.append("%d=[%s]" % (i, ",".join(self.exp_table(x, force) for x in v.items)))
            elif k == "u":
                if v is None or v.type == 0: parts.append("%d=0:" % i)
                else: parts.append("%d=%d:%s" % (i, v.type, self.exp_member(v.member, v.value, force)))
            elif k == "uv":
                if v is None: parts.append("%d~" % i)
                else: parts.append("%d=[%s]" % (i, ",".join("%d:%s" % (t, "" if t == 0 else self.exp_member(m, x, force)) for (t, x, m) in v.items)))
            elif k == "nt": parts.append("%d=N%s" % (i, self.exp_table(v.root, force)))
            elif k == "ns": parts.append("%d=N%s" % (i, v.root.data.hex()))
        return "{" + ";".join(parts) + "}"

    def exp_str(self, n):
        if n.k == "r": n = n.target
        return '"%s"' % n.data.hex()

    def exp_member(self, m, v, force):
        if m["kind"] == "t": return self.exp_table(v, force)
        if m["kind"] == "str": return self.exp_str(v)
        return v.data.hex()

    # ---------- dump functions (generated reader API) ----------
    def dump_functions(self):
        o = []
        o.append("static void dstr(flatbuffers_string_t s) { size_t i, n = flatbuffers_string_len(s); putchar('\"'); for (i = 0; i < n; ++i) printf(\"%02x\", (unsigned char)s[i]); putchar('\"'); }")
        o.append("static int g_presence = 1;\n#define PRES(p) (g_presence ? ((p) ? '=' : '~') : ':')")
        o.append("static void dhex(const void *p, size_t n) { size_t i; for (i = 0; i < n; ++i) printf(\"%02x\", ((const unsigned char *)p)[i]); }")
        for ti in range(len(self.tables)): o.append("static void dump_T%d(g_T%d_table_t t);" % (ti, ti))
        for ui, ms in enumerate(self.unions):
            body = ["static void dump_U%d(int type, const void *v) {" % ui, "  switch (type) {"]
            for m in ms:
                c = m["code"]
                if m["kind"] == "t": body.append("  case %d: dump_T%d((g_T%d_table_t)v); break;" % (c, m["a"], m["a"]))
                elif m["kind"] == "str": body.append("  case %d: dstr(flatbuffers_string_cast_from_generic(v)); break;" % c)
                else: body.append("  case %d: dhex(((g_%s_struct_t)v)->d, sizeof(g_%s_t)); break;" % (c, sname(m["a"], m["b"]), sname(m["a"], m["b"])))
            body.append("  default: break; }\n}")
            o.append("\n".join(body))
        for ti, fs in enumerate(self.tables):
            b = ["static void dump_T%d(g_T%d_table_t t) {" % (ti, ti), "  size_t i; (void)i; putchar('{');"]
            first = True
            for f in sorted(fs, key=lambda f: f["id"]):
                k, i = f["kind"], f["id"]
                T = "g_T%d" % ti; fn = "f%d%s" % (i, FIELD_SUFFIX)
                sep = "" if first else "putchar(';'); "
                first = False
                pre = '  %sprintf("%d"); ' % (sep, i)
                if k == "s":
                    ft = self.ty.ftype[(ti, i)]
                    if ft["kind"] == "scalar":
                        t = ft["t"]
                        if ft["optional"]:
                            b.append(pre + '{ flatbuffers_%s_option_t o = %s_%s_option(t); if (o.is_null) printf("~null"); else { putchar(\'=\'); %s } }'
                                     % (VECN[t], T, fn, self.print_scalar(t, "o.value")))
                        else:
                            b.append(pre + "putchar(PRES(%s_%s_is_present(t))); %s" % (T, fn, self.print_scalar(t, "%s_%s(t)" % (T, fn))))
                    else:
                        b.append(pre + "if (%s_%s_is_present(t)) { putchar('='); dhex(%s_%s(t)->d, sizeof(g_%s_t)); } else putchar('~');"
                                 % (T, fn, T, fn, sname(f["a"], f["b"])))
                elif k == "str":
                    b.append(pre + "if (%s_%s_is_present(t)) { putchar('='); dstr(%s_%s(t)); } else putchar('~');" % (T, fn, T, fn))
                elif k == "v":
                    ft = self.ty.ftype[(ti, i)]
                    if ft["kind"] == "svec":
                        t = ft["t"]
                        b.append(pre + 'if (%s_%s_is_present(t)) { flatbuffers_%s_vec_t v = %s_%s(t); printf("=["); for (i = 0; i < flatbuffers_%s_vec_len(v); ++i) { %s x = flatbuffers_%s_vec_at(v, i); dhex(&x, sizeof x); } putchar(\']\'); } else putchar(\'~\');'
                                 % (T, fn, VECN[t], T, fn, VECN[t], CTYPE[t], VECN[t]))
                    else:
                        S = "g_" + sname(f["a"], f["b"])
                        b.append(pre + 'if (%s_%s_is_present(t)) { %s_vec_t v = %s_%s(t); printf("=["); for (i = 0; i < %s_vec_len(v); ++i) dhex(%s_vec_at(v, i)->d, sizeof(%s_t)); putchar(\']\'); } else putchar(\'~\');'
                                 % (T, fn, S, T, fn, S, S, S))
                elif k == "sv":
                    b.append(pre + 'if (%s_%s_is_present(t)) { flatbuffers_string_vec_t v = %s_%s(t); printf("=["); for (i = 0; i < flatbuffers_string_vec_len(v); ++i) { if (i) putchar(\',\'); dstr(flatbuffers_string_vec_at(v, i)); } putchar(\']\'); } else putchar(\'~\');'
                             % (T, fn, T, fn))
                elif k == "t":
                    b.append(pre + "if (%s_%s_is_present(t)) { putchar('='); dump_T%d(%s_%s(t)); } else putchar('~');" % (T, fn, f["a"], T, fn))
                elif k == "tv":
                    b.append(pre + 'if (%s_%s_is_present(t)) { g_T%d_vec_t v = %s_%s(t); printf("=["); for (i = 0; i < g_T%d_vec_len(v); ++i) { if (i) putchar(\',\'); dump_T%d(g_T%d_vec_at(v, i)); } putchar(\']\'); } else putchar(\'~\');'
                             % (T, fn, f["a"], T, fn, f["a"], f["a"], f["a"]))
                elif k == "u":
                    b.append(pre + 'printf("=%%d:", (int)%s_%s_type(t)); if (%s_%s_type(t)) dump_U%d(%s_%s_type(t), %s_%s(t));' % (T, fn, T, fn, f["a"], T, fn, T, fn))
                elif k == "uv":
                    b.append(pre + 'if (%s_%s_is_present(t)) { g_U%d_union_vec_t v = %s_%s_union(t); printf("=["); for (i = 0; i < g_U%d_union_vec_len(v); ++i) { g_U%d_union_t u = g_U%d_union_vec_at(v, i); if (i) putchar(\',\'); printf("%%d:", (int)u.type); if (u.type) dump_U%d(u.type, u.value); } putchar(\']\'); } else putchar(\'~\');'
                             % (T, fn, f["a"], T, fn, f["a"], f["a"], f["a"], f["a"]))
                elif k == "nt":
                    b.append(pre + "if (%s_%s_is_present(t)) { printf(\"=N\"); dump_T%d(%s_%s_as_root(t)); } else putchar('~');" % (T, fn, f["a"], T, fn))
                elif k == "ns":
                    b.append(pre + "if (%s_%s_is_present(t)) { printf(\"=N\"); dhex(%s_%s_as_root(t)->d, sizeof(g_%s_t)); } else putchar('~');" % (T, fn, T, fn, sname(f["a"], f["b"])))
            b.append("  putchar('}');\n}")
            o.append("\n".join(b))
        return "\n".join(o)

    @staticmethod
    def print_scalar(t, expr):
        n = [k for k, v in SC.items() if t in v][0]
        if t == "float": return '{ float x = %s; uint32_t u; memcpy(&u, &x, 4); printf("%%x", u); }' % expr
        if t == "double": return '{ double x = %s; uint64_t u; memcpy(&u, &x, 8); printf("%%llx", (unsigned long long)u); }' % expr
        mask = {1: "0xffull", 2: "0xffffull", 4: "0xffffffffull", 8: "0xffffffffffffffffull"}[n]
        return 'printf("%%llx", (unsigned long long)(%s) & %s);' % (expr, mask)

    # ---------- builder code ----------
    def prep_values(self, n):
        """attach .cdata: the bytes that a typed C value can carry (bool 0/1, no NaN)"""
        if n.k == "r": return
        if n.k == "T":
            for (f, v) in n.fields:
                k = f["kind"]
                if k == "s":
                    ft = self.ty.ftype[(n.ti, f["id"])]
                    v.cdata = fix_scalar_bytes(ft["t"], v.data, ft.get("optional") or ft.get("default") != 0) if ft["kind"] == "scalar" else v.data
                    if ft["kind"] == "scalar" and ft.get("enum") == "F64":
                        # a random 64-bit pattern is never a set of declared flags: one flag, several flags on both sides of bit 31, an undeclared bit, none
                        combos = [1, 2, 1 << 32, 1 << 63, 3, 1 | 1 << 63, 1 << 32 | 1 << 63, 2 | 1 << 32, 3 | 1 << 32 | 1 << 63, 3 | 1 << 63, 1 << 40, 1 | 1 << 40, 0]
                        v.cdata = combos[(v.data[0] if v.data else 0) % len(combos)].to_bytes(8, "little")
                    if ft["kind"] == "scalar" and ft["t"] in ("float", "double") and not ft["optional"] and ft["default"] == 0 \
                            and int.from_bytes(v.cdata, "little") == 1 << (8 * len(v.cdata) - 1):
                        self.negzero = True      # -0.0 given where the default is +0.0: see known finding C03 negative-zero-elided
                elif k == "v":
                    ft = self.ty.ftype[(n.ti, f["id"])]
                    esz = f["a"]
                    d = v.data[:len(v.data) - len(v.data) % esz]
                    if ft["kind"] == "svec":
                        d = b"".join(fix_scalar_bytes(ft["t"], d[j:j + esz], True) for j in range(0, len(d), esz))
                    v.cdata = d
                elif k in ("t",): self.prep_values(v)
                elif k in ("tv",):
                    for x in v.items: self.prep_values(x)
                elif k == "u":
                    if v.value.k in ("T", "r"): self.prep_values(v.value)
                elif k == "uv":
                    for (_, x, _) in v.items:
                        if x.k in ("T", "r"): self.prep_values(x)
                elif k == "nt": self.prep_values(v.root)

    def bytes_lit(self, data):
        name = self.nt("d")
        return name, "static const uint8_t %s[%d] = {%s};" % (name, max(1, len(data)), ",".join(str(b) for b in data) or "0")

    def build_string(self, o, n, style, refs):
        """emits code creating a string; returns C expression of its ref"""
        if n.k == "r":
            if id(n.target) in refs: return refs[id(n.target)]
            n = n.target          # the target was built in place (no reference to share): an equal copy
        d, decl = self.bytes_lit(n.data); o.append(decl)
        v = self.nt("s")
        if style == 0 or len(n.data) == 0 and style == 2:
            o.append("flatbuffers_string_ref_t %s = flatbuffers_string_create(B, (const char *)%s, %d);" % (v, d, len(n.data)))
        elif style == 1:
            h = len(n.data) // 2
            o.append("flatbuffers_string_ref_t %s; flatbuffers_string_start(B); flatbuffers_string_append(B, (const char *)%s, %d); flatbuffers_string_append(B, (const char *)%s + %d, %d); %s = flatbuffers_string_end(B);"
                     % (v, d, h, d, h, len(n.data) - h, v))
        else:
            o.append("flatbuffers_string_ref_t %s; flatbuffers_string_start(B); { char *p = flatbuffers_string_extend(B, %d); memcpy(p, %s, %d); memset(p + %d, 'x', 2); flatbuffers_string_truncate(B, 2); } %s = flatbuffers_string_end(B);"
                     % (v, len(n.data) + 2, d, len(n.data), len(n.data), v))
        o.append("if (!%s) return -1;" % v)
        refs[id(n)] = v
        return v

    def build_struct_obj(self, o, n, a, b):
        """a separately stored struct (union member): returns ref expr"""
        S = "g_" + sname(a, b)
        d, decl = self.bytes_lit(n.data); o.append(decl)
        v = self.nt("st")
        o.append("%s_ref_t %s; { %s_t *p = %s_start(B); if (!p) return -1; memcpy(p->d, %s, %d); %s = %s_end(B); } if (!%s) return -1;" % (S, v, S, S, d, a, v, S, v))
        return v

    def build_member(self, o, m, x, style, refs, force):
        if m["kind"] == "t": return self.build_table(o, x, style, refs, force)
        if m["kind"] == "str": return self.build_string(o, x, style, refs)
        return self.build_struct_obj(o, x, m["a"], m["b"])

    def build_table(self, o, n, style, refs, force, as_field_of=None):
        """bottom-up (style 0) or via start/end; returns ref expression. Children of style 1/2 are built while the parent is open."""
        if n.k == "r":
            if id(n.target) in refs: return refs[id(n.target)]
            n = n.target
        ti = n.ti; T = "g_T%d" % ti
        v = self.nt("t")
        pend = []     # (field, value, ref expr) to add after start for bottom-up
        if style == 0:
            fields = self.in_create_order(ti, n.fields) if self.by_args_ok(ti, n.fields, force) else n.fields
            for (f, val) in fields:
                pend.append((f, val, self.build_child(o, ti, f, val, style, refs, force)))
            args = self.create_args(o, ti, pend, force) if getattr(self, "by_args", False) else None
            if args is not None:
                o.append("%s_ref_t %s = %s_create(B%s); if (!%s) return -1;" % (T, v, T, "".join(", " + a for a in args), v))
                self.n_by_args = getattr(self, "n_by_args", 0) + 1
                refs[id(n)] = v
                return v
            o.append("%s_ref_t %s; if (%s_start(B)) return -1;" % (T, v, T))
            for (f, val, ref) in pend: self.add_field(o, ti, f, val, ref, style, force)
        else:
            o.append("%s_ref_t %s; if (%s_start(B)) return -1;" % (T, v, T))
            for (f, val) in n.fields:
                if not self.add_inplace(o, ti, f, val, style, refs, force):
                    ref = self.build_child(o, ti, f, val, style, refs, force)
                    self.add_field(o, ti, f, val, ref, style, force)
        o.append("%s = %s_end(B); if (!%s) return -1;" % (v, T, v))
        refs[id(n)] = v
        return v

    def by_args_ok(self, ti, fields, force):
        if force or not getattr(self, "by_args", False): return False
        decl = self.ty.tables[ti]
        byid = {f["id"]: val for (f, val) in fields}
        if len(byid) != len(decl) or any(f["id"] not in byid for f in decl): return False
        if any(f["kind"] in ("nt", "ns") or (f["kind"] == "u" and byid[f["id"]].type == 0) for f in decl): return False
        # children are created in the order of the arguments' alignment classes: a reference to a shared object must not overtake its target
        return not any(self.has_ref(val) for (f, val) in fields)

    def has_ref(self, n):
        return n.k == "r" or any(self.has_ref(c) for c in children(n))

    def in_create_order(self, ti, fields):
        order = {i: k for k, i in enumerate(self.create_order(ti))}
        return sorted(fields, key=lambda t: order[t[0]["id"]])

    def create_order(self, ti):
        """the order in which the generated <T>_create adds its arguments (align_order_members in semantics.c): by alignment class, largest
        first (256 shares the class of 128), declaration order within a class; references and unions count as offsets"""
        def cls(f):
            k = f["b"] if f["kind"] == "s" else 4
            return min(7, max(1, k).bit_length() - 1)
        decl = self.ty.tables[ti]
        return [f["id"] for _, f in sorted(enumerate(decl), key=lambda t: (-cls(t[1]), t[0]))]

    def create_args(self, o, ti, pend, force):
        """arguments of the generated <T>_create in declaration order, or None when the node cannot be built that way (a field absent: a null
        reference makes <T>_create fail; force_add has no by-argument form; nested buffers are left to the other styles)"""
        if not self.by_args_ok(ti, [(f, val) for (f, val, ref) in pend], force): return None
        decl = self.ty.tables[ti]
        byid = {f["id"]: (val, ref) for (f, val, ref) in pend}
        args = []
        for f in decl:
            val, ref = byid[f["id"]]
            k = f["kind"]
            if k == "s":
                ft = self.ty.ftype[(ti, f["id"])]
                if ft["kind"] == "scalar": args.append(scalar_value(ft["t"], val.cdata))
                else:
                    S = "g_" + sname(f["a"], f["b"]); x = self.nt("sa")
                    d, dl = self.bytes_lit(val.data); o.append(dl)
                    o.append("%s_t %s; memcpy(%s.d, %s, %d);" % (S, x, x, d, f["a"]))
                    args.append("&" + x)
            elif k == "u": args.append("g_U%d_as_M%d(%s)" % (f["a"], val.type, ref))
            else: args.append(ref)
        return args

    def add_inplace(self, o, ti, f, val, style, refs, force):
        """style 1/2: field-specific start/end, create, push variants of the generated table field API"""
        k, i = f["kind"], f["id"]; T = "g_T%d" % ti; fn = "f%d%s" % (i, FIELD_SUFFIX)
        if k == "str" and val.k == "s" and not getattr(val, "shared", False):
            d, decl = self.bytes_lit(val.data); o.append(decl)
            if style == 1: o.append("if (%s_%s_create(B, (const char *)%s, %d)) return -1;" % (T, fn, d, len(val.data)))
            else: o.append("if (%s_%s_start(B)) return -1; if (!%s_%s_append(B, (const char *)%s, %d) && %d) return -1; if (%s_%s_end(B)) return -1;" % (T, fn, T, fn, d, len(val.data), len(val.data), T, fn))
            # an in-place string has no reusable reference: later `r` nodes to it fall back to a new equal string
            return True
        if k == "v":
            ft = self.ty.ftype[(ti, i)]
            d, decl = self.bytes_lit(val.cdata); o.append(decl)
            n = len(val.cdata) // f["a"]
            et = CTYPE[ft["t"]] if ft["kind"] == "svec" else "g_%s_t" % sname(f["a"], f["b"])
            if style == 1:
                o.append("if (%s_%s_create(B, (const %s *)(const void *)%s, %d)) return -1;" % (T, fn, et, d, n))
            else:
                o.append("if (%s_%s_start(B)) return -1; { int j; for (j = 0; j < %d; ++j) { %s e; memcpy(&e, %s + j * %d, %d); if (!%s_%s_push(B, &e)) return -1; } } if (%s_%s_end(B)) return -1;"
                         % (T, fn, n, et, d, f["a"], f["a"], T, fn, T, fn))
            return True
        if k == "t" and val.k == "T" and style == 1 and not getattr(val, "shared", False):
            # nested start of the child table through the parent's field API
            o.append("if (%s_%s_start(B)) return -1;" % (T, fn))
            for (cf, cv) in val.fields:
                if not self.add_inplace(o, val.ti, cf, cv, style, refs, force):
                    ref = self.build_child(o, val.ti, cf, cv, style, refs, force)
                    self.add_field(o, val.ti, cf, cv, ref, style, force)
            o.append("if (%s_%s_end(B)) return -1;" % (T, fn))
            return True
        if k == "nt" and style in (1, 2):
            o.append("if (%s_%s_start_as_root(B)) return -1;" % (T, fn))
            root = val.root
            for (cf, cv) in root.fields:
                if not self.add_inplace(o, root.ti, cf, cv, style, refs, force):
                    ref = self.build_child(o, root.ti, cf, cv, style, refs, force)
                    self.add_field(o, root.ti, cf, cv, ref, style, force)
            o.append("if (%s_%s_end_as_root(B)) return -1;" % (T, fn))
            return True
        if k == "ns" and style in (1, 2):
            d, decl = self.bytes_lit(val.root.data); o.append(decl)
            S = "g_" + sname(f["a"], f["b"])
            o.append("{ %s_t *p = %s_%s_start_as_root(B); if (!p) return -1; memcpy(p->d, %s, %d); if (%s_%s_end_as_root(B)) return -1; }" % (S, T, fn, d, f["a"], T, fn))
            return True
        if k == "sv" and style == 2:
            o.append("if (%s_%s_start(B)) return -1;" % (T, fn))
            for x in val.items:
                r = self.build_string(o, x, 0, refs)
                o.append("if (!%s_%s_push(B, %s)) return -1;" % (T, fn, r))
            o.append("if (%s_%s_end(B)) return -1;" % (T, fn))
            return True
        if k == "tv" and style == 2:
            o.append("if (%s_%s_start(B)) return -1;" % (T, fn))
            for x in val.items:
                r = self.build_table(o, x, style, refs, force)
                o.append("if (!%s_%s_push(B, %s)) return -1;" % (T, fn, r))
            o.append("if (%s_%s_end(B)) return -1;" % (T, fn))
            return True
        return False

    def build_child(self, o, ti, f, val, style, refs, force):
        """creates the out-of-line object(s) of a field before it is added; returns what add_field needs"""
        k = f["kind"]
        if k == "s": return None
        if k == "str": return self.build_string(o, val, style, refs)
        if k == "v":
            ft = self.ty.ftype[(ti, f["id"])]
            d, decl = self.bytes_lit(val.cdata); o.append(decl)
            n = len(val.cdata) // f["a"]
            v = self.nt("vec")
            if ft["kind"] == "svec":
                vn = "flatbuffers_%s_vec" % VECN[ft["t"]]
                o.append("%s_ref_t %s = %s_create(B, (const %s *)(const void *)%s, %d); if (!%s) return -1;" % (vn, v, vn, CTYPE[ft["t"]], d, n, v))
            else:
                S = "g_" + sname(f["a"], f["b"])
                o.append("%s_vec_ref_t %s = %s_vec_create(B, (const %s_t *)(const void *)%s, %d); if (!%s) return -1;" % (S, v, S, S, d, n, v))
            return v
        if k == "sv":
            rs = [self.build_string(o, x, 0, refs) for x in val.items]
            a = self.nt("arr"); v = self.nt("sv")
            o.append("flatbuffers_string_ref_t %s[%d] = {%s};" % (a, max(1, len(rs)), ", ".join(rs) or "0"))
            o.append("flatbuffers_string_vec_ref_t %s = flatbuffers_string_vec_create(B, %s, %d); if (!%s) return -1;" % (v, a, len(rs), v))
            return v
        if k == "t": return self.build_table(o, val, style, refs, force)
        if k == "tv":
            rs = [self.build_table(o, x, style, refs, force) for x in val.items]
            a = self.nt("arr"); v = self.nt("tv")
            o.append("g_T%d_ref_t %s[%d] = {%s};" % (f["a"], a, max(1, len(rs)), ", ".join(rs) or "0"))
            o.append("g_T%d_vec_ref_t %s = g_T%d_vec_create(B, %s, %d); if (!%s) return -1;" % (f["a"], v, f["a"], a, len(rs), v))
            return v
        if k == "u":
            if val.type == 0: return None
            return self.build_member(o, val.member, val.value, style, refs, force)
        if k == "uv":
            U = "g_U%d" % f["a"]
            items = []
            for (t, x, m) in val.items:
                items.append((t, None if t == 0 else self.build_member(o, m, x, style, refs, force), m))
            v = self.nt("uv")
            if style == 0:
                a = self.nt("arr")
                o.append("%s_union_ref_t %s[%d];" % (U, a, max(1, len(items))))
                for j, (t, r, m) in enumerate(items):
                    if t == 0: o.append("%s[%d] = %s_as_NONE();" % (a, j, U))
                    else: o.append("%s[%d] = %s_as_M%d(%s);" % (a, j, U, t, r))
                o.append("%s_union_vec_ref_t %s = %s_vec_create(B, %s, %d);" % (U, v, U, a, len(items)))
            else:
                o.append("%s_union_vec_ref_t %s; if (%s_vec_start(B)) return -1;" % (U, v, U))
                for j, (t, r, m) in enumerate(items):
                    if style == 2 and j == len(items) // 2:
                        # junk entries pushed / extended and truncated away in the middle: the remaining pushes must land behind element j-1
                        o.append("if (!%s_vec_push(B, %s_as_NONE())) return -1; { %s_union_ref_t *p_ = %s_vec_extend(B, 2); if (!p_) return -1; p_[0] = %s_as_NONE(); p_[1] = %s_as_NONE(); } if (%s_vec_truncate(B, 3)) return -1;"
                                 % (U, U, U, U, U, U, U))
                    if t == 0: o.append("if (!%s_vec_push(B, %s_as_NONE())) return -1;" % (U, U))
                    elif style == 2 and j % 2: o.append("{ %s_union_ref_t u_ = %s_as_M%d(%s); if (!%s_vec_append(B, &u_, 1)) return -1; }" % (U, U, t, r, U))
                    else: o.append("if (!%s_vec_push(B, %s_as_M%d(%s))) return -1;" % (U, U, t, r))
                o.append("%s = %s_vec_end(B);" % (v, U))
            o.append("if (!%s.type || !%s.value) return -1;" % (v, v))
            return v
        if k == "nt":
            # bottom-up: the nested buffer is finished before the parent table is started
            T = "g_T%d" % val.root.ti
            v = self.nt("nb")
            o.append("flatbuffers_buffer_ref_t %s; if (flatbuffers_buffer_start(B, %s)) return -1;" % (v, '"%s"' % val.ident.decode("latin1") if val.ident and val.ident.isalnum() else "0"))
            r = self.build_table(o, val.root, style, {}, force)
            o.append("%s = flatbuffers_buffer_end(B, %s); if (!%s) return -1;" % (v, r, v))
            return v
        if k == "ns":
            S = "g_" + sname(f["a"], f["b"])
            d, decl = self.bytes_lit(val.root.data); o.append(decl)
            v = self.nt("nb")
            o.append("flatbuffers_buffer_ref_t %s; if (flatbuffers_buffer_start(B, 0)) return -1; { %s_t *p = %s_start(B); if (!p) return -1; memcpy(p->d, %s, %d); %s = flatbuffers_buffer_end(B, %s_end(B)); } if (!%s) return -1;"
                     % (v, S, S, d, f["a"], v, S, v))
            return v
        raise ValueError(k)

    def add_field(self, o, ti, f, val, ref, style, force):
        k, i = f["kind"], f["id"]; T = "g_T%d" % ti; fn = "f%d%s" % (i, FIELD_SUFFIX)
        if k == "s":
            ft = self.ty.ftype[(ti, i)]
            if ft["kind"] == "scalar":
                add = "force_add" if force and not ft["optional"] else "add"
                o.append("if (%s_%s_%s(B, %s)) return -1;" % (T, fn, add, scalar_value(ft["t"], val.cdata)))
            else:
                S = "g_" + sname(f["a"], f["b"])
                d, decl = self.bytes_lit(val.data); o.append(decl)
                if style == 2:
                    o.append("{ %s_t *p = %s_%s_start(B); if (!p) return -1; memcpy(p->d, %s, %d); if (%s_%s_end(B)) return -1; }" % (S, T, fn, d, f["a"], T, fn))
                else:
                    o.append("{ %s_t x; memcpy(x.d, %s, %d); if (%s_%s_add(B, &x)) return -1; }" % (S, d, f["a"], T, fn))
        elif k == "u":
            if val.type == 0: o.append("if (%s_%s_add(B, g_U%d_as_NONE())) return -1;" % (T, fn, f["a"]))
            elif style == 1: o.append("if (%s_%s_M%d_add(B, %s)) return -1;" % (T, fn, val.type, ref))
            else: o.append("if (%s_%s_add(B, g_U%d_as_M%d(%s))) return -1;" % (T, fn, f["a"], val.type, ref))
        else:
            o.append("if (%s_%s_add(B, %s)) return -1;" % (T, fn, ref))

    def mark_shared(self, n):
        if n.k == "r": n.target.shared = True; return
        for c in children(n): self.mark_shared(c)

    def lower(self, n, force, m=None, style=0):
        """the tree as the runtime sees it: typed bytes, default-valued scalars elided unless forced"""
        m = {} if m is None else m
        N = vtree.Node
        if n.k == "r": return N("r", target=m[id(n.target)])
        if n.k == "T":
            fs = []
            fields, utypes = n.fields, None
            if id(n) != getattr(self, "_root_id", None) and self.by_args_ok(n.ti, fields, force):
                # <T>_create: arguments in alignment order, union values in place, union types after everything else
                fields, utypes = self.in_create_order(n.ti, fields), []
            for (f, v) in fields:
                k = f["kind"]
                if k == "s":
                    ft = self.ty.ftype[(n.ti, f["id"])]
                    if ft["kind"] == "scalar" and not ft["optional"] and not force and int.from_bytes(v.cdata, "little") == default_bits(ft["t"], ft["default"]):
                        continue
                    fs.append((f, N("i", size=v.size, align=v.align, data=v.cdata)))
                elif k == "u":
                    if v.type == 0: continue      # <T>_<f>_add with NONE stores nothing
                    # generated <T>_<f>_add: the type field first, then the value (flatcc_builder_table_add_union does the reverse)
                    (fs if utypes is None else utypes).append((dict(id=f["id"] - 1, kind="s"), N("i", size=1, align=1, data=bytes([v.type]))))
                    fs.append((dict(id=f["id"], kind="uval"), self.lower(v.value, force, m, style)))
                elif k == "v": fs.append((f, N("v", esz=v.esz, align=v.align, data=v.cdata)))
                else: fs.append((f, self.lower(v, force, m, style)))
            x = N("T", ti=n.ti, fields=fs + (utypes or []))
        elif n.k == "o": x = N("o", items=[self.lower(c, force, m, style) for c in n.items])
        elif n.k == "U": x = N("U", type=n.type, value=self.lower(n.value, force, m, style), member=n.member)
        elif n.k == "W": x = N("W", items=[(t, self.lower(c, force, m, style), mm) for (t, c, mm) in n.items])
        elif n.k == "B": x = N("B", ident=(n.ident if style == 0 and n.ident and n.ident.isalnum() and n.root.k == "T" else None), with_size=0, block_align=0,
                               root=self.lower(n.root, force, {}, style))
        else: x = N(n.k, **{a: b for a, b in n.__dict__.items() if a not in ("k", "idx")})
        m[id(n)] = x
        return x

    def add_case(self, tree, root_ti, with_size, typed, style, force, fresh=False):
        self.negzero = False
        self.prep_values(tree)
        self.mark_shared(tree)
        self.lowered = getattr(self, "lowered", [])
        if style != 0: self.by_args = False
        self._root_id = id(tree)
        self.lowered.append(self.lower(tree, force, None, style))
        self.meta = getattr(self, "meta", [])
        self.meta.append((root_ti, with_size, typed, fresh))
        o = []
        refs = {}
        T = "g_T%d" % root_ti
        suffix = ("_typed" if typed else "") + "_root" + ("_with_size" if with_size else "")
        idx = len(self.cases)
        o.append("static int case_%d(flatcc_builder_t *B) {" % idx)
        body = []
        if style == 0:
            # open the buffer, create every child bottom-up, then the root table
            body.append("if (flatbuffers_buffer_start%s(B, %s_%s_identifier)) return -1;" % ("_with_size" if with_size else "", T, "type" if typed else "file"))
            pend = [(f, val, self.build_child(body, root_ti, f, val, style, refs, force)) for (f, val) in tree.fields]
            body.append("if (%s_start(B)) return -1;" % T)
            for (f, val, ref) in pend: self.add_field(body, root_ti, f, val, ref, style, force)
            body.append("if (!flatbuffers_buffer_end(B, %s_end(B))) return -1;" % T)
            body.append("return 0;")
        else:
            body.append("if (%s_start_as%s(B)) return -1;" % (T, suffix))
            for (f, val) in tree.fields:
                if not self.add_inplace(body, root_ti, f, val, style, refs, force):
                    ref = self.build_child(body, root_ti, f, val, style, refs, force)
                    self.add_field(body, root_ti, f, val, ref, style, force)
        if style != 0:
            body.append("if (!%s_end_as%s(B)) return -1;" % (T, "_typed_root" if typed else "_root"))
            body.append("return 0;")
        o.extend("  " + l for l in body)
        o.append("}")
        self.cases.append("\n".join(o))
        self.known_mode = False
        self.expect.append(self.exp_table(tree, force))
        self.known_mode = True
        self.expect_known.append(self.exp_table(tree, force) if self.negzero else None)
        self.known_mode = False
        return idx

    def source(self):
        meta = self.meta
        o = ['#include <stdio.h>', '#include <stdlib.h>', '#include <string.h>', '#include <stdint.h>', '#include "s_builder.h"', '#include "s_reader.h"', '#include "s_verifier.h"',
             "static float u2f(uint32_t u) { float f; memcpy(&f, &u, 4); return f; }",
             "static double u2d(uint64_t u) { double f; memcpy(&f, &u, 8); return f; }",
             self.dump_functions()]
        o.extend(self.cases)
        o.append("typedef int case_f(flatcc_builder_t *B);")
        o.append("static case_f *cases[] = {%s};" % ", ".join("case_%d" % i for i in range(len(self.cases))))
        o.append("static const int root_ti[] = {%s};" % ", ".join(str(m[0]) for m in meta))
        o.append("static const int with_size[] = {%s};" % ", ".join(str(int(m[1])) for m in meta))
        o.append("static const int typed[] = {%s};" % ", ".join(str(int(m[2])) for m in meta))
        o.append("static const int fresh_b[] = {%s};" % ", ".join(str(int(m[3])) for m in meta))
        o.append("#define DO_CLONE %d" % int(bool(getattr(self, "clone", False))))
        o.append("#include \"flatcc/flatcc_refmap.h\"")
        # clone the finished root table into a FRESH builder (its stacks have their initial sizes), with and without a reference map
        csw = "\n".join(("    case %d: { g_T%d_table_t t0 = ty ? (ws ? g_T%d_as_typed_root((char *)buf + 4) : g_T%d_as_typed_root(buf)) : (ws ? g_T%d_as_root((char *)buf + 4) : g_T%d_as_root(buf));"
                         " ok = g_T%d_clone_as_root(B2, t0) != 0; cb = ok ? flatcc_builder_finalize_aligned_buffer(B2, &cs) : 0;"
                         " if (cb && pass == 0) { printf(\" clone=\"); dump_T%d(g_T%d_as_root(cb)); cv = g_T%d_verify_as_root(cb, cs); } } break;") % ((ti,) * 10) for ti in range(len(self.tables)))
        dsw = "\n".join(("    case %d: dump_T%d(ty ? (ws ? g_T%d_as_typed_root((char *)buf + 4) : g_T%d_as_typed_root(buf)) : (ws ? g_T%d_as_root((char *)buf + 4) : g_T%d_as_root(buf)));"
                         " vr = ty ? (ws ? g_T%d_verify_as_typed_root_with_size(buf, size) : g_T%d_verify_as_typed_root(buf, size)) : (ws ? g_T%d_verify_as_root_with_size(buf, size) : g_T%d_verify_as_root(buf, size)); break;") % ((ti,) * 10) for ti in range(len(self.tables)))
        o.append("""
int main(int argc, char **argv) {
    flatcc_builder_t builder, *B = &builder; int i, n = (int)(sizeof(cases) / sizeof(cases[0]));
    setvbuf(stdout, 0, _IOLBF, 0);
    flatcc_builder_init(B);
    for (i = argc > 1 ? atoi(argv[1]) : 0; i < n; ++i) {
        size_t size = 0, k; void *buf; int ws = with_size[i], ty = typed[i], vr = -1;
        /* cases with long vectors run on a builder whose stacks still have their initial sizes */
        if (fresh_b[i]) { flatcc_builder_clear(B); flatcc_builder_init(B); } else flatcc_builder_reset(B);
        if (cases[i](B)) { printf("case %d build-failed\\n", i); continue; }
        buf = flatcc_builder_finalize_aligned_buffer(B, &size);
        if (!buf) { printf("case %d finalize-failed\\n", i); continue; }
        printf("case %d %u ", i, (unsigned)flatcc_builder_get_buffer_alignment(B));
        for (k = 0; k < size; ++k) printf("%02x", ((unsigned char *)buf)[k]);
        printf(" ");
        switch (root_ti[i]) {
@DSW@
        }
        printf(" verify=%d", vr);
#if DO_CLONE
        if (vr == 0) {
            int pass; size_t csz[2] = {0, 0}; int cv = -1, okc[2] = {0, 0}; unsigned cmapn = 0;
            for (pass = 0; pass < 2; ++pass) {      /* pass 0: with a reference map (sharing kept); pass 1: without */
                flatcc_builder_t b2, *B2 = &b2; flatcc_refmap_t rm; void *cb = 0; size_t cs = 0; int ok = 0;
                flatcc_builder_init(B2); flatcc_refmap_init(&rm);
                if (pass == 0) flatcc_builder_set_refmap(B2, &rm);
                switch (root_ti[i]) {
@CSW@
                }
                okc[pass] = ok && cb; csz[pass] = cs;
                if (pass == 0) cmapn = (unsigned)rm.count;
                if (cb) flatcc_builder_aligned_free(cb);
                flatcc_builder_clear(B2); flatcc_refmap_clear(&rm);
            }
            printf(" cverify=%d cok=%d,%d csize=%u,%u cmap=%u", cv, okc[0], okc[1], (unsigned)csz[0], (unsigned)csz[1], cmapn);
        }
#endif
        printf("\\n");
        flatcc_builder_aligned_free(buf);
    }
    flatcc_builder_clear(B);
    return 0;
}
""".replace("@DSW@", dsw).replace("@CSW@", csw))
        return "\n".join(o)


JSON_MAIN = open(os.path.join(os.path.dirname(os.path.dirname(os.path.abspath(__file__))), "harness", "json_main.c.in")).read()


def json_source(P, flagsets):
    """P: Prog with cases added (plain roots only). flagsets[i] = list of (printer flags, indent or -1, parser flags)."""
    nt = len(P.tables)
    o = ['#include <stdio.h>', '#include <stdlib.h>', '#include <string.h>', '#include <stdint.h>', '#include "s_builder.h"', '#include "s_reader.h"',
         '#include "s_verifier.h"', '#include "s_json_parser.h"', '#include "s_json_printer.h"',
         "static float u2f(uint32_t u) { float f; memcpy(&f, &u, 4); return f; }",
         "static double u2d(uint64_t u) { double f; memcpy(&f, &u, 8); return f; }",
         P.dump_functions()]
    o.extend(P.cases)
    o.append("typedef int case_f(flatcc_builder_t *B);")
    o.append("static case_f *cases[] = {%s};" % (", ".join("case_%d" % i for i in range(len(P.cases))) or "0"))
    o.append("static const int root_ti[] = {%s};" % (", ".join(str(m[0]) for m in P.meta) or "0"))
    nf = max([len(f) for f in flagsets] + [1])
    o.append("#define NFLAGS %d\n#define NT %d" % (nf, nt))
    rows = []
    for fs in flagsets:
        fs = list(fs) + [fs[-1]] * (nf - len(fs))
        rows.append("{%s}" % ", ".join("{%d, %d, %d}" % f for f in fs))
    o.append("static const int flagsets[][NFLAGS][3] = {%s};" % (", ".join(rows) or "{{0,0,0}}"))
    tables = ("static print_f *printers[] = {%s};\nstatic parse_f *parsers[] = {%s};"
              % (", ".join("g_T%d_print_json_as_root" % i for i in range(nt)), ", ".join("g_T%d_parse_json_as_root" % i for i in range(nt))))
    dsw = "\n".join("    case %d: dump_T%d(g_T%d_as_root(p)); break;" % (i, i, i) for i in range(nt))
    vsw = "\n".join("    case %d: return ws ? g_T%d_verify_as_root_with_size(buf, size) : g_T%d_verify_as_root(buf, size);" % (i, i, i) for i in range(nt))
    o.append(JSON_MAIN.replace("@TABLES@", tables).replace("@DUMPSW@", dsw).replace("@VERSW@", vsw))
    return "\n".join(o)
