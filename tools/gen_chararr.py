#!/usr/bin/env python3
"""Seeded generator for the char array differential test (h_chararr vs fmodel).
   chararr <N> <flags> <hex-text>    flags: bit0 skip_array_overflow, bit1 reject_array_underflow
   chararrp <hex-array>
"""
import random, sys

rnd = random.Random(int(sys.argv[1]) if len(sys.argv) > 1 else 20260929)
NS = list(range(10)) + [16, 17]
FLAGS = [0, 1, 2, 3]

def hx(b):
    return b.hex() if b else "-"

out = []
seen = set()
def emit(N, fl, text):
    line = "chararr %d %d %s" % (N, fl, hx(text))
    if line not in seen:
        seen.add(line); out.append(line)
def emitp(arr):
    line = "chararrp %s" % hx(arr)
    if line not in seen:
        seen.add(line); out.append(line)

# every escape form: (text, number of decoded bytes)
ESC = [
    (b'\\n', 1), (b'\\"', 1), (b'\\\\', 1), (b'\\/', 1), (b'\\b', 1), (b'\\f', 1), (b'\\r', 1), (b'\\t', 1),
    (b'\\x41', 1), (b'\\x00', 1), (b'\\xff', 1), (b'\\xFf', 1), (b'\\xaB', 1),
    (b'\\u0041', 1), (b'\\u0000', 1), (b'\\u007f', 1),                  # 1 byte of UTF-8
    (b'\\u0080', 2), (b'\\u00e9', 2), (b'\\u07FF', 2),                  # 2 bytes
    (b'\\u0800', 3), (b'\\u20ac', 3), (b'\\uffff', 3), (b'\\uFFFD', 3), # 3 bytes
    (b'\\ud83d\\ude00', 4), (b'\\uD800\\uDC00', 4), (b'\\udbff\\udfff', 4),   # surrogate pairs: 4 bytes
    (b'\\ud83d', 3), (b'\\ude00', 3), (b'\\ud83d\\u0041', 4), (b'\\ud83d\\n', 4), (b'\\ud83d\\ud83d', 6),  # unpaired halves
]
BAD = [b'\\q', b'\\', b'\\x', b'\\x4', b'\\x4g', b'\\xg4', b'\\u', b'\\u1', b'\\u12', b'\\u123', b'\\u12g4', b'\\ug234',
       b'\\U0041', b'\\X41', b'\\0', b'\\a', b'\\v', b"\\'", b'\\ud83d\\u12', b'\\ud83d\\ude0', b'\\ud83d\\udeg0', b'\\ud83d\\']
CTRL = [b'\x00', b'\x01', b'\x09', b'\x0a', b'\x0d', b'\x1f']
PLAINS = b'abcXYZ019 ~/\x7f\x80\xc3\xa9\xff{}[]:,\''
TRAILERS = [b'', b',', b'}', b' ', b'"', b'\\']

def plain(k, base=b'abcdefghijklmnopqrstuvwxyz'):
    return bytes(base[i % len(base)] for i in range(k))

# 1. plain strings around N: N-2 .. N+2 and a long one; all flags; several trailers
for N in NS:
    for fl in FLAGS:
        for L in sorted(set([0, 1, max(N - 2, 0), max(N - 1, 0), N, N + 1, N + 2, 2 * N + 3, 40])):
            for tr in (b'', b',', b'"x'):
                emit(N, fl, b'"' + plain(L) + b'"' + tr)
            emit(N, fl, b'"' + plain(L))                                 # unterminated
            emit(N, fl, b'"' + bytes(rnd.choice(PLAINS) for _ in range(L)) + b'"}')

# 2. every escape placed so that it starts with 0,1,2,3 (and 4, 5) bytes of room left; with and without tail content
for N in NS:
    for fl in FLAGS:
        for (e, k) in ESC:
            for room in (0, 1, 2, 3, 4, 5):
                if room > N:
                    continue
                pre = plain(N - room)
                for tail in (b'', b'z', b'zz', b'\\n', e):
                    emit(N, fl, b'"' + pre + e + tail + b'"' + rnd.choice(TRAILERS))
                emit(N, fl, b'"' + pre + e)                               # the input ends right behind the escape
                emit(N, fl, b'"' + pre + e + b'z')                        # unterminated behind it
            # escape first, then plain
            for L in (0, 1, max(N - k, 0), max(N - k + 1, 0), N):
                emit(N, fl, b'"' + e + plain(L) + b'"' + rnd.choice(TRAILERS))
            # escapes only
            for c in (1, 2, 3, N, N + 1):
                emit(N, fl, b'"' + e * c + b'"')

# 3. bad escapes and control characters at each room position; before / behind an overflow
for N in NS:
    for fl in FLAGS:
        for b in BAD + CTRL:
            for room in (0, 1, 2):
                if room > N:
                    continue
                emit(N, fl, b'"' + plain(N - room) + b + b'"')
                emit(N, fl, b'"' + plain(N - room) + b + b'zz",')
            emit(N, fl, b'"' + plain(N + 2) + b + b'"')                   # overflow run first, then the bad piece
            emit(N, fl, b'"' + b + plain(N + 2) + b'"')
            emit(N, fl, b'"' + b)

# 4. no opening quote, empty input, lone quote, empty string
for N in NS:
    for fl in FLAGS:
        for t in (b'', b'"', b'""', b'"",', b'"" ', b"'a'", b'a"', b' "a"', b'x', b'\\"a"', b'\x00', b'""""', b'"\\""', b'"\\"'):
            emit(N, fl, t)

# 5. every proper prefix of some complete texts (unterminated at every position)
BASES = [b'"ab\\n\\u00e9cd\\ud83d\\ude00e\\x41\\\\f",', b'"\\u20ac\\u20ac\\"\\/x",', b'"abcdefghijklmnopqrs"', b'"a\\tb\\rc\\bd\\fe",x']
for N in NS:
    for fl in FLAGS:
        for base in BASES:
            for i in range(len(base) + 1):
                emit(N, fl, base[:i])

# 6. random mixtures
PIECES = [e for (e, _) in ESC] * 3 + BAD + CTRL + [bytes([c]) for c in PLAINS] * 4 + [plain(k) for k in (2, 3, 5, 8)] * 3
while len(out) < 36000:
    N = rnd.choice(NS); fl = rnd.choice(FLAGS)
    good = rnd.random() < 0.75
    pcs = []
    for _ in range(rnd.randrange(0, 7)):
        p = rnd.choice(PIECES)
        if good and (p in BAD or p in CTRL):
            continue
        pcs.append(p)
    t = b'"' + b''.join(pcs)
    if rnd.random() < 0.9:
        t += b'"' + rnd.choice(TRAILERS)
    if rnd.random() < 0.05:
        t = t[:rnd.randrange(0, len(t) + 1)]
    emit(N, fl, t)

# 7. printer side: arrays with embedded / trailing NULs, control characters, quotes, backslashes, high bytes
SPECIAL = [0, 0, 0, 1, 8, 9, 10, 12, 13, 27, 31, 32, 34, 47, 92, 65, 97, 127, 128, 195, 169, 255]
for n in NS:
    emitp(bytes(n))                                                        # all NUL
    emitp(plain(n))
    for z in range(0, n + 1):
        emitp(plain(n - z) + bytes(z))                                     # trailing NULs
        if n - z >= 2:
            emitp(b'a' + bytes(1) + plain(n - z - 2) + bytes(z))           # embedded NUL
    for c in range(256):
        if n >= 1:
            emitp(plain(n - 1) + bytes([c]))
            emitp(bytes([c]) + bytes(n - 1))
for _ in range(3000):
    n = rnd.choice(NS)
    emitp(bytes(rnd.choice(SPECIAL) for _ in range(n)))
for _ in range(1000):
    n = rnd.choice(NS)
    emitp(bytes(rnd.randrange(256) for _ in range(n)))

sys.stdout.write("\n".join(out) + "\n")
