#!/usr/bin/env python3
"""Test lines for the base64 correspondence check (h_b64 vs fmodel). Usage: gen.py [N-random] [seed] > lines.txt
       gen.py print [N] [seed] > plines.txt   (lines for h_b64print: the JSON printer's chunk loop)
Deterministic for a given seed. Categories: see the section comments."""
import sys, random, base64

def hx(b): return b.hex() if len(b) else "-"

if len(sys.argv) > 1 and sys.argv[1] == "print":
    # lines for h_b64print (the printer's chunk loop): gen.py print [N] [seed]
    n = int(sys.argv[2]) if len(sys.argv) > 2 else 8000
    rng = random.Random(int(sys.argv[3]) if len(sys.argv) > 3 else 7)
    out = []
    # exhaustive small: every data length 0..13, every initial room 0..20, fixed follow-up room 0..9
    for dl in range(0, 14):
        b = bytes((i * 29 + 3) % 256 for i in range(dl))
        for r0 in range(0, 21):
            for r in range(0, 10):
                out.append("b64 print %d %d %s %s" % (128 + (dl & 1), r0, ",".join([str(r)] * 12), hx(b)))
    for _ in range(n):
        dl = rng.randrange(0, 120)
        b = bytes(rng.randrange(256) for _ in range(dl))
        mode = rng.choice([128, 129, 128, 129, 0, 1])
        r0 = rng.choice([0, 1, 2, 3, 4, 5, 7, 8, 9, rng.randrange(0, 200)])
        sched = [rng.choice([0, 0, 1, 2, 3, 4, 5, 6, 7, 8, 9, 12, 13, 16, rng.randrange(0, 64), rng.randrange(0, 200)])
                 for _ in range(rng.randrange(0, 40))]
        out.append("b64 print %d %d %s %s" % (mode, r0, ",".join(map(str, sched)) if sched else "-", hx(b)))
    sys.stdout.write("\n".join(out) + "\n")
    sys.exit(0)

nrand = int(sys.argv[1]) if len(sys.argv) > 1 else 6000
rng = random.Random(int(sys.argv[2]) if len(sys.argv) > 2 else 20260929)
out = []
ENC_MODES = [0, 1, 128, 129]
DEC_MODES = [0, 1, 32, 33]
ODD_MODES = [2, 3, 31, 64, 65, 96, 160, 161, 224, 225, 226, 256, 257, 384, 130]
def enc(b, mode):
    t = base64.urlsafe_b64encode(b) if mode & 1 else base64.b64encode(b)
    return t if mode & 128 else t.rstrip(b"=")
def dec_all(text, modes=DEC_MODES):
    for m in modes:
        out.append("b64 dec %d %s" % (m, hx(text)))
def parse_all(text):
    for u in (0, 1):
        out.append("b64 parse %d %s" % (u, hx(text)))

# 1. sizes
for n in list(range(0, 80)) + [255, 256, 257, 1000, 4095, 4096, 4097, 65535, 1 << 20, (1 << 32) - 1, 1 << 32]:
    for m in ENC_MODES + [32, 2]:
        out.append("b64 size %d %d" % (n, m))

# 2. all lengths 0..70, several contents, all encode modes; decode of the result in all decode modes (+ parser)
for n in range(0, 71):
    for variant in range(4):
        if variant == 0: b = bytes(n)
        elif variant == 1: b = bytes([255] * n)
        elif variant == 2: b = bytes((i * 37 + 11) % 256 for i in range(n))
        else: b = bytes(rng.randrange(256) for _ in range(n))
        for m in ENC_MODES:
            out.append("b64 enc %d %s" % (m, hx(b)))
            t = enc(b, m)
            dec_all(t)
            parse_all(t)
            out.append("b64 decl %d %d %s" % (m & 1, len(b), hx(t)))
            out.append("b64 decl %d %d %s" % (m & 1, max(len(b) - 1, 0), hx(t)))
            out.append("b64 decl %d %d %s" % (m & 1, len(b) + 1, hx(t)))

# 3. every byte value as each source byte position (encoder tables: all 6-bit digits in all 4 positions)
for v in range(256):
    for pos in range(3):
        b = bytearray([0x5a, 0xa5, 0x3c]); b[pos] = v
        for m in (0, 1):
            out.append("b64 enc %d %s" % (m, hx(bytes(b))))
    for m in ENC_MODES:
        out.append("b64 enc %d %s" % (m, hx(bytes([v]))))
        out.append("b64 enc %d %s" % (m, hx(bytes([v, 255 - v]))))

# 4. all 256 byte values as a single character at every position of otherwise valid text (decode tables)
valid = [b"QUJD", b"QUJDRA==", b"QUJDREU=", b"QUJDREVG", b"QUI", b"QQ", b"-_-_", b"+/+/", b"QUJDREVGR0hJ"]
for t in valid:
    for pos in range(len(t) + 1):
        for v in range(256):
            if pos < len(t):
                s = t[:pos] + bytes([v]) + t[pos + 1:]
            else:
                s = t + bytes([v])
            if pos in (0, 1, len(t) - 1, len(t)) or v in (0x3d, 0x20, 0x0a, 0x0d, 0x09, 0x2b, 0x2f, 0x2d, 0x5f, 0x22, 0x5c, 0, 255):
                dec_all(s)
                if v in (0x3d, 0x20, 0x2b, 0x2d, 0x41):
                    parse_all(s)
# single characters and pairs
for v in range(256):
    dec_all(bytes([v]))
    dec_all(bytes([v, 0x41]))
    dec_all(bytes([0x41, v]))
    dec_all(bytes([0x41, 0x41, v]))
    dec_all(bytes([0x41, 0x41, 0x41, v]))

# 5. every truncation of valid encodings; every insertion/replacement of '=' ; padding in wrong places
for n in list(range(0, 14)) + [30, 31, 32]:
    b = bytes(rng.randrange(256) for _ in range(n))
    for m in ENC_MODES:
        t = enc(b, m)
        for k in range(len(t) + 1):
            dec_all(t[:k], [m & 1, (m & 1) + 32])
            parse_all(t[:k])
        for k in range(len(t) + 1):
            for pads in (b"=", b"==", b"===", b"====", b"=====", b"========", b"=========", b"= =", b"=\n=", b"=-=", b"=A"):
                s = t[:k] + pads + t[k:]
                dec_all(s, [m & 1, (m & 1) + 32])
                if len(pads) <= 2: parse_all(s)
            if k < len(t):
                s = t[:k] + b"=" + t[k + 1:]
                dec_all(s, [m & 1, (m & 1) + 32])
# dirty tails: all second characters of a 2-char tail, all third characters of a 3-char tail
alpha = b"ABCDEFGHIJKLMNOPQRSTUVWXYZabcdefghijklmnopqrstuvwxyz0123456789+/-_"
for c in alpha:
    for pre in (b"", b"QUJD"):
        for suf in (b"", b"=", b"==", b"==="):
            dec_all(pre + b"Q" + bytes([c]) + suf)
            dec_all(pre + b"QU" + bytes([c]) + suf)
            parse_all(pre + b"Q" + bytes([c]) + suf)
            parse_all(pre + b"QU" + bytes([c]) + suf)

# 6. the other alphabet's special characters, whitespace (skipspace and not), runs of ignored characters
for t in (b"+/+/", b"-_-_", b"QUJD+A==", b"QUJD-A==", b"QUJD/w", b"QUJD_w", b"+", b"-", b"/", b"_"):
    dec_all(t); parse_all(t)
for ws in (b" ", b"\n", b"\r", b"\t", b"\r\n", b"  ", b" \n \n \n \n \n"):
    for t in (b"QUJDREVG", b"QUJDRA==", b"QUJDREU=", b"QUI", b"QQ", b"Q", b""):
        for k in range(len(t) + 1):
            s = t[:k] + ws + t[k:]
            dec_all(s); parse_all(s)
        dec_all(ws.join(bytes([c]) for c in t))
        dec_all(ws + ws.join(bytes([c]) for c in t) + ws)
        for lim in (1, 2, 3, 4, 5, 6):
            out.append("b64 decl 32 %d %s" % (lim, hx(ws.join(bytes([c]) for c in t) + ws)))

# 7. output limits (dst_len) against every small text
for n in range(0, 10):
    b = bytes(rng.randrange(256) for _ in range(n))
    for m in ENC_MODES:
        t = enc(b, m)
        for lim in range(0, 12):
            out.append("b64 decl %d %d %s" % (m & 1, lim, hx(t)))
            out.append("b64 decl %d %d %s" % (m & 1, lim, hx(t + b"QUJD")))
            out.append("b64 decl %d %d %s" % ((m & 1) + 32, lim, hx(t[:2] + b" " + t[2:] + b"\n")))

# 8. unsupported / decorated modes
for m in ODD_MODES + ENC_MODES + DEC_MODES:
    for b in (b"", b"f", b"fo", b"foo", b"foob", b"\xfb\xff\xfe"):
        out.append("b64 enc %d %s" % (m, hx(b)))
    for t in (b"", b"Zg", b"Zg==", b"Zm8", b"Zm8=", b"Zm9v", b"-_-_", b"+/+/", b"Z m 9 v", b"Zh"):
        out.append("b64 dec %d %s" % (m, hx(t)))
        out.append("b64 decl %d 2 %s" % (m, hx(t)))

# 9. random
chars = list(alpha) + [0x3d] * 6 + [0x20, 0x0a, 0x0d, 0x09, 0x22, 0x5c, 0x00, 0xff, 0x2e]
for _ in range(nrand):
    kind = rng.randrange(6)
    if kind == 0:
        b = bytes(rng.randrange(256) for _ in range(rng.randrange(0, 100)))
        out.append("b64 enc %d %s" % (rng.choice(ENC_MODES), hx(b)))
    elif kind == 1:
        b = bytes(rng.randrange(256) for _ in range(rng.randrange(0, 100)))
        t = enc(b, rng.choice(ENC_MODES))
        out.append("b64 dec %d %s" % (rng.choice(DEC_MODES), hx(t)))
        out.append("b64 parse %d %s" % (rng.randrange(2), hx(t)))
    elif kind == 2:
        t = bytes(rng.choice(chars) for _ in range(rng.randrange(0, 40)))
        out.append("b64 dec %d %s" % (rng.choice(DEC_MODES), hx(t)))
        out.append("b64 parse %d %s" % (rng.randrange(2), hx(t)))
    elif kind == 3:
        t = bytes(rng.randrange(256) for _ in range(rng.randrange(0, 24)))
        out.append("b64 dec %d %s" % (rng.choice(DEC_MODES), hx(t)))
    elif kind == 4:
        b = bytes(rng.randrange(256) for _ in range(rng.randrange(0, 40)))
        t = bytearray(enc(b, rng.choice(ENC_MODES)))
        for _ in range(rng.randrange(1, 4)):
            if t:
                op = rng.randrange(3); p = rng.randrange(len(t))
                if op == 0: t[p] = rng.choice(chars)
                elif op == 1: t.insert(p, rng.choice(chars))
                else: del t[p]
        out.append("b64 dec %d %s" % (rng.choice(DEC_MODES), hx(bytes(t))))
        out.append("b64 parse %d %s" % (rng.randrange(2), hx(bytes(t))))
    else:
        t = bytes(rng.choice(chars) for _ in range(rng.randrange(0, 30)))
        out.append("b64 decl %d %d %s" % (rng.choice(DEC_MODES), rng.randrange(0, 24), hx(t)))

sys.stdout.write("\n".join(out) + "\n")
