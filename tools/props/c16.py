"""C16 — in-place sort / find / scan / rscan. Model: Sort.lean, Find.lean, ScanSwap.lean; theorems Props/C16.lean."""
import itertools
from vlib import *

SCALAR = {"u32": (0, 2**32 - 1), "i8": (-128, 127), "i64": (-2**63, 2**63 - 1), "u64": (0, 2**64 - 1)}
PAIR = {"st": (-2**31, 2**31 - 1, 255), "ls": (-2**63, 2**63 - 1, 65535), "tt": (0, 2**32 - 1, None)}
STRK = ["str", "nn"]


def hx(b):
    return bytes(b).hex() if len(b) else "-"


def keyval(kind, k):
    if kind in STRK:
        return bytes.fromhex(k) if k != "-" else b""
    return int(k)


def parse_items(s):
    if s == "_":
        return []
    out = []
    for it in s.split(","):
        k, _, p = it.partition(":")
        out.append((k, p))
    return out


def c_strcmp_key(b):
    """what C sees of a NUL-terminated key"""
    i = b.find(b"\0")
    return b if i < 0 else b[:i]


def spec(line, out):
    """Independent oracle: what the property demands of the implementation's output. Returns error text or None."""
    t = line.split(" ")
    op, kind = t[0], t[1]
    items = parse_items(t[2])
    if op == "sort":
        if not out.endswith(" frame=same verify=ok"):
            return "bytes outside the vector changed or buffer no longer verifies"
        res = parse_items(out.split(" ")[0])
        if sorted(res) != sorted(items):
            return "result is not a permutation of the input elements"
        ks = [keyval(kind, k) for k, _ in res]
        if kind in STRK and any(b"\0" in k for k in ks):
            return None   # embedded NUL: order is C strncmp order; compared against the model only
        if any(ks[i] > ks[i + 1] for i in range(len(ks) - 1)):
            return "result not in non-decreasing key order"
        return None
    ks = [keyval(kind, k) for k, _ in items]
    key = keyval(kind, t[5])
    b, e = int(t[3]), (len(ks) if t[4] == "end" else int(t[4]))
    e = min(e, len(ks))
    if kind in STRK:
        if any(b"\0" in k for k in ks) or b"\0" in key:
            return None
    match = [i for i, k in enumerate(ks) if k == key]
    if op in ("find", "findn"):
        if any(ks[i] > ks[i + 1] for i in range(len(ks) - 1)):
            return None  # unsorted vector: find unconstrained
        want = match[0] if match else None
    elif op in ("scan", "scann"):
        m = [i for i in match if b <= i < e]; want = m[0] if m else None
    elif op in ("rscan", "rscann"):
        m = [i for i in match if b <= i < e]; want = m[-1] if m else None
    elif op == "scanall":
        want = match[0] if match else None
    elif op == "rscanall":
        want = match[-1] if match else None
    else:
        return None
    exp = "nf" if want is None else str(want)
    return None if out == exp else "expected %s" % exp


def mk_items(kind, keys, rng, tag=[0]):
    its = []
    for i, k in enumerate(keys):
        if kind in SCALAR or kind == "str":
            its.append(k if kind != "str" else hx(k))
        elif kind == "st":
            its.append("%d:%d" % (k, i % 256))
        elif kind == "ls":
            its.append("%d:%d" % (k, i % 65536))
        elif kind == "tt":
            its.append("%d:n%d" % (k, i))
        elif kind == "nn":
            its.append("%s:%d" % (hx(k), i))
    return ",".join(str(x) for x in its) if its else "_"


def alphabet(kind):
    if kind in STRK:
        return [b"", b"a", b"ab", b"\xff"]
    lo, hi = SCALAR.get(kind, PAIR.get(kind))[:2]
    return [lo, hi, 0 if lo < 0 else 1, 7]


def rand_key(kind, rng):
    if kind in STRK:
        mode = rng.random()
        n = rng.choice([0, 1, 1, 2, 3, 5, 8, 9, 17])
        al = [0x61, 0x62, 0x7f, 0x80, 0xff, 0x01] if mode < 0.85 else [0x61, 0x00, 0xff, 0x62]
        return bytes(rng.choice(al) for _ in range(n))
    lo, hi = SCALAR.get(kind, PAIR.get(kind))[:2]
    m = rng.random()
    if m < 0.25: return rng.choice([lo, hi, lo + 1, hi - 1, 0])
    if m < 0.6: return rng.randint(max(lo, -4), min(hi, 4))
    return rng.randint(lo, hi)


def gen(ctx):
    r = ctx.rng
    kinds = list(SCALAR) + list(PAIR) + STRK
    L = []
    # exhaustive: all sequences up to length N over a 4-symbol alphabet
    for kind in kinds:
        if ctx.quick():
            N = 6 if kind in ("u32", "str") else 4
        else:
            N = 8 if kind in ("u32", "str", "tt", "nn", "st") else 6
        al = alphabet(kind)
        for n in range(0, N + 1):
            for seq in itertools.product(al, repeat=n):
                L.append("sort %s %s" % (kind, mk_items(kind, seq, r)))
    nexh = len(L)
    # random longer vectors
    nr = 150 if ctx.quick() else 6000
    for kind in kinds:
        for _ in range(nr):
            n = r.choice([1, 2, 3, 9, 16, 17, 31, 64, 100, 257]) if r.random() < 0.8 else r.randint(0, 700)
            pool = [rand_key(kind, r) for _ in range(max(1, r.choice([1, 2, 3, n, n])))]
            seq = [r.choice(pool) if r.random() < 0.7 else rand_key(kind, r) for _ in range(n)]
            if r.random() < 0.15: seq.sort()
            if r.random() < 0.1: seq.sort(reverse=True)
            L.append("sort %s %s" % (kind, mk_items(kind, seq, r)))
    # find on sorted vectors; scan / rscan on arbitrary ones with all (b, e)
    nf = 60 if ctx.quick() else 1500
    for kind in kinds:
        for _ in range(nf):
            n = r.choice([0, 1, 2, 3, 4, 5, 8, 9, 33])
            pool = [rand_key(kind, r) for _ in range(r.choice([1, 2, 3, 5]))]
            seq = [r.choice(pool) for _ in range(n)]
            srt = sorted(seq)
            items_s = mk_items(kind, srt, r)
            items_u = mk_items(kind, seq, r)
            probes = set(pool) | {rand_key(kind, r)}
            if kind in STRK:
                probes |= {k[:-1] for k in pool if k} | {k + b"a" for k in pool}
            else:
                lo, hi = SCALAR.get(kind, PAIR.get(kind))[:2]
                probes |= {min(hi, k + 1) for k in pool} | {max(lo, k - 1) for k in pool}
            for k in probes:
                ks = hx(k) if kind in STRK else str(k)
                L.append("find %s %s 0 end %s" % (kind, items_s, ks))
                if kind in STRK:
                    L.append("findn %s %s 0 end %s" % (kind, items_s, ks))
                ranges = [(b, e) for b in range(0, n + 2) for e in list(range(0, n + 3)) + ["end"]] if n <= 5 else \
                         [(r.randint(0, n + 1), r.choice([r.randint(0, n + 2), "end"])) for _ in range(6)]
                if ctx.quick() and len(ranges) > 12:
                    ranges = r.sample(ranges, 12)
                for (b, e) in ranges:
                    L.append("scan %s %s %d %s %s" % (kind, items_u, b, e, ks))
                    L.append("rscan %s %s %d %s %s" % (kind, items_u, b, e, ks))
                    if kind in STRK and r.random() < 0.3:
                        L.append("scann %s %s %d %s %s" % (kind, items_u, b, e, ks))
                        L.append("rscann %s %s %d %s %s" % (kind, items_u, b, e, ks))
                if kind in SCALAR:
                    L.append("scanall %s %s 0 0 %s" % (kind, items_u, ks))
                    L.append("rscanall %s %s 0 0 %s" % (kind, items_u, ks))
    return L, nexh


RSORT_DECLS = {
    "U": "union U { A, D }",
    "Root": "table Root { ids:[int] (sorted); plain:[int]; u:U; a:A; us:[U]; }",
    "A": "table A { bs:[B]; d:D; }",
    "B": "table B { c:C; name:string (key); }",
    "C": "table C { d:D; ds:[D]; }",
    "KS": "struct KS { k:short (key); v:short; }",
    "D": "table D { nums:[ulong] (sorted); strs:[string] (sorted); ks:[KS] (sorted); items:[Item] (sorted); plain:[int]; tag:int; }",
    "Item": "table Item { name:string (key); w:int; }",
}


def rsort_stage(ctx, flatcc, rt):
    """generated recursive sorter (<Root>_sort): the same schema in several declaration orders (the sorter's reachability analysis is a fixpoint
    over the declaration list), one program (harness/rsort/rsort.c): every vector marked sorted, behind table fields / vectors of tables /
    unions / union vectors, must come out as a sorted permutation, every other vector unchanged, the buffer still verifies."""
    r = random.Random(ctx.seed * 31 + 16)
    top_down = ["U", "Root", "A", "B", "C", "D", "KS", "Item"]
    orders = [top_down, list(reversed(top_down))] + [r.sample(top_down, len(top_down)) for _ in range(2 if ctx.quick() else 12)]
    fails, nD = [], 0
    for oi, order in enumerate(orders):
        d = os.path.join(ctx.work, "rsort%d" % oi); os.makedirs(d, exist_ok=True)
        fbs = "namespace RS;\n" + "\n".join(RSORT_DECLS[n] for n in order) + "\nroot_type Root;\n"
        open(os.path.join(d, "rsort.fbs"), "w").write(fbs)
        rc, log = flatcc_generate(ctx, flatcc, os.path.join(d, "rsort.fbs"), d, opts=("-a",))
        if rc != 0:
            fails.append(("flatcc rejects the schema: " + log[-400:], fbs)); continue
        try:
            exe = build_harness(ctx, "rsort_prog%d" % oi, [os.path.join(VERIF, "harness/rsort/rsort.c")], rt, incs=[d])
        except BuildError as e:
            fails.append(("generated sorter does not compile: " + str(e)[-800:], fbs)); continue
        rc, out, err = sh([exe], timeout=120, env=ASAN_ENV)
        if rc != 0:
            fails.append(("recursive sort scenario crashed (rc=%d): %s" % (rc, err[-800:]), fbs)); continue
        parts = out.split("after verify=")
        if len(parts) != 2 or not parts[0].startswith("before verify=0") or not parts[1].startswith("0"):
            fails.append(("buffer does not verify before / after <Root>_sort: " + out[:200], fbs)); continue
        def parse(txt):
            rows = []
            for l in txt.split("\n"):
                if l.startswith("R ") or l.startswith("D "):
                    kv = dict(x.split("=", 1) for x in l.split(" ")[1:])
                    rows.append((l[0], {k: (v.split(",") if v else []) for k, v in kv.items()}))
                elif l.startswith("count D="): rows.append(("n", int(l.split("=")[1])))
            return rows
        before, after = parse(parts[0]), parse(parts[1])
        if len(before) != len(after) or before[-1] != ("n", 13) or after[-1] != ("n", 13):
            fails.append(("the walk does not reach the 13 D tables: before %s after %s" % (before[-1:], after[-1:]), fbs)); continue
        keyf = {"ids": lambda x: int(x), "nums": lambda x: int(x), "strs": lambda x: x.encode(), "ks": lambda x: int(x.split(":")[0]), "items": lambda x: x.split(":")[0].encode()}
        for (kb, rb), (ka, ra) in zip(before[:-1], after[:-1]):
            nD += ka == "D"
            for name in ra:
                if name == "tag": continue
                if name == "plain":
                    if ra[name] != rb[name]: fails.append(("a vector NOT marked sorted was changed by <Root>_sort: %s -> %s" % (rb[name], ra[name]), fbs))
                    continue
                ks = [keyf[name](x) for x in ra[name]]
                if ks != sorted(ks): fails.append(("vector `%s` marked sorted is not sorted after <Root>_sort: %s (declaration order %s)" % (name, ",".join(ra[name]), " ".join(order)), fbs))
                elif sorted(ra[name]) != sorted(rb[name]): fails.append(("vector `%s` is not a permutation of its content before the sort: %s -> %s" % (name, rb[name], ra[name]), fbs))
    # chains Root -> L1 -> .. -> Lk -> D(sorted vector) through table fields / vectors of tables / unions, declared top-down, bottom-up or shuffled:
    # the sorter's reachability analysis needs one pass per level when parents are declared before their children
    nchain = 0
    def one_chain(ci, k, kinds, order_mode):
        names = ["Root"] + ["L%d" % i for i in range(1, k + 1)] + ["D"]
        decl = {"D": "table D { v:[int] (sorted); w:[int]; }"}
        for i in range(k + 1):
            child, kind = names[i + 1], kinds[i]
            own = "ids:[int] (sorted); " if i == 0 else ""
            if kind == "u": decl["U%d" % i] = "union U%d { %s }" % (i, child)
            decl[names[i]] = "table %s { %sn:%s; }" % (names[i], own, child if kind == "f" else "[%s]" % child if kind == "v" else "U%d" % i)
        keys = []
        for i in range(k + 1):
            if kinds[i] == "u": keys.append("U%d" % i)
            keys.append(names[i])
        keys.append("D")
        order = keys if order_mode == 0 else list(reversed(keys)) if order_mode == 1 else random.Random(ctx.seed * 977 + ci).sample(keys, len(keys))
        fbs = "namespace CH;\n" + "\n".join(decl[x] for x in order) + "\nroot_type Root;\n"
        d = os.path.join(ctx.work, "chain%d" % ci); os.makedirs(d, exist_ok=True)
        open(os.path.join(d, "chain.fbs"), "w").write(fbs)
        rc, log = flatcc_generate(ctx, flatcc, os.path.join(d, "chain.fbs"), d, opts=("-a",))
        if rc != 0: return ("flatcc rejects the chain schema: " + log[-300:], fbs)
        c = ['#include <stdio.h>', '#include "chain_builder.h"', '#include "chain_verifier.h"', 'int main(void) { flatcc_builder_t b, *B = &b; void *buf; size_t n, i; int32_t a[5] = {4, -1, 9, 0, 4}, ids[3] = {3, 1, 2};',
             ' flatcc_builder_ref_t ref; flatcc_builder_init(B);',
             ' CH_D_start(B); CH_D_v_create(B, a, 5); CH_D_w_create(B, a, 5); ref = CH_D_end(B);']
        def link(i):
            T, child, kind = "CH_" + names[i], names[i + 1], kinds[i]
            if kind == "f": return " %s_n_add(B, ref);" % T
            if kind == "v": return " %s_n_start(B); %s_n_push(B, ref); %s_n_end(B);" % (T, T, T)
            return " %s_n_%s_add(B, ref);" % (T, child)
        for i in range(k, 0, -1):
            c.append(" CH_%s_start(B);%s ref = CH_%s_end(B);" % (names[i], link(i), names[i]))
        c.append(" CH_Root_start_as_root(B); CH_Root_ids_create(B, ids, 3);%s CH_Root_end_as_root(B);" % link(0))
        c.append(' buf = flatcc_builder_finalize_aligned_buffer(B, &n); printf("v0=%d\\n", CH_Root_verify_as_root(buf, n));')
        c.append(" CH_Root_sort((CH_Root_mutable_table_t)CH_Root_as_root(buf));")
        c.append(' printf("v1=%d\\n", CH_Root_verify_as_root(buf, n)); { const void *p = CH_Root_as_root(buf);')
        c.append(' printf("ids="); for (i = 0; i < 3; ++i) printf("%d,", (int)flatbuffers_int32_vec_at(CH_Root_ids((CH_Root_table_t)p), i)); printf("\\n");')
        for i in range(k + 1):
            T, child, kind = "CH_" + names[i], "CH_" + names[i + 1], kinds[i]
            if kind == "v": c.append(" p = %s_vec_at(%s_n((%s_table_t)p), 0);" % (child, T, T))
            else: c.append(" p = %s_n((%s_table_t)p);" % (T, T))
        c.append(' printf("v="); for (i = 0; i < 5; ++i) printf("%d,", (int)flatbuffers_int32_vec_at(CH_D_v((CH_D_table_t)p), i));')
        c.append(' printf("\\nw="); for (i = 0; i < 5; ++i) printf("%d,", (int)flatbuffers_int32_vec_at(CH_D_w((CH_D_table_t)p), i)); printf("\\n"); }')
        c.append(" flatcc_builder_aligned_free(buf); flatcc_builder_clear(B); return 0; }")
        open(os.path.join(d, "prog.c"), "w").write("\n".join(c) + "\n")
        try:
            exe = build_harness(ctx, "chain_prog%d" % ci, [os.path.join(d, "prog.c")], rt, incs=[d])
        except BuildError as e:
            return ("generated code for the chain schema does not compile: " + str(e)[-700:], fbs)
        rc, out, err = sh([exe], timeout=60, env=ASAN_ENV)
        got = dict(l.split("=", 1) for l in out.split("\n") if "=" in l)
        if rc != 0 or got.get("v0") != "0" or got.get("v1") != "0": return ("chain scenario crashed or does not verify: %s %s" % (out[:200], err[-300:]), fbs)
        if got.get("ids") != "1,2,3,": return ("Root.ids (sorted) is %s after <Root>_sort" % got.get("ids"), fbs)
        if got.get("v") != "-1,0,4,4,9,": return ("the sorted vector %d levels below the root (links %s) is %s after <Root>_sort: not sorted" % (k + 1, "".join(kinds), got.get("v")), fbs)
        if got.get("w") != "4,-1,9,0,4,": return ("a vector not marked sorted was changed: %s" % got.get("w"), fbs)
        return None
    jobs = []
    for k in range(0, 6):
        for mode in (0, 1, 2):
            for rep in range(1 if ctx.quick() else 6):
                jobs.append((len(jobs), k, [r.choice("fvu") for _ in range(k + 1)], mode))
    with ThreadPoolExecutor(8) as ex:
        for res in ex.map(lambda j: one_chain(*j), jobs):
            nchain += 1
            if res: fails.append(res)
    return {"recursive_sort_declaration_orders": len(orders), "recursive_sort_tables_checked": nD, "recursive_sort_chain_schemas": nchain}, fails


def sortable_schema(r, n):
    """random graph of tables and unions: some vectors marked sorted (some of them deprecated), table / union / vector-of-table /
    vector-of-union members (some deprecated), cycles and self references, in a random declaration order.
    Returns (fbs text, names in declaration order, per type in declaration order: dict(kind, direct, refs, sorted_members, links))"""
    kinds = ["t" if (i == 0 or r.random() < 0.75) else "u" for i in range(n)]
    tables = [i for i in range(n) if kinds[i] == "t"]
    keyed = sorted(i for i in tables if r.random() < 0.3)
    p_sorted = r.choice([0.05, 0.15, 0.4])
    info = []
    for i in range(n):
        if kinds[i] == "u":
            mem = r.sample(tables, r.randint(1, min(3, len(tables))))
            info.append({"kind": "u", "decl": "union T%d { %s }" % (i, ", ".join("T%d" % j for j in mem)), "direct": False,
                         "refs": list(mem), "allrefs": list(mem), "sorted_members": [], "dep_sorted": [], "links": [("T%d" % j, j) for j in mem]})
            continue
        fields, refs, smem, dsm, links, allrefs = [], [], [], [], [], []
        if i in keyed: fields.append("k:int (key)")
        for fi in range(r.randint(0, 5)):
            dep = r.random() < 0.2
            name = "f%d" % fi
            attrs = []
            c = r.random()
            if c < p_sorted:
                w = r.randrange(3)
                if w == 2 and keyed:
                    j = r.choice(keyed); ty = "[T%d]" % j; allrefs.append(j)
                    if not dep: refs.append(j); links.append((name, j))
                else:
                    ty = "[int]" if w == 0 else "[string]"
                attrs.append("sorted")
                (dsm if dep else smem).append(name)
            elif c < p_sorted + 0.15:
                ty = r.choice(["int", "[int]", "string", "[string]"])
            else:
                j = r.randrange(n)
                ty = "T%d" % j if r.random() < 0.5 else "[T%d]" % j; allrefs.append(j)
                if not dep: refs.append(j); links.append((name, j))
            if dep: attrs.append("deprecated")
            fields.append("%s:%s%s" % (name, ty, " (%s)" % ", ".join(attrs) if attrs else ""))
        info.append({"kind": "t", "decl": "table T%d { %s }" % (i, " ".join(f + ";" for f in fields)), "direct": bool(smem), "refs": refs, "allrefs": allrefs,
                     "sorted_members": smem, "dep_sorted": dsm, "links": links})
    order = r.sample(range(n), n)
    pos = {t: k for k, t in enumerate(order)}
    fbs = "namespace SG;\n" + "\n".join(info[t]["decl"] for t in order) + "\n"
    types = []
    for t in order:
        d = dict(info[t]); d["name"] = "T%d" % t
        d["refs"] = [pos[j] for j in info[t]["refs"]]
        d["links"] = [(nm, pos[j]) for nm, j in info[t]["links"]]
        d["allrefs"] = [pos[j] for j in info[t]["allrefs"]]
        types.append(d)
    return fbs, types


SORTER_RE = re.compile(r"static void SG_(\w+)_sort\(SG_\1_mutable_(table|union)_t [tu]\)\n\{\n(.*?)\n\}\n", re.S)


def sortable_stage(ctx, flatcc, rt):
    """which tables / unions get a recursive sorter, and what each sorter visits: random type graphs in random declaration orders through
    flatcc -a; the set of generated <T>_sort definitions must equal the model's markSortable (Sortable.lean: proved = reachability of a
    sorted vector, C16_sortable_*), every sorter must sort exactly its own non-deprecated `sorted` members and descend exactly into the
    non-deprecated members whose type has a sorter; a sample is compiled and linked with every sorter called. Every third graph is split
    over two files (include): marks and sorter bodies must not depend on the file a type is declared in."""
    r = random.Random(ctx.seed * 131 + 16)
    nsch = 160 if ctx.quick() else 2500
    ncompile = 24 if ctx.quick() else 200
    cases = []
    for si in range(nsch):
        n = r.choice([1, 2, 3, 4, 5, 6, 8, 10, 12]) if si % 4 else r.randint(8, 20)
        fbs, types = sortable_schema(r, n)
        cases.append((si, fbs, types))
    lines = ["sortable " + ";".join(("d" if t["direct"] else "-") + ":" + ",".join(str(x) for x in t["refs"]) for t in types) for _, _, types in cases]
    rc_m, out_m, err_m = run_parallel(FMODEL, lines, 8, timeout=600)
    fails, stats = [], {"sortable_schemas": 0, "sortable_types": 0, "sortable_marked": 0, "sortable_indirect_only": 0, "sortable_compiled": 0,
                        "sortable_max_chain": 0, "sortable_two_file_schemas": 0}

    def reach_spec(types):
        m = [t["direct"] for t in types]
        rounds, ch = 0, True
        while ch:
            ch = False; rounds += 1
            new = list(m)
            for i, t in enumerate(types):
                if not m[i] and any(m[j] for j in t["refs"]): new[i] = True; ch = True
            m = new
        return m, rounds

    def one(job):
        (si, fbs, types), mo = job
        d = os.path.join(ctx.work, "sg%d" % si); os.makedirs(d, exist_ok=True)
        # every third graph is split over two files: the types reachable from a random one (through any member) go into an included
        # schema; what is marked and what the sorters visit must not depend on the file a type is declared in
        inc, split = set(), False
        if si % 3 == 1 and len(types) > 1:
            todo = [random.Random(ctx.seed * 7 + si).randrange(len(types))]
            while todo:
                x = todo.pop()
                if x in inc: continue
                inc.add(x); todo += types[x]["allrefs"]
            split = len(inc) < len(types)
        if split:
            open(os.path.join(d, "sginc.fbs"), "w").write("namespace SG;\n" + "\n".join(t["decl"] for i, t in enumerate(types) if i in inc) + "\n")
            fbs = 'include "sginc.fbs";\nnamespace SG;\n' + "\n".join(t["decl"] for i, t in enumerate(types) if i not in inc) + "\n"
        open(os.path.join(d, "sg.fbs"), "w").write(fbs)
        rc, log = flatcc_generate(ctx, flatcc, os.path.join(d, "sg.fbs"), d, opts=("-a", "-r") if split else ("-a",))
        if split: fbs = "// sg.fbs:\n" + fbs + "// sginc.fbs:\n" + open(os.path.join(d, "sginc.fbs")).read()
        if rc != 0: return ("gen", "flatcc rejects the generated schema: " + log[-300:], fbs, None)
        hdr = open(os.path.join(d, "sg_reader.h")).read()
        if split: hdr += open(os.path.join(d, "sginc_reader.h")).read()
        got = {m.group(1): (m.group(2), m.group(3)) for m in SORTER_RE.finditer(hdr)}
        if not mo.startswith("ok ") or len(mo) != 3 + len(types):
            return ("model", "model output: " + mo[:80], fbs, None)
        marks = [c == "1" for c in mo[3:]]
        spec, rounds = reach_spec(types)
        res = {"split": int(split), "types": len(types), "marked": sum(marks), "indirect": sum(1 for t, m in zip(types, marks) if m and not t["direct"]), "rounds": rounds}
        if spec != marks:
            return ("model", "model markSortable %s differs from plain reachability %s" % (mo[3:], "".join("01"[x] for x in spec)), fbs, res)
        have = [t["name"] in got for t in types]
        if have != marks:
            miss = [t["name"] for t, h, m in zip(types, have, marks) if m and not h]
            extra = [t["name"] for t, h, m in zip(types, have, marks) if h and not m]
            return ("impl", "generated sorters differ from reachability of a sorted vector: missing %s, unexpected %s (declaration order %s)"
                    % (miss, extra, " ".join(t["name"] for t in types)), fbs, res)
        for t, m in zip(types, marks):
            if not m: continue
            kind, body = got[t["name"]]
            if kind != ("table" if t["kind"] == "t" else "union"):
                return ("impl", "sorter of %s has the wrong parameter type" % t["name"], fbs, res)
            if t["kind"] == "u":
                g = sorted(re.findall(r"case SG_%s_(\w+): SG_(\w+)_sort\(u\.value\); break;" % t["name"], body))
                e = sorted((nm, types[j]["name"]) for nm, j in t["links"] if marks[j])
                if g != e: return ("impl", "union sorter %s descends into %s, expected %s" % (t["name"], g, e), fbs, res)
                continue
            g_own = sorted(re.findall(r"__flatbuffers_sort_vector_field\(SG_%s, (\w+), " % t["name"], body))
            g_rec = sorted(re.findall(r"__flatbuffers_sort_(?:table_field|union_field|table_vector_field_elements|union_vector_field_elements)\(SG_%s, (\w+), SG_(\w+), t\)" % t["name"], body))
            e_own = sorted(t["sorted_members"])
            e_rec = sorted((nm, types[j]["name"]) for nm, j in t["links"] if marks[j])
            if g_own != e_own:
                return ("impl", "sorter of %s sorts members %s; the non-deprecated members marked sorted are %s (deprecated sorted members: %s have no accessor)"
                        % (t["name"], g_own, e_own, t["dep_sorted"]), fbs, res)
            if g_rec != e_rec:
                return ("impl", "sorter of %s descends into %s, expected %s" % (t["name"], g_rec, e_rec), fbs, res)
        if si < ncompile and any(marks):
            c = ['#include "sg_reader.h"', "int main(void) {"]
            for t, m in zip(types, marks):
                if not m: continue
                if t["kind"] == "t": c.append("  SG_%s_sort(0);" % t["name"])
                else: c.append("  { SG_%s_mutable_union_t u = { 0, 0 }; SG_%s_sort(u); }" % (t["name"], t["name"]))
            c.append("  return 0; }")
            open(os.path.join(d, "prog.c"), "w").write("\n".join(c) + "\n")
            rc, log = cc(["-std=c11", "-O0", "-Werror=implicit-function-declaration", "-I", os.path.join(REPO, "include"), "-I", d,
                          os.path.join(d, "prog.c"), "-o", os.path.join(d, "prog")])
            if rc != 0: return ("impl", "program calling every generated sorter does not build: " + log[-600:], fbs, res)
            rc, out, err = sh([os.path.join(d, "prog")], timeout=30)
            if rc != 0: return ("impl", "calling the sorters on null tables / NONE unions fails rc=%d" % rc, fbs, res)
            res["compiled"] = 1
        shutil.rmtree(d, ignore_errors=True)
        return (None, None, fbs, res)

    with ThreadPoolExecutor(12) as ex:
        for kind, why, fbs, res in ex.map(one, zip(cases, out_m)):
            stats["sortable_schemas"] += 1
            if res:
                stats["sortable_types"] += res["types"]; stats["sortable_marked"] += res["marked"]; stats["sortable_indirect_only"] += res["indirect"]
                stats["sortable_compiled"] += res.get("compiled", 0); stats["sortable_two_file_schemas"] += res.get("split", 0); stats["sortable_max_chain"] = max(stats["sortable_max_chain"], res["rounds"])
            if kind: fails.append((kind, why, fbs))
    return stats, fails


def run(ctx):
    ths = proof_stage(ctx)
    if ths is None:
        finish(ctx, [])
    flatcc, _ = build_flatcc(ctx)
    gen_dir = os.path.join(ctx.work, "gen")
    rc, log = flatcc_generate(ctx, flatcc, os.path.join(VERIF, "harness/schemas/sort.fbs"), gen_dir)
    if rc != 0:
        raise BuildError("flatcc failed on harness/schemas/sort.fbs: " + log)
    rt = build_runtime_objs(ctx)
    h = build_harness(ctx, "h_sort", [os.path.join(VERIF, "harness/h_sort.c")], rt, incs=[gen_dir])
    lines, nexh = gen(ctx)
    rc_c, out_c, err_c = run_parallel(h, lines, 16, timeout=1800)
    rc_m, out_m, err_m = run_parallel(FMODEL, lines, 16, timeout=1800)
    idx, a, b = diff_streams(lines, out_c, out_m)
    spec_fail = []
    for i, l in enumerate(lines):
        why = spec(l, a[i])
        if why:
            spec_fail.append((i, why))
    if spec_fail:
        i, why = min(spec_fail, key=lambda t: len(lines[t[0]]))
        violation(ctx, "spec_%d.json" % ctx.seed,
                  {"kind": "property-fails-on-implementation", "op": lines[i], "c_output": a[i], "model_output": b[i],
                   "why": why, "count": len(spec_fail), "stderr": err_c[-1500:]})
    elif idx:
        i = min(idx, key=lambda k: len(lines[k]))
        violation(ctx, "corr_%d.json" % ctx.seed,
                  {"kind": "correspondence-broken", "theorems_no_longer_tied": [t["name"] for t in ths],
                   "op": lines[i], "c_output": a[i], "model_output": b[i], "count": len(idx), "stderr": (err_c + err_m)[-1500:]},
                  no_failing_input=True)
    rs_stats, rs_fail = rsort_stage(ctx, flatcc, rt)
    if rs_fail:
        violation(ctx, "rsort_%d.json" % ctx.seed, {"kind": "property-fails-on-implementation", "why": rs_fail[0][0][:3000], "count": len(rs_fail), "schema_fbs": rs_fail[0][1],
                                                      "more": [f[0][:200] for f in rs_fail[1:6]], "how_to_replay": "flatcc -a <schema>; build harness/rsort/rsort.c against it; run"})
    sg_stats, sg_fail = sortable_stage(ctx, flatcc, rt)
    sg_impl = [f for f in sg_fail if f[0] == "impl"]
    sg_tie = [f for f in sg_fail if f[0] != "impl"]
    if sg_impl:
        violation(ctx, "sortable_%d.json" % ctx.seed, {"kind": "property-fails-on-implementation", "why": sg_impl[0][1][:3000], "count": len(sg_impl), "schema_fbs": sg_impl[0][2],
                                                         "more": [f[1][:300] for f in sg_impl[1:6]],
                                                         "how_to_replay": "flatcc -a <schema>; read the <T>_sort definitions at the end of the generated *_reader.h"})
    elif sg_tie:
        violation(ctx, "sortable_tie_%d.json" % ctx.seed, {"kind": "correspondence-broken", "theorems_no_longer_tied": ["Flatcc.Sortable.C16_sortable_iff_reach", "Flatcc.Sortable.C16_sortable_terminates",
                                                             "Flatcc.Sortable.C16_sortable_order_independent"], "why": sg_tie[0][1][:3000], "count": len(sg_tie), "schema_fbs": sg_tie[0][2]},
                  no_failing_input=True)
    rs_stats = dict(rs_stats, **sg_stats)
    distinct = set()
    ops = {}
    for l, o in zip(lines, a):
        t = l.split(" ")
        ops[t[0] + ":" + t[1]] = ops.get(t[0] + ":" + t[1], 0) + 1
        if t[2] != "_" and "," in t[2]:
            distinct.add(structural_hash(l))
    ctx.cov.update({
        "evaluations": len(lines), "distinct_nontrivial": len(distinct),
        "rule": "sort: ALL sequences of length <= N over a 4-symbol alphabet per key kind (N=6/4 quick, 8/6 thorough; exhaustive part = %d lines), "
                "random vectors up to 700 elements with duplicates/MIN/MAX/sorted/reversed, strings with prefixes, high bytes and embedded NUL; "
                "find on sorted vectors for present/absent/neighbour keys; scan/rscan for all (begin,end) incl. begin>=end, end>len, sentinel. "
                "element-for-element comparison with the model (payloads distinguish equal keys). non-trivial = at least 2 elements; distinct by line hash." % nexh,
        "exhaustive_part_lines": nexh, **rs_stats,
        "traces_validated_against_impl": len(lines),
        "correspondence_disagreements": len(idx), "spec_oracle_failures": len(spec_fail), "ops": ops})
    ctx.samples = [{"op": lines[i][:300], "c": a[i][:300], "model": b[i][:300]} for i in
                   [5, nexh // 2, nexh + 3, len(lines) // 2, len(lines) - 1] if i < len(lines)]
    ctx.notes = ["string-key order theorem is for NUL-free keys; keys with embedded NUL are compared with the model's strncmp semantics only",
                 "float keys are not exercised (NaN breaks the strict-weak-order premise)",
                 "recursive table sort (codegen_c_sorter.c): a generated <Root>_sort is run on one schema rendered in several declaration orders "
                 "(sorted vectors behind table fields, vectors of tables, unions, union vectors; unsorted vectors must stay as they are): execution only",
                 "which types get a recursive sorter and what each sorter visits: model Sortable.lean (proved = reachability of a sorted vector, any declaration order) "
                 "compared with the sorters generated for random type graphs (sortable_* counters)"]
    finish(ctx, ths)
