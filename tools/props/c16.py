"""C16 — in-place sort / find / scan / rscan. Model: Sort.lean, Find.lean, ScanSwap.lean; theorems Props/C16.lean."""
import itertools
from vlib import *

SCALAR = {"u32": (0, 2**32 - 1), "i8": (-128, 127), "i64": (-2**63, 2**63 - 1), "u64": (0, 2**64 - 1)}
PAIR = {"st": (-2**31, 2**31 - 1, 255), "ls": (-2**63, 2**63 - 1, 65535), "tt": (0, 2**32 - 1, None)}
STRK = ["str", "nn"]


def hx(b):
    return bytes(b).hex() if len(b) else "-"


def keyval(kind, k):
    if kind in STRK:
        return bytes.fromhex(k) if k != "-" else b""
    return int(k)


def parse_items(s):
    if s == "_":
        return []
    out = []
    for it in s.split(","):
        k, _, p = it.partition(":")
        out.append((k, p))
    return out


def c_strcmp_key(b):
    """what C sees of a NUL-terminated key"""
    i = b.find(b"\0")
    return b if i < 0 else b[:i]


def spec(line, out):
    """Independent oracle: what the property demands of the implementation's output. Returns error text or None."""
    t = line.split(" ")
    op, kind = t[0], t[1]
    items = parse_items(t[2])
    if op == "sort":
        if not out.endswith(" frame=same verify=ok"):
            return "bytes outside the vector changed or buffer no longer verifies"
        res = parse_items(out.split(" ")[0])
        if sorted(res) != sorted(items):
            return "result is not a permutation of the input elements"
        ks = [keyval(kind, k) for k, _ in res]
        if kind in STRK and any(b"\0" in k for k in ks):
            return None   # embedded NUL: order is C strncmp order; compared against the model only
        if any(ks[i] > ks[i + 1] for i in range(len(ks) - 1)):
            return "result not in non-decreasing key order"
        return None
    ks = [keyval(kind, k) for k, _ in items]
    key = keyval(kind, t[5])
    b, e = int(t[3]), (len(ks) if t[4] == "end" else int(t[4]))
    e = min(e, len(ks))
    if kind in STRK:
        if any(b"\0" in k for k in ks) or b"\0" in key:
            return None
    match = [i for i, k in enumerate(ks) if k == key]
    if op in ("find", "findn"):
        if any(ks[i] > ks[i + 1] for i in range(len(ks) - 1)):
            return None  # unsorted vector: find unconstrained
        want = match[0] if match else None
    elif op in ("scan", "scann"):
        m = [i for i in match if b <= i < e]; want = m[0] if m else None
    elif op in ("rscan", "rscann"):
        m = [i for i in match if b <= i < e]; want = m[-1] if m else None
    elif op == "scanall":
        want = match[0] if match else None
    elif op == "rscanall":
        want = match[-1] if match else None
    else:
        return None
    exp = "nf" if want is None else str(want)
    return None if out == exp else "expected %s" % exp


def mk_items(kind, keys, rng, tag=[0]):
    its = []
    for i, k in enumerate(keys):
        if kind in SCALAR or kind == "str":
            its.append(k if kind != "str" else hx(k))
        elif kind == "st":
            its.append("%d:%d" % (k, i % 256))
        elif kind == "ls":
            its.append("%d:%d" % (k, i % 65536))
        elif kind == "tt":
            its.append("%d:n%d" % (k, i))
        elif kind == "nn":
            its.append("%s:%d" % (hx(k), i))
    return ",".join(str(x) for x in its) if its else "_"


def alphabet(kind):
    if kind in STRK:
        return [b"", b"a", b"ab", b"\xff"]
    lo, hi = SCALAR.get(kind, PAIR.get(kind))[:2]
    return [lo, hi, 0 if lo < 0 else 1, 7]


def rand_key(kind, rng):
    if kind in STRK:
        mode = rng.random()
        n = rng.choice([0, 1, 1, 2, 3, 5, 8, 9, 17])
        al = [0x61, 0x62, 0x7f, 0x80, 0xff, 0x01] if mode < 0.85 else [0x61, 0x00, 0xff, 0x62]
        return bytes(rng.choice(al) for _ in range(n))
    lo, hi = SCALAR.get(kind, PAIR.get(kind))[:2]
    m = rng.random()
    if m < 0.25: return rng.choice([lo, hi, lo + 1, hi - 1, 0])
    if m < 0.6: return rng.randint(max(lo, -4), min(hi, 4))
    return rng.randint(lo, hi)


def gen(ctx):
    r = ctx.rng
    kinds = list(SCALAR) + list(PAIR) + STRK
    L = []
    # exhaustive: all sequences up to length N over a 4-symbol alphabet
    for kind in kinds:
        if ctx.quick():
            N = 6 if kind in ("u32", "str") else 4
        else:
            N = 8 if kind in ("u32", "str", "tt", "nn", "st") else 6
        al = alphabet(kind)
        for n in range(0, N + 1):
            for seq in itertools.product(al, repeat=n):
                L.append("sort %s %s" % (kind, mk_items(kind, seq, r)))
    nexh = len(L)
    # random longer vectors
    nr = 150 if ctx.quick() else 6000
    for kind in kinds:
        for _ in range(nr):
            n = r.choice([1, 2, 3, 9, 16, 17, 31, 64, 100, 257]) if r.random() < 0.8 else r.randint(0, 700)
            pool = [rand_key(kind, r) for _ in range(max(1, r.choice([1, 2, 3, n, n])))]
            seq = [r.choice(pool) if r.random() < 0.7 else rand_key(kind, r) for _ in range(n)]
            if r.random() < 0.15: seq.sort()
            if r.random() < 0.1: seq.sort(reverse=True)
            L.append("sort %s %s" % (kind, mk_items(kind, seq, r)))
    # find on sorted vectors; scan / rscan on arbitrary ones with all (b, e)
    nf = 60 if ctx.quick() else 1500
    for kind in kinds:
        for _ in range(nf):
            n = r.choice([0, 1, 2, 3, 4, 5, 8, 9, 33])
            pool = [rand_key(kind, r) for _ in range(r.choice([1, 2, 3, 5]))]
            seq = [r.choice(pool) for _ in range(n)]
            srt = sorted(seq)
            items_s = mk_items(kind, srt, r)
            items_u = mk_items(kind, seq, r)
            probes = set(pool) | {rand_key(kind, r)}
            if kind in STRK:
                probes |= {k[:-1] for k in pool if k} | {k + b"a" for k in pool}
            else:
                lo, hi = SCALAR.get(kind, PAIR.get(kind))[:2]
                probes |= {min(hi, k + 1) for k in pool} | {max(lo, k - 1) for k in pool}
            for k in probes:
                ks = hx(k) if kind in STRK else str(k)
                L.append("find %s %s 0 end %s" % (kind, items_s, ks))
                if kind in STRK:
                    L.append("findn %s %s 0 end %s" % (kind, items_s, ks))
                ranges = [(b, e) for b in range(0, n + 2) for e in list(range(0, n + 3)) + ["end"]] if n <= 5 else \
                         [(r.randint(0, n + 1), r.choice([r.randint(0, n + 2), "end"])) for _ in range(6)]
                if ctx.quick() and len(ranges) > 12:
                    ranges = r.sample(ranges, 12)
                for (b, e) in ranges:
                    L.append("scan %s %s %d %s %s" % (kind, items_u, b, e, ks))
                    L.append("rscan %s %s %d %s %s" % (kind, items_u, b, e, ks))
                    if kind in STRK and r.random() < 0.3:
                        L.append("scann %s %s %d %s %s" % (kind, items_u, b, e, ks))
                        L.append("rscann %s %s %d %s %s" % (kind, items_u, b, e, ks))
                if kind in SCALAR:
                    L.append("scanall %s %s 0 0 %s" % (kind, items_u, ks))
                    L.append("rscanall %s %s 0 0 %s" % (kind, items_u, ks))
    return L, nexh


def run(ctx):
    ths = proof_stage(ctx)
    if ths is None:
        finish(ctx, [])
    flatcc, _ = build_flatcc(ctx)
    gen_dir = os.path.join(ctx.work, "gen")
    rc, log = flatcc_generate(ctx, flatcc, os.path.join(VERIF, "harness/schemas/sort.fbs"), gen_dir)
    if rc != 0:
        raise BuildError("flatcc failed on harness/schemas/sort.fbs: " + log)
    rt = build_runtime_objs(ctx)
    h = build_harness(ctx, "h_sort", [os.path.join(VERIF, "harness/h_sort.c")], rt, incs=[gen_dir])
    lines, nexh = gen(ctx)
    rc_c, out_c, err_c = run_parallel(h, lines, 16, timeout=1800)
    rc_m, out_m, err_m = run_parallel(FMODEL, lines, 16, timeout=1800)
    idx, a, b = diff_streams(lines, out_c, out_m)
    spec_fail = []
    for i, l in enumerate(lines):
        why = spec(l, a[i])
        if why:
            spec_fail.append((i, why))
    if spec_fail:
        i, why = min(spec_fail, key=lambda t: len(lines[t[0]]))
        violation(ctx, "spec_%d.json" % ctx.seed,
                  {"kind": "property-fails-on-implementation", "op": lines[i], "c_output": a[i], "model_output": b[i],
                   "why": why, "count": len(spec_fail), "stderr": err_c[-1500:]})
    elif idx:
        i = min(idx, key=lambda k: len(lines[k]))
        violation(ctx, "corr_%d.json" % ctx.seed,
                  {"kind": "correspondence-broken", "theorems_no_longer_tied": [t["name"] for t in ths],
                   "op": lines[i], "c_output": a[i], "model_output": b[i], "count": len(idx), "stderr": (err_c + err_m)[-1500:]},
                  no_failing_input=True)
    distinct = set()
    ops = {}
    for l, o in zip(lines, a):
        t = l.split(" ")
        ops[t[0] + ":" + t[1]] = ops.get(t[0] + ":" + t[1], 0) + 1
        if t[2] != "_" and "," in t[2]:
            distinct.add(structural_hash(l))
    ctx.cov.update({
        "evaluations": len(lines), "distinct_nontrivial": len(distinct),
        "rule": "sort: ALL sequences of length <= N over a 4-symbol alphabet per key kind (N=6/4 quick, 8/6 thorough; exhaustive part = %d lines), "
                "random vectors up to 700 elements with duplicates/MIN/MAX/sorted/reversed, strings with prefixes, high bytes and embedded NUL; "
                "find on sorted vectors for present/absent/neighbour keys; scan/rscan for all (begin,end) incl. begin>=end, end>len, sentinel. "
                "element-for-element comparison with the model (payloads distinguish equal keys). non-trivial = at least 2 elements; distinct by line hash." % nexh,
        "exhaustive_part_lines": nexh,
        "traces_validated_against_impl": len(lines),
        "correspondence_disagreements": len(idx), "spec_oracle_failures": len(spec_fail), "ops": ops})
    ctx.samples = [{"op": lines[i][:300], "c": a[i][:300], "model": b[i][:300]} for i in
                   [5, nexh // 2, nexh + 3, len(lines) // 2, len(lines) - 1] if i < len(lines)]
    ctx.notes = ["string-key order theorem is for NUL-free keys; keys with embedded NUL are compared with the model's strncmp semantics only",
                 "float keys are not exercised (NaN breaks the strict-weak-order premise)",
                 "recursive table sort (codegen_c_sorter.c) is exercised only through the per-vector sort functions"]
    finish(ctx, ths)
