"""C19 — number <-> text exact and range-checked. Model: lean/FlatccModel/Num.lean; theorems Props/C19.lean."""
import struct
from vlib import *

TYPES = {"u8": (0, 2**8 - 1), "u16": (0, 2**16 - 1), "u32": (0, 2**32 - 1), "u64": (0, 2**64 - 1),
         "i8": (-2**7, 2**7 - 1), "i16": (-2**15, 2**15 - 1), "i32": (-2**31, 2**31 - 1), "i64": (-2**63, 2**63 - 1)}


def hx(s):
    return s.encode("latin1").hex() if s else "-"


def spec_ji(ty, text):
    """Independent oracle (Python big ints) for what the property demands of scanning `text` as `ty`.
    Returns a set of acceptable outputs, or None when the property does not constrain the case."""
    i = 0
    neg = text.startswith("-")
    if neg:
        i = 1
    j = i
    while j < len(text) and text[j].isdigit() and text[j] in "0123456789":
        j += 1
    if j == i:
        return None                       # no digits: not an integer text; behaviour not constrained by C19
    nxt = text[j] if j < len(text) else ""
    if nxt in (".", "e", "E"):
        return {"float", "range"}         # never accepted as an integer
    v = int(text[i:j])
    if neg:
        v = -v
    if ty == "bool":
        return None
    lo, hi = TYPES[ty]
    if lo <= v <= hi:
        if neg and v == 0 and ty[0] == "u":
            return {"range"}              # "-0" for unsigned: the code rejects any sign
        return {"ok %d %d" % (v, j)}
    return {"range"}


def gen(ctx):
    r = ctx.rng
    L = []
    # printing: exhaustive 8/16-bit
    for v in range(256): L.append("num pu 8 %d" % v)
    for v in range(-128, 128): L.append("num pi 8 %d" % v)
    step16 = 1 if not ctx.quick() else 1
    for v in range(0, 65536, step16): L.append("num pu 16 %d" % v)
    for v in range(-32768, 32768, step16): L.append("num pi 16 %d" % v)
    grid = set()
    for k in range(0, 65):
        for d in (-2, -1, 0, 1, 2):
            grid.add(2**k + d)
    for k in range(0, 21):
        for d in (-2, -1, 0, 1, 2):
            grid.add(10**k + d); grid.add(10**k * 9 + d); grid.add(10**k * 5 + d)
    nrand = 3000 if ctx.quick() else 200000
    for _ in range(nrand):
        bits = r.choice([1, 8, 16, 24, 31, 32, 33, 40, 48, 56, 62, 63, 64])
        grid.add(r.getrandbits(bits))
    for v in sorted(grid):
        if 0 <= v < 2**32: L.append("num pu 32 %d" % v)
        if 0 <= v < 2**64: L.append("num pu 64 %d" % v)
        for s in (v, -v):
            if -2**31 <= s < 2**31: L.append("num pi 32 %d" % s)
            if -2**63 <= s < 2**63: L.append("num pi 64 %d" % s)
    # scanning
    texts = set()
    terms = ["", ",", " ", "}", "]", "\n", "x", ":", "\"", "e", "E", ".", "e5", ".5", "-", "+", "\x00", "\xff", "/"]
    def add(t):
        texts.add(t)
    bvals = set()
    for ty, (lo, hi) in TYPES.items():
        for d in range(-3, 4):
            bvals.add(lo + d); bvals.add(hi + d)
    for d in range(-3, 4):
        bvals.add(d); bvals.add(2**64 + d); bvals.add(-2**64 + d); bvals.add(10 * 2**64 + d)
    # the wrap windows of the pre-repair loop and other 20..25 digit values
    for v in (20500000000000000000, 18446744073709551616, 18446744073709551620, 27670116110564327424,
              36893488147419103231, 36893488147419103232, 99999999999999999999, 100000000000000000000,
              184467440737095516150, 184467440737095516159, 184467440737095516160, 1844674407370955161500000):
        bvals.add(v); bvals.add(-v)
    for v in bvals:
        s = str(v)
        for t in terms:
            add(s + t)
        add(("-" if v < 0 else "") + "0" * r.randint(1, 30) + str(abs(v)))
    for _ in range(2000 if ctx.quick() else 100000):
        nd = r.choice([1, 2, 3, 5, 10, 15, 18, 19, 20, 20, 20, 21, 22, 25, 30])
        s = "".join(r.choice("0123456789") for _ in range(nd))
        if r.random() < 0.3: s = "-" + s
        if r.random() < 0.3: s = s[:1].replace("-", "-") + s[1:]
        add(s + r.choice(terms))
    for _ in range(500 if ctx.quick() else 20000):   # 20-digit neighbourhood of 2^64 multiples
        base = r.randint(1, 9) * 2**64 + r.randint(-20, 20) + r.choice([0, 0, r.randint(0, 2**64)])
        add(str(base) + r.choice(terms))
    for _ in range(500 if ctx.quick() else 5000):    # malformed stream
        n = r.randint(0, 6)
        add("".join(r.choice("-+0123456789.eE x,\x00\xff") for _ in range(n)))
    add("")
    tys = list(TYPES) + ["bool"]
    scan_lines = []
    for t in sorted(texts):
        for ty in (tys if len(t) < 30 else r.sample(tys, 3)):
            scan_lines.append(("num ji %s %s" % (ty, hx(t)), ty, t))
    L2 = [s[0] for s in scan_lines]
    return L, scan_lines


def float_cases(ctx):
    r = ctx.rng
    f32 = set([0, 1, 0x80000000, 0x00800000, 0x007fffff, 0x7f7fffff, 0x3f800000, 0x00000001, 0xff7fffff, 0x3dcccccd])
    f64 = set([0, 1, 0x8000000000000000, 0x0010000000000000, 0x000fffffffffffff, 0x7fefffffffffffff,
               0x3ff0000000000000, 0x3fb999999999999a, 0x4340000000000000, 0x433fffffffffffff])
    n = 20000 if ctx.quick() else 2000000
    for _ in range(n):
        f32.add(r.getrandbits(32)); f64.add(r.getrandbits(64))
    for e in range(0, 2047):
        for m in (0, 1, (1 << 52) - 1):
            f64.add((e << 52) | m)
    # denormals of every width (a random 64-bit pattern is a denormal once in 2048): powers of two, their neighbours, random mantissas of every length
    for k in range(0, 52):
        f64.update([1 << k, (1 << k) + 1, (1 << (k + 1)) - 1, (1 << 63) | (1 << k)])
        for _ in range(40 if ctx.quick() else 2000):
            f64.add((1 << k) | r.getrandbits(k))
    for k in range(0, 23):
        f32.update([1 << k, (1 << k) + 1, (1 << (k + 1)) - 1])
    for e in range(0, 255):
        for m in (0, 1, (1 << 23) - 1):
            f32.add((e << 23) | m)
    for k in range(-30, 40):
        for d in (0.0,):
            f64.add(struct.unpack("<Q", struct.pack("<d", 10.0 ** k))[0])
            f32.add(struct.unpack("<I", struct.pack("<f", 10.0 ** max(min(k, 38), -37)))[0])
    f32 = [b for b in f32 if (b & 0x7f800000) != 0x7f800000]
    f64 = [b for b in f64 if (b & 0x7ff0000000000000) != 0x7ff0000000000000]
    return f32, f64


def run(ctx):
    ths = proof_stage(ctx)
    if ths is None:
        finish(ctx, [])
    objs = build_runtime_objs(ctx)
    h = build_harness(ctx, "h_num", [os.path.join(VERIF, "harness/h_num.c")], objs)
    plines, scan = gen(ctx)
    lines = plines + [s[0] for s in scan]
    rc_c, out_c, err_c = run_parallel(h, lines, 8)
    rc_m, out_m, err_m = run_parallel(FMODEL, lines, 8)
    idx, a, b = diff_streams(lines, out_c, out_m)
    # spec oracle on the C output, independent of the model
    spec_fail = []
    np_ = len(plines)
    for i, l in enumerate(plines):
        want = l.split(" ")[3]
        if a[i] != want:
            spec_fail.append((i, "print: expected %s" % want))
    for k, (l, ty, t) in enumerate(scan):
        acc = spec_ji(ty, t)
        if acc is not None and a[np_ + k] not in acc:
            spec_fail.append((np_ + k, "scan: expected one of %s" % sorted(acc)))
    if rc_c != 0 and not spec_fail and not idx:
        violation(ctx, "harness_crash.json", {"kind": "c-harness-abnormal-exit", "rc": rc_c, "stderr": err_c[-3000:]})
    if spec_fail:
        i, why = spec_fail[0]
        violation(ctx, "spec_%d.json" % ctx.seed,
                  {"kind": "property-fails-on-implementation", "op": lines[i], "c_output": a[i], "model_output": b[i],
                   "why": why, "count": len(spec_fail), "stderr": err_c[-1500:],
                   "replay": "echo '%s' | _work/C19/h_num  (build: tools/check.py C19 with VERIF_KEEP_WORK=1)" % lines[i]})
    elif idx:
        i = idx[0]
        violation(ctx, "corr_%d.json" % ctx.seed,
                  {"kind": "correspondence-broken", "theorems_no_longer_tied": [t["name"] for t in ths],
                   "op": lines[i], "c_output": a[i], "model_output": b[i], "count": len(idx)},
                  no_failing_input=True)
    # floats: implementation-only evidence (no model): print -> parse must be bit exact.
    # Built without UBSan: grisu3_parse.h shifts an `int` error term by up to 63 (`error <<= -v.e`), which UBSan
    # aborts on although the term is 0 there; C19 constrains the returned values, which this run compares.
    hf = build_harness(ctx, "h_num_fl", [os.path.join(VERIF, "harness/h_num.c")],
                       build_runtime_objs(ctx, flags=["-O1", "-g", "-fsanitize=address"], tag="rt_asan"),
                       flags=["-O1", "-g", "-fsanitize=address"])
    f32, f64 = float_cases(ctx)
    fl = ["num fl32 x %08x" % x for x in f32] + ["num fl64 x %016x" % x for x in f64]
    rc_f, out_f, err_f = run_parallel(hf, fl, 8)
    fbad = []
    for l, o in zip(fl, out_f + ["<no-output>"] * (len(fl) - len(out_f))):
        parts = o.split(" ")
        if len(parts) != 3 or parts[1] != l.split(" ")[3] or parts[2] != "1":
            fbad.append((l, o))
    swept = 0
    if not ctx.quick():
        # small chunks: the harness has a 30 s watchdog per operation, and a loaded machine must not turn a slow chunk into a failure
        chunk = 2**32 // 2048
        sw = ["num flrange32 x %d %d" % (i * chunk, chunk) for i in range(2048)]
        with ThreadPoolExecutor(16) as ex:
            rs = list(ex.map(lambda l: run_lines(hf, [l], 3000), sw))
        for l, (rc, o, e) in zip(sw, rs):
            m = re.match(r"tested (\d+) bad (\d+) first (\w+)", o[0] if o else "")
            if not m:
                fbad.append((l, "no output: " + e[-300:]))
            else:
                swept += int(m.group(1))
                if int(m.group(2)):
                    fbad.append(("num fl32 x " + m.group(3), "bad=%s in sweep" % m.group(2)))
    if fbad:
        violation(ctx, "float_%d.json" % ctx.seed,
                  {"kind": "property-fails-on-implementation", "op": fbad[0][0], "c_output": fbad[0][1],
                   "why": "float print->parse not bit exact", "count": len(fbad), "stderr": err_f[-3000:]})
    distinct = set()
    for l, o in zip(lines, a):
        distinct.add((l.split(" ")[1], l.split(" ")[2], o.split(" ")[0], len(l)))
    kinds = {}
    for o in a[np_:]:
        kinds[o.split(" ")[0]] = kinds.get(o.split(" ")[0], 0) + 1
    ctx.cov.update({
        "evaluations": len(lines) + len(fl) + swept,
        "distinct_nontrivial": len(distinct),
        "rule": "print ops: all 8/16-bit values, boundary grid (2^k, 10^k, 5*10^k, 9*10^k +-2) and random 32/64-bit; "
                "scan ops: boundary values of every type +-3 with 19 terminators, leading zeros, 20..30 digit texts around "
                "multiples of 2^64, malformed texts; each text scanned as every field type. distinct = (op, type, result class, length).",
        "traces_validated_against_impl": len(lines),
        "correspondence_disagreements": len(idx),
        "spec_oracle_failures": len(spec_fail),
        "scan_result_classes": kinds,
        "float_roundtrips_impl_only": len(fl) + swept,
        "float32_exhaustive": swept > 0,
        "float_failures": len(fbad),
    })
    ctx.samples = [{"op": lines[i], "c": a[i], "model": b[i]} for i in
                   [0, 300, np_ - 1, np_, np_ + len(scan) // 3, np_ + len(scan) // 2, len(lines) - 1] if i < len(lines)]
    ctx.notes = ["floats: no theorem (grisu3/strtod not modelled); bit-exact print->parse observed on the implementation only",
                 "integer theorems are about the Lean model; the model is tied to the C code by this run's differential execution"]
    finish(ctx, ths)
