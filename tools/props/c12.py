"""C12 — emit calls form one contiguous stream; the default emitter returns it intact.
Model: Emitter.lean (content model of the page ring); theorems Props/C12.lean."""
from vlib import *

PAGE = 2944


def gen(ctx):
    r = ctx.rng
    L = []
    half = PAGE // 2
    # residue sweep: front/back split at every page-boundary residue for totals up to N pages
    residues = range(0, PAGE, 7 if ctx.quick() else 1)
    for res in residues:
        f = half - 3 + res % 9 + (res // 9) * 0      # around the first front boundary
        L.append("emit f%d,c,b%d,c,f%d,c,b%d,c" % (res, PAGE - res, half + res, half - 1 + res % 3))
    for res in (range(0, PAGE, 97) if ctx.quick() else range(0, PAGE, 3)):
        L.append("emit b%d,f%d,c,f%d,c,b%d,c,R,c,f%d,b%d,c" % (res, PAGE - res + 1, PAGE, PAGE * 2 + res, res + 1, PAGE * 3 - res))
    # random histories: many small calls, multi-piece iovs, boundaries, reset/clear and reuse
    for _ in range(300 if ctx.quick() else 6000):
        ops = []
        for _ in range(r.choice([3, 10, 40, 120])):
            c = r.random()
            if c < 0.8:
                npieces = r.choice([1, 1, 1, 2, 3, 8])
                sizes = []
                for _ in range(npieces):
                    m = r.random()
                    sizes.append(r.choice([0, 1, 2, 4, 8]) if m < 0.3 else r.randint(1, 64) if m < 0.7 else r.choice([half - 1, half, half + 1, PAGE - 1, PAGE, PAGE + 1, 2 * PAGE + 5, r.randint(1, 4 * PAGE)]))
                ops.append(("f" if r.random() < 0.6 else "b") + "+".join(str(x) for x in sizes))
            elif c < 0.9:
                ops.append("c")
            elif c < 0.94:
                ops.append("k%d" % r.choice([0, 1, 100, PAGE, 2 * PAGE, 100000]))
            elif c < 0.99:
                ops.append("R")
            else:
                ops.append("C")
        ops.append("c")
        L.append("emit " + ",".join(ops))
    L += ["emit c", "emit f0,c", "emit b0,c,f0,c", "emit R,c,C,c", "emit f%d,c,b%d,c" % (half, PAGE - half), "emit f%d,c" % (half + 1), "emit b%d,c" % (PAGE - half + 1)]
    return L


def spec(line, out):
    """independent oracle: replay the history on a plain byte string"""
    ops = line.split(" ")[1].split(",")
    res = out.split(" ")
    if len(res) != len(ops) + 1:
        return "wrong number of results"
    stream = b""
    ctr = 0
    started = False
    def gen_bytes(n):
        nonlocal ctr
        b = bytes(((ctr + i) * 131 + 7) % 251 for i in range(n)); ctr += n; return b
    def fnv(b):
        h = 2166136261
        for x in b: h = ((h ^ x) * 16777619) & 0xffffffff
        return "%08x" % h
    for o, r_ in zip(ops, res):
        if o[0] in "fb":
            n = sum(int(x) for x in o[1:].split("+"))
            d = gen_bytes(n)
            stream = d + stream if o[0] == "f" else stream + d
            if n: started = True
            if r_ != "0": return "emit call failed"
        elif o == "c" or o[0] == "k":
            size = len(stream)
            bufsize = size if o == "c" else int(o[1:])
            f = dict(x.split("=", 1) for x in r_.split(";")) if False else None
            parts = dict(p.split("=", 1) for p in (out.split(" ")[ops.index(o)] if False else r_).replace("size=", "size=").split("|")) if False else None
            # result format: size=N direct=... copy=...  (space separated => three tokens) -- handled below
        elif o == "R":
            stream = b""
        elif o == "C":
            stream = b""; started = False
    return None


def spec_tokens(line, out):
    ops = line.split(" ")[1].split(",")
    toks = out.split(" ")
    stream = b""; ctr = 0
    def fnv(b):
        h = 2166136261
        for x in b: h = ((h ^ x) * 16777619) & 0xffffffff
        return "%08x" % h
    i = 0
    for o in ops:
        if i >= len(toks): return "missing output"
        if o[0] in "fb":
            n = sum(int(x) for x in o[1:].split("+"))
            d = bytes(((ctr + j) * 131 + 7) % 251 for j in range(n)); ctr += n
            stream = d + stream if o[0] == "f" else stream + d
            if toks[i] != "0": return "emit call failed: " + toks[i]
            i += 1
        elif o == "c" or o[0] == "k":
            size = len(stream); bufsize = size if o == "c" else int(o[1:])
            s, d, c = toks[i:i + 3]; i += 3
            if "OVERRUN" in out: return "copy_buffer wrote past the caller's buffer"
            if s != "size=%d" % size: return "reported size %s, stream has %d bytes" % (s, size)
            if d != "direct=n" and d != "direct=y:%d:%s" % (size, fnv(stream)): return "direct buffer differs from the stream"
            if c == "copy=null":
                if bufsize >= size and size > 0: return "copy_buffer failed although the buffer is large enough"
            else:
                if bufsize < size: return "copy_buffer succeeded into a too small buffer"
                if "MOVED" in c: return "copy_buffer did not return the caller's pointer"
                if c != "copy=ok:" + fnv(stream): return "copied bytes differ from the emitted stream"
        elif o in ("R", "C"):
            stream = b""; i += 1
        else:
            i += 1
    return None


def iov_stage(ctx, rt):
    """the pieces of every emit call (Props/C12_Iov.lean): each create_* function of the runtime called once after `fill` bytes at the front
    (every residue mod 8), recorded by the wrapper emitter, vs the model's piece lists; spec: non-empty pieces, 1..IOV_COUNT_MAX, sum = length"""
    r = random.Random(ctx.seed * 53 + 12)
    hb = build_harness(ctx, "h_build", [os.path.join(VERIF, "harness/h_build.c")], rt)
    lines = []
    n = 40 if ctx.quick() else 600
    for _ in range(n):
        fill = r.choice([0, 1, 2, 3, 4, 5, 6, 7, 8, 9, 15, 16, 17, 31]); cl = r.randrange(2)
        hexd = lambda k: bytes(r.randrange(256) for _ in range(k)).hex() or "-"
        lines.append("iov %d %d str %s" % (fill, cl, hexd(r.choice([0, 1, 2, 3, 4, 5, 7, 8, 20]))))
        esz = r.choice([1, 2, 4, 8, 3, 12]); al = r.choice([1, 2, 4, 8, 16, 64])
        lines.append("iov %d %d vec %d %d %s" % (fill, cl, esz, al, hexd(esz * r.choice([0, 1, 2, 5]))))
        lines.append("iov %d %d ovec %d" % (fill or 4, cl, r.choice([0, 1, 2, 3, 7])))      # the elements refer to the filler object: null elements are not allowed here
        lines.append("iov %d %d struct %d %s" % (fill, cl, r.choice([1, 2, 4, 8, 16]), hexd(r.choice([1, 2, 3, 4, 6, 8, 12, 24]))))
        ne = r.choice([0, 1, 2, 3, 5]); vt = [4 + 2 * ne, 4 + r.randrange(0, 40, 2)] + [r.choice([0, 4, 8]) for _ in range(ne)]
        lines.append("iov %d %d vt %s" % (fill, cl, b"".join(x.to_bytes(2, "little") for x in vt).hex()))
    rc, c_out, err = run_parallel(hb, lines, 8)
    rc, m_out, _ = run_parallel(FMODEL, lines, 8)
    spec, corr = [], []
    imax = 8
    m = re.search(r"def iovCountMax : Nat := (\d+)", open(os.path.join(LEAN, "FlatccModel", "Generated", "Consts.lean")).read())
    if m: imax = int(m.group(1))
    for l, co, mo in zip(lines, c_out, m_out):
        t = co.split(" ")
        if t[0] != "ok" or len(t) < 2 or t[1] == "-":
            spec.append((l, "create call failed or made no emit call: " + co[:100])); continue
        for call in t[1].split(","):
            mm = re.match(r"([FB])(\d+):([\d+]*)$", call)
            ps = [int(x) for x in mm.group(3).split("+")] if mm and mm.group(3) else []
            if not mm or not (1 <= len(ps) <= imax) or any(p <= 0 for p in ps) or sum(ps) != int(mm.group(2)):
                spec.append((l, "emit call `%s`: pieces must be non-empty, between 1 and %d, and sum to the stated length" % (call, imax)))
        if co != mo: corr.append((l, co, mo))
    return {"iov_unit_calls": len(lines)}, spec, corr


def run(ctx):
    ths = proof_stage(ctx)
    if ths is None:
        finish(ctx, [])
    flatcc, _ = build_flatcc(ctx)
    gen_dir = os.path.join(ctx.work, "gen")
    for f in ("a", "b"):
        rc, log = flatcc_generate(ctx, flatcc, os.path.join(VERIF, "harness/evo/%s.fbs" % f), gen_dir, opts=("-a", "--json-printer"))
        if rc != 0:
            raise BuildError("flatcc failed on harness/evo/%s.fbs: %s" % (f, log))
    rt = build_runtime_objs(ctx)
    h = build_harness(ctx, "h_emit", [os.path.join(VERIF, "harness/h_emit.c")], [o for o in rt if o.endswith("emitter.o")])
    hrec = build_harness(ctx, "emitrec", [os.path.join(VERIF, "harness/evo/emitrec.c")], rt, incs=[gen_dir, os.path.join(VERIF, "harness/evo")])
    lines = gen(ctx)
    rc_c, out_c, err_c = run_parallel(h, lines, 16, timeout=1800)
    rc_m, out_m, err_m = run_parallel(FMODEL, lines, 16, timeout=3000)
    idx, a, b = diff_streams(lines, out_c, out_m)
    spec_fail = [(i, w) for i, w in ((i, spec_tokens(l, a[i])) for i, l in enumerate(lines)) if w]
    # builder histories through a recording emitter
    rc_r, out_r, err_r = sh([hrec, "400" if ctx.quick() else "16384", "131" if ctx.quick() else "1"], timeout=1800, env=ASAN_ENV)
    rec_fail = [l for l in out_r.split("\n") if l.startswith("BAD") or l.startswith("MISMATCH")]
    summ = [l for l in out_r.split("\n") if l.startswith("histories=")]
    if rc_r != 0 or not summ:
        rec_fail.append("recording-emitter program failed rc=%d %s" % (rc_r, err_r[-800:]))
    if spec_fail or rec_fail:
        if spec_fail:
            i, why = min(spec_fail, key=lambda t: len(lines[t[0]]))
            payload = {"kind": "property-fails-on-implementation", "op": lines[i][:5000], "c_output": a[i][:3000], "model_output": b[i][:3000], "why": why, "count": len(spec_fail), "stderr": err_c[-1000:]}
        else:
            payload = {"kind": "property-fails-on-implementation", "why": rec_fail[0], "all": rec_fail[:20], "replay": "harness/evo/emitrec.c"}
        violation(ctx, "spec_%d.json" % ctx.seed, payload)
    elif idx:
        i = min(idx, key=lambda k: len(lines[k]))
        violation(ctx, "corr_%d.json" % ctx.seed, {"kind": "correspondence-broken", "theorems_no_longer_tied": [t["name"] for t in ths],
                                                     "op": lines[i][:5000], "c_output": a[i][:3000], "model_output": b[i][:3000], "count": len(idx)}, no_failing_input=True)
    iov_stats, iov_spec, iov_corr = iov_stage(ctx, rt)
    if iov_spec:
        violation(ctx, "iov_spec_%d.json" % ctx.seed, {"kind": "property-fails-on-implementation", "op": iov_spec[0][0], "why": iov_spec[0][1], "count": len(iov_spec)})
    elif iov_corr:
        violation(ctx, "iov_corr_%d.json" % ctx.seed, {"kind": "correspondence-broken", "theorems_no_longer_tied": [t["name"] for t in ths if "iov" in t["name"]],
                                                         "op": iov_corr[0][0], "c_output": iov_corr[0][1], "model_output": iov_corr[0][2], "count": len(iov_corr)}, no_failing_input=True)
    ctx.cov.update(iov_stats)
    nops = sum(l.count(",") + 1 for l in lines)
    ctx.cov.update({"evaluations": nops, "distinct_nontrivial": len(set(lines)),
                    "rule": "default emitter: front/back split at page-boundary residues (every 7th residue quick, every residue thorough) for totals up to 4 pages, "
                            "random histories of up to 120 calls with 1..8 iov pieces (empty pieces, sizes around half page / page / several pages), copy into "
                            "exact / too small / large buffers, direct access, reset and clear with reuse; each history compared with the model (content hash, "
                            "size, direct availability, capacity) and with a plain byte-string replay. Builder side: %s" % (summ[0] if summ else "n/a"),
                    "histories": len(lines), "recording_emitter": summ[0] if summ else None,
                    "traces_validated_against_impl": len(lines), "correspondence_disagreements": len(idx), "spec_oracle_failures": len(spec_fail) + len(rec_fail)})
    ctx.samples = [{"op": lines[i][:200], "c": a[i][:300], "model": b[i][:300]} for i in (0, len(lines) // 2, len(lines) - 1)]
    ctx.notes = ["contiguity of the builder's emit calls: Props/C12_Builder.lean (every history of builder operations tiles one range); pieces per call: Props/C12_Iov.lean; "
                 "both tied by the recorded emit calls / piece lengths of the real builder",
                 "the emitter model represents page contents, not byte positions inside a page; finalize / aligned finalize go through copy_buffer in builder.c and are exercised by the recording run"]
    finish(ctx, ths)
