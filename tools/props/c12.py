"""C12 — emit calls form one contiguous stream; the default emitter returns it intact.
Model: Emitter.lean (content model of the page ring); theorems Props/C12.lean."""
from vlib import *

PAGE = 2944


def gen(ctx):
    r = ctx.rng
    L = []
    half = PAGE // 2
    # residue sweep: front/back split at every page-boundary residue for totals up to N pages
    residues = range(0, PAGE, 7 if ctx.quick() else 1)
    for res in residues:
        f = half - 3 + res % 9 + (res // 9) * 0      # around the first front boundary
        L.append("emit f%d,c,b%d,c,f%d,c,b%d,c" % (res, PAGE - res, half + res, half - 1 + res % 3))
    for res in (range(0, PAGE, 97) if ctx.quick() else range(0, PAGE, 3)):
        L.append("emit b%d,f%d,c,f%d,c,b%d,c,R,c,f%d,b%d,c" % (res, PAGE - res + 1, PAGE, PAGE * 2 + res, res + 1, PAGE * 3 - res))
    # random histories: many small calls, multi-piece iovs, boundaries, reset/clear and reuse
    for _ in range(300 if ctx.quick() else 6000):
        ops = []
        for _ in range(r.choice([3, 10, 40, 120])):
            c = r.random()
            if c < 0.8:
                npieces = r.choice([1, 1, 1, 2, 3, 8])
                sizes = []
                for _ in range(npieces):
                    m = r.random()
                    sizes.append(r.choice([0, 1, 2, 4, 8]) if m < 0.3 else r.randint(1, 64) if m < 0.7 else r.choice([half - 1, half, half + 1, PAGE - 1, PAGE, PAGE + 1, 2 * PAGE + 5, r.randint(1, 4 * PAGE)]))
                ops.append(("f" if r.random() < 0.6 else "b") + "+".join(str(x) for x in sizes))
            elif c < 0.9:
                ops.append("c")
            elif c < 0.94:
                ops.append("k%d" % r.choice([0, 1, 100, PAGE, 2 * PAGE, 100000]))
            elif c < 0.99:
                ops.append("R")
            else:
                ops.append("C")
        ops.append("c")
        L.append("emit " + ",".join(ops))
    L += ["emit c", "emit f0,c", "emit b0,c,f0,c", "emit R,c,C,c", "emit f%d,c,b%d,c" % (half, PAGE - half), "emit f%d,c" % (half + 1), "emit b%d,c" % (PAGE - half + 1)]
    return L


def spec(line, out):
    """independent oracle: replay the history on a plain byte string"""
    ops = line.split(" ")[1].split(",")
    res = out.split(" ")
    if len(res) != len(ops) + 1:
        return "wrong number of results"
    stream = b""
    ctr = 0
    started = False
    def gen_bytes(n):
        nonlocal ctr
        b = bytes(((ctr + i) * 131 + 7) % 251 for i in range(n)); ctr += n; return b
    def fnv(b):
        h = 2166136261
        for x in b: h = ((h ^ x) * 16777619) & 0xffffffff
        return "%08x" % h
    for o, r_ in zip(ops, res):
        if o[0] in "fb":
            n = sum(int(x) for x in o[1:].split("+"))
            d = gen_bytes(n)
            stream = d + stream if o[0] == "f" else stream + d
            if n: started = True
            if r_ != "0": return "emit call failed"
        elif o == "c" or o[0] == "k":
            size = len(stream)
            bufsize = size if o == "c" else int(o[1:])
            f = dict(x.split("=", 1) for x in r_.split(";")) if False else None
            parts = dict(p.split("=", 1) for p in (out.split(" ")[ops.index(o)] if False else r_).replace("size=", "size=").split("|")) if False else None
            # result format: size=N direct=... copy=...  (space separated => three tokens) -- handled below
        elif o == "R":
            stream = b""
        elif o == "C":
            stream = b""; started = False
    return None


def spec_tokens(line, out):
    ops = line.split(" ")[1].split(",")
    toks = out.split(" ")
    stream = b""; ctr = 0
    def fnv(b):
        h = 2166136261
        for x in b: h = ((h ^ x) * 16777619) & 0xffffffff
        return "%08x" % h
    i = 0
    for o in ops:
        if i >= len(toks): return "missing output"
        if o[0] in "fb":
            n = sum(int(x) for x in o[1:].split("+"))
            d = bytes(((ctr + j) * 131 + 7) % 251 for j in range(n)); ctr += n
            stream = d + stream if o[0] == "f" else stream + d
            if toks[i] != "0": return "emit call failed: " + toks[i]
            i += 1
        elif o == "c" or o[0] == "k":
            size = len(stream); bufsize = size if o == "c" else int(o[1:])
            s, d, c = toks[i:i + 3]; i += 3
            if "OVERRUN" in out: return "copy_buffer wrote past the caller's buffer"
            if s != "size=%d" % size: return "reported size %s, stream has %d bytes" % (s, size)
            if d != "direct=n" and d != "direct=y:%d:%s" % (size, fnv(stream)): return "direct buffer differs from the stream"
            if c == "copy=null":
                if bufsize >= size and size > 0: return "copy_buffer failed although the buffer is large enough"
            else:
                if bufsize < size: return "copy_buffer succeeded into a too small buffer"
                if "MOVED" in c: return "copy_buffer did not return the caller's pointer"
                if c != "copy=ok:" + fnv(stream): return "copied bytes differ from the emitted stream"
        elif o in ("R", "C"):
            stream = b""; i += 1
        else:
            i += 1
    return None


def run(ctx):
    ths = proof_stage(ctx)
    if ths is None:
        finish(ctx, [])
    flatcc, _ = build_flatcc(ctx)
    gen_dir = os.path.join(ctx.work, "gen")
    for f in ("a", "b"):
        rc, log = flatcc_generate(ctx, flatcc, os.path.join(VERIF, "harness/evo/%s.fbs" % f), gen_dir, opts=("-a", "--json-printer"))
        if rc != 0:
            raise BuildError("flatcc failed on harness/evo/%s.fbs: %s" % (f, log))
    rt = build_runtime_objs(ctx)
    h = build_harness(ctx, "h_emit", [os.path.join(VERIF, "harness/h_emit.c")], [o for o in rt if o.endswith("emitter.o")])
    hrec = build_harness(ctx, "emitrec", [os.path.join(VERIF, "harness/evo/emitrec.c")], rt, incs=[gen_dir, os.path.join(VERIF, "harness/evo")])
    lines = gen(ctx)
    rc_c, out_c, err_c = run_parallel(h, lines, 16, timeout=1800)
    rc_m, out_m, err_m = run_parallel(FMODEL, lines, 16, timeout=3000)
    idx, a, b = diff_streams(lines, out_c, out_m)
    spec_fail = [(i, w) for i, w in ((i, spec_tokens(l, a[i])) for i, l in enumerate(lines)) if w]
    # builder histories through a recording emitter
    rc_r, out_r, err_r = sh([hrec, "400" if ctx.quick() else "16384", "131" if ctx.quick() else "1"], timeout=1800, env=ASAN_ENV)
    rec_fail = [l for l in out_r.split("\n") if l.startswith("BAD") or l.startswith("MISMATCH")]
    summ = [l for l in out_r.split("\n") if l.startswith("histories=")]
    if rc_r != 0 or not summ:
        rec_fail.append("recording-emitter program failed rc=%d %s" % (rc_r, err_r[-800:]))
    if spec_fail or rec_fail:
        if spec_fail:
            i, why = min(spec_fail, key=lambda t: len(lines[t[0]]))
            payload = {"kind": "property-fails-on-implementation", "op": lines[i][:5000], "c_output": a[i][:3000], "model_output": b[i][:3000], "why": why, "count": len(spec_fail), "stderr": err_c[-1000:]}
        else:
            payload = {"kind": "property-fails-on-implementation", "why": rec_fail[0], "all": rec_fail[:20], "replay": "harness/evo/emitrec.c"}
        violation(ctx, "spec_%d.json" % ctx.seed, payload)
    elif idx:
        i = min(idx, key=lambda k: len(lines[k]))
        violation(ctx, "corr_%d.json" % ctx.seed, {"kind": "correspondence-broken", "theorems_no_longer_tied": [t["name"] for t in ths],
                                                     "op": lines[i][:5000], "c_output": a[i][:3000], "model_output": b[i][:3000], "count": len(idx)}, no_failing_input=True)
    nops = sum(l.count(",") + 1 for l in lines)
    ctx.cov.update({"evaluations": nops, "distinct_nontrivial": len(set(lines)),
                    "rule": "default emitter: front/back split at page-boundary residues (every 7th residue quick, every residue thorough) for totals up to 4 pages, "
                            "random histories of up to 120 calls with 1..8 iov pieces (empty pieces, sizes around half page / page / several pages), copy into "
                            "exact / too small / large buffers, direct access, reset and clear with reuse; each history compared with the model (content hash, "
                            "size, direct availability, capacity) and with a plain byte-string replay. Builder side: %s" % (summ[0] if summ else "n/a"),
                    "histories": len(lines), "recording_emitter": summ[0] if summ else None,
                    "traces_validated_against_impl": len(lines), "correspondence_disagreements": len(idx), "spec_oracle_failures": len(spec_fail) + len(rec_fail)})
    ctx.samples = [{"op": lines[i][:200], "c": a[i][:300], "model": b[i][:300]} for i in (0, len(lines) // 2, len(lines) - 1)]
    ctx.notes = ["contiguity of the builder's emit calls (first half of the property) is checked by the recording emitter on builder histories, not proved (no builder model yet)",
                 "the emitter model represents page contents, not byte positions inside a page; finalize / aligned finalize go through copy_buffer in builder.c and are exercised by the recording run"]
    finish(ctx, ths)
