"""C20 — the binary schema is a faithful, searchable reflection of the schema.
Model: Layout.lean (struct layout, field ids — theorems of C07), Find.lean (binary search: a sorted vector's find returns each key); Props/C20.lean.
Tie: for random schemas the binary schema produced by the current compiler is dumped through the reflection reader and compared field
by field with an independent rendering of the schema (names, ids, vtable offsets, struct offsets/sizes/alignments from the Lean layout
model, base types, element types, type indices, fixed lengths, defaults, flags, enum values, union members, root type); every name /
value is looked up with the generated *_vec_find; both in-memory paths with exact / larger / too-small buffers, the --schema file
output, with and without length prefix and qualified names."""
import math, struct
import schemagen
from vlib import *
from props import c07

BT = dict(none=0, utype=1, bool=2, byte=3, ubyte=4, short=5, ushort=6, int=7, uint=8, long=9, ulong=10, float=11, double=12, string=13, vector=14, obj=15, union=16, array=17)


def expected(S, qualify, layouts):
    """independent rendering of what the reflection must say. Returns (objects, enums, root)"""
    ns = S["namespace"]
    q = (lambda n: (ns + "." + n) if (ns and qualify) else n)
    objects, enums = {}, {}
    # enum + union tables share one index space sorted by name; objects (tables+structs) another
    enum_names = sorted([q(e["name"]) for e in S["enums"]] + [q(u["name"]) for u in S["unions"]], key=lambda s: s.encode())
    obj_names = sorted([q(t["name"]) for t in S["tables"]] + [q(s["name"]) for s in S["structs"]], key=lambda s: s.encode())
    eidx = {n: i for i, n in enumerate(enum_names)}; oidx = {n: i for i, n in enumerate(obj_names)}
    for e in S["enums"]:
        enums[q(e["name"])] = dict(utype=BT[e["type"]], is_union=0, values={k: v for k, v in e["values"]})
    for u in S["unions"]:
        vals = {"NONE": 0}
        for i, (kind, nm) in enumerate(u["members"]): vals[nm] = i + 1
        # flatcc records the storage type of the union type code (ubyte); flatc writes UType here — not part of the property
        enums[q(u["name"])] = dict(utype=BT["ubyte"], is_union=1, values=vals)
    for st in S["structs"]:
        size, al, offs = layouts[st["name"]]
        fields = {}
        for k, (f, off) in enumerate(zip(st["fields"], offs)):
            n = f.get("len")
            if f.get("struct"): base, idx = BT["obj"], oidx[q(f["type"])]
            elif f.get("enum"):
                e = [e for e in S["enums"] if e["name"] == f["type"]][0]; base, idx = BT[e["type"]], eidx[q(f["type"])]
            else: base, idx = BT[f["type"]], -1
            # struct members have no ids in the generated C code (flatcc writes 0): not compared
            if n is not None: fields[f["name"]] = dict(offset=off, base=BT["array"], elem=base, index=idx, fixed=n)
            else: fields[f["name"]] = dict(offset=off, base=base, elem=0, index=idx, fixed=0)
        objects[q(st["name"])] = dict(is_struct=1, minalign=al, bytesize=size, fields=fields)
    return objects, enums, q(S["root"]), eidx, oidx, q


def table_fields(S, t, ids, eidx, oidx, q):
    out = {}
    # the generated C code sorts / finds by the key field with the lowest id unless told otherwise: that one field carries key=true
    keyed = [f["name"] for f in t["fields"] if f.get("key")]
    for f, fid in zip(t["fields"], ids):
        k = f["kind"]
        d = dict(id=fid, offset=4 + 2 * fid, elem=0, index=-1, fixed=0, defi=0, required=int(bool(f.get("required"))), deprecated=int(bool(f.get("deprecated"))),
                 key=int(bool(keyed) and f["name"] == keyed[0]),
                 # `optional` as the generated C has it: scalars and enums only with `= null`; everything stored by reference (and structs) unless required
                 optional=0 if f.get("required") else 1 if f.get("optional") else 0 if k in ("scalar", "enum") else 1)
        if k == "scalar":
            d["base"] = BT[f["type"]]
            if "default" in f: d["defi"] = int(f["default"])
        elif k == "string": d["base"] = BT["string"]
        elif k == "enum":
            e = [e for e in S["enums"] if e["name"] == f["type"]][0]
            d["base"] = BT[e["type"]]; d["index"] = eidx[q(f["type"])]; d["defi"] = dict(e["values"])[f["default"]] if "default" in f else 0
        elif k == "struct": d["base"] = BT["obj"]; d["index"] = oidx[q(f["type"])]
        elif k == "table": d["base"] = BT["obj"]; d["index"] = oidx[q(f["type"])]
        elif k == "vec_scalar": d["base"] = BT["vector"]; d["elem"] = BT[f["type"]]
        elif k == "vec_string": d["base"] = BT["vector"]; d["elem"] = BT["string"]
        elif k in ("vec_struct", "vec_table"): d["base"] = BT["vector"]; d["elem"] = BT["obj"]; d["index"] = oidx[q(f["type"])]
        elif k == "union":
            d["base"] = BT["union"]; d["index"] = eidx[q(f["type"])]
            out[f["name"] + "_type"] = dict(id=fid - 1, offset=4 + 2 * (fid - 1), base=BT["utype"], elem=0, fixed=0, defi=0, required=0, deprecated=d["deprecated"], key=0)
        elif k == "vec_union":
            d["base"] = BT["vector"]; d["elem"] = BT["union"]; d["index"] = eidx[q(f["type"])]
            # the hidden type vector carries no enum index in flatcc's output (flatc writes it): not in the property's list, not compared
            out[f["name"] + "_type"] = dict(id=fid - 1, offset=4 + 2 * (fid - 1), base=BT["vector"], elem=BT["utype"], fixed=0, defi=0, required=0, deprecated=d["deprecated"], key=0)
        out[f["name"]] = d
    return out


def parse_bfbs_line(o):
    m = re.match(r"ok size=(\d+) prefix=(\d):(\d+) tobuf_exact=(-?\d+):(\w+) tobuf_larger=(-?\d+):(\w+) tobuf_small=(-?\d+) verify=(\S+)(?: root=(\S+) find=(\S+) sorted=(\S+))?", o)
    if not m: return None
    d = dict(size=int(m.group(1)), prefix=int(m.group(2)), pv=int(m.group(3)), exact=(int(m.group(4)), m.group(5)), larger=(int(m.group(6)), m.group(7)),
             small=int(m.group(8)), verify=m.group(9), root=m.group(10), find=m.group(11), sorted=m.group(12))
    d["dump"] = parse_full_dump(o)
    return d


def parse_full_dump(o):
    res = {"objects": {}, "enums": {}}
    for part in o.split(" | ")[1:]:
        head, _, body = part.partition(" :")
        t = head.split(" ")
        if t[0] == "O":
            fields = {}
            for f in body.strip().split(";"):
                if not f.strip(): continue
                x = f.strip().split(",")
                fields[x[0]] = dict(id=int(x[1]), offset=int(x[2]), base=int(x[3]), elem=int(x[4]), index=int(x[5]), fixed=int(x[6]), defi=int(x[7]), defr=x[8],
                                    deprecated=int(x[9]), required=int(x[10]), key=int(x[11]), optional=int(x[12]))
            res["objects"][t[1]] = dict(is_struct=int(t[2]), minalign=int(t[3]), bytesize=int(t[4]), fields=fields)
        else:
            res["enums"][t[1]] = dict(utype=int(t[2]), is_union=int(t[3]), values=dict((kv.rsplit("=", 1)[0], int(kv.rsplit("=", 1)[1])) for kv in body.strip().split(",") if kv))
    return res


def run(ctx):
    ths = proof_stage(ctx)
    if ths is None:
        finish(ctx, [])
    r = ctx.rng
    flatcc, _ = build_flatcc(ctx, tag="ccplain")
    _, cobjs = build_flatcc(ctx, flags=SAN, with_cli=False)
    vobj = [o for o in build_runtime_objs(ctx) if o.endswith("verifier.o")]
    h = build_harness(ctx, "h_schema", [os.path.join(VERIF, "harness/h_schema.c")], cobjs + vobj)
    nsch = 80 if ctx.quick() else 1500
    # always first: objects with 1..5 fields declared in descending name order, a table whose only field is a union / union vector
    # (hidden u_type before u), a two-member struct: every field count meets the sort-then-find path
    T = [{"name": "N%d" % n, "fields": [{"name": "z%d" % (9 - k), "kind": "scalar", "type": "int"} for k in range(n)]} for n in range(1, 6)]
    T += [{"name": "OnlyU", "fields": [{"name": "u", "kind": "union", "type": "U0"}]}, {"name": "OnlyUV", "fields": [{"name": "u", "kind": "vec_union", "type": "U0"}]},
          {"name": "Opt", "fields": [{"name": "oe", "kind": "enum", "type": "E0", "optional": True}, {"name": "os", "kind": "scalar", "type": "int", "optional": True},
                                     {"name": "pe", "kind": "enum", "type": "E0", "default": "Zb"}, {"name": "ps", "kind": "scalar", "type": "int"}, {"name": "st", "kind": "string"}]}]
    order_schema = {"namespace": "Or.Der", "enums": [{"name": "E0", "type": "ubyte", "values": [("Zb", 0), ("Ya", 1)]}],
                    "structs": [{"name": "P2", "fields": [{"name": "y", "type": "int"}, {"name": "x", "type": "int"}], "force_align": None}],
                    "unions": [{"name": "U0", "members": [("T", "N2"), ("T", "N1")]}], "tables": T, "root": "N2"}
    schemas = [order_schema] + [schemagen.gen_schema(r) for _ in range(nsch)]
    # struct layouts and field ids from the Lean model (the theorems of C07 are about these functions)
    import schemamodel
    # (a force_align >= the natural alignment is chosen for some structs and written into the schema before it is rendered)
    layouts = [schemamodel.layouts(S, r) for S in schemas]
    idl = [(si, t, "ids " + (",".join("1" if f["kind"] in ("union", "vec_union") else "0" for f in t["fields"]) or "_")) for si, S in enumerate(schemas) for t in S["tables"]]
    rc, idout, _ = run_parallel(FMODEL, [x[2] for x in idl], 8)
    ids = {}
    for (si, t, _), o in zip(idl, idout): ids[(si, t["name"])] = [int(x) for x in o.split(",")] if o else []
    lines, meta = [], []
    for si, S in enumerate(schemas):
        text = schemagen.render(S).encode().hex()
        for ob in (0, 8, 16, 24):
            lines.append("bfbs %d %s" % (ob, text)); meta.append((si, ob))
    rc, out, err = run_parallel(h, lines, 16, timeout=1800)
    bad = []
    ncmp = 0
    mem_bytes = {}
    for (si, ob), l, o in zip(meta, lines, out):
        S = schemas[si]
        def fail(why): bad.append((why, si, ob, o[:1500]))
        if o.startswith("<crash") or o.startswith("<no-output"): fail("binary schema generation crashed (sanitizer / signal)"); continue
        if o.startswith("fail"): fail("generator-valid schema rejected"); continue
        d = parse_bfbs_line(o)
        if d is None: fail("unexpected harness output"); continue
        if d["exact"] != (d["size"], "same"): fail("to_buffer with an exact-size buffer: returned %s, bytes %s the allocated path's" % (d["exact"][0], "equal" if d["exact"][1] == "same" else "differ from"))
        if d["larger"] != (d["size"], "same"): fail("to_buffer with a larger buffer: returned %s, bytes %s" % d["larger"])
        if d["small"] >= 0: fail("to_buffer with a too small buffer returned %d (documented: negative)" % d["small"])
        if bool(ob & 16) != bool(d["prefix"]): fail("length prefix %s although %s" % ("present" if d["prefix"] else "absent", "requested" if ob & 16 else "not requested"))
        if ob & 16 and d["pv"] != d["size"] - 4: fail("length prefix holds %d, buffer has %d bytes after it" % (d["pv"], d["size"] - 4))
        if d["verify"] != "ok": fail("reflection verifier rejects the binary schema: " + d["verify"]); continue
        if d["find"] != "ok": fail("lookup by name/value misses an entry: " + d["find"])
        qualify = not (ob & 8)
        objs, ens, root, eidx, oidx, q = expected(S, qualify, layouts[si])
        if d["root"] != root: fail("root table is %s, expected %s" % (d["root"], root))
        for t in S["tables"]:
            objs[q(t["name"])] = dict(is_struct=0, fields=table_fields(S, t, ids[(si, t["name"])], eidx, oidx, q))
        got = d["dump"]
        if sorted(got["objects"]) != sorted(objs): fail("objects %s, expected %s" % (sorted(got["objects"]), sorted(objs))); continue
        if sorted(got["enums"]) != sorted(ens): fail("enums %s, expected %s" % (sorted(got["enums"]), sorted(ens))); continue
        for name, e in ens.items():
            g = got["enums"][name]
            if (g["utype"], g["is_union"], g["values"]) != (e["utype"], e["is_union"], e["values"]):
                fail("enum %s: %s, expected %s" % (name, g, e)); break
        for name, ob_ in objs.items():
            g = got["objects"][name]
            if g["is_struct"] != ob_["is_struct"]: fail("object %s is_struct %d" % (name, g["is_struct"])); break
            if ob_["is_struct"] and (g["minalign"], g["bytesize"]) != (ob_["minalign"], ob_["bytesize"]):
                fail("struct %s (minalign, bytesize) = %s, model %s" % (name, (g["minalign"], g["bytesize"]), (ob_["minalign"], ob_["bytesize"]))); break
            ef = {k: v for k, v in ob_["fields"].items()}
            gf = g["fields"]
            if sorted(gf) != sorted(ef): fail("object %s fields %s, expected %s" % (name, sorted(gf), sorted(ef))); break
            stop = False
            for fn, e in ef.items():
                for key, val in e.items():
                    if gf[fn].get(key) != val:
                        fail("object %s field %s: %s = %s, expected %s" % (name, fn, key, gf[fn].get(key), val)); stop = True; break
                if stop: break
            if stop: break
            ncmp += len(ef)
        if ob in (0, 16): mem_bytes[(si, ob)] = d["size"]
    # the --schema file path against the in-memory path (size and content through the harness: compare sizes; bytes via cmp of a re-run)
    nfile = 6 if ctx.quick() else 60
    import shutil
    for si in range(min(nfile, len(schemas))):
        for lp in (0,):      # the CLI's --schema-length option is compiled out (`#if 0 /* Disable deprecated features. */`): the prefix is a library option only
            dd = os.path.join(ctx.work, "f%d_%d" % (si, lp)); os.makedirs(dd, exist_ok=True)
            open(os.path.join(dd, "s.fbs"), "w").write(schemagen.render(schemas[si]))
            rc, o2, e2 = sh([flatcc, "--schema", "-o", dd, os.path.join(dd, "s.fbs")], timeout=60, env=ASAN_ENV)
            p = os.path.join(dd, "s.bfbs")
            if rc != 0 or not os.path.exists(p):
                bad.append(("flatcc --schema failed: " + (o2 + e2)[-300:], si, 16 * lp, "")); shutil.rmtree(dd, ignore_errors=True); continue
            data = open(p, "rb").read()
            exp = mem_bytes.get((si, 16 * lp))
            if exp is not None and len(data) != exp:
                bad.append(("file output has %d bytes, the in-memory path %d" % (len(data), exp), si, 16 * lp, ""))
            if lp and struct.unpack_from("<I", data, 0)[0] != len(data) - 4:
                bad.append(("file output: length prefix %d, %d bytes follow" % (struct.unpack_from("<I", data, 0)[0], len(data) - 4), si, 16, ""))
            if not lp and len(data) >= 8 and data[4:8] != b"BFBS":
                bad.append(("file output without prefix does not start with a root offset + BFBS identifier", si, 0, ""))
            shutil.rmtree(dd, ignore_errors=True)
    if bad:
        why, si, ob, o = bad[0]
        violation(ctx, "spec_%d.json" % ctx.seed, {"kind": "property-fails-on-implementation", "why": why, "count": len(bad), "optbits": ob, "schema": schemagen.render(schemas[si]),
                                                     "harness_line": "bfbs %d <hex of schema>" % ob, "output": o, "more": [b[0][:200] for b in bad[1:8]]})
    ctx.cov.update({"evaluations": len(lines), "distinct_nontrivial": len(set(lines)),
                    "rule": "%d random schemas (namespaces, enums, structs with nested structs/enums/fixed arrays, tables with every field kind, unions, required/deprecated, defaults) x "
                            "{qualified names on/off} x {length prefix on/off}: alloc path vs to_buffer(exact, +64, -1), prefix value, reflection verifier, root table, "
                            "*_vec_find for every object/field/enum name and enum value + sortedness, and every object/field/enum/value compared with an independent "
                            "rendering (ids and struct layouts from the Lean model); --schema file output size/prefix/identifier for a sample." % nsch,
                    "fields_compared": ncmp, "traces_validated_against_impl": len(lines), "spec_oracle_failures": len(bad)})
    ctx.samples = [{"line": lines[0][:120], "out": out[0][:300]}]
    ctx.notes = ["attributes, documentation comments, services (rpc) and includes are not generated by the schema generator yet"]
    finish(ctx, ths)
