"""C07 — accepted schemas yield C that compiles and encodes the right layout. Model: Layout.lean; theorems Props/C07.lean."""
import schemagen
from vlib import *


def parse_dump(o):
    """h_schema `compile` output -> {'objects': {name: {...}}, 'enums': {...}} or None"""
    if not o.startswith("ok"):
        return None
    res = {"objects": {}, "enums": {}}
    for part in o.split(" | ")[1:]:
        head, _, body = part.partition(" :")
        t = head.split(" ")
        if t[0] == "O":
            fields = {}
            for f in body.strip().split(";"):
                if not f.strip(): continue
                x = f.strip().split(",")
                fields[x[0]] = {"id": int(x[1]), "offset": int(x[2]), "base": int(x[3]), "elem": int(x[4]), "index": int(x[5]), "fixed": int(x[6]), "defi": int(x[7])}
            res["objects"][t[1]] = {"is_struct": int(t[2]), "minalign": int(t[3]), "bytesize": int(t[4]), "fields": fields}
        else:
            res["enums"][t[1]] = {"utype": int(t[2]), "values": dict((kv.split("=")[0], int(kv.split("=")[1])) for kv in body.strip().split(",") if kv)}
    return res


def shape_schema(variant):
    """every kind of FIRST member (scalar, enum, struct, fixed array of each) x {natural alignment, force_align 16, force_align 64}, each followed
    by members that need padding: the C struct's size / alignment / offsets must be the model's whichever member carries the alignas"""
    firsts = [("byte", {}), ("double", {}), ("E0", {"enum": True}), ("B1", {"struct": True}), ("byte", {"len": 3}), ("short", {"len": 5}),
              ("E0", {"enum": True, "len": 3}), ("B1", {"struct": True, "len": 3}), ("B2", {"struct": True, "len": 2})]
    S = {"namespace": None if variant == 0 else "Sh.Ape", "enums": [{"name": "E0", "type": "ushort" if variant == 0 else "ubyte", "values": [("V0", 0), ("V1", 1)]}],
         "structs": [{"name": "B1", "fields": [{"name": "x", "type": "byte"}, {"name": "y", "type": "short"}], "force_align": None},
                     {"name": "B2", "fields": [{"name": "x", "type": "byte"}], "force_align": None}],
         "unions": [], "tables": []}
    k = 0
    for (ty, extra) in firsts:
        for fa in (None, 16, 64):
            f0 = dict(name="f0", type=ty, **extra)
            tail = [{"name": "f1", "type": "byte"}] + ([{"name": "f2", "type": "int"}] if k % 2 else [])
            S["structs"].append({"name": "SH%d" % k, "fields": [f0] + tail, "force_align": fa}); k += 1
    S["tables"].append({"name": "T0", "fields": [{"name": "g%d" % i, "kind": "struct", "type": "SH%d" % i} for i in range(0, k, 4)] +
                        [{"name": "v%d" % i, "kind": "vec_struct", "type": "SH%d" % i} for i in range(1, k, 5)]})
    S["root"] = "T0"
    return S


def sort_schema():
    """sorted vectors reached through every path the generated recursive sorter walks: table field, vector of tables, union, union vector"""
    T = lambda name, fields: {"name": name, "fields": fields}
    S = {"namespace": "So.Rt", "enums": [], "structs": [{"name": "KS", "fields": [{"name": "k", "type": "int"}, {"name": "v", "type": "short"}], "force_align": None},
                                                        {"name": "KL", "fields": [{"name": "a", "type": "long"}], "force_align": None}],
         "unions": [{"name": "U", "members": [("T", "Bag"), ("T", "Shelf"), ("str", "Note")]}],
         "tables": [T("Room", [{"name": "shelf", "kind": "table", "type": "Shelf"}, {"name": "shelves", "kind": "vec_table", "type": "Shelf"},
                               {"name": "u", "kind": "union", "type": "U"}, {"name": "us", "kind": "vec_union", "type": "U"}]),
                    T("Shelf", [{"name": "bags", "kind": "vec_table", "type": "Bag"}, {"name": "one", "kind": "table", "type": "Bag"},
                                {"name": "label", "kind": "string", "key": True}, {"name": "sbags", "kind": "vec_table", "type": "Bag", "sorted": True}]),
                    T("Bag", [{"name": "items", "kind": "vec_table", "type": "Item", "sorted": True}, {"name": "tags", "kind": "vec_string", "sorted": True},
                              {"name": "n", "kind": "vec_scalar", "type": "int", "sorted": True}, {"name": "id", "kind": "scalar", "type": "ulong", "key": True},
                              {"name": "ks", "kind": "vec_struct", "type": "KS"}]),
                    T("Item", [{"name": "name", "kind": "string", "key": True}, {"name": "w", "kind": "scalar", "type": "short", "key": True},
                               # nested buffers with struct roots of alignment 8 and 4: the generated builder must pass these alignments on
                               {"name": "nb", "kind": "vec_scalar", "type": "ubyte", "nested": "KL"}, {"name": "nc", "kind": "vec_scalar", "type": "ubyte", "nested": "KS"},
                               # a field called `identifier` (the generator drops the deprecated <T>_identifier alias then) in a table that is also a nested root
                               {"name": "identifier", "kind": "scalar", "type": "int"}, {"name": "ni", "kind": "vec_scalar", "type": "ubyte", "nested": "Item"}])]}
    S["root"] = "Room"
    S["unions_last"] = True      # the union is declared after the tables that use it
    return S


VARIANTS = [("split", ("-a", "--json"), None), ("split-g", ("-a", "--json", "-g"), None),
            ("outfile", ("-a", "--json", "--outfile=all.h"), "all.h"), ("stdout-g", ("-a", "--json", "-g", "--stdout"), "all.h")]
NFIXED = 3


def run(ctx):
    ths = proof_stage(ctx)
    if ths is None:
        finish(ctx, [])
    r = ctx.rng
    flatcc, cobjs_plain = build_flatcc(ctx, tag="ccplain")
    _, cobjs = build_flatcc(ctx, flags=SAN, with_cli=False)
    vobj = [o for o in build_runtime_objs(ctx) if o.endswith("verifier.o")]
    h = build_harness(ctx, "h_schema", [os.path.join(VERIF, "harness/h_schema.c")], cobjs + vobj)
    nsch = 150 if ctx.quick() else 3000
    schemas = [shape_schema(0), shape_schema(1), sort_schema()]      # always first: compiled as C with the model's static assertions
    for _ in range(nsch):
        S = schemagen.gen_schema(r)
        schemas.append(S)
    # model: struct layouts chained in declaration order (members may only reference earlier structs)
    mlines, mkeys = [], []
    fail = []
    # first pass without force_align to learn natural alignments, then choose force_align >= natural
    def struct_members(S, st, known):
        ms = []
        for f in st["fields"]:
            n = f.get("len", 1)
            if f.get("struct"):
                sz, al = known[f["type"]]
            elif f.get("enum"):
                e = [e for e in S["enums"] if e["name"] == f["type"]][0]; sz = al = schemagen.SCALARS[e["type"]]
            else:
                sz = al = schemagen.SCALARS[f["type"]]
            ms.append((sz * n, al))
        return ms
    import math
    expect = []
    for si, S in enumerate(schemas):
        known = {}
        for st in S["structs"]:
            ms = struct_members(S, st, known)
            # ask the model
            line = "layout %d " % (st.get("force_align") or 0) + ",".join("%d:%d" % m for m in ms)
            rc, out, _ = run_lines(FMODEL, [line])
            size, al, offs = out[0].split(" ")
            al = int(al)
            if not st.get("force_align") and si >= NFIXED and r.random() < 0.3:
                fa = r.choice([a for a in (1, 2, 4, 8, 16, 32, 64, 256) if a >= al])
                st["force_align"] = fa
                rc, out, _ = run_lines(FMODEL, ["layout %d " % fa + ",".join("%d:%d" % m for m in ms)])
                size, al, offs = out[0].split(" ")
            known[st["name"]] = (int(size), int(al))
            expect.append((si, st["name"], int(size), int(al), [int(x) for x in offs.split(",")], [f["name"] for f in st["fields"]]))
    lines = ["compile 0 " + schemagen.render(S).encode().hex() for S in schemas]
    rc_c, out_c, err_c = run_parallel(h, lines, 16, timeout=1800)
    dumps = [parse_dump(o) for o in out_c]
    nstruct = ntab = 0
    # a struct larger than FLATCC_STRUCT_MAX_SIZE (nested fixed arrays times a large force_align) is rejected by design: such a schema is not `accepted`
    m = re.search(r"def structMaxSize : Nat := (\d+)", open(os.path.join(LEAN, "FlatccModel", "Generated", "Consts.lean")).read())
    smax = int(m.group(1)) if m else 65535
    too_big = {si for (si, name, size, al, offs, fnames) in expect if size > smax}
    for (si, name, size, al, offs, fnames) in expect:
        d = dumps[si]
        if d is None and si in too_big and out_c[si].startswith("fail"): continue
        if d is None:
            fail.append("schema %d rejected or crashed by the compiler: %s\n%s" % (si, out_c[si][:200], schemagen.render(schemas[si]))); continue
        ns = schemas[si]["namespace"]
        o = d["objects"].get(name) or d["objects"].get((ns + "." + name) if ns else name)
        if not o:
            fail.append("schema %d: struct %s missing from the binary schema" % (si, name)); continue
        nstruct += 1
        got = (o["bytesize"], o["minalign"], [o["fields"][f]["offset"] for f in fnames])
        if got != (size, al, offs):
            fail.append("schema %d struct %s: compiler (size,align,offsets)=%s, model %s\n%s" % (si, name, got, (size, al, offs), schemagen.render(schemas[si])))
    # field ids
    idl = []
    for si, S in enumerate(schemas):
        for t in S["tables"]:
            idl.append((si, t, "ids " + (",".join("1" if f["kind"] in ("union", "vec_union") else "0" for f in t["fields"]) or "_")))
    rc_m, out_m, _ = run_parallel(FMODEL, [x[2] for x in idl], 8)
    for (si, t, _), o in zip(idl, out_m):
        d = dumps[si]
        if d is None: continue
        ns = schemas[si]["namespace"]
        ob = d["objects"].get(t["name"]) or d["objects"].get((ns + "." + t["name"]) if ns else t["name"])
        if ob is None:
            fail.append("schema %d: table %s missing" % (si, t["name"])); continue
        ntab += 1
        ids = [int(x) for x in o.split(",")] if o else []
        for f, fid in zip(t["fields"], ids):
            if f.get("deprecated") and f["name"] not in ob["fields"]:
                continue
            g = ob["fields"].get(f["name"])
            if g is None or g["id"] != fid:
                fail.append("schema %d table %s field %s: compiler id %s, model %d" % (si, t["name"], f["name"], g and g["id"], fid)); break
            if f["kind"] in ("union", "vec_union"):
                tg = ob["fields"].get(f["name"] + "_type")
                if tg is None or tg["id"] != fid - 1:
                    fail.append("schema %d table %s: hidden type field of %s has id %s, expected %d" % (si, t["name"], f["name"], tg and tg["id"], fid - 1)); break
    # generated C: every header set compiles as C11, static assertions on the model's struct sizes / offsets / alignments hold
    ncomp = 8 if ctx.quick() else 60
    compiled = 0
    def compile_one(si):
        S = schemas[si]
        d = os.path.join(ctx.work, "g%d" % si); os.makedirs(d, exist_ok=True)
        fbs = os.path.join(d, "s.fbs"); open(fbs, "w").write(schemagen.render(S))
        pre = (S["namespace"].replace(".", "_") + "_") if S["namespace"] else ""
        asserts = []
        for (sj, name, size, al, offs, fnames) in expect:
            if sj != si: continue
            asserts.append("_Static_assert(sizeof(%s%s_t) == %d, \"size of %s\");" % (pre, name, size, name))
            asserts.append("_Static_assert(_Alignof(%s%s_t) == %d, \"align of %s\");" % (pre, name, al, name))
            for fn, off in zip(fnames, offs):
                asserts.append("_Static_assert(offsetof(%s%s_t, %s) == %d, \"offset of %s.%s\");" % (pre, name, fn, off, name, fn))
        # every output shape, with and without the get-suffix option
        for (vname, opts, single) in (VARIANTS if si < NFIXED or si % 2 else VARIANTS[:2]):
            vd = os.path.join(d, vname); os.makedirs(vd, exist_ok=True)
            rc, out, err = sh([flatcc, *opts, "-o", vd, fbs], timeout=120)
            if rc != 0:
                return "schema %d: flatcc %s failed: %s\n%s" % (si, " ".join(opts), (out + err)[:300], schemagen.render(S))
            if "--stdout" in opts: open(os.path.join(vd, single), "w").write(out)
            # constants the generated builder passes on: a nested struct root is placed with the struct's own alignment
            btxt = open(os.path.join(vd, single or "s_builder.h")).read()
            als = {pre + name: al for (sj, name, size, al, offs, fnames) in expect if sj == si}
            for m in re.finditer(r"build_nested_struct_root\(\w+, (\w+), (\w+), (\d+),", btxt):
                if m.group(2) in als and int(m.group(3)) != als[m.group(2)]:
                    return "schema %d: the generated builder (`flatcc %s`) nests the struct root %s of field %s with alignment %s, the struct's alignment is %d\n%s" % (
                        si, " ".join(opts), m.group(2), m.group(1), m.group(3), als[m.group(2)], schemagen.render(S))
            incs = ['#include "%s"' % single] if single else ['#include "s_reader.h"', '#include "s_builder.h"', '#include "s_verifier.h"', '#include "s_json_parser.h"', '#include "s_json_printer.h"']
            open(os.path.join(vd, "probe.c"), "w").write("\n".join(['#include <stddef.h>'] + incs + asserts + ["int main(void) { return 0; }"]) + "\n")
            rc, log = cc(["-std=c11", "-Wall", "-Wno-unused-function", "-Werror=implicit-function-declaration", "-Werror=int-conversion", "-Werror=incompatible-pointer-types", "-c", os.path.join(vd, "probe.c"),
                          "-o", os.path.join(vd, "probe.o"), "-I", vd, "-I", os.path.join(REPO, "include")])
            if rc != 0:
                return "schema %d: code generated with `flatcc %s` does not compile as C11 / a static assertion fails: %s\n%s" % (si, " ".join(opts), log[-1200:], schemagen.render(S))
        shutil.rmtree(d, ignore_errors=True)
        return None
    cand = [si for si in range(len(schemas)) if dumps[si] is not None][:ncomp]
    with ThreadPoolExecutor(8) as ex:
        for res in ex.map(compile_one, cand):
            compiled += 1
            if res: fail.append(res)
    # `enum values and defaults` as the generated C has them (bit patterns read through the generated accessors of an empty table)
    from props import c08
    gd_stats, gd_fail = c08.generated_defaults_stage(ctx)
    fail += ["%s\n%s" % f for f in gd_fail]
    if fail:
        violation(ctx, "spec_%d.json" % ctx.seed, {"kind": "property-fails-on-implementation-or-model-disagrees", "why": fail[0][:3000], "count": len(fail), "all": [f[:300] for f in fail[:10]]})
    ctx.cov.update({"evaluations": nstruct + ntab + compiled, "distinct_nontrivial": len(set(lines)),
                    "rule": "%d random schemas (enums, structs with nested structs / enums / fixed arrays / force_align, tables with every field kind, unions of "
                            "table/struct/string, namespaces, required/deprecated/key/sorted, explicit ids in shuffled text order): struct size/alignment/offsets and table field ids (incl. hidden union type ids) read "
                            "from the compiler's binary schema vs the Lean model; for %d of them every generated header set (reader, builder, verifier, JSON parser, "
                            "JSON printer) is compiled as C11 with static assertions on the model's sizeof/_Alignof/offsetof." % (nsch, compiled),
                    "structs_compared": nstruct, "tables_compared": ntab, "header_sets_compiled": compiled, **gd_stats,
                    "traces_validated_against_impl": nstruct + ntab, "correspondence_disagreements": len(fail), "spec_oracle_failures": len(fail)})
    ctx.samples = [{"struct": e[1], "size": e[2], "align": e[3], "offsets": e[4]} for e in expect[:3]] or ["<no structs>"]
    ctx.notes = ["header sets are generated as split files, split with -g, --outfile and --stdout -g (all four for the fixed schemas and every second sampled one); includes are not generated",
                 "'compiles' is an observation per sampled schema"]
    finish(ctx, ths)
