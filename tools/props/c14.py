"""C14 — a reset builder behaves like a fresh one, with bounded memory.
Model: Builder.lean (`resetBS`, `buildFrom`), Alloc.lean (default_alloc policy), Generated/ResetFields.lean (translator output);
theorems Props/C14.lean. Tie: histories on one persistent C builder (completed, abandoned mid-object, failed by injected
allocator / emitter faults, open user frames, deep nesting; cache limit / max level / clustering / block alignment; both
emitters; both reset variants) followed by reset and a build whose bytes must equal the model's fresh build and a fresh C
builder's; footprint after reset sampled over many cycles; default_alloc vs its model."""
import vtree
from vlib import *
from props import c02


def _alignup(x, a): return (x + a - 1) // a * a


def vt_key(n):
    """(vtable bytes, hash bucket) of a T node built through the runtime API as h_build does (table_add_union: value, then type)"""
    h = 0x2f693b52
    def upd(h, i, o): return ((((i ^ h) * 2654435761) & 0xffffffff) ^ o) * 2654435761 & 0xffffffff
    off, vs = 0, {}
    calls = []
    for (f, v) in n.fields:
        i = f["id"]
        if v.k == "i": calls.append((i, v.size, v.align))
        elif v.k == "U":
            if v.value.k != "N": calls.append((i, 4, 4))
            calls.append((i - 1, 1, 1))
        elif v.k == "W": calls.append((i - 1, 4, 4)); calls.append((i, 4, 4))
        else: calls.append((i, 4, 4))
    for (i, size, al) in calls:
        o = _alignup(off, al); vs[i] = o + 4; off = o + size; h = upd(h, i, size)
    nent = max(vs) + 1 if vs else 0
    vt = [4 + 2 * nent, off + 4] + [vs.get(i, 0) for i in range(nent)]
    h = upd(h, vt[0], vt[1])
    return (tuple(vt), h >> 26)


def vtable_oracle(c, out):
    """'ok' when every distinct vtable content occurs once per buffer; 'known' when the extra copies are exactly the ones
    explained by the hash covering field sizes (same bytes, different bucket); else a description"""
    t = out.split(" ")
    buf = bytes.fromhex(t[2])
    ident = None
    try:
        v, d = vtree.decode_root(buf, c["tables"], c["unions"], c["root"], bool(c["flags"] & 1), ident, int(t[1]))
    except Exception as e:
        return "decode failed: %r" % e
    # group the vtables found by the decoder per buffer (innermost nested range containing them)
    ranges = sorted([(a, a + n) for (a, n, sd, root, ws) in d.nested], key=lambda x: x[1] - x[0])
    def owner(p):
        for (a, b) in ranges:
            if a <= p < b: return (a, b)
        return None
    found = {}
    for (a, b, what) in d.spans:
        if what == "vt": found.setdefault(owner(a), set()).add((a, bytes(buf[a:b])))
    for (a, n, sd, root, ws) in d.nested:
        for (x, y, what) in sd.spans:
            if what == "vt": found.setdefault(owner(a + x), set()).add((a + x, bytes(buf[a + x:a + y])))
    # expected keys per buffer from the tree
    keys = {}
    def walk(n, buf_id):
        if n.k == "T":
            keys.setdefault(buf_id, set()).add(vt_key(n))
            for (f, v) in n.fields: walk(v, buf_id)
        elif n.k == "o":
            for x in n.items: walk(x, buf_id)
        elif n.k == "U": walk(n.value, buf_id)
        elif n.k == "W":
            for (_, x, _) in n.items: walk(x, buf_id)
        elif n.k == "B": walk(n.root, id(n))
    walk(c["tree"], None)
    addr_total = sum(len(v) for v in found.values())
    content_total = sum(len(set(b for (_, b) in v)) for v in found.values())
    key_total = sum(len(v) for v in keys.values())
    if addr_total == content_total: return "ok"
    if addr_total == key_total: return "known"
    return "buffer holds %d vtables, %d distinct contents, %d (content, bucket) keys" % (addr_total, content_total, key_total)


def run(ctx):
    ths = proof_stage(ctx)
    proof_broken = ths is None
    if proof_broken:
        # a proof obligation broke (already reported, no-failing-input-found): still search the implementation for a concrete
        # history on which a reset builder differs from a fresh one (oracle: fresh C builder; the model is not consulted)
        ths = []
    # release semantics (NDEBUG): the `check(...)` asserts on emitter / allocator failure are compiled out, as in a deployed library
    rt = build_runtime_objs(ctx, tag="rtnd", extra_defs=("-DNDEBUG",))
    h_build = build_harness(ctx, "h_build", [os.path.join(VERIF, "harness/h_build.c")], rt, defs=("-DNDEBUG",))
    r = ctx.rng
    quick = ctx.quick()
    # --- allocator policy vs model
    alines = []
    for _ in range(300 if quick else 5000):
        hint = r.randrange(8)
        reqs = []
        for _ in range(r.randint(1, 12)):
            c = r.random()
            reqs.append(1 if c < 0.3 else r.randint(1, 64) if c < 0.5 else r.choice([31, 32, 33, 63, 64, 65, 255, 256, 257, 288, 289, 511, 512, 1000, 4096, 70000]) if c < 0.8 else r.randint(1, 200000))
        alines.append("alloc %d %d %s" % (hint, r.choice([0, 0, 32, 64, 100, 256, 1000]), ",".join(str(x) for x in reqs)))
    rc, a_c, err_a = run_parallel(h_build, alines, 8)
    rc, a_m, _ = run_parallel(FMODEL, alines, 8)
    aidx, a_c, a_m = diff_streams(alines, a_c, a_m)
    if proof_broken: aidx = []
    # --- the vtable cache itself: same reference only for byte-identical vtables, references == model
    from props import c03
    vt_stats, vt_fail, vt_tie = c03.vtcache_stage(ctx, h_build, 300 if quick else 4000)
    if vt_fail and not (vt_tie and proof_broken):
        if vt_tie: vt_fail["theorems_no_longer_tied"] = [t["name"] for t in ths]
        violation(ctx, "vtcache_%d.json" % ctx.seed, vt_fail, no_failing_input=vt_tie)
    # --- histories
    nblocks = 24 if quick else 160
    cycles = 5 if quick else 40
    blocks, plan = [], []
    fresh_lines = {}
    for bi in range(nblocks):
        cases = c02.build_cases(ctx, nested=0.25, nschema=1, per=r.randint(3, 6))
        if not cases: continue
        custom = r.choice([0, 1])
        limit = r.choice([0, 0, 0, 16, 64, 300])
        maxlevel = r.choice([0, 0, 0, 3, 6, 40])
        opt = "opt %d %d" % (limit, maxlevel)
        lines = ["fresh %d" % custom, opt]; info = [None, None]
        rounds = []
        for c in cases:
            pre = r.choice(["none", "build", "partial", "partial", "faulta", "faulte", "uenter", "deep"])
            other = r.choice(cases)
            st = r.randrange(3)
            if pre == "build": p = [c02.build_line(other, st)]
            elif pre == "partial": p = ["partial %d %s" % (r.randint(1, 60), c02.build_line(other, st)[6:])]
            elif pre == "faulta": p = ["faulta %d %d %s" % (r.randint(1, 25), r.randrange(2), c02.build_line(other, st)[6:])] if custom else ["partial 5 " + c02.build_line(other, st)[6:]]
            elif pre == "faulte": p = ["faulte %d %d %s" % (r.randint(1, 12), r.randrange(2), c02.build_line(other, st)[6:])] if custom else ["partial 7 " + c02.build_line(other, st)[6:]]
            elif pre == "uenter": p = ["partial %d %s" % (r.randint(1, 30), c02.build_line(other, st)[6:]), "uenter %d" % r.choice([8, 100, 5000])]
            elif pre == "deep":
                depth = r.choice([10, 50, 200])
                p = ["partial %d 0 - 0 1 %s" % (depth + 2, "T 1 0 " * depth + "T 0")]
            else: p = []
            rounds.append((p, r.randrange(2), c, r.randrange(3)))
        for cyc in range(cycles):
            for (p, red, c, st) in rounds:
                lines.append("reset %d" % red); info.append(None)
                for l in p: lines.append(l); info.append(None)
                lines.append("reset %d" % red); info.append(None)
                lines.append("mem"); info.append(("mem", cyc))
                bl = c02.build_line(c, st)
                lines.append(bl); info.append(("build", c, st, custom, limit, maxlevel))
                fresh_lines.setdefault((custom, opt, bl), None)
        blocks.append(lines); plan.append(info)
    # the recorded finding, deterministically: x:ubyte vs x:int in front of a string give byte-identical vtables
    F = __import__("fbenc").fld
    ktabs = [[F(0, 0, "s", 1, 1), F(1, 0, "str")], [F(0, 0, "s", 4, 4), F(1, 0, "str")], [F(0, 0, "t", 0), F(1, 0, "t", 1)]]
    N = vtree.Node
    ktree = N("T", ti=2, fields=[(ktabs[2][0], N("T", ti=0, fields=[(ktabs[0][0], N("i", size=1, align=1, data=b"\x07")), (ktabs[0][1], N("s", data=b"a"))])),
                                 (ktabs[2][1], N("T", ti=1, fields=[(ktabs[1][0], N("i", size=4, align=4, data=b"\x07\0\0\0")), (ktabs[1][1], N("s", data=b"b"))]))])
    kcase = dict(tables=ktabs, unions=[], root=("t", 2), tree=ktree, flags=0, ident="-", ba=0, toks=" ".join(vtree.render(ktree)), si=-1)
    kl = c02.build_line(kcase, 0)
    blocks.append(["fresh 1", "opt 0 0", "reset 0", kl]); plan.append([None, None, None, ("build", kcase, 0, 1, 0, 0)])
    fresh_lines.setdefault((1, "opt 0 0", kl), None)
    # abandoned inside a (doubly) nested buffer, reset, then a build whose children precede the top-level buffer
    ptabs = [[F(0, 0, "s", 4, 4), F(1, 0, "str"), F(2, 0, "t", 0), F(3, 0, "t", 1)], [F(0, 0, "s", 8, 8), F(1, 0, "str")]]
    pt1 = N("T", ti=1, fields=[(ptabs[1][0], N("i", size=8, align=8, data=b"\x01" * 8)), (ptabs[1][1], N("s", data=b"in"))])
    pt0 = N("T", ti=0, fields=[(ptabs[0][0], N("i", size=4, align=4, data=b"\x02\0\0\0")), (ptabs[0][1], N("s", data=b"a"))])
    ptree = N("T", ti=0, fields=[(ptabs[0][0], N("i", size=4, align=4, data=b"\x03\0\0\0")), (ptabs[0][2], pt0), (ptabs[0][3], pt1)])
    pcase = dict(tables=ptabs, unions=[], root=("t", 0), tree=ptree, flags=8, ident="-", ba=0, toks=" ".join(vtree.render(ptree)), si=-2)
    pl = c02.build_line(pcase, 0)
    for depth in (1, 2):
        for red in (0, 1):
            nest = "T 1 3 " + "B - 0 0 T 1 3 " * depth + "T 1 1 s 61"
            lines = ["fresh 1", "opt 0 0", "reset %d" % red, "partial %d 0 - 0 1 %s" % (3 + 3 * depth, nest), "reset %d" % red, pl, "reset %d" % red, pl]
            blocks.append(lines); plan.append([None] * 5 + [("build", pcase, 0, 1, 0, 0), None, ("build", pcase, 0, 1, 0, 0)])
    fresh_lines.setdefault((1, "opt 0 0", pl), None)
    rc, out, err = run_blocks(h_build, blocks, 16, sticky="fresh ")
    flat = [l for b in blocks for l in b]
    finfo = [x for p in plan for x in p]
    # fresh-builder reference for every distinct (emitter, settings, build)
    fkeys = list(fresh_lines)
    fblocks = [["fresh %d" % k[0], k[1], k[2]] for k in fkeys]
    rc, fout, ferr = run_blocks(h_build, fblocks, 16, sticky="fresh ")
    fres = {k: fout[3 * i + 2] for i, k in enumerate(fkeys)}
    # model reference (no cache limit, no level limit)
    mkeys = sorted(set(k[2] for k in fkeys))
    rc, mout, merr = run_parallel(FMODEL, [re.sub(r"^build (\d+) (\S+) (\d+) \d+ ", r"build \1 \2 \3 0 ", k) for k in mkeys], 16)
    mres = dict(zip(mkeys, mout))

    def core(o):   # "ok <align> <hex>" without the emit list (the default emitter does not log calls)
        t = o.split(" "); return " ".join(t[:3]) if t[0] == "ok" else t[0]
    spec, corr = [], []
    mems = {}
    bi = -1
    for i, (l, o, inf) in enumerate(zip(flat, out, finfo)):
        if l.startswith("fresh "): bi += 1
        if o.startswith("<crash"):
            spec.append((i, "builder crashed (sanitizer / signal) in history")); continue
        if inf is None: continue
        if inf[0] == "mem":
            mems.setdefault(bi, {}).setdefault(inf[1], []).append(int(o.split(" ")[1]))
        else:
            _, c, st, custom, limit, maxlevel = inf
            ref = fres[(custom, "opt %d %d" % (limit, maxlevel), l)]
            if core(o) != core(ref):
                spec.append((i, "after reset the builder produces %s, a fresh builder %s" % (core(o)[:120], core(ref)[:120])))
            elif (not proof_broken) and limit == 0 and maxlevel == 0 and core(o) != core(mres[l]):
                corr.append(i)
    # each distinct vtable once per buffer (no cache limit): on the first post-reset build of every round
    vt_known, vt_bad, seen_vt = [], [], set()
    for i, (l, o, inf) in enumerate(zip(flat, out, finfo)):
        if inf and inf[0] == "build" and inf[4] == 0 and o.startswith("ok") and (l not in seen_vt):
            seen_vt.add(l)
            w = vtable_oracle(inf[1], o)
            if w == "known": vt_known.append(i)
            elif w != "ok": vt_bad.append((i, w))
    known = [f for f in load_known() if f["property"] == "C14" and f["status"] == "known"]
    if vt_known and any(f["id"] == "vtable-duplicate-across-field-sizes" for f in known):
        known_finding(ctx, "vtable-duplicate-across-field-sizes", "byte-identical vtables of tables whose fields differ in size land in different hash buckets "
                      "and are emitted twice (%d builds this run), e.g. %s" % (len(vt_known), flat[vt_known[0]][:160]))
    elif vt_known:
        vt_bad += [(i, "a vtable content is emitted twice in one buffer") for i in vt_known]
    for (i, w) in vt_bad: spec.append((i, "vtable emitted more than once per buffer without a cache limit: " + w))
    grow = []
    for b, per in mems.items():
        last = max(per)
        # cycles 0 and 1 are the warm-up: in cycle 0 not every build has run yet, and with buffer reduction the sizes a reset leaves depend on the
        # previous cycle, so the first sample of cycle 1 can still be below the level the history settles at; from cycle 2 on the same rounds
        # repeat from the same state, and anything that still grows afterwards grows with the number of earlier builds
        if last >= 3 and any(x > y for x, y in zip(per[last], per[2])):
            grow.append((b, per[2], per[last]))
    if grow:
        b, m1, m2 = grow[0]
        k = [i for i, l in enumerate(flat) if l.startswith("fresh ")][b]
        violation(ctx, "growth_%d.json" % ctx.seed, {"kind": "property-fails-on-implementation",
                  "why": "footprint after reset keeps growing with the number of cycles of the same history",
                  "footprints_first_full_cycle": m1, "footprints_last_cycle": m2, "history_one_cycle": blocks[b][:2 + (len(blocks[b]) - 2) // cycles]})
    elif spec:
        i, why = spec[0]
        b = max(j for j in range(i + 1) if flat[j].startswith("fresh "))
        violation(ctx, "spec_%d.json" % ctx.seed, {"kind": "property-fails-on-implementation", "why": why, "count": len(spec),
                  "history": flat[b:i + 1][-40:], "c_output": out[i][:2000], "stderr": err[-2000:]})
    elif corr or aidx:
        if corr:
            i = corr[0]
            payload = {"op": flat[i][:3000], "c_output": out[i][:2000], "model_output": mres[flat[i]][:2000]}
        else:
            i = aidx[0]; payload = {"op": alines[i], "c_output": a_c[i], "model_output": a_m[i]}
        payload.update({"kind": "correspondence-broken", "theorems_no_longer_tied": [t["name"] for t in ths], "count": len(corr) + len(aidx)})
        violation(ctx, "corr_%d.json" % ctx.seed, payload, no_failing_input=True)
    # a reference map attached to the builder is reset with it (flatcc_builder_reset -> flatcc_refmap_reset): after a reset it must behave as a fresh map
    from props import c18
    rm_lines, rm_fail, rm_tie = c18.reset_stage(ctx)
    if rm_fail:
        violation(ctx, "refmap_reset_%d.json" % ctx.seed, rm_fail, no_failing_input=rm_tie)
    nbuild = sum(1 for x in finfo if x and x[0] == "build")
    kinds = {}
    for l in flat:
        k = l.split(" ")[0]; kinds[k] = kinds.get(k, 0) + 1
    ctx.cov.update({
        "evaluations": len(flat) + len(alines), "distinct_nontrivial": len(set(structural_hash(l) for l in flat if len(l) > 40)),
        "rule": "per block one persistent builder (custom wrapper emitter+allocator or flatcc defaults; vtable cache limit 0/16/64/300; max level 0/3/6/40): "
                "rounds of [reset; prefix activity in {nothing, completed build, build abandoned after k API calls, k-th allocation fails (once/from then on), "
                "k-th emit fails, abandoned build + open user frame, 10..200 tables left open}; reset (reduce 0/1); footprint; build X] repeated for "
                "%d cycles; every `build X` must equal a fresh C builder's output under the same settings and (no limits) the Lean model's fresh build; "
                "footprint after reset in the last cycle must not exceed cycle 2 (cycles 0 and 1 warm up the buffer-reduction heuristic). default_alloc growth policy vs model on random request sequences." % cycles,
        "refmap_reset_histories": rm_lines, "vtable_cache_unit": vt_stats, "blocks": len(blocks), "cycles": cycles, "builds_after_reset": nbuild, "ops": kinds, "alloc_sequences": len(alines),
        "footprint_samples": sum(len(v) for per in mems.values() for v in per.values()),
        "traces_validated_against_impl": nbuild + len(alines), "correspondence_disagreements": len(corr) + len(aidx), "spec_oracle_failures": len(spec) + len(grow)})
    ctx.samples = [{"history": b[:8]} for b in blocks[:2]]
    ctx.notes = ["failed JSON parses as prefix activity are exercised by C04/C13's checks; here their effect on the builder (open frames, open user frames, "
                 "failed allocations) is produced directly",
                 "the 'each distinct vtable once per buffer' clause: theorem C14_vtable_once is per (content, hash bucket); see known finding vtable-duplicate-across-field-sizes"]
    finish(ctx, ths)
