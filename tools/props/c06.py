"""C06 — the schema compiler fails gracefully on any input.
Model: StructGraph.lean (analyze_struct: DFS with open/closed marks + nesting limit), verdict protocol; theorems Props/C06.lean.
Tie: struct reference graphs (chains across the nesting limit, cycles, diamonds) compiled by the real compiler vs the model's verdict and
first diagnostic. Decided by execution: valid, mutated, grammar-derived-invalid and random schemas through the library buffer interface
with random option sets, many create/parse/generate/destroy cycles per process, under ASan + UBSan + LeakSanitizer; the command line
tool on files with includes: exit status, diagnostics, no generated output after a failed parse."""
import schemagen
from vlib import *


def struct_graph_case(r):
    n = r.choice([1, 2, 3, 4, 6, 10])
    kind = r.random()
    g = []
    if kind < 0.25:            # chain, possibly longer than the nesting limit
        n = r.choice([3, 50, 99, 100, 101, 102, 103, 130])
        order = list(range(n))
        if r.random() < 0.5: order.reverse()
        g = [[] for _ in range(n)]
        for a, b in zip(order, order[1:]): g[a] = ["s"] * r.randint(0, 2) + [b] + ["s"] * r.randint(0, 1)
        g[order[-1]] = ["s"]
        if r.random() < 0.3: g[order[-1]] = [order[r.randrange(n)]]      # close it into a cycle
    else:
        for i in range(n):
            ms = []
            for _ in range(r.randint(1, 4)):
                c = r.random()
                if c < 0.45: ms.append("s")
                elif kind < 0.6: ms.append(r.randrange(i + 1, n) if i + 1 < n else "s")      # forward only: acyclic
                else: ms.append(r.randrange(n))
            g.append(ms)
    text = "".join("struct S%d { %s }\n" % (i, " ".join("m%d:%s;" % (k, "int" if m == "s" else "S%d" % m) for k, m in enumerate(ms))) for i, ms in enumerate(g))
    text += "table T { x:S0; }\nroot_type T;\n"
    return ";".join(",".join(str(m) for m in ms) for ms in g), text


def mutate_schema(r, text):
    b = bytearray(text.encode())
    toks = [b"table", b"struct", b"enum", b"union", b"{", b"}", b"(", b")", b"[", b"]", b":", b";", b",", b"=", b"id", b"required", b"key", b"deprecated", b"namespace",
            b"include", b"root_type", b"file_identifier", b"attribute", b"\"", b"'", b"//", b"/*", b"*/", b"..", b".", b"-", b"+", b"0x", b"1e999", b"99999999999999999999999",
            b"-9223372036854775809", b"nan", b"inf", b"true", b"null", b"string", b"[ubyte]", b"(force_align: 3)", b"(id: 70000)", b"(bit_flags)", b"(hash: \"fnv1_32\")",
            b"\\", b"\x00", b"\xff", b"\xc3", b"\n", b"rpc_service", b"nested_flatbuffer", b"(nested_flatbuffer: \"T9\")", b"base64", b"[T0:4]", b"[int:0]", b"[int:70000]"]
    for _ in range(r.choice([1, 1, 2, 3, 6])):
        if not b: break
        i = r.randrange(len(b)); c = r.random()
        if c < 0.3: b[i:i] = r.choice(toks)
        elif c < 0.5: del b[i:i + r.choice([1, 2, 5, 20])]
        elif c < 0.6: b[i] = r.randrange(256)
        elif c < 0.7: b = b[:i]
        elif c < 0.8:
            j = r.randrange(len(b)); a, e = min(i, j), max(i, j); b[a:e] = b[a:e] * r.choice([2, 3])
        else:
            # swap two lines
            ls = bytes(b).split(b"\n")
            if len(ls) > 2:
                x, y = r.randrange(len(ls)), r.randrange(len(ls)); ls[x], ls[y] = ls[y], ls[x]; b = bytearray(b"\n".join(ls))
    return bytes(b).replace(b"\x00", b" ") if r.random() < 0.7 else bytes(b)


PATHO = [b"", b"table", b"table T", b"table T {", b"table T { x", b"table T { x:", b"table T { x:int", b"table T { x:int = ", b"table T { x:int = 1", b"table T { x:int; ",
         b"table T { x:[", b"table T { x:[int", b"\"", b"\"unterminated", b"/* unterminated", b"// only a comment", b"\xef\xbb\xbf table T { x:int; }", b"table T { x:int; } table T { y:int; }",
         b"table T { x:int; x:int; }", b"enum E:byte { A = 127, B }", b"enum E:ubyte { A = 256 }", b"enum E:int { }", b"union U { }", b"struct S { }", b"table T { x:S; }",
         b"table T { x:int (id: 1); }", b"table T { x:int (id: 0); y:int (id: 0); }", b"table T { x:int (id: 0); y:int; }", b"root_type Missing;", b"table T{} root_type T; root_type T;",
         b"file_identifier \"ABCDE\";", b"file_identifier \"AB\";", b"namespace ;", b"namespace A.;", b"include \"missing.fbs\";", b"attribute \"x\"; table T (x: 1, x: 2) { a:int; }",
         b"table T { x:[[int]]; }", b"table T { x:[int:4]; }", b"struct S { x:[int:0]; }", b"struct S { x:string; }", b"struct S { x:[S:2]; }", b"union U { A, A } table A {}",
         b"table T { u:U; } union U { T } ", b"table " + b"T" * 5000 + b" { x:int; }", b"table T { " + b"".join(b"f%d:int;" % i for i in range(3000)) + b"}",
         b"table T { x:int = " + b"9" * 400 + b"; }", b"table T { x:float = 1e" + b"9" * 300 + b"; }", b"{" * 3000, b"(" * 3000, b"[" * 3000, b"table T { x:" + b"[" * 500 + b"int" + b"]" * 500 + b"; }",
         b"table T { a:int (id:0); c:ubyte = 300 (id:1); c2:ubyte = 300 (id:2); d:int (id:3); }", b"table T { a:int (id:0); c:ubyte = 300 (id:1); d:int (id:2); }",
         b"table T { c:ubyte = 300 (id:0); c2:byte = -200 (id:1); c3:short = 70000 (id:2); }", b"table T { a:int (id:3); b:Missing (id:1); c:Missing (id:2); d:int (id:0); }",
         b"union U { T } table T { u:U (id:1); c:ubyte = 300 (id:2); c2:ubyte = 300 (id:3); e:int (id:4); }", b"table T { s:string = \"x\" (id:0); v:[int] = 1 (id:1); t:T = 0 (id:2); z:int (id:3); }",
         b"namespace Aaaaaaaaaa.Bbbbbbbbbb.Cccccccccc.Dddddddddd.Eeeee; table T { x:Aaaaaaaaaa.Bbbbbbbbbb.Cccccccccc.Dddddddddd.Eeeee.Ffffffffffffffffffffffffffffffffffff; }",
         b"rpc_service S { M(T):T; } table T {}", b"rpc_service S { M(Missing):T; } table T {}",
         b"table T{a:int;} rpc_service S { m(int):T; }", b"table T{a:int;} rpc_service S { m(T):int; }", b"table T{a:int;} rpc_service S { m(string):T; }",
         b"table T{a:int;} rpc_service S { m(T):string; }", b"table T{a:int;} rpc_service S { m([T]):T; }", b"table T{a:int;} rpc_service S { m(T):[T]; }",
         b"table T{a:int;} rpc_service S { m(T):[int]; }", b"table T{a:int;} rpc_service S { m([ubyte]):[ubyte]; }", b"struct V{a:int;} table T{a:int;} rpc_service S { m(V):T; n(T):V; }",
         b"table T{a:int;} rpc_service S { m(T):T; m(T):T; }", b"table T{a:int;} rpc_service S { m(T):T = 1; }", b"table T{a:int;} rpc_service S { m(T):T (streaming: \"server\"); }",
         b"enum E:int{A} table T{a:int;} rpc_service S { m(E):T; n(T):E; }", b"union U{T} table T{a:int;} rpc_service S { m(U):T; n(T):U; }", b"rpc_service S { m(bool):double; }", b"table T { x:int (deprecated, required); }", b"table T { x:string (key); y:string (key); }",
         b"enum E:byte (bit_flags) { A = 8 }", b"enum E:ulong (bit_flags) { A = 64 }", b"table T { e:E = Z; } enum E:byte { A }", b"table T { x:int = A.B.C; }"]


def run(ctx):
    ths = proof_stage(ctx)
    if ths is None:
        finish(ctx, [])
    r = ctx.rng
    quick = ctx.quick()
    flatcc, objs = build_flatcc(ctx, flags=SAN)
    vobj = [o for o in build_runtime_objs(ctx) if o.endswith("verifier.o")]
    h = build_harness(ctx, "h_schema", [os.path.join(VERIF, "harness/h_schema.c")], objs + vobj)
    # --- struct graphs vs model
    glines, mlines = [], []
    for _ in range(120 if quick else 2500):
        g, text = struct_graph_case(r)
        glines.append("compile 0 " + text.encode().hex()); mlines.append("sgraph " + g)
    rc, gout, gerr = run_parallel(h, glines, 16)
    rc, mout, _ = run_parallel(FMODEL, mlines, 8)
    corr, spec = [], []
    def cat(o):
        if o.startswith("ok"): return "ok"
        if "circular_reference" in o: return "circular"
        if "maximum_allowed_nesting" in o: return "deep"
        if "cannot_be_empty" in o: return "empty"
        return "other:" + o[:80]
    for i, (l, o, m) in enumerate(zip(glines, gout, mout)):
        if o.startswith("<crash"): spec.append((l, "compiler crashed on a struct hierarchy", o)); continue
        cm = "ok" if m.startswith("ok") else m.split("first=")[1].split(" ")[0]
        if cat(o) != cm: corr.append((i, o, m))
    # --- graceful failure corpus
    lines = []
    for _ in range(60 if quick else 1500):
        S = schemagen.gen_schema(r, size=r.choice([0.5, 1.0, 2.0]))
        text = schemagen.render(S)
        lines.append(("valid", "compile %d %s" % (r.choice([0, 0, 0, 2, 4, 8, 1]), text.encode().hex())))
        for _ in range(6 if quick else 10):
            m = mutate_schema(r, text)
            lines.append(("mutant", "compile %d %s" % (r.getrandbits(4), m.hex() or "-")))
    for p in PATHO:
        lines.append(("patho", "compile 0 %s" % (p.hex() or "-")))
        lines.append(("patho", "compile %d %s" % (r.getrandbits(4), p.hex() or "-")))
    # diagnostics that render a dotted name: unknown qualified references whose leading parts total every length around the display limits
    for total in list(range(40, 70)) + [99, 100, 101, 127, 128, 129, 255, 256, 257]:
        for nparts in (1, 2, 3):
            cut = sorted(r.sample(range(1, total - 1), nparts - 1)) if nparts > 1 else []
            parts, prev = [], 0
            for c in cut + [total]:
                parts.append("a" * max(1, c - prev - 1)); prev = c      # each part is followed by a dot
            ref = ".".join(parts) + "." + "Zz" * r.choice([1, 4, 30])
            for text in ("table T { x:%s; }" % ref, "struct S { x:%s; }" % ref, "union U { %s } table T { u:U; }" % ref,
                         "table T { x:int; } root_type %s;" % ref, "enum E:int { A } table T { e:E = %s; }" % ref):
                lines.append(("patho", "compile 0 %s" % text.encode().hex()))
    # every prefix of a schema that touches every token kind: the buffer ends inside / right after each token
    full = 'namespace A.B; attribute "prio"; enum E:ubyte { A = 1, B = 0x1f } struct S { x:[int:4]; y:float; } table T { a:int = -3 (id: 0, deprecated); f:double = 3.5e+10 (id: 1); s:string (id: 2, required); e:E = A (id: 3); } /* c */ root_type T; // end'
    for k in range(len(full) + 1):
        lines.append(("prefix", "compile 0 %s" % (full[:k].encode().hex() or "-")))
    for _ in range(100 if quick else 3000):
        n = r.choice([1, 5, 40, 400])
        lines.append(("random", "compile 0 %s" % bytes(r.choice(b"tablestruc{}[]():;,=\"' \n0123456789.-_AZaz/\\*\xff") for _ in range(n)).hex()))
    leak_env = {"ASAN_OPTIONS": "detect_leaks=1:abort_on_error=0:allocator_may_return_null=1"}
    rc, out, err = run_parallel(h, [l for _, l in lines], 16, env=leak_env)
    nok = nfail = 0
    valid_rejected = []
    for (kind, l), o in zip(lines, out):
        if o.startswith("<crash") or o.startswith("<no-output") or o.startswith("<skipped"):
            if "LeakSanitizer" in err and "ERROR: AddressSanitizer" not in err and "runtime error" not in err:
                continue        # a leak report at process exit shows up as the last line's crash: judged below
            spec.append((l, "compiler crashed / hung / sanitizer report", o)); continue
        m = re.match(r"(ok|fail) diag=(\d+)", o)
        if not m:
            if o == "no-context": spec.append((l, "context creation failed", o))
            else: spec.append((l, "unexpected harness output", o))
            continue
        ok, nd = m.group(1) == "ok", int(m.group(2))
        if ok:
            nok += 1
            if nd != 0: spec.append((l, "compilation reported success after reporting %d diagnostic(s)" % nd, o))
            if "verify=ok" not in o and "nobfbs" not in o: spec.append((l, "accepted schema: generated binary schema fails its verifier", o))
        else:
            nfail += 1
            if nd == 0: spec.append((l, "compilation failed without reporting a diagnostic", o))
        if kind == "valid" and not ok: valid_rejected.append(o[:120])      # not part of the property (e.g. allow_boolean_conversion=0 rejects `x:bool;`)
    if "LeakSanitizer" in err:
        spec.append(("(process exit)", "memory not released when the contexts were destroyed (LeakSanitizer)", err[err.index("LeakSanitizer") - 200:][:3000]))
    # --- command line tool: exit status, diagnostics, no output for a failed parse, includes
    cli_bad = cli_checks(ctx, flatcc, r, quick)
    spec += cli_bad
    if spec:
        l, why, o = min(spec, key=lambda t: len(t[0]))
        text = ""
        try: text = bytes.fromhex(l.split(" ")[2]).decode("latin1")
        except Exception: pass
        violation(ctx, "spec_%d.json" % ctx.seed, {"kind": "property-fails-on-implementation", "why": why, "count": len(spec), "op": l[:8000], "schema_text": text[:4000],
                                                     "output": o[:3000], "stderr": (gerr + err)[-3000:]})
    elif corr:
        i, o, m = corr[0]
        violation(ctx, "corr_%d.json" % ctx.seed, {"kind": "correspondence-broken", "theorems_no_longer_tied": [t["name"] for t in ths], "count": len(corr),
                                                     "schema_text": bytes.fromhex(glines[i].split(" ")[2]).decode()[:4000], "model_op": mlines[i][:2000],
                                                     "c_output": o[:500], "model_output": m[:500]}, no_failing_input=True)
    kinds = {}
    for k, _ in lines: kinds[k] = kinds.get(k, 0) + 1
    gc = {}
    for o in gout: gc[cat(o).split(":")[0]] = gc.get(cat(o).split(":")[0], 0) + 1
    ctx.cov.update({
        "evaluations": len(lines) + len(glines), "distinct_nontrivial": len(set(structural_hash(l) for _, l in lines)),
        "rule": "struct reference graphs (random, acyclic-by-construction, chains of 3..130 in both declaration orders across the nesting limit, closed into cycles) -> "
                "compiler verdict + first diagnostic vs model; corpus: generator-valid schemas, 6-10 token/byte/line mutants each, ~60 hand-made fragments ending inside every "
                "construct and abusing every limit (ids, sizes, nesting, counts, literals), random token soup; random option bits; 16 long-lived processes each running "
                "thousands of create/parse/generate-bfbs/destroy cycles under ASan+UBSan+LeakSanitizer; CLI on files with good/bad/missing/recursive includes.",
        "struct_graphs": len(glines), "struct_graph_verdicts": gc, "corpus": kinds, "accepted": nok, "rejected": nfail, "generator_valid_rejected": len(valid_rejected), "generator_valid_rejected_sample": valid_rejected[:2],
        "traces_validated_against_impl": len(glines), "correspondence_disagreements": len(corr), "spec_oracle_failures": len(spec)})
    ctx.samples = [{"op": mlines[i], "c": gout[i][:120], "model": mout[i][:120]} for i in range(min(3, len(mlines)))]
    ctx.notes = ["crash freedom / memory release / no output after failure are decided by execution under sanitizers, not proved; the theorem covers analyze_struct and the verdict protocol"]
    finish(ctx, ths)


def cli_checks(ctx, flatcc, r, quick):
    bad = []
    d = os.path.join(ctx.work, "cli")
    import shutil
    leak_env = {"ASAN_OPTIONS": "detect_leaks=1:abort_on_error=0:allocator_may_return_null=1", "UBSAN_OPTIONS": "print_stacktrace=1"}
    def run_case(name, files, main, expect_ok, opts=("-a",)):
        cd = os.path.join(d, name); od = os.path.join(cd, "out")
        shutil.rmtree(cd, ignore_errors=True); os.makedirs(od)
        for fn, text in files.items():
            open(os.path.join(cd, fn), "wb").write(text if isinstance(text, bytes) else text.encode())
        # the whole process runs under LeakSanitizer: the tool destroys its context before it exits, whatever the outcome
        rc, out, err = sh([flatcc, *opts, "-o", od, os.path.join(cd, main)], timeout=120, env=leak_env, cwd=cd)
        produced = sorted(os.listdir(od))
        mt = files.get(main, b"")
        tag = "cli %s %s %s" % (name, (mt if isinstance(mt, bytes) else mt.encode()).hex() or "-", " ".join(opts))     # the replay carries the main file
        if "LeakSanitizer" in err and "ERROR: AddressSanitizer" not in err:
            bad.append((tag,"memory not released when the context was destroyed (LeakSanitizer)", err[-2500:]))
        elif rc < 0 or rc > 128 and rc != 255 or "AddressSanitizer" in err or "runtime error" in err:
            bad.append((tag,"flatcc crashed (rc=%d)" % rc, err[-1500:]))
        elif expect_ok is True and rc != 0: bad.append((tag,"flatcc rejects a valid schema (rc=%d)" % rc, err[-800:]))
        elif expect_ok is False:
            if rc == 0: bad.append((tag,"flatcc exits 0 for an invalid schema", err[-800:]))
            else:
                if not (out + err).strip(): bad.append((tag,"flatcc fails without a diagnostic", ""))
                if produced: bad.append((tag,"flatcc generated output for a failed parse: %s" % produced[:5], err[-500:]))
        shutil.rmtree(cd, ignore_errors=True)
    good = "namespace N; table T { x:int; s:string; } root_type T;\n"
    run_case("good", {"a.fbs": good}, "a.fbs", True)
    # files that END (no newline: the tool reads them into an exact-size block) inside every kind of token
    for k, tail in enumerate(["table T { x:int = 3", "table T { x:int (id: 3", "table T { x:float = 3.", "table T { x:float = 3.5", "table T { x:float = 3e", "table T { x:float = 3e+",
                              "table T { x:float = 3e+1", "table T { x:int = 0", "table T { x:int = 0x", "table T { x:int = 0x1f", "table T { x:int = -", "table T { x:int = +1", "table T { x",
                              "table T { s:string = \"ab", "table T { s:string = \"ab\\", "namespace A.", "namespace A.B", "attribute \"a", "table T { x:[int", "include \"a", "include \"a.fbs\"",
                              "table T { x:int; } /", "table T { x:int = 1 (", "enum E:byte { A = 1", "enum E:byte { A = -", "struct S { x:[int:4", "rpc_service S { m(T):T", "file_identifier \"AB"]):
        run_case("eof%d" % k, {"a.fbs": tail.encode()}, "a.fbs", False)
    for k, tail in enumerate(["table T { x:int; } //", "table T { x:int; } // c", "table T { x:int; } /*", "table T { x:int; } /* c *", "table T { x:int; }\n\n", "table T { x:int; } "]):
        run_case("eofc%d" % k, {"a.fbs": tail.encode()}, "a.fbs", None)
    run_case("good_inc", {"a.fbs": 'include "b.fbs"; table A { b:B; }', "b.fbs": "table B { x:int; }"}, "a.fbs", True)
    run_case("bad_syntax", {"a.fbs": "table T { x:int "}, "a.fbs", False)
    run_case("bad_semantic", {"a.fbs": "table T { x:Missing; }"}, "a.fbs", False)
    run_case("missing_inc", {"a.fbs": 'include "nothere.fbs"; table T { x:int; }'}, "a.fbs", False)
    run_case("bad_inc", {"a.fbs": 'include "b.fbs"; table A { x:int; }', "b.fbs": "table B { x:int "}, "a.fbs", False)
    run_case("self_inc", {"a.fbs": 'include "a.fbs"; table A { x:int; }'}, "a.fbs", None)
    run_case("cycle_inc", {"a.fbs": 'include "b.fbs"; table A { x:int; }', "b.fbs": 'include "a.fbs"; table B { x:int; }'}, "a.fbs", None)
    chain = {"f%d.fbs" % i: ('include "f%d.fbs";\n' % (i + 1) if i < 79 else "") + "table T%d { x:int; }\n" % i for i in range(80)}
    run_case("deep_inc", chain, "f0.fbs", None)
    # beyond the include depth / include count limits (both 100 by default): must fail with a diagnostic, no output, nothing leaked
    chain = {"f%d.fbs" % i: ('include "f%d.fbs";\n' % (i + 1) if i < 129 else "") + "table T%d { x:int; }\n" % i for i in range(130)}
    run_case("too_deep_inc", chain, "f0.fbs", False)
    wide = {"w%d.fbs" % i: "table W%d { x:int; }\n" % i for i in range(130)}
    wide["a.fbs"] = "".join('include "w%d.fbs";\n' % i for i in range(130)) + "table A { x:int; }\n"
    run_case("too_many_inc", wide, "a.fbs", False)
    tree = {"a.fbs": 'include "l.fbs";\ninclude "r.fbs";\ntable A { x:int; }\n'}
    for side in "lr":
        for i in range(60):
            tree["%s%s.fbs" % (side, "" if i == 0 else i)] = ('include "%s%d.fbs";\n' % (side, i + 1) if i < 59 else "") + "table %s%d { x:int; }\n" % (side.upper(), i)
    run_case("count_over_two_chains", tree, "a.fbs", False)
    run_case("empty", {"a.fbs": ""}, "a.fbs", None)
    run_case("binary", {"a.fbs": bytes(r.randrange(256) for _ in range(4096))}, "a.fbs", False)
    run_case("missing_file", {}, "a.fbs", False)
    run_case("struct_cycle", {"a.fbs": "struct A { b:B; } struct B { a:A; } table T { a:A; }"}, "a.fbs", False)
    for k in range(4 if quick else 40):
        S = schemagen.gen_schema(r); text = schemagen.render(S)
        run_case("gen%d" % k, {"a.fbs": text}, "a.fbs", True, opts=r.choice([("-a",), ("-a", "--json"), ("-c", "-w", "-v", "-r"), ("--schema",), ("-a", "--stdout") if False else ("-a",)]))
        run_case("mut%d" % k, {"a.fbs": mutate_schema(r, text)}, "a.fbs", None)
    return bad
