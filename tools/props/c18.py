"""C18 — reference map is a map (refmap.c). Model: RefmapCore.lean, Refmap.lean; theorems Props/C18.lean.
Clone/pick over generated code is exercised by the C-side DAG scenario at the end (implementation-only evidence)."""
from vlib import *

M64 = 2**64 - 1


def murmur(src):
    x = (src ^ 0x2f693b52) & M64
    x ^= x >> 33
    x = (x * 0xff51afd7ed558ccd) & M64
    x ^= x >> 33
    x = (x * 0xc4ceb9fe1a85ec53) & M64
    x ^= x >> 33
    return x


def colliding_keys(rng, mask, want, n):
    """n distinct non-zero keys whose hash & mask == want"""
    out = []
    k = rng.randint(1, 2**40)
    while len(out) < n:
        if murmur(k) & mask == want:
            out.append(k)
        k += 8   # pointer-like stride
    return out


def spec(line, out):
    if out.startswith("<"):
        return "the map operations crashed or did not terminate (%s)" % out
    ops = line.split(" ")[1]
    ops = [] if ops == "_" else ops.split(",")
    res = out.split(" ")[0].split(",") if ops else []
    if len(res) != len(ops):
        return "wrong number of results"
    d = {}
    for o, r in zip(ops, res):
        r = int(r)
        if o[0] == "X":
            # allocator refuses during this call: a refused resize reports -1, a refused insert returns not-found (0) and stores nothing
            o = o[1:]
            if o[0] == "i":
                k, ref = o[1:].split(":"); k = int(k); ref = int(ref)
                if r == ref:
                    if k != 0: d[k] = ref
                elif r != 0: return "insert under allocation failure returned %d (neither the reference nor not-found)" % r
                continue
            if o[0] == "r":
                if r not in (0, -1): return "resize under allocation failure returned %d" % r
                continue
        if o[0] == "i":
            k, ref = o[1:].split(":"); k = int(k); ref = int(ref)
            if r != ref: return "insert did not return the reference"
            if k != 0: d[k] = ref
        elif o[0] == "f":
            k = int(o[1:])
            if r != d.get(k, 0): return "find(%d) returned %d, last stored %s" % (k, r, d.get(k))
        elif o[0] == "r":
            if r != 0: return "resize failed"
        elif o in ("R", "C"):
            d = {}
    if " c%d " % len(d) not in out + " ":
        return "count field differs from number of stored addresses (%d)" % len(d)
    return None


def gen(ctx):
    r = ctx.rng
    L = []
    nseq = 400 if ctx.quick() else 4000
    for s in range(nseq):
        mode = r.random()
        if mode < 0.25:
            pool = colliding_keys(r, r.choice([7, 15, 63, 255]), r.randint(0, 7), r.choice([3, 6, 12, 40]))
        elif mode < 0.5:
            base = r.randint(1, 2**47) & ~7
            pool = [base + 8 * i for i in range(r.choice([2, 5, 9, 30, 200]))]
        else:
            pool = [r.randint(1, 2**64 - 1) for _ in range(r.choice([1, 3, 8, 20, 100]))]
        pool += [0]
        nops = r.choice([5, 20, 60, 200]) if ctx.quick() else r.choice([5, 20, 60, 200, 1000, 3000])
        ops = []
        faulty = s % 3 == 0      # every third history runs with an allocator that refuses now and then (always for whole calls)
        for _ in range(nops):
            c = r.random()
            x = "X" if faulty and r.random() < 0.25 else ""
            if c < 0.45:
                ops.append(x + "i%d:%d" % (r.choice(pool), r.choice([1, -1, 2**31 - 1, -2**31, r.randint(1, 10**6)]) if x else r.choice([0, 1, -1, 2**31 - 1, -2**31, r.randint(-10**6, 10**6)])))
            elif c < 0.85:
                ops.append("f%d" % (r.choice(pool) if r.random() < 0.8 else r.randint(1, 2**48)))
            elif c < 0.93:
                ops.append(x + "r%d" % r.choice([0, 1, 5, 6, 11, 12, 100, 1000, len(pool) * 2]))
            elif c < 0.98:
                ops.append("R")
            else:
                ops.append("C")
        L.append("refmap " + ",".join(ops))
    # growth to many keys (thorough: 10^5 keys)
    for nk in ([2000] if ctx.quick() else [2000, 20000, 100000]):
        keys = [(r.randint(1, 2**44) & ~7) or 8 for _ in range(nk)]
        ops = ["i%d:%d" % (k, i + 1) for i, k in enumerate(keys)] + ["f%d" % k for k in r.sample(keys, min(nk, 3000))] + \
              ["f%d" % r.randint(1, 2**44) for _ in range(200)]
        L.append("refmap " + ",".join(ops))
    # a refused growth step at every table size, followed by finds, a reset and reuse of the same keys
    for grow in (6, 12, 23, 45):
        ks = [8 * (i + 1) for i in range(grow + 3)]
        pre = ["i%d:%d" % (k, i + 1) for i, k in enumerate(ks[:grow - 1])]
        L.append("refmap " + ",".join(pre + ["Xi%d:%d" % (ks[grow - 1], grow)] + ["f%d" % k for k in ks] + ["R"] + ["f%d" % k for k in ks[:3]] +
                                     ["i%d:%d" % (k, 100 + i) for i, k in enumerate(ks)] + ["f%d" % k for k in ks] + ["Xr1000", "f8", "r0", "f16"]))
    L += ["refmap _", "refmap f5", "refmap R,C,f1", "refmap i0:5,f0", "refmap r0,f1,i1:0,f1,i1:3,f1"]
    return L


def build_h(ctx):
    return build_harness(ctx, "h_refmap", [os.path.join(VERIF, "harness/h_refmap.c"), os.path.join(REPO, "src/runtime/refmap.c")],
                         defs=["-DFLATCC_CALLOC(nm,n)=h_calloc(nm,n)", "-DFLATCC_FREE(p)=h_free(p)", "-DNDEBUG", "-include", os.path.join(VERIF, "harness/h_allocs.h")])


def fault_stage(ctx):
    """C13: the histories with allocator refusals only (every third one + the directed ones). Returns (n, failure-or-None, kind)"""
    h = build_h(ctx)
    lines = [l for l in gen(ctx) if ",X" in l or " X" in l]
    rc_c, out_c, err_c = run_parallel(h, lines, 16, timeout=1800)
    rc_m, out_m, err_m = run_parallel(FMODEL, lines, 16, timeout=3000)
    idx, a, b = diff_streams(lines, out_c, out_m)
    sf = [(i, w) for i, w in ((i, spec(l, a[i])) for i, l in enumerate(lines)) if w]
    nref = sum(l.count("X") for l in lines)
    if sf:
        i, why = min(sf, key=lambda t: len(lines[t[0]]))
        return len(lines), nref, {"kind": "property-fails-on-implementation", "op": lines[i][:20000], "c_output": a[i][:5000], "model_output": b[i][:5000], "why": "reference map under allocation failure: " + why}, False
    if idx:
        i = min(idx, key=lambda k: len(lines[k]))
        return len(lines), nref, {"kind": "correspondence-broken", "op": lines[i][:20000], "c_output": a[i][:5000], "model_output": b[i][:5000]}, True
    return len(lines), nref, None, False


def reset_stage(ctx):
    """C14: the reference map attached to a builder is reset with it (flatcc_builder_reset -> flatcc_refmap_reset): histories with resets after the map
    has grown onto the heap, then reuse of old and new keys; the map must answer as a fresh one. Returns (lines, failure-or-None, is_tie)"""
    h = build_h(ctx)
    r = ctx.rng
    lines = []
    for grow in (3, 6, 7, 12, 13, 24, 50, 200):
        ks = [8 * (i + 1) for i in range(grow + 8)]
        for variant in range(3):
            pre = ["i%d:%d" % (k, i + 1) for i, k in enumerate(ks[:grow])]
            post_keys = ks[:grow] if variant == 0 else ks[grow:] + ks[:3] if variant == 1 else r.sample(ks, min(len(ks), 6))
            lines.append("refmap " + ",".join(pre + ["R"] + ["f%d" % k for k in ks[:6]] + ["i%d:%d" % (k, 500 + i) for i, k in enumerate(post_keys)] +
                                             ["f%d" % k for k in ks] + ["R", "f8", "i8:9", "f8", "f16"]))
    lines += [l for l in gen(ctx) if ",R" in l and "X" not in l][:60]
    rc_c, out_c, err_c = run_parallel(h, lines, 16, timeout=600)
    rc_m, out_m, err_m = run_parallel(FMODEL, lines, 16, timeout=1200)
    idx, a, b = diff_streams(lines, out_c, out_m)
    sf = [(i, w) for i, w in ((i, spec(l, a[i])) for i, l in enumerate(lines)) if w]
    if sf:
        i, why = min(sf, key=lambda t: len(lines[t[0]]))
        return len(lines), {"kind": "property-fails-on-implementation", "op": lines[i][:20000], "c_output": a[i][:5000], "model_output": b[i][:5000],
                            "why": "reference map after reset does not behave like a fresh one: " + why}, False
    if idx:
        i = min(idx, key=lambda k: len(lines[k]))
        return len(lines), {"kind": "correspondence-broken", "op": lines[i][:20000], "c_output": a[i][:5000], "model_output": b[i][:5000]}, True
    return len(lines), None, False


def clone_stage(ctx):
    """generated <T>_clone_as_root (tables, structs, strings, every vector kind, unions, union vectors, nested buffers — clone is built from the
    per-field pick functions) on random schemas and trees: the finished root of every C03-style case is cloned into a FRESH builder, once with a
    reference map and once without; the clone must succeed, verify, read back through every accessor exactly like the source (= the value tree),
    and with the reference map objects shared in the source must not be duplicated. -> (stats, failures)"""
    from props import c03
    from concurrent.futures import ThreadPoolExecutor
    flatcc, _ = build_flatcc(ctx)
    rt = build_runtime_objs(ctx)
    nschema = 24 if ctx.quick() else 300
    jobs = [(ctx.work, flatcc, rt, ctx.seed, si, 10 if ctx.quick() else 16, True) for si in range(nschema)]
    with ThreadPoolExecutor(16) as ex:
        results = list(ex.map(c03.one_schema, jobs))
    fails, n, nshared, nlong = [], 0, 0, 0
    known_nested = []
    tie_cases, tie_fail = [], []
    for res in results:
        if "error" in res:
            fails.append(("generated code unusable: " + res["error"][:600], res.get("fbs", ""), None)); continue
        for c in res["cases"]:
            l = c["line"] or ""
            if c["why"] and "clone=" not in l and "cverify" not in l:
                if "crashed" in (c["why"] or ""):
                    fails.append(("clone scenario crashed (sanitizer / signal): " + c["why"][-900:], res["fbs"], c))
                continue          # the original build is C03's business
            m = re.search(r" clone=(\S+) cverify=(-?\d+) cok=(\d),(\d) csize=(\d+),(\d+)", l)
            if not m:
                if " verify=0" in l: fails.append(("clone produced no result: " + l[-300:], res["fbs"], c))
                continue
            n += 1
            nshared += bool(c["meta"].get("shared")); nlong += bool(c["meta"].get("fresh"))
            dump, cv, ok0, ok1, s0, s1 = m.group(1), int(m.group(2)), int(m.group(3)), int(m.group(4)), int(m.group(5)), int(m.group(6))
            toks = c["model_line"].split(" ")
            if not (ok0 and ok1): fails.append(("<T>_clone_as_root failed (with refmap: %d, without: %d)" % (ok0, ok1), res["fbs"], c))
            elif cv in (11, 12, 16) and ("B" in toks or "E" in toks):
                # struct / table field / vector unaligned, and the source holds nested buffers: a nested buffer is cloned as a plain [ubyte] vector (alignment 1)
                known_nested.append((res["fbs"], c, cv))
            elif cv != 0: fails.append(("the clone does not verify (%d)" % cv, res["fbs"], c))
            elif dump != c["expect"] and not c.get("known"): fails.append(("the clone reads differently from the source: %s" % dump[:600], res["fbs"], c))
            elif s0 > s1: fails.append(("the clone with a reference map (%d bytes) is larger than without (%d)" % (s0, s1), res["fbs"], c))
            mm = re.search(r" cmap=(\d+)", l)
            if mm and c.get("graph") and ok0:
                g = c["graph"]
                tie_cases.append((res["fbs"], c, int(mm.group(1)),
                                  "clone 1 %d %s" % (c["root"], ";".join("%d:%s" % (a, ".".join(str(k) for k in ks)) for a, ks in sorted(g.items())))))
    # tie of the clone model (Clone.lean, theorems Props/C18_Clone.lean): on the source's object graph (addresses from the independent decoder)
    # the model creates exactly as many reference map entries as the generated clone left in the real map
    if tie_cases:
        rc, mout, _ = run_parallel(FMODEL, [t[3] for t in tie_cases], 8)
        for (fbs, c, cmapn, line), mo in zip(tie_cases, mout):
            mm = re.match(r"ok r=\d+ objs=(\d+) memo=(\d+)", mo)
            if not mm or int(mm.group(2)) != cmapn or int(mm.group(1)) != cmapn:
                tie_fail.append(("clone model and generated clone disagree on the reference map entries: model `%s`, implementation %d (source objects by address: %d)"
                                 % (mo[:80], cmapn, len(c["graph"])), fbs, c, line))
    if known_nested:
        fbs, c, cv = known_nested[0]
        if any(f["id"] == "clone-nested-buffer-loses-alignment" and f["status"] == "known" for f in load_known()):
            known_finding(ctx, "clone-nested-buffer-loses-alignment", "the clone of a table with nested_flatbuffer fields does not verify (error %d: alignment): a nested buffer is cloned / picked as a plain "
                          "[ubyte] vector with alignment 1, so its content loses the alignment it needs (%d cases this run)" % (cv, len(known_nested)))
        else:
            fails.append(("the clone does not verify (%d): nested buffer content misaligned in the clone" % cv, fbs, c))
    return {"clone_cases": n, "clone_cases_with_shared_objects": nshared, "clone_cases_with_long_vectors": nlong, "clone_known_nested_alignment": len(known_nested),
            "clone_model_tie_cases": len(tie_cases), "clone_model_tie_disagreements": len(tie_fail),
            "clone_source_objects": sum(len(t[1]["graph"]) for t in tie_cases)}, fails, tie_fail


def run(ctx):
    ths = proof_stage(ctx)
    if ths is None:
        finish(ctx, [])
    h = build_h(ctx)
    lines = gen(ctx)
    rc_c, out_c, err_c = run_parallel(h, lines, 16, timeout=1800)
    rc_m, out_m, err_m = run_parallel(FMODEL, lines, 16, timeout=3000)
    idx, a, b = diff_streams(lines, out_c, out_m)
    spec_fail = [(i, w) for i, w in ((i, spec(l, a[i])) for i, l in enumerate(lines)) if w]
    model_inv_fail = [i for i, o in enumerate(b) if "inv=true spec=true" not in o]
    if spec_fail:
        i, why = min(spec_fail, key=lambda t: len(lines[t[0]]))
        violation(ctx, "spec_%d.json" % ctx.seed, {"kind": "property-fails-on-implementation", "op": lines[i][:20000], "c_output": a[i][:5000],
                                                     "model_output": b[i][:5000], "why": why, "count": len(spec_fail), "stderr": err_c[-1500:]})
    elif idx or model_inv_fail:
        i = min(idx or model_inv_fail, key=lambda k: len(lines[k]))
        violation(ctx, "corr_%d.json" % ctx.seed,
                  {"kind": "correspondence-broken" if idx else "model-invariant-or-spec-broken",
                   "theorems_no_longer_tied": [t["name"] for t in ths], "op": lines[i][:20000], "c_output": a[i][:5000],
                   "model_output": b[i][:5000], "count": len(idx)}, no_failing_input=True)
    cstats, cfails, ctie = clone_stage(ctx)
    if ctie and not cfails:
        why, fbs, c, line = ctie[0]
        violation(ctx, "clone_tie_%d.json" % ctx.seed, {"kind": "correspondence-broken", "why": why, "count": len(ctie), "model_line": line[:3000], "schema_fbs": fbs,
                                                          "theorems_no_longer_tied": [t["name"] for t in ths if "clone" in t["name"]], "program_line": (c["line"] or "")[-1500:]},
                  no_failing_input=True)
    if cfails:
        why, fbs, c = cfails[0]
        violation(ctx, "clone_%d.json" % ctx.seed, {"kind": "property-fails-on-implementation", "why": why, "count": len(cfails), "more": [f[0][:200] for f in cfails[1:6]],
                                                      "schema_fbs": fbs, "case": c and c["meta"], "expected_dump": c and c["expect"][:3000], "program_line": c and (c["line"] or "")[-3000:],
                                                      "value_tree_tokens": c and c["model_line"][:3000]})
    nops = sum(l.count(",") + 1 for l in lines)
    ctx.cov.update(cstats)
    ctx.cov.update({
        "evaluations": nops, "distinct_nontrivial": len(set(structural_hash(l) for l in lines if l.count(",") >= 3)),
        "rule": "operation sequences (insert/find/resize/reset/clear) over key pools: engineered hash collisions on the low 3..8 bits of the "
                "MurmurHash3 finaliser, pointer-like strides, random 64-bit keys, the null key, zero and extreme references, shrinking and growing "
                "resizes; plus growth runs to 2e3 (quick) / 1e5 (thorough) keys. evaluations = single map operations; distinct = sequences with >= 4 ops by hash. "
                "Each sequence: C results vs model results, final buckets/count, model invariant after every step, abstract-map spec for every find.",
        "sequences": len(lines), "traces_validated_against_impl": len(lines),
        "correspondence_disagreements": len(idx), "spec_oracle_failures": len(spec_fail)})
    ctx.samples = [{"op": lines[i][:200], "c": a[i][:200], "model": b[i][:200]} for i in (0, 1, len(lines) - 1)]
    ctx.notes = ["reference map: refinement to the abstract map proved for every history (Props/C18.lean, Props/C13_Refmap.lean)",
                 "clone/pick: Props/C18_Clone.lean proves content (bisimilarity), sharing (one object per distinct source address) and termination over the "
                 "recursion scheme of the generated clone (Clone.lean); the scheme is tied by the number of reference map entries on every cloned case and by "
                 "dump equality / verification of the real clone; byte layout of the clone is not modelled"]
    finish(ctx, ths)
