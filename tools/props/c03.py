"""C03 — build then read returns exactly what was written.
Model: Builder.lean (table frame, vtable, offsets, strings, vectors); theorems Props/C03.lean.
Tie: for random schemas the *generated* builder (three call styles, default elision, force_add, optional scalars, create/start-end/push,
nested roots) is compiled from the current compiler's output and run; every finished buffer is (a) dumped through the *generated*
reader and compared with the value tree, (b) decoded by the independent strict decoder and compared, (c) compared byte for byte
with the Lean model's build of the same tree, (d) verified by the generated verifier."""
import struct, random
import vtree, cgen
from vlib import *
from concurrent.futures import ThreadPoolExecutor


def fnv1a(name):
    h = 2166136261
    for c in name.encode(): h = ((h ^ c) * 16777619) & 0xffffffff
    return h


def one_schema(args):
    ctx_work, flatcc, rt_objs, seed, si, ncase = args[:6]
    clone = len(args) > 6 and args[6]
    r = random.Random(seed * 100003 + si + (7919 if clone else 0))
    tabs, uns = vtree.random_schema(r, 0.25)
    if si % 3 == 2:
        # struct fields with every permitted force_align up to FLATCC_FORCE_ALIGN_MAX (the generator orders create arguments by alignment)
        for fs in tabs:
            for f in fs:
                if f["kind"] == "s" and r.random() < 0.5:
                    f["b"] = r.choice([32, 64, 128, 256]); f["a"] = f["b"] * r.choice([1, 1, 2])
    if si == -1:     # the recorded finding, deterministically: -0.0 given to a float field with default 0
        import fbenc
        tabs, uns = [[fbenc.fld(0, 0, "s", 4, 4), fbenc.fld(1, 0, "s", 8, 8)]], []
    ty = cgen.Typing(r, tabs, uns)
    P = cgen.Prog(ty)
    P.clone = clone
    meta = []
    if si == -1:
        ty.ftype[(0, 0)] = dict(kind="scalar", t="float", default=0, optional=False)
        ty.ftype[(0, 1)] = dict(kind="scalar", t="double", default=0, optional=False)
        ty.structs.clear()
        N = vtree.Node
        for style in (0, 1):
            t = N("T", ti=0, fields=[(tabs[0][0], N("i", size=4, align=4, data=b"\0\0\0\x80")), (tabs[0][1], N("i", size=8, align=8, data=b"\0" * 7 + b"\x80"))])
            P.add_case(t, 0, False, False, style, False)
            meta.append(dict(ti=0, ws=False, typed=False, style=style, force=False))
        ncase = 0
    for ci in range(ncase):
        g = vtree.Gen(r, tabs, uns, maxdepth=r.choice([2, 4, 5]), big=r.random() < 0.05)
        # long offset / union vectors on a fresh builder: its stacks have to grow while a vector or one of its elements is open
        fresh = r.random() < (0.3 if clone else 0.15)
        if fresh: g.long_vectors = 0.4
        by_args = ci % 6 == 0      # a bottom-up case (style 0) in which every table whose fields are all present is built by <T>_create(B, args...)
        if by_args:      # no shared objects, nearly every field present; kept small (a full tree grows exponentially with depth)
            g.share, g.skip, g.budget, g.maxdepth, g.long_vectors = 0.0, 0.05, 30, min(g.maxdepth, 3), 0.0
        ti = r.randrange(len(tabs))
        try:
            t = g.table(ti, 0, False)
        except RecursionError:
            continue
        ws, typed, style, force = r.random() < 0.3, r.random() < 0.3, ci % 3, r.random() < 0.3
        P.by_args = by_args
        if by_args: force = False
        P.add_case(t, ti, ws, typed, style, force, fresh)
        meta.append(dict(ti=ti, ws=ws, typed=typed, style=style, force=force, fresh=fresh, shared=any(x == "r" for x in vtree.render(P.lowered[-1]))))
    d = os.path.join(ctx_work, "s%d" % si)
    os.makedirs(os.path.join(d, "gen"), exist_ok=True)
    open(os.path.join(d, "s.fbs"), "w").write(ty.fbs())
    open(os.path.join(d, "prog.c"), "w").write(P.source())
    rc, out, err = sh([flatcc, "-a", "-o", os.path.join(d, "gen"), os.path.join(d, "s.fbs")])
    if rc != 0:
        return dict(si=si, error="flatcc rejected the generated schema: " + (out + err)[-800:], fbs=ty.fbs())
    rc, log = cc(["-g", "-O0", "-w", "-fsanitize=address,undefined", "-fno-sanitize=alignment", "-fno-sanitize=nonnull-attribute", "-fno-sanitize-recover=all",
                  "-I", os.path.join(REPO, "include"), "-I", os.path.join(d, "gen"), os.path.join(d, "prog.c"), *rt_objs, "-o", os.path.join(d, "prog")])
    if rc != 0:
        return dict(si=si, error="generated code does not compile: " + log[-1500:], fbs=ty.fbs())
    lines, crashed, start = [], {}, 0
    for _ in range(len(meta) + 1):
        rc, out, err = sh([os.path.join(d, "prog"), str(start)], timeout=120, env=ASAN_ENV)
        got = [x for x in out.split("\n") if x.startswith("case ")]
        lines += got
        if rc == 0: break
        done = max([int(x.split(" ")[1]) for x in got if x.endswith(tuple("0123456789")) or "failed" in x] + [start - 1])
        crashed[done + 1] = err[-1500:]
        start = done + 2
        if start >= len(meta): break
    res = []
    for ci, m in enumerate(meta):
        l = next((x for x in lines if x.startswith("case %d " % ci)), None)
        low = P.lowered[ci]
        ident = "-"
        if m["typed"]:
            h = fnv1a("g.T%d" % m["ti"]); ident = struct.pack("<I", h).hex()
        toks = "build %d %s 0 0 %s" % (1 if m["ws"] else 0, ident, " ".join(vtree.render(low)))
        e = dict(si=si, ci=ci, meta=m, line=l, expect=P.expect[ci], model_line=toks, why=None)
        if l is None or ci in crashed:
            e["why"] = "generated program crashed in this case: %s" % crashed.get(ci, "(no output)")
        else:
            t = l.split(" ")
            if len(t) < 6: e["why"] = "builder API failed: " + l
            else:
                e["align"], e["hex"], dump, ver = int(t[2]), t[3], t[4], t[5]
                if P.expect_known[ci] is not None:
                    # the tree gives -0.0 to a float field whose default is +0.0: only the reader dump is judged
                    if dump == P.expect_known[ci]: e["known"] = "negative-zero-elided"; e["skip_model"] = True
                    elif dump == P.expect[ci]: e["skip_model"] = True
                    else: e["why"] = "generated reader returns a different value tree"; e["got"] = dump
                elif dump != P.expect[ci]: e["why"] = "generated reader returns a different value tree"; e["got"] = dump
                elif ver != "verify=0": e["why"] = "generated verifier rejects the finished buffer (%s)" % ver
                else:
                    try:
                        idb = bytes.fromhex(ident) if ident != "-" else None
                        v, dec = vtree.decode_root(bytes.fromhex(t[3]), tabs, uns, ("t", m["ti"]), m["ws"], idb, int(t[2]))
                        w = vtree.same(vtree.canon(low), v)
                        e["graph"], e["root"] = dec.graph, dec.root       # the source's object graph by address (C18: clone model)
                        if w: e["why"] = "independent decoder: " + w
                        elif dec.seen_align > int(t[2]): e["why"] = "content needs alignment %d, builder reports %d" % (dec.seen_align, int(t[2]))
                    except vtree.FormatError as x:
                        e["why"] = "independent format check: %s" % x
        res.append(e)
    import shutil
    fbs = ty.fbs()
    shutil.rmtree(d, ignore_errors=True)
    return dict(si=si, cases=res, fbs=fbs, tables=tabs, unions=uns, by_args=getattr(P, "n_by_args", 0))


def vtcache_stage(ctx, rt, n):
    """flatcc_builder_create_cached_vtable called directly (h_build `vtcache`): vtables of one size that differ in exactly one
    entry (every position, the last included), forced into one hash bucket. Oracle: two calls return the same reference only
    for byte-identical vtables (a table pointed at another vtable reads its fields from the wrong place); tie: references == model."""
    r = random.Random(ctx.seed * 7919 + 3)
    h_build = rt if isinstance(rt, str) else build_harness(ctx, "h_build", [os.path.join(VERIF, "harness/h_build.c")], rt)
    lines, items_of = [], []
    for _ in range(n):
        ne = r.randint(1, 14)
        base = [2 * (ne + 2), r.randrange(4, 120, 2)] + [r.choice([0, 4, 4, 6, 8, 12, 16, 20, 24]) for _ in range(ne)]
        if base[-1] == 0: base[-1] = 4
        h0 = r.randrange(1 << 32)
        items = [(h0, base)]
        for _ in range(r.randint(2, 8)):
            c = r.random()
            src = list(r.choice(items)[1])
            if c < 0.45:      # one entry differs; the last one as often as all the others together
                k = len(src) - 1 if r.random() < 0.5 else r.randrange(1, len(src))
                src[k] = src[k] + r.choice([2, 4, -2]) if src[k] + 0 >= 4 else 4
            elif c < 0.6:     # a shorter / longer vtable with a common prefix
                if len(src) > 3 and r.random() < 0.5: src = src[:-1]
                else: src = src + [r.choice([4, 8, 12])]
                src[0] = 2 * len(src)
            hc = r.random()
            h = h0 if hc < 0.6 else (h0 & 0xfc000000) | r.randrange(1 << 26) if hc < 0.85 else r.randrange(1 << 32)
            items.append((h, src))
        lines.append("vtcache " + ",".join("%d:%s" % (h, struct.pack("<%dH" % len(v), *v).hex()) for h, v in items))
        items_of.append(items)
    rc, c_out, err = run_parallel(h_build, lines, 8)
    rc, m_out, _ = run_parallel(FMODEL, lines, 8)
    fail, tie = None, False
    stats = dict(lines=len(lines), calls=sum(len(i) for i in items_of), reused=0, last_entry_pairs=0)
    for l, items, co, mo in zip(lines, items_of, c_out, m_out):
        refs = co.split(",")
        if co.startswith("<crash") or len(refs) != len(items):
            fail = fail or {"kind": "property-fails-on-implementation", "why": "create_cached_vtable crashed / failed", "op": l, "c_output": co[:500]}; continue
        first = {}
        for (h, v), ref in zip(items, refs):
            if ref in first:
                stats["reused"] += 1
                if first[ref] != v:
                    fail = fail or {"kind": "property-fails-on-implementation", "op": l, "c_output": co,
                                    "why": "create_cached_vtable returned the reference of vtable %s for the different vtable %s: the table's fields are read from the wrong offsets" % (first[ref], v)}
            else: first[ref] = v
        vs = [v for _, v in items]
        stats["last_entry_pairs"] += sum(1 for a in vs for b in vs if a[:-1] == b[:-1] and a[-1] < b[-1])
    if not fail:
        for l, co, mo in zip(lines, c_out, m_out):
            if co != mo:
                fail = {"kind": "correspondence-broken", "op": l, "c_output": co, "model_output": mo}; tie = True; break
    return stats, fail, tie


def run(ctx):
    ths = proof_stage(ctx)
    if ths is None:
        finish(ctx, [])
    flatcc, _ = build_flatcc(ctx)
    rt = build_runtime_objs(ctx)
    vt_stats, vt_fail, vt_tie = vtcache_stage(ctx, rt, 400 if ctx.quick() else 6000)
    if vt_fail:
        if vt_tie: vt_fail["theorems_no_longer_tied"] = [t["name"] for t in ths]
        violation(ctx, "vtcache_%d.json" % ctx.seed, vt_fail, no_failing_input=vt_tie)
    nschema = 48 if ctx.quick() else 600
    ncase = 12 if ctx.quick() else 18
    jobs = [(ctx.work, flatcc, rt, ctx.seed, si, ncase) for si in range(-1, nschema)]
    with ThreadPoolExecutor(16) as ex:
        results = list(ex.map(one_schema, jobs))
    bad_schema = [r for r in results if "error" in r]
    cases = [c for r in results if "cases" in r for c in r["cases"]]
    fbs_of = {r["si"]: r["fbs"] for r in results}
    spec = [c for c in cases if c["why"]]
    # byte-exact comparison with the model
    good = [c for c in cases if not c["why"] and not c.get("skip_model")]
    known = [f for f in load_known() if f["property"] == "C03" and f["status"] == "known"]
    kh = [c for c in cases if c.get("known") == "negative-zero-elided"]
    if kh and not any(f["id"] == "negative-zero-elided" for f in known):
        for c in kh: c["why"] = "a float field given -0.0 (default +0.0) reads back as +0.0 / absent"
        spec = [c for c in cases if c["why"]]
    elif kh:
        known_finding(ctx, "negative-zero-elided", "float/double field with default 0 given -0.0 through <T>_<f>_add is elided (v == default) and reads back as +0.0, is_present false; e.g. %s (%d cases this run)" % (kh[0]["expect"][:80], len(kh)))
    rc_m, m_out, err_m = run_parallel(FMODEL, [c["model_line"] for c in good], 16)
    corr = []
    for c, mo in zip(good, m_out):
        t = mo.split(" ")
        if len(t) < 3 or t[1] != str(c["align"]) or t[2] != c["hex"]:
            c["model_output"] = mo[:3000]; corr.append(c)
    if bad_schema:
        b = bad_schema[0]
        violation(ctx, "gen_%d.json" % ctx.seed, {"kind": "generated-code-unusable", "why": b["error"], "schema": b["fbs"]}, no_failing_input=True)
    elif spec:
        c = min(spec, key=lambda c: len(c["model_line"]))
        violation(ctx, "spec_%d.json" % ctx.seed, {"kind": "property-fails-on-implementation", "why": c["why"], "count": len(spec), "schema_fbs": fbs_of[c["si"]],
                                                     "case": c["meta"], "expected_dump": c["expect"][:3000], "reader_dump": c.get("got", "")[:3000],
                                                     "program_line": (c["line"] or "")[:3000], "value_tree_tokens": c["model_line"][:3000],
                                                     "how_to_replay": "VERIF_SEED=%d python3 tools/check.py C03 --tier %s (schema %d, case %d)" % (ctx.seed, ctx.tier, c["si"], c["ci"])})
    elif corr:
        c = min(corr, key=lambda c: len(c["model_line"]))
        violation(ctx, "corr_%d.json" % ctx.seed, {"kind": "correspondence-broken", "theorems_no_longer_tied": [t["name"] for t in ths], "count": len(corr),
                                                     "schema_fbs": fbs_of[c["si"]], "case": c["meta"], "model_line": c["model_line"][:3000],
                                                     "c_output": "ok %d %s" % (c["align"], c["hex"][:3000]), "model_output": c["model_output"]}, no_failing_input=True)
    styles = {}
    for c in cases: styles[c["meta"]["style"]] = styles.get(c["meta"]["style"], 0) + 1
    ctx.cov.update({
        "evaluations": len(cases), "distinct_nontrivial": len(set(structural_hash(c["model_line"]) for c in cases)),
        "rule": "random schemas rendered as .fbs (explicit ids with deprecated fillers, scalars of every type with defaults, optional scalars, force_align "
                "structs with fixed arrays, scalar and struct vectors, string/table vectors, unions with explicit values incl. struct and string members, "
                "union vectors with NONE, nested_flatbuffer table and struct roots, required) compiled by the current flatcc; value trees with boundary "
                "scalars (no NaN), empty/long strings with NUL, shared strings/tables, fields added out of id order; built through the generated API in 3 styles "
                "(bottom-up create + add, with every table whose fields are all present built by <T>_create(B, arguments) in half of these cases; field-level "
                "create / nested start-end / start_as_root; push/append/extend/truncate + struct start/end), struct fields of every alignment up to 256, plain, "
                "size-prefixed, typed roots, add vs force_add. Oracles: generated-reader dump == tree (defaults, is_present, null), independent decoder == tree, "
                "generated verifier accepts, bytes == Lean model build. Unit stage: create_cached_vtable called directly with vtables differing in one "
                "entry (every position) forced into one hash bucket: same reference only for identical bytes; references == model.",
        "vtable_cache_unit": vt_stats,
        "schemas": len(results), "styles": styles, "tables_built_by_create_arguments": sum(r.get("by_args", 0) for r in results),
        "force_add_cases": sum(1 for c in cases if c["meta"]["force"]),
        "with_size": sum(1 for c in cases if c["meta"]["ws"]), "typed": sum(1 for c in cases if c["meta"]["typed"]),
        "traces_validated_against_impl": len(good), "correspondence_disagreements": len(corr), "spec_oracle_failures": len(spec)})
    ctx.samples = [{"case": c["meta"], "dump": (c["line"] or "")[-300:], "expected": c["expect"][:300]} for c in cases[:3]]
    ctx.notes = ["theorems are per table frame / per created object (any call order); their composition over whole trees is exercised by execution only",
                 "clone and pick are exercised under C18 (same generator with the clone flag)"]
    finish(ctx, ths)
