"""C02 — whatever the builder finishes is a valid FlatBuffer that the verifier accepts.
Model: Builder.lean (emit layer, create_* functions, table frame, buffer header, nesting); theorems Props/C02.lean.
Tie: byte-exact comparison of the runtime builder (three call styles) with the model on random value trees and settings;
each finished buffer is then (a) decoded by an independent strict format checker, (b) given to the runtime verifier and
to the verifier model."""
import vtree, fbenc
from vlib import *


def configs(r, quick):
    flags = r.choice([0, 0, 1, 2, 3])
    ident = r.choice(["-", "-", "4d4f4e53", "00000000", "41004344", "%08x" % r.getrandbits(32)])
    ba = r.choice([0, 0, 0, 1, 2, 4, 8, 16, 64, 128, 256] if not quick else [0, 0, 0, 8, 16, 64])
    return flags, ident, ba


def build_cases(ctx, nested=0.0, nschema=None, per=None, big=False, gen_kw=None, depths=(2, 4, 6)):
    """returns list of cases: dict(tables, unions, root, tree, flags, ident, ba, lines=[...one per style])"""
    r = ctx.rng
    nschema = nschema or (50 if ctx.quick() else 700)
    per = per or (5 if ctx.quick() else 10)
    cases = []
    for si in range(nschema):
        tabs, uns = vtree.random_schema(r, nested)
        for _ in range(per):
            g = vtree.Gen(r, tabs, uns, maxdepth=r.choice(depths), big=big and r.random() < 0.1, **(gen_kw or {}))
            # offset / union vectors of 20..130 elements: the builder's data stack has to grow while the vector (or an element) is open;
            # such cases are built on a FRESH builder, whose stacks still have their initial sizes
            fresh = r.random() < 0.15
            if fresh: g.long_vectors = 0.35
            if not fresh and r.random() < 0.1:
                al = r.choice([1, 2, 4, 8, 16, 32]); size = al * r.randint(1, 3)
                tree = vtree.Node("u", align=al, data=vtree.rbytes(r, size)); root = ("st", size, al)
            else:
                ti = r.randrange(len(tabs)); root = ("t", ti)
                try:
                    tree = g.table(ti, 0, shareable=False)
                except RecursionError:
                    continue
            flags, ident, ba = configs(r, ctx.quick())
            if root[0] == "st" and r.random() < 0.5: flags |= 4
            toks = " ".join(vtree.render(tree))
            # the harness reads at most 65536 tokens per line (and the list-based model is slow on such trees): long vectors times deep
            # nesting can exceed that; such a tree is dropped, not truncated
            if toks.count(" ") > 40000: continue
            # children of the root table created before the top-level buffer is started (allowed at the top level only:
            # nothing that is or contains a nested buffer; creation order is the same as in the create style, so back references keep their numbers)
            if root[0] == "t" and not (set(toks.split(" ")) & {"B", "E"}) and r.random() < 0.25: flags |= 8
            cases.append(dict(tables=tabs, unions=uns, root=root, tree=tree, flags=flags, ident=ident, ba=ba, toks=toks, si=si, fresh=fresh))
    return cases


def build_line(c, style):
    return "build %d %s %d %d %s" % (c["flags"], c["ident"], c["ba"], style, c["toks"])


def run_builds(ctx, h_build, cases, styles=(0, 1, 2)):
    """runs every case in every style on the C builder (fresh builder per block of cases, reset between builds)
    and once on the model. Returns (c_out[case][style], m_out[case], stderr)."""
    blocks, index = [], []
    B = 24
    for s in range(0, len(cases), B):
        lines = ["fresh 1"]
        for ci in range(s, min(len(cases), s + B)):
            for st in styles:
                lines.append("fresh 1" if cases[ci].get("fresh") else "reset 0"); lines.append(build_line(cases[ci], st)); index.append((ci, st))
        blocks.append(lines)
    rc, out, err = run_blocks(h_build, blocks, 16, sticky="fresh ")
    flat = [l for b in blocks for l in b]
    c_out = [dict() for _ in cases]
    k = 0
    for l, o in zip(flat, out):
        if l.startswith("build "):
            ci, st = index[k]; k += 1
            c_out[ci][st] = o
    mlines = [build_line(c, 0) for c in cases]
    rc_m, m_out, err_m = run_parallel(FMODEL, mlines, 16)
    return c_out, m_out, err + err_m


def check_buffer(c, out):
    """independent format check + value comparison of one finished buffer. Returns None or reason."""
    t = out.split(" ")
    if t[0] != "ok": return "builder failed: " + out[:100]
    align = int(t[1]); buf = bytes.fromhex(t[2]) if t[2] != "-" else b""
    if align & (align - 1) or align == 0: return "reported alignment %d is not a power of two" % align
    if c["ba"] and align % c["ba"]: return "reported alignment %d does not honour block alignment %d" % (align, c["ba"])
    ident = bytes.fromhex(c["ident"]) if c["ident"] != "-" and c["ident"] != "00000000" else None
    try:
        v, d = vtree.decode_root(buf, c["tables"], c["unions"], c["root"], bool(c["flags"] & 1), ident, align)
    except vtree.FormatError as e:
        return "independent format check: %s" % e
    except Exception as e:
        return "independent decoder crashed: %r" % e
    if d.seen_align > align: return "content needs alignment %d but the builder reports %d" % (d.seen_align, align)
    w = vtree.same(vtree.canon(c["tree"]), v)
    if w: return "read-back differs: " + w
    # sharing: vtables of nested buffers must lie inside them, parent objects outside
    for (data, n, sd, root, ws) in d.nested:
        for (a, b, what) in d.spans:
            if a < data + n and b > data and what != "v":
                return "%s [%d,%d) of the enclosing buffer lies inside / across nested buffer [%d,%d): shared or overlapping" % (what, a, b, data, data + n)
    c["nested_found"] = [(root, bytes(buf[data:data + n]), ws) for (data, n, sd, root, ws) in d.nested]
    return None


def short_nested_struct(c):
    """known finding nested-struct-root-below-header-size: the builder emits a nested buffer with a struct root of fewer than 4 bytes (no
    identifier, no size prefix) as 4 + size < 8 bytes, and the verifier demands 8 bytes of every buffer header (`check_header`: room for an
    identifier `the user might ask for later`): the nested buffer, and with it the parent, is rejected"""
    return any(root[0] == "st" and len(nb) < 8 and not ws for (root, nb, ws) in c.get("nested_found", []))


def short_nested_case():
    """the recorded finding, deterministically: a one-byte struct (union member) stored first leaves the front at an address that is 3 mod 4; the
    nested buffer with a 3-byte struct root created next needs no padding in front of its header and is 4 + 3 = 7 bytes long"""
    uns = [[dict(code=1, kind="st", a=1, b=1)]]
    tabs = [[fbenc.fld(1, 0, "u", 0), fbenc.fld(2, 0, "ns", 3, 1)]]
    N = vtree.Node
    tree = N("T", ti=0, fields=[(tabs[0][0], N("U", type=1, value=N("u", align=1, data=b"\x09"), member=uns[0][0])),
                                (tabs[0][1], N("B", ident=None, with_size=0, block_align=0, root=N("u", align=1, data=b"\x01\x02\x03")))])
    return dict(tables=tabs, unions=uns, root=("t", 0), tree=tree, flags=0, ident="-", ba=0, toks=" ".join(vtree.render(tree)), si=-7, fresh=False)


def rootname(root):
    return "t%d" % root[1] if root[0] == "t" else "st:%d:%d" % (root[1], root[2])


def verify_lines(c, out):
    t = out.split(" ")
    root = rootname(c["root"])
    variant = "size" if c["flags"] & 1 else "plain"
    L = ["verify %s %s - 0 %s" % (root, variant, t[2])]
    for (nroot, nb, ws) in c.get("nested_found", []):       # every nested buffer, extracted, as a root of the nested type
        L.append("verify %s %s - 0 %s" % (rootname(nroot), "size" if ws else "plain", nb.hex() or "-"))
    if c["ident"] not in ("-", "00000000") and "00" not in [c["ident"][i:i + 2] for i in (0, 2, 4, 6)]:
        L.append("verify %s %s %s 0 %s" % (root, variant, c["ident"], t[2]))
    return L


def run(ctx):
    ths = proof_stage(ctx)
    if ths is None:
        finish(ctx, [])
    flatcc, _ = build_flatcc(ctx)
    gen_dir = os.path.join(ctx.work, "gen")
    open(os.path.join(ctx.work, "empty.fbs"), "w").write("table Empty { x:int; }\n")
    rc, log = flatcc_generate(ctx, flatcc, os.path.join(ctx.work, "empty.fbs"), gen_dir, opts=("-c",))
    if rc != 0:
        raise BuildError("flatcc -c failed: " + log)
    rt = build_runtime_objs(ctx)
    h_build = build_harness(ctx, "h_build", [os.path.join(VERIF, "harness/h_build.c")], rt)
    h_verify = build_harness(ctx, "h_verify", [os.path.join(VERIF, "harness/h_verify.c")], rt, incs=[gen_dir])
    cases = build_cases(ctx, nested=0.25, big=not ctx.quick()) + [short_nested_case()]
    c_out, m_out, err = run_builds(ctx, h_build, cases)
    corr, spec = [], []
    # the vtable cache driven directly (two tables may share a vtable only if it is byte-identical: size, table size and every entry)
    from props import c03
    vt_stats, vt_fail, vt_tie = c03.vtcache_stage(ctx, h_build, 300 if ctx.quick() else 3000)
    if vt_fail:
        if vt_tie: vt_fail["theorems_no_longer_tied"] = [t["name"] for t in ths]
        violation(ctx, "vtcache_%d.json" % ctx.seed, vt_fail, no_failing_input=vt_tie)
    # "any block alignment": every power of two a uint16_t can hold, through start/end_buffer and create_buffer (NDEBUG build, ASan): either a
    # buffer the verifier accepts whose size and alignment respect the block, or a clean refusal — never a read behind the block of padding zeroes
    ba_rt = build_runtime_objs(ctx, flags=SAN + ["-DNDEBUG"], tag="rt_ndebug")
    ba_exe = build_harness(ctx, "blockalign", [os.path.join(VERIF, "harness/blockalign.c")], ba_rt, flags=SAN + ["-DNDEBUG"])
    ba_n = 0
    for k in range(0, 16):
        ba = 1 << k
        rc_b, out_b, err_b = sh([ba_exe, str(ba)], timeout=60, env=ASAN_ENV)
        ba_n += 1
        why = None
        if rc_b != 0: why = "the builder crashes for block alignment %d: %s" % (ba, err_b[-700:])
        for l in out_b.split("\n"):
            t = l.split(" ")
            if len(t) >= 6 and t[2] == "ok":
                kv = dict(x.split("=") for x in t[3:])
                if kv["verify"] != "0": why = "block alignment %d (%s): the finished buffer is rejected by the verifier (%s)" % (ba, t[1], kv["verify"])
                elif int(kv["align"]) < ba: why = "block alignment %d (%s): the builder reports buffer alignment %s" % (ba, t[1], kv["align"])
        if why:
            violation(ctx, "blockalign_%d.json" % ba, {"kind": "property-fails-on-implementation", "why": why, "output": out_b[:400], "how_to_replay": "harness/blockalign.c %d (ASan, -DNDEBUG)" % ba})
            break
    for ci, c in enumerate(cases):
        for st, o in sorted(c_out[ci].items()):
            if o != m_out[ci]:
                corr.append((ci, st)); break
        o = c_out[ci].get(0, "<no-output>")
        for st, o in sorted(c_out[ci].items()):
            w = "builder crashed (sanitizer / signal)" if o.startswith("<crash") else check_buffer(c, o)
            if w:
                spec.append((ci, st, w)); break
    # verifier on what the builder finished (C and model), per schema
    blocks, owner = [], []
    by_schema = {}
    for ci, c in enumerate(cases):
        by_schema.setdefault(c["si"], []).append(ci)
    for si, cis in by_schema.items():
        c0 = cases[cis[0]]
        lines = [vtree.schema_line(c0["tables"], c0["unions"])]; own = [None]
        for ci in cis:
            o = c_out[ci].get(0, "")
            if o.startswith("ok"):
                for l in verify_lines(cases[ci], o):
                    lines.append(l); own.append(ci)
        blocks.append(lines); owner.append(own)
    # the converse direction: conforming buffers from the independent encoder, other layout choices
    r = ctx.rng
    for _ in range(20 if ctx.quick() else 300):
        tabs, uns = fbenc.random_schema(r)
        lines = [fbenc.schema_line(tabs, uns)]; own = [None]
        for _ in range(6):
            ti = r.randrange(len(tabs)); ws = r.random() < 0.3
            knobs = {k: True for k in ("shuffle_fields", "long_vtable", "no_vt_share", "extra_pad") if r.random() < 0.4}
            try:
                buf, marks, minal = fbenc.encode_table_root(r, tabs, uns, ti, r.choice([None, b"ABCD"]), ws, knobs)
            except RecursionError:
                continue
            lines.append("verify t%d %s - 0 %s" % (ti, "size" if ws else "plain", buf.hex())); own.append("enc")
        blocks.append(lines); owner.append(own)
    rc_v, out_v, err_v = run_blocks(h_verify, blocks, 16)
    rc_w, out_w, err_w = run_blocks(FMODEL, blocks, 16)
    vlines = [l for b in blocks for l in b]
    vown = [x for o in owner for x in o]
    out_v = ["reject" if o.startswith("reject") else o for o in out_v]
    idx, va, vb = diff_streams(vlines, out_v, out_w)
    short_hits = []
    for i, (l, o) in enumerate(zip(vlines, va)):
        if not l.startswith("verify"): continue
        if not o.startswith("ok"):
            sch = next(x for x in reversed(vlines[:i + 1]) if x.startswith("schema"))
            e = (vown[i], "verify", ("the verifier rejects a buffer the builder finished" if vown[i] != "enc" else
                 "the verifier rejects a conforming buffer from the independent encoder") + ": " + o[:80] + " | " + sch + " | " + l[:2000])
            if vown[i] != "enc" and short_nested_struct(cases[vown[i]]): short_hits.append(e)
            else: spec.append(e)
    if short_hits:
        if any(f["property"] == "C02" and f["id"] == "nested-struct-root-below-header-size-c02" and f["status"] == "known" for f in load_known()):
            known_finding(ctx, "nested-struct-root-below-header-size-c02", "a nested buffer with a struct root shorter than 4 bytes finished as 4 + size < 8 bytes is rejected by "
                          "the verifier as a buffer (header too small): %d verify lines this run, e.g. %s" % (len(short_hits), short_hits[0][2][-50:]))
        else: spec += short_hits
    if spec:
        ci, st, why = min(spec, key=lambda t: len(cases[t[0]]["toks"]) if t[0] != "enc" else 10**6)
        c = cases[ci] if ci != "enc" else None
        violation(ctx, "spec_%d.json" % ctx.seed, {
            "kind": "property-fails-on-implementation", "why": why, "count": len(spec),
            "schema": vtree.schema_line(c["tables"], c["unions"]) if c else None, "root": c["root"] if c else None,
            "h_build_lines": ["fresh 1", build_line(c, st if isinstance(st, int) else 0)] if c else None,
            "c_output": (c_out[ci].get(st if isinstance(st, int) else 0, "")[:4000]) if c else None,
            "model_output": m_out[ci][:4000] if c else None, "stderr": (err + err_v)[-2500:]})
    elif corr or idx:
        if corr:
            ci, st = min(corr, key=lambda t: len(cases[t[0]]["toks"])); c = cases[ci]
            payload = {"h_build_lines": ["fresh 1", build_line(c, st)], "c_output": c_out[ci][st][:4000], "model_output": m_out[ci][:4000]}
        else:
            i = min(idx, key=lambda k: len(vlines[k]))
            payload = {"schema": next(x for x in reversed(vlines[:i + 1]) if x.startswith("schema")), "op": vlines[i][:4000], "c_output": va[i][:2000], "model_output": vb[i][:2000]}
        payload.update({"kind": "correspondence-broken", "theorems_no_longer_tied": [t["name"] for t in ths], "count": len(corr) + len(idx), "stderr": (err + err_v + err_w)[-1500:]})
        violation(ctx, "corr_%d.json" % ctx.seed, payload, no_failing_input=True)
    nb = sum(len(x) for x in c_out)
    kinds = {}
    for c in cases:
        for t in c["toks"].split(" "):
            if t in ("T", "s", "v", "o", "u", "B", "U", "W", "r", "i"): kinds[t] = kinds.get(t, 0) + 1
    ctx.cov.update({
        "evaluations": nb + len(vlines), "distinct_nontrivial": len(set(structural_hash(c["toks"] + str((c["flags"], c["ident"], c["ba"]))) for c in cases)),
        "rule": "random descriptor schemas (+ nested table / struct roots) x random value trees (boundary scalars, empty/long strings and vectors, "
                "shared strings and tables, unions incl. NONE, union vectors with nulls, struct union members, struct roots, field call order shuffled) "
                "x settings (size prefix, vtable clustering off, identifiers incl. zero/embedded zero, block alignment 0..4096, direct create_buffer roots, "
                "root table children created before start_buffer) "
                "x 3 call styles (create_* bottom-up; start/append|extend/end with children built while the parent is open; push/append/truncate). "
                "Every build: C bytes + reported alignment + emit call list == model's; independent strict decoder (offsets forward/in range, vtables, "
                "alignment relative to a start aligned to the reported alignment, termination, union consistency, required, nested extraction) and "
                "read-back == the tree; runtime verifier and verifier model accept. Plus independent-encoder buffers with other layouts accepted.",
        "builds": nb, "cases": len(cases), "node_kinds": kinds, "verify_lines": sum(1 for l in vlines if l.startswith("verify")),
        "traces_validated_against_impl": nb, "correspondence_disagreements": len(corr) + len(idx), "spec_oracle_failures": len(spec)})
    ctx.samples = [{"op": build_line(c, 0)[:300], "c": c_out[i].get(0, "")[:300], "model": m_out[i][:300]} for i, c in list(enumerate(cases))[:3]]
    ctx.notes = ["the runtime API is driven directly (start/end, create, push/extend/append/truncate styles); the generated typed wrappers "
                 "are macros over these calls and are exercised with generated code by C03's check",
                 "model-level theorems cover the padding/alignment arithmetic, offset patching, vtable contents and header; the statement "
                 "`model verifier accepts every model build` is checked by execution on every case, not proved (see DESIGN.md)"]
    finish(ctx, ths)
