"""C09 — schema evolution. Model: Evolution.lean (monotonicity of the verifier model) + Props/C09.lean."""
import copy
import fbenc
from vlib import *
from props.c01 import canon


def evolve(r, tabs, uns):
    """permitted additive evolutions on a descriptor schema"""
    tabs = copy.deepcopy(tabs); uns = copy.deepcopy(uns)
    nA = len(tabs)
    for _ in range(r.randint(0, 2)):
        tabs.append([])
    for u in uns:
        code = max([m["code"] for m in u] + [0]) + 1
        for _ in range(r.randint(0, 2)):
            k = r.choice(["t", "st", "str"])
            if k == "t": u.append(dict(code=code, kind="t", a=r.randrange(len(tabs)), b=0))
            elif k == "st":
                al = r.choice([1, 4, 8, 16]); u.append(dict(code=code, kind="st", a=al * r.randint(1, 2), b=al))
            else: u.append(dict(code=code, kind="str", a=0, b=0))
            code += 1
    if r.random() < 0.3:
        uns.append([dict(code=1, kind="str", a=0, b=0)])
    for ti, fs in enumerate(tabs):
        fid = max([f["id"] for f in fs] + [-1]) + 1
        for _ in range(r.randint(0, 3) if ti < nA else r.randint(1, 3)):
            kinds = ["s", "str", "v", "sv", "t", "tv"] + (["u", "uv"] if uns else [])
            k = r.choice(kinds)
            if k == "s":
                al = r.choice([1, 2, 4, 8]); fs.append(fbenc.fld(fid, 0, "s", al, al)); fid += 1
            elif k == "v":
                al = r.choice([1, 2, 4, 8]); fs.append(fbenc.fld(fid, 0, "v", al, al, 0xffffffff // al)); fid += 1
            elif k in ("str", "sv"):
                fs.append(fbenc.fld(fid, 0, k)); fid += 1
            elif k in ("t", "tv"):
                fs.append(fbenc.fld(fid, 0, k, r.randrange(len(tabs)))); fid += 1
            else:
                fs.append(fbenc.fld(fid + 1, 0, k, r.randrange(len(uns)))); fid += 2
    return tabs, uns


def run(ctx):
    ths = proof_stage(ctx)
    if ths is None:
        finish(ctx, [])
    r = ctx.rng
    flatcc, _ = build_flatcc(ctx)
    gen_dir = os.path.join(ctx.work, "gen")
    open(os.path.join(ctx.work, "empty.fbs"), "w").write("table Empty { x:int; }\n")
    rc, log = flatcc_generate(ctx, flatcc, os.path.join(ctx.work, "empty.fbs"), gen_dir, opts=("-c",))
    for f in ("a", "b", "da", "db"):
        rc, log = flatcc_generate(ctx, flatcc, os.path.join(VERIF, "harness/evo/%s.fbs" % f), gen_dir, opts=("-a", "--json-printer"))
        if rc != 0:
            raise BuildError("flatcc failed on harness/evo/%s.fbs: %s" % (f, log))
    rt = build_runtime_objs(ctx)
    h = build_harness(ctx, "h_verify", [os.path.join(VERIF, "harness/h_verify.c")], rt, incs=[gen_dir])
    hevo = build_harness(ctx, "evo", [os.path.join(VERIF, "harness/evo/evo.c")], rt, incs=[gen_dir])
    hdep = build_harness(ctx, "evodep", [os.path.join(VERIF, "harness/evo/dep.c")], rt, incs=[gen_dir])
    # (1) descriptor pairs: buffers encoded for B (and mutations of them) verified under B and under A
    blocks = []
    npairs = 40 if ctx.quick() else 500
    dep_pair = []
    for pi in range(npairs):
        tabsA, unsA = fbenc.random_schema(r)
        tabsB, unsB = tabsA, unsA
        if pi % 4 == 3:
            # deprecation (C09_deprecation_old_to_new): the verifier of the schema with deprecated fields has the old call lists minus
            # those fields. Same comparison with the roles exchanged: buffers encoded for the full schema, which the full schema's
            # verifier accepts, must be accepted by the reduced one ("B" = full = old schema, "A" = reduced = new schema here)
            tabsA = [[f for f in fs if r.random() < 0.6] for fs in tabsA]
            dep_pair.append(True)
        else:
            dep_pair.append(False)
            for _ in range(r.randint(1, 3)):
                tabsB, unsB = evolve(r, tabsB, unsB)
        vlines = []
        for _ in range(6 if ctx.quick() else 12):
            ti = r.randrange(len(tabsA))
            try:
                buf, marks, _ = fbenc.encode_table_root(r, tabsB, unsB, ti, None, False, {k: True for k in ("shuffle_fields", "long_vtable") if r.random() < 0.3})
            except RecursionError:
                continue
            vlines.append("verify t%d plain - 0 %s" % (ti, buf.hex()))
            from props.c01 import mutations
            for m in r.sample(mutations(r, buf, marks, True), 12):
                vlines.append("verify t%d plain - 0 %s" % (ti, m.hex() if m else "-"))
        blocks.append([fbenc.schema_line(tabsB, unsB)] + vlines)
        blocks.append([fbenc.schema_line(tabsA, unsA)] + vlines)
    rc_c, out_c, err_c = run_blocks(h, blocks, 16)
    rc_m, out_m, err_m = run_blocks(FMODEL, blocks, 16)
    lines = [l for b in blocks for l in b]
    out_c = [canon(o) for o in out_c]
    idx, a, b = diff_streams(lines, out_c, out_m)
    spec_fail = []
    pos = 0
    npair_lines = 0
    for k in range(0, len(blocks), 2):
        nb = len(blocks[k])
        oB = a[pos:pos + nb]; oA = a[pos + nb:pos + 2 * nb]
        for j in range(1, nb):
            npair_lines += 1
            if oB[j].startswith("ok") and not oA[j].startswith("ok"):
                spec_fail.append((pos + nb + j, "buffer accepted by the old schema's verifier is rejected by the verifier of the schema with some fields deprecated" if dep_pair[k // 2]
                                  else "buffer accepted by the new schema's verifier is rejected by the old schema's verifier", blocks[k][0], blocks[k + 1][0]))
            if oA[j].startswith("<crash") or oB[j].startswith("<crash"):
                spec_fail.append((pos + nb + j, "verifier/reader faulted", blocks[k][0], blocks[k + 1][0]))
        pos += 2 * nb
    # (2) generated code: B-built buffers through A's verifier/reader/printer and back
    nvar = 1500 if ctx.quick() else 65536
    rc_e, out_e, err_e = sh([hevo, str(nvar), "43" if ctx.quick() else "1"], timeout=1800, env=ASAN_ENV)
    evo_fail = []
    if rc_e != 0:
        evo_fail.append("generated-code scenario exited %d: %s" % (rc_e, err_e[-1500:]))
    recs = {}
    nruns = 0
    for l in out_e.split("\n"):
        t = l.split(" ", 2)
        if len(t) >= 2:
            recs.setdefault(t[0], {})[t[1].split("=")[0] if t[1].startswith("verify") else t[1]] = l
    for k, d in recs.items():
        v = d.get("verifyA", "")
        if "verifyA=0 verifyB=0" not in v:
            evo_fail.append("%s: %s (a buffer built with one version is rejected by the other)" % (k, v)); continue
        ra = d.get("readA", "").split(" ", 2)[-1]; rb = d.get("readB", "").split(" ", 2)[-1]
        if ra != rb:
            evo_fail.append("%s: shared fields read differently: A: %s | B: %s" % (k, ra, rb))
        if k[0] in "BR" and "err=0" not in d.get("printA", ""):
            evo_fail.append("%s: A's JSON printer failed on a B buffer: %s" % (k, d.get("printA", "")[:300]))
        elif k[0] in "BR":
            # "prints it without error": what the old printer writes for members it does not know must still be JSON
            m = re.search(r"text=([0-9a-f]*)", d.get("printA", ""))
            text = bytes.fromhex(m.group(1)[:len(m.group(1)) // 2 * 2]) if m else b"?"      # a crash can cut the line anywhere
            try:
                import json as _json
                doc = _json.loads(text.decode("utf-8"))
                if k[0] == "R":      # R<N>.<mode>: Leaf, N members of kinds A does not know, Leaf
                    N = int(k[1:].split(".")[0]); nruns += 1
                    anys = doc.get("anys")
                    if not (isinstance(anys, list) and len(anys) == N + 2 and all(x is None for x in anys[1:-1]) and anys[0] == {"v": 1} and anys[-1] == {"v": 2}):
                        evo_fail.append("%s: A's printer does not print a run of %d union vector members of new kinds as nulls between the two known members: %s ..." % (k, N, str(anys)[:200]))
                    if "file=same" not in d.get("printA", ""):
                        evo_fail.append("%s: A's FILE printer fails or differs from the dynamic buffer printer: %s" % (k, d.get("printA", "")[:80]))
            except Exception as ex:
                evo_fail.append("%s: A's JSON printer wrote text that is not JSON for a B buffer: %s (%s)" % (k, text.decode("latin1")[:300], ex))
        if k.startswith("A") and "extra=5 present=0 tags=0 more=0 any2=0 ex=0 colors=0" not in d.get("newB", ""):
            evo_fail.append("%s: new fields not at their defaults when reading an A buffer with B: %s" % (k, d.get("newB")))
    # (3) deprecation (harness/evo/{da,db}.fbs, dep.c): B = A with a scalar, union, union vector, string and table field deprecated
    rc_d, out_d, err_d = sh([hdep], timeout=600, env=ASAN_ENV)
    dep_lines = [l for l in out_d.split("\n") if l]
    if rc_d != 0:
        evo_fail.append("deprecation scenario exited %d: %s" % (rc_d, err_d[-1500:]))
    elif len(dep_lines) != 2048 + 64:
        evo_fail.append("deprecation scenario printed %d lines instead of %d" % (len(dep_lines), 2048 + 64))
    for l in dep_lines:
        if not l.endswith(" ok"):
            evo_fail.append("deprecating fields (harness/evo/da.fbs -> db.fbs), variant " + l[:400])
    if spec_fail or evo_fail:
        if spec_fail:
            i, why, sb, sa = spec_fail[0]
            payload = {"kind": "property-fails-on-implementation", "schema_new": sb, "schema_old": sa, "op": lines[i], "c_output_old": a[i][:500], "why": why, "count": len(spec_fail)}
        else:
            payload = {"kind": "property-fails-on-implementation", "why": evo_fail[0], "all": evo_fail[:20], "replay": "harness/evo/evo.c with harness/evo/{a,b}.fbs"}
        violation(ctx, "spec_%d.json" % ctx.seed, payload)
    elif idx:
        i = idx[0]
        violation(ctx, "corr_%d.json" % ctx.seed, {"kind": "correspondence-broken", "theorems_no_longer_tied": [t["name"] for t in ths],
                                                     "op": lines[i], "c_output": a[i][:2000], "model_output": b[i][:2000], "count": len(idx)}, no_failing_input=True)
    accB = sum(1 for o in a if o.startswith("ok"))
    ctx.cov.update({"evaluations": npair_lines + len(recs), "distinct_nontrivial": len(set(structural_hash(l) for l in lines)) + len(recs),
                    "rule": "(1) %d random descriptor schema pairs (A, B = A + 1..3 additive evolution steps: new fields of every kind with higher ids, new union members, "
                            "new tables/unions); buffers encoded for B by the independent encoder plus mutations, verified under B's and under A's call lists by the "
                            "real runtime and by the model; every B-accepted buffer must be A-accepted and walked safely with A's reader; every fourth pair is a "
                            "deprecation pair instead (about 40 %% of the fields dropped from the call lists: buffers and mutations accepted with the full lists must be "
                            "accepted with the reduced ones). (2) generated code for a fixed pair "
                            "harness/evo/{a,b}.fbs: %d B-built variants (new fields, new union members in single unions and union vectors, new enum values) verified/read/"
                            "JSON-printed with A's generated code and compared field by field with B's reader; 1024 A-built variants verified/read with B's code "
                            "(new fields at defaults); union vectors with runs of 1..10000 consecutive members of kinds only B knows (struct, string, table) printed "
                            "by A's printer to a growing buffer and to a FILE under ASan. (3) deprecation pair harness/evo/{da,db}.fbs (a scalar, a union, a union "
                            "vector, a string and a table field deprecated in front of fields that stay, one new field): all 2048 subsets of A's fields built with A and "
                            "verified / read / printed with B, all 64 subsets of B's fields built with B and verified / read / printed with A." % (npairs, nvar),
                    "deprecation_variants": len(dep_lines),
                    "unknown_member_runs": nruns,
                    "pairs": npairs, "pair_lines": npair_lines, "accepted_lines": accB, "generated_variants": len(recs),
                    "traces_validated_against_impl": len(lines), "correspondence_disagreements": len(idx), "spec_oracle_failures": len(spec_fail) + len(evo_fail)})
    ctx.samples = [{"op": lines[1][:300], "c": a[1][:300], "model": b[1][:300]}] + [recs[k] for k in list(recs)[:2]]
    ctx.notes = ["theorem covers additive evolution (fields/members/tables added); deprecating a field removes a check from the NEW verifier, so "
                 "'new accepts => old accepts' then holds only for buffers where the deprecated field is absent (builder output): exercised by the generated-code deprecation scenario (3) only",
                 "old-to-new direction (A-built buffers accepted by B) is checked on generated code and by the encoder runs, not proved (needs the builder model)"]
    finish(ctx, ths)
