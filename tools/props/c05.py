"""C05 — JSON print then parse preserves the buffer's content; strict output is JSON.
Model: Json.lean (string escape / unescape, base64) ; theorems Props/C05.lean (+ the number theorems of C19).
Tie: generated printer and parser for random schemas, compiled from the current compiler's output: build -> print under random
flag sets -> parse -> verify -> accessor-level comparison of both buffers -> reprint must be identical; strict text through Python's json."""
import json as pyjson
import struct, random, shutil
import vtree, cgen
from vlib import *
from concurrent.futures import ThreadPoolExecutor

PF = dict(unquote=1, noenum=2, skip_default=4, force_default=8, pretty=16, nonstrict=32)


def rand_flagset(r):
    c = r.random()
    if c < 0.25: pf = 0
    elif c < 0.5: pf = r.choice([1, 2, 4, 8, 16, 32])
    else: pf = r.getrandbits(6)
    if pf & 4 and pf & 8: pf &= ~r.choice([4, 8])          # skip_default and force_default contradict each other
    indent = r.choice([-1, -1, -1, 0, 1, 2, 4, 17, 255])
    jf = r.choice([0, 0, 2, 2, 4, 6, 1, 3])
    return (pf, indent, jf)


def json_job(args):
    """builds + runs one schema's JSON program. mode 'rt': round trips; returns also the valid texts for mutation."""
    work, flatcc, rt_objs, seed, si, ncase, mutate = args
    ndebug = ["-DNDEBUG"] if mutate else []
    r = random.Random(seed * 7919 + si)
    cgen.FINITE_ONLY = True
    cgen.FIELD_SUFFIX = "x"
    tabs, uns = vtree.random_schema(r, 0.2)
    ty = cgen.Typing(r, tabs, uns, json=True)
    P = cgen.Prog(ty)
    metas, flagsets = [], []
    for ci in range(ncase):
        g = vtree.Gen(r, tabs, uns, maxdepth=r.choice([2, 4, 5]), big=r.random() < 0.05)
        ti = r.randrange(len(tabs))
        try:
            t = g.table(ti, 0, False)
        except RecursionError:
            continue
        P.add_case(t, ti, False, False, ci % 3, r.random() < 0.3)
        metas.append(dict(ti=ti)); flagsets.append([rand_flagset(r) for _ in range(3)])
    d = os.path.join(work, "j%d" % si)
    os.makedirs(os.path.join(d, "gen"), exist_ok=True)
    fbs = ty.fbs()
    open(os.path.join(d, "s.fbs"), "w").write(fbs)
    open(os.path.join(d, "prog.c"), "w").write(cgen.json_source(P, flagsets))
    try:
        rc, out, err = sh([flatcc, "-a", "--json", "-o", os.path.join(d, "gen"), os.path.join(d, "s.fbs")])
        if rc != 0:
            return dict(si=si, error="flatcc rejected the generated schema: " + (out + err)[-800:], fbs=fbs)
        rc, log = cc(["-g", "-O1", "-w", *ndebug, "-fsanitize=address,undefined", "-fno-sanitize=alignment", "-fno-sanitize=nonnull-attribute", "-fno-sanitize=shift", "-fno-sanitize-recover=all",
                      "-I", os.path.join(REPO, "include"), "-I", os.path.join(VERIF, "harness"), "-I", os.path.join(d, "gen"), os.path.join(d, "prog.c"), *rt_objs, "-o", os.path.join(d, "prog")])
        if rc != 0:
            return dict(si=si, error="generated code does not compile: " + log[-1500:], fbs=fbs)
        lines, crashed, start = [], {}, 0
        for _ in range(len(metas) + 1):
            rc, out, err = sh([os.path.join(d, "prog"), "rt", str(start)], timeout=300, env=ASAN_ENV)
            got = [x for x in out.split("\n") if x.startswith("case ")]
            lines += got
            if rc == 0: break
            done = max([int(x.split(" ")[1]) for x in got] + [start - 1])
            crashed[done] = err[-1500:] if got and not got[-1].endswith(("same", "DIFF")) else crashed.get(done)
            crashed.setdefault(done + 1, err[-1500:])
            start = done + 2
            if start >= len(metas): break
        res = dict(si=si, fbs=fbs, lines=lines, crashed=crashed, metas=metas, flagsets=flagsets, ncases=len(metas), tables=tabs, unions=uns)
        if mutate:
            res["mut"] = mutate(r, os.path.join(d, "prog"), lines, metas)
        return res
    finally:
        shutil.rmtree(d, ignore_errors=True)


def judge_rt(res):
    """returns list of (why, detail dict) for one schema's round-trip lines"""
    bad = []
    seen = set()
    for l in res["lines"]:
        t = l.split(" ")
        ci = int(t[1]); key = (ci, t[2], t[3], t[4]); seen.add(ci)
        ctxd = dict(schema_fbs=res["fbs"], case=ci, printer_flags=int(t[2]), indent=int(t[3]), parser_flags=int(t[4]), line=l[:3000])
        if len(t) < 7: bad.append(("round trip produced no result", ctxd)); continue
        prc = int(t[5].split("=")[1])
        if prc < 0: bad.append(("printer failed (%d)" % prc, ctxd)); continue
        try:
            text = bytes.fromhex(t[6]) if t[6] != "-" else b""
        except ValueError:
            bad.append(("round trip line cut short (crash while printing?)", ctxd)); continue
        ctxd["text"] = text.decode("latin1")[:2000]
        rest = t[7:]
        if not rest or not rest[0].startswith("pok"):
            bad.append(("the parser rejects the printer's output: " + " ".join(rest)[:120], ctxd)); continue
        m = re.search(r"verify=(-?\d+) (\S+) (\S+) reprint=(\w+)", l)
        if not m: bad.append(("reparsed buffer fails verification: " + " ".join(rest)[:120], ctxd)); continue
        if m.group(1) != "0": bad.append(("reparsed buffer fails verification (%s)" % m.group(1), ctxd)); continue
        if m.group(2) != m.group(3):
            ctxd["original_values"] = m.group(2)[:2000]; ctxd["reparsed_values"] = m.group(3)[:2000]
            bad.append(("reparsed buffer reads back different values", ctxd)); continue
        # presence-exact only when the flags are paired for it: parser force_add keeps printed defaults present, printer skip_default never prints them
        if m.group(4) != "same" and (int(t[4]) & 2 or int(t[2]) & 4):
            bad.append(("printing the reparsed buffer gives a different text", ctxd)); continue
        pf = int(t[2])
        if pf & (1 | 32) == 0:
            try:
                s = text.decode("utf-8")
            except UnicodeDecodeError:
                s = None
            if s is not None:
                try:
                    pyjson.loads(s)
                except Exception as e:
                    ctxd["json_error"] = str(e)[:200]
                    bad.append(("strict output is not well-formed JSON", ctxd))
    for ci, err in res["crashed"].items():
        if err and ci < res["ncases"]:
            bad.append(("generated printer/parser program crashed in this case", dict(schema_fbs=res["fbs"], case=ci, stderr=err)))
    return bad


def base64_stage(ctx, ths):
    """pbase64.h codec + the printer's chunk loop + the parser's base64 field scanner: C vs Base64.lean, and the round-trip
    property evaluated on the implementation alone (C encode -> C parse == input) for the replay."""
    gen = os.path.join(VERIF, "tools", "gen_b64.py")
    h1 = build_harness(ctx, "h_b64", [os.path.join(VERIF, "harness/h_b64.c")])
    h2 = build_harness(ctx, "h_b64print", [os.path.join(VERIF, "harness/h_b64print.c")], flags=SAN + ["-w"])
    n = 1500 if ctx.quick() else 30000
    rc, o1, _ = sh([sys.executable, gen, str(n), str(ctx.seed)])
    rc, o2, _ = sh([sys.executable, gen, "print", str(n // 3), str(ctx.seed)])
    l1 = [l for l in o1.split("\n") if l]; l2 = [l for l in o2.split("\n") if l]
    rc, c1, e1 = run_parallel(h1, l1, 8); rc, m1, _ = run_parallel(FMODEL, l1, 8)
    rc, c2, e2 = run_parallel(h2, l2, 8); rc, m2, _ = run_parallel(FMODEL, l2, 8)
    i1, c1, m1 = diff_streams(l1, c1, m1); i2, c2, m2 = diff_streams(l2, c2, m2)
    # property on the implementation: encode (printer modes: padded rfc4648 / url) then the parser's field scanner
    r = ctx.rng
    srcs = [bytes(r.getrandbits(8) for _ in range(k)) for k in list(range(0, 40)) + [r.randint(40, 400) for _ in range(60)]]
    encl = ["b64 enc %d %s" % (128 + u, s.hex() or "-") for s in srcs for u in (0, 1)]
    rc, enc_out, e3 = run_parallel(h1, encl, 4)
    parl = ["b64 parse %d %s" % (i % 2, (o.split(" ")[1] if len(o.split(" ")) > 1 else "-")) for i, o in enumerate(enc_out)]
    rc, par_out, e4 = run_parallel(h1, parl, 4)
    specbad = [(encl[i], enc_out[i], parl[i], par_out[i]) for i in range(len(encl))
               if par_out[i] != "ok " + (srcs[i // 2].hex() or "-")]
    if specbad:
        b = specbad[0]
        violation(ctx, "b64_spec_%d.json" % ctx.seed, {"kind": "property-fails-on-implementation", "why": "base64: the parser does not return the bytes the printer's encoder was given",
                  "encode_line": b[0], "c_encode_output": b[1], "parse_line": b[2], "c_parse_output": b[3], "count": len(specbad)})
    elif i1 or i2:
        if i1: i = i1[0]; pay = {"op": l1[i][:2000], "c_output": c1[i][:2000], "model_output": m1[i][:2000]}
        else: i = i2[0]; pay = {"op": l2[i][:2000], "c_output": c2[i][:2000], "model_output": m2[i][:2000]}
        pay.update({"kind": "correspondence-broken", "engine": "base64", "count": len(i1) + len(i2), "stderr": (e1 + e2)[-1500:],
                    "theorems_no_longer_tied": [t["name"] for t in ths if "base64" in t["name"].lower()]})
        violation(ctx, "b64_corr_%d.json" % ctx.seed, pay, no_failing_input=True)
    kinds = {}
    for l in l1 + l2:
        k = " ".join(l.split(" ")[:2]); kinds[k] = kinds.get(k, 0) + 1
    return {"base64_lines": len(l1) + len(l2), "base64_ops": kinds, "base64_roundtrips_on_impl": len(encl), "base64_disagreements": len(i1) + len(i2)}


FLAGS_FBS = """namespace FG;
enum F8:ubyte (bit_flags) { A0, A1, A2 = 6, A3 = 7 }
enum F16:ushort (bit_flags) { B0, B1, B2 = 8, B3 = 15 }
enum F32:uint (bit_flags) { C0, C1, C2 = 16, C3 = 31 }
enum F64:ulong (bit_flags) { D0, D1, D2 = 32, D3 = 63 }
enum FL:long (bit_flags) { E0, E1, E2 = 40, E3 = 62 }
table T { a:F8 = A0; b:F16 = B0; c:F32 = C0; d:F64 = D0; e:FL = E0; vd:[F64]; name:string; }
root_type T;
"""

FLAGS_C = r'''
#include <stdio.h>
#include <stdlib.h>
#include <string.h>
#include "fg_builder.h"
#include "fg_verifier.h"
#include "fg_json_parser.h"
#include "fg_json_printer.h"
static const int P[5][4] = {{0,1,6,7},{0,1,8,15},{0,1,16,31},{0,1,32,63},{0,1,40,62}};
static char *print(const void *buf, size_t size, int pf, size_t *n, int *err) {
    flatcc_json_printer_t pc; char *t;
    flatcc_json_printer_init_dynamic_buffer(&pc, 0); flatcc_json_printer_set_flags(&pc, (flatcc_json_printer_flags_t)pf);
    FG_T_print_json_as_root(&pc, buf, size, 0); *err = flatcc_json_printer_get_error(&pc);
    t = flatcc_json_printer_finalize_dynamic_buffer(&pc, n); flatcc_json_printer_clear(&pc); return t;
}
int main(void) {
    flatcc_builder_t b, *B = &b; int s, x, pf, k, j;
    flatcc_builder_init(B);
    for (s = 0; s < 16; ++s) for (x = 0; x < 2; ++x) {
        uint64_t v[5], vd[3]; void *buf; size_t size;
        for (k = 0; k < 5; ++k) { v[k] = x ? 8 : 0; for (j = 0; j < 4; ++j) if (s & (1 << j)) v[k] |= (uint64_t)1 << P[k][j]; }
        vd[0] = v[3]; vd[1] = ((uint64_t)1 << 63) | 1; vd[2] = ((uint64_t)1 << 63) | ((uint64_t)1 << 32);
        flatcc_builder_reset(B);
        FG_T_start_as_root(B);
        FG_T_a_force_add(B, (FG_F8_enum_t)v[0]); FG_T_b_force_add(B, (FG_F16_enum_t)v[1]); FG_T_c_force_add(B, (FG_F32_enum_t)v[2]);
        FG_T_d_force_add(B, (FG_F64_enum_t)v[3]); FG_T_e_force_add(B, (FG_FL_enum_t)v[4]);
        FG_T_vd_create(B, (const FG_F64_enum_t *)vd, 3);
        FG_T_name_create_str(B, "n");
        FG_T_end_as_root(B);
        buf = flatcc_builder_finalize_aligned_buffer(B, &size);
        for (pf = 0; pf < 4; ++pf) {
            size_t n = 0, n2 = 0, size2 = 0, q; int e1 = 0, e2 = 0, rc; char *t = print(buf, size, pf, &n, &e1), *t2 = 0; void *buf2 = 0;
            flatcc_json_parser_t jc; const char *why = "ok";
            printf("s=%d x=%d pf=%d ", s, x, pf);
            if (!t || e1) why = "printer-error";
            else {
                flatcc_builder_reset(B); memset(&jc, 0, sizeof jc);
                rc = FG_T_parse_json_as_root(B, &jc, t, n, flatcc_json_parser_f_force_add, 0);   /* values equal to a default stay present, as built */
                if (rc) why = "parser-rejects-printer-output";
                else if (!(buf2 = flatcc_builder_finalize_aligned_buffer(B, &size2))) why = "finalize-failed";
                else if (FG_T_verify_as_root(buf2, size2)) why = "reparsed-buffer-fails-verification";
                else {
                    FG_T_table_t r = FG_T_as_root(buf2);
                    if ((uint64_t)FG_T_a(r) != v[0] || (uint64_t)FG_T_b(r) != v[1] || (uint64_t)FG_T_c(r) != v[2] || (uint64_t)FG_T_d(r) != v[3] || (uint64_t)FG_T_e(r) != v[4]) why = "scalar-flags-differ";
                    else if (FG_F64_vec_len(FG_T_vd(r)) != 3 || FG_F64_vec_at(FG_T_vd(r), 0) != vd[0] || FG_F64_vec_at(FG_T_vd(r), 1) != vd[1] || FG_F64_vec_at(FG_T_vd(r), 2) != vd[2]) why = "vector-flags-differ";
                    else { t2 = print(buf2, size2, pf, &n2, &e2); if (!t2 || e2 || n2 != n || memcmp(t, t2, n)) why = "reprint-differs"; }
                }
            }
            printf("%s text=", why);
            for (q = 0; t && q < n; ++q) printf("%02x", (unsigned char)t[q]);
            printf("\n");
            free(t); free(t2); if (buf2) flatcc_builder_aligned_free(buf2);
        }
        flatcc_builder_aligned_free(buf);
    }
    flatcc_builder_clear(B);
    return 0;
}
'''


SIGNS_FBS = """namespace NZ;
struct P { x:float; y:double; }
enum E:byte { Neg = -12, Zero = 0, Pos = 5 }
enum L:long { Min = -9223372036854775808, M1 = -1, Z = 0, Max = 9223372036854775807 }
table T { d:double = 1; f:float = 2; od:double = null; vd:[double]; vf:[float]; p:P; ps:[P]; z:double; zf:float; e:E = Zero; l:L = Z; es:[E]; ls:[L]; }
root_type T;
"""

SIGNS_C = r'''
#include <stdio.h>
#include <stdlib.h>
#include <string.h>
#include <float.h>
#include "nz_builder.h"
#include "nz_verifier.h"
#include "nz_json_parser.h"
#include "nz_json_printer.h"
static char *print(const void *buf, size_t size, int pf, size_t *n, int *err) {
    flatcc_json_printer_t pc; char *t;
    flatcc_json_printer_init_dynamic_buffer(&pc, 0); flatcc_json_printer_set_flags(&pc, (flatcc_json_printer_flags_t)pf);
    NZ_T_print_json_as_root(&pc, buf, size, 0); *err = flatcc_json_printer_get_error(&pc);
    t = flatcc_json_printer_finalize_dynamic_buffer(&pc, n); flatcc_json_printer_clear(&pc); return t;
}
static uint64_t db(double x) { uint64_t u; memcpy(&u, &x, 8); return u; }
static uint32_t fb(float x) { uint32_t u; memcpy(&u, &x, 4); return u; }
int main(void) {
    static const double V[] = { -0.0, 0.0, 4.9406564584124654e-324, -4.9406564584124654e-324, DBL_MAX, -DBL_MIN, 1.0 / 3.0, -1.5, 1e23, 2.0 };
    static const float F[] = { -0.0f, 0.0f, 1.401298464324817e-45f, -1.401298464324817e-45f, FLT_MAX, -FLT_MIN, 0.1f, -1.5f, 16777216.0f, 1.0f };
    flatcc_builder_t b, *B = &b; int k, pf, i;
    flatcc_builder_init(B);
    for (k = 0; k < 10; ++k) {
        double v = V[k], vd[4]; float f = F[k], vf[4]; NZ_P_t ps[2]; void *buf; size_t size;
        vd[0] = v; vd[1] = -v; vd[2] = -0.0; vd[3] = 0.0; vf[0] = f; vf[1] = -f; vf[2] = -0.0f; vf[3] = 0.0f;
        ps[0].x = f; ps[0].y = -v; ps[1].x = -0.0f; ps[1].y = -0.0;
        flatcc_builder_reset(B);
        NZ_T_start_as_root(B);
        NZ_T_d_add(B, v); NZ_T_f_add(B, f); NZ_T_od_add(B, v);
        NZ_T_vd_create(B, vd, 4); NZ_T_vf_create(B, vf, 4);
        NZ_T_p_create(B, -f, v); NZ_T_ps_create(B, ps, 2);
        NZ_T_z_force_add(B, v); NZ_T_zf_force_add(B, f);
        { static const NZ_E_enum_t es[3] = { NZ_E_Neg, NZ_E_Pos, NZ_E_Zero }; static const NZ_L_enum_t ls[4] = { NZ_L_Min, NZ_L_M1, NZ_L_Max, NZ_L_Z };
          NZ_T_e_force_add(B, es[k % 3]); NZ_T_l_force_add(B, ls[k % 4]); NZ_T_es_create(B, es, 3); NZ_T_ls_create(B, ls, 4); }
        NZ_T_end_as_root(B);
        buf = flatcc_builder_finalize_aligned_buffer(B, &size);
        for (pf = 0; pf < 4; ++pf) {
            size_t n = 0, n2 = 0, size2 = 0, q; int e1 = 0, e2 = 0, rc; char *t = print(buf, size, pf, &n, &e1), *t2 = 0; void *buf2 = 0;
            flatcc_json_parser_t jc; char why[200]; strcpy(why, "ok");
            printf("k=%d pf=%d ", k, pf);
            if (!t || e1) strcpy(why, "printer-error");
            else {
                flatcc_builder_reset(B); memset(&jc, 0, sizeof jc);
                rc = NZ_T_parse_json_as_root(B, &jc, t, n, flatcc_json_parser_f_force_add, 0);
                if (rc) strcpy(why, "parser-rejects-printer-output");
                else if (!(buf2 = flatcc_builder_finalize_aligned_buffer(B, &size2))) strcpy(why, "finalize-failed");
                else if (NZ_T_verify_as_root(buf2, size2)) strcpy(why, "reparsed-buffer-fails-verification");
                else {
                    NZ_T_table_t r = NZ_T_as_root(buf2); NZ_P_struct_t p = NZ_T_p(r);
                    if (db(NZ_T_d(r)) != db(v)) sprintf(why, "d:%llx->%llx", (unsigned long long)db(v), (unsigned long long)db(NZ_T_d(r)));
                    else if (fb(NZ_T_f(r)) != fb(f)) sprintf(why, "f:%x->%x", fb(f), fb(NZ_T_f(r)));
                    else if (!NZ_T_od_is_present(r) || db(NZ_T_od(r)) != db(v)) sprintf(why, "od:%llx->%llx", (unsigned long long)db(v), (unsigned long long)db(NZ_T_od(r)));
                    else if (db(NZ_T_z(r)) != db(v) || fb(NZ_T_zf(r)) != fb(f)) sprintf(why, "z:%llx->%llx,zf:%x->%x", (unsigned long long)db(v), (unsigned long long)db(NZ_T_z(r)), fb(f), fb(NZ_T_zf(r)));
                    else if (!p || fb(NZ_P_x(p)) != fb(-f) || db(NZ_P_y(p)) != db(v)) strcpy(why, "struct-member-differs");
                    else if (NZ_T_e(r) != NZ_T_e(NZ_T_as_root(buf)) || NZ_T_l(r) != NZ_T_l(NZ_T_as_root(buf))) sprintf(why, "enum-field-differs:e=%d,l=%lld", (int)NZ_T_e(r), (long long)NZ_T_l(r));
                    else if (NZ_E_vec_len(NZ_T_es(r)) != 3 || NZ_E_vec_at(NZ_T_es(r), 0) != NZ_E_Neg || NZ_E_vec_at(NZ_T_es(r), 1) != NZ_E_Pos || NZ_L_vec_len(NZ_T_ls(r)) != 4
                             || NZ_L_vec_at(NZ_T_ls(r), 0) != NZ_L_Min || NZ_L_vec_at(NZ_T_ls(r), 1) != NZ_L_M1 || NZ_L_vec_at(NZ_T_ls(r), 2) != NZ_L_Max) strcpy(why, "enum-vector-differs");
                    else if (flatbuffers_double_vec_len(NZ_T_vd(r)) != 4 || flatbuffers_float_vec_len(NZ_T_vf(r)) != 4 || NZ_P_vec_len(NZ_T_ps(r)) != 2) strcpy(why, "vector-length-differs");
                    else {
                        for (i = 0; i < 4; ++i) {
                            if (db(flatbuffers_double_vec_at(NZ_T_vd(r), (size_t)i)) != db(vd[i])) sprintf(why, "vd[%d]:%llx->%llx", i, (unsigned long long)db(vd[i]), (unsigned long long)db(flatbuffers_double_vec_at(NZ_T_vd(r), (size_t)i)));
                            if (fb(flatbuffers_float_vec_at(NZ_T_vf(r), (size_t)i)) != fb(vf[i])) sprintf(why, "vf[%d]:%x->%x", i, fb(vf[i]), fb(flatbuffers_float_vec_at(NZ_T_vf(r), (size_t)i)));
                        }
                        for (i = 0; i < 2; ++i) {
                            NZ_P_struct_t e = NZ_P_vec_at(NZ_T_ps(r), (size_t)i);
                            if (fb(NZ_P_x(e)) != fb(ps[i].x) || db(NZ_P_y(e)) != db(ps[i].y)) sprintf(why, "ps[%d]-differs", i);
                        }
                        if (!strcmp(why, "ok")) { t2 = print(buf2, size2, pf, &n2, &e2); if (!t2 || e2 || n2 != n || memcmp(t, t2, n)) strcpy(why, "reprint-differs"); }
                    }
                }
            }
            printf("%s text=", why);
            for (q = 0; t && q < n; ++q) printf("%02x", (unsigned char)t[q]);
            printf("\n");
            free(t); free(t2); if (buf2) flatcc_builder_aligned_free(buf2);
        }
        flatcc_builder_aligned_free(buf);
    }
    flatcc_builder_clear(B);
    return 0;
}
'''


def signs_stage(ctx, flatcc, rt):
    """negative enum members (printed by name) and signed zeros, smallest denormals and the largest values of float and double in every place where they are physically stored (fields with a
    non-zero default, optional fields, force_add, vector elements, struct members, struct vector elements): print -> parse -> verify -> the same
    bits -> the same text, under the printer flag sets {strict, unquote, noenum, both}"""
    d = os.path.join(ctx.work, "signs"); os.makedirs(d, exist_ok=True)
    open(os.path.join(d, "nz.fbs"), "w").write(SIGNS_FBS)
    open(os.path.join(d, "prog.c"), "w").write(SIGNS_C)
    rc, out, err = sh([flatcc, "-a", "--json", "-o", d, os.path.join(d, "nz.fbs")])
    if rc != 0:
        return {}, [("flatcc rejects the signed-zero schema: " + (out + err)[-400:], dict(schema_fbs=SIGNS_FBS))]
    try:
        exe = build_harness(ctx, "signs_prog", [os.path.join(d, "prog.c")], rt, incs=[d], flags=["-O1", "-g", "-w", "-fsanitize=address", "-fno-omit-frame-pointer"])
    except BuildError as e:
        return {}, [("generated code for the signed-zero schema does not compile: " + str(e)[-800:], dict(schema_fbs=SIGNS_FBS))]
    rc, out, err = sh([exe], timeout=120, env=ASAN_ENV)
    lines = [l for l in out.split("\n") if l.startswith("k=")]
    bad = []
    if rc != 0 or len(lines) != 40: bad.append(("signed-zero scenario crashed / incomplete (%d of 40 lines): %s" % (len(lines), err[-600:]), dict(schema_fbs=SIGNS_FBS)))
    for l in lines:
        t = l.split(" ")
        if t[2] != "ok":
            text = bytes.fromhex(t[3][5:][:len(t[3][5:]) // 2 * 2]).decode("latin1") if len(t) > 3 else ""
            bad.append(("float / double round trip (value set %s, printer flags %s): a stored value does not come back bit for bit: %s" % (t[0][2:], t[1][3:], t[2]),
                        dict(schema_fbs=SIGNS_FBS, text=text[:600], line=l[:200])))
    return {"signed_zero_round_trips": len(lines)}, bad


def flags_stage(ctx, flatcc, rt):
    """bit_flags enums of every width (flags at both ends of the type, on both sides of bit 31): every subset of the declared flags, with and without
    an undeclared bit, as scalar fields and in a vector, under the printer flag sets {strict, unquote, noenum, both}: print -> parse -> verify ->
    same values -> same text"""
    d = os.path.join(ctx.work, "flags"); os.makedirs(d, exist_ok=True)
    open(os.path.join(d, "fg.fbs"), "w").write(FLAGS_FBS)
    open(os.path.join(d, "prog.c"), "w").write(FLAGS_C)
    rc, out, err = sh([flatcc, "-a", "--json", "-o", d, os.path.join(d, "fg.fbs")])
    if rc != 0:
        return {}, [("flatcc rejects the flags schema: " + (out + err)[-400:], dict(schema_fbs=FLAGS_FBS))]
    try:
        exe = build_harness(ctx, "flags_prog", [os.path.join(d, "prog.c")], rt, incs=[d], flags=["-O1", "-g", "-w", "-fsanitize=address", "-fno-omit-frame-pointer"])
    except BuildError as e:
        return {}, [("generated code for the flags schema does not compile: " + str(e)[-800:], dict(schema_fbs=FLAGS_FBS))]
    rc, out, err = sh([exe], timeout=120, env=ASAN_ENV)
    lines = [l for l in out.split("\n") if l.startswith("s=")]
    bad = []
    if rc != 0 or len(lines) != 128: bad.append(("flags scenario crashed / incomplete (%d of 128 lines): %s" % (len(lines), err[-600:]), dict(schema_fbs=FLAGS_FBS)))
    for l in lines:
        t = l.split(" ")
        if t[3] != "ok":
            text = bytes.fromhex(t[4][5:][:len(t[4][5:]) // 2 * 2]).decode("latin1") if len(t) > 4 else ""
            bad.append(("bit_flags round trip (subset %s, undeclared bit %s, printer flags %s): %s" % (t[0][2:], t[1][2:], t[2][3:], t[3]), dict(schema_fbs=FLAGS_FBS, text=text[:600], line=l[:200])))
    return {"bit_flags_round_trips": len(lines)}, bad


def run(ctx, mutate=None, judge_extra=None):
    ths = proof_stage(ctx)
    if ths is None:
        finish(ctx, [])
    b64cov = base64_stage(ctx, ths) if not (mutate or judge_extra) else {}
    if not (mutate or judge_extra):
        from props import c04
        b64cov.update(c04.chararr_stage(ctx, ths))
    flatcc, _ = build_flatcc(ctx)
    # C04 (mutated inputs) runs the deployed configuration: asserts compiled out, so that e.g. a duplicate key is the
    # parser's runtime error instead of the builder's `check(0, "table field already set")` abort
    ndebug = ["-DNDEBUG"] if mutate else []
    rt = build_runtime_objs(ctx, flags=["-O1", "-g", "-fsanitize=address", "-fno-omit-frame-pointer"] + ndebug, tag="rtj")
    # with mutants (C04) every schema carries ~5000 parse lines of a few KB each: 120 schemas keep the thorough tier within a few GB of memory
    nschema = 32 if ctx.quick() else (120 if mutate else 400)
    ncase = 10 if ctx.quick() else 16
    jobs = [(ctx.work, flatcc, rt, ctx.seed, si, ncase, mutate) for si in range(nschema)]
    with ThreadPoolExecutor(16) as ex:
        results = list(ex.map(json_job, jobs))
    if judge_extra:
        return ths, results
    bad_schema = [r for r in results if "error" in r]
    bad = [b for r in results if "lines" in r for b in judge_rt(r)]
    fstats, fbad = flags_stage(ctx, flatcc, rt)
    bad += fbad
    b64cov.update(fstats)
    sstats, sbad = signs_stage(ctx, flatcc, rt)
    bad += sbad
    b64cov.update(sstats)
    nlines = sum(len(r.get("lines", [])) for r in results)
    if bad_schema:
        b = bad_schema[0]
        violation(ctx, "gen_%d.json" % ctx.seed, {"kind": "generated-code-unusable", "why": b["error"], "schema": b["fbs"]}, no_failing_input=True)
    elif bad:
        why, det = min(bad, key=lambda x: len(x[1].get("line", "")) or 10**9)
        det.update({"kind": "property-fails-on-implementation", "why": why, "count": len(bad)})
        violation(ctx, "spec_%d.json" % ctx.seed, det)
    pfh = {}
    for r in results:
        for l in r.get("lines", []):
            t = l.split(" "); pfh[t[2]] = pfh.get(t[2], 0) + 1
    ctx.cov.update({
        "evaluations": nlines, "distinct_nontrivial": len(set(structural_hash(l) for r in results for l in r.get("lines", []))),
        "rule": "random schemas (scalars of every type with defaults, optional scalars, enums and bit-flag enums, structs with fixed arrays, scalar/struct "
                "vectors, base64/base64url byte vectors, string/table vectors, unions and union vectors with table/struct/string members, nested table and "
                "struct roots) x value trees (boundary ints, finite floats incl. denormals/-0, strings with NUL, quotes, backslashes, raw high bytes) x 3 random "
                "(printer flags, indent, parser flags) sets per case: generated printer -> text -> generated parser (input ends at a guard page) -> generated "
                "verifier -> accessor-level dump of original and reparsed buffer (values; presence where flags preserve it) -> reprint identical; strict "
                "text (no unquote/nonstrict, valid UTF-8) must load in Python's json module. Base64: pbase64.h encode/decode (all modes, limits, all 256 byte values, "
                "truncations, misplaced padding, whitespace), the parser's base64 field scanner and the printer's chunk loop under scripted flush points vs Base64.lean.",
        **b64cov, "schemas": len(results), "printer_flag_histogram": pfh, "traces_validated_against_impl": nlines, "spec_oracle_failures": len(bad)})
    ctx.samples = [{"line": r["lines"][0][:400]} for r in results if r.get("lines")][:2]
    ctx.notes = ["NaN/Inf floats and unknown union codes are excluded as the property says", "value-level comparison; scalar presence is compared only implicitly through the reprint"]
    finish(ctx, ths)
