"""C11 — JSON printer never overruns its output; all output modes agree.
Model: PrintFlush.lean (output layer); theorems Props/C11.lean; whole-printer sweep on generated code (harness/evo/jprint.c)."""
from vlib import *


def gen(ctx):
    r = ctx.rng
    L = []
    def events(maxw):
        evs, rawrun = [], 0
        for _ in range(r.choice([1, 3, 8, 30])):
            c = r.random()
            if c < 0.35:
                k = r.randint(0, 63 - rawrun) if rawrun < 63 else 0
                if k: evs.append("r%d" % k); rawrun += k
            elif c < 0.75:
                evs.append("w%d" % r.choice([0, 1, 2, 15, 16, 17, 63, 64, 65, r.randint(0, maxw), r.randint(0, maxw)])); rawrun = 0
            elif c < 0.85:
                evs.append("i%d" % r.choice([0, 1, 5, 60, 70, 300, r.randint(0, maxw)])); rawrun = 0
            elif c < 0.95:
                evs.append("p"); rawrun = 0
            else:
                evs.append("F"); rawrun = 0
        return ",".join(evs) if evs else "p"
    n = 1500 if ctx.quick() else 40000
    for _ in range(n):
        m = r.random()
        if m < 0.45:
            size = r.choice([64, 65, 66, 67, 68, 80, 100, 127, 128, 129, 200, 1000, r.randint(64, 400)])
            L.append("pr fixed:%d %s" % (size, events(2 * size)))
        elif m < 0.8:
            size = r.choice([0, 1, 63, 64, 65, 66, 100, 128, 4096, r.randint(1, 300)])
            L.append("pr dyn:%d %s" % (size, events(1000)))
        else:
            L.append("pr file %s" % events(r.choice([100, 20000, 40000])))
    # exact boundaries of every fixed size 64..200 with a single write of each length around size-64
    for size in range(64, 200 if ctx.quick() else 600):
        for d in (-2, -1, 0, 1):
            w = size - 64 + d
            if w >= 0: L.append("pr fixed:%d w%d" % (size, w)); L.append("pr fixed:%d r%d,w%d" % (size, min(w, 63), max(0, w - 63)))
    return L


def spec(line, out):
    t = line.split(" ")
    if "OVERRUN" in out or out.startswith("<crash"):
        return "wrote outside the buffer / faulted"
    nbytes = 0
    for e in t[2].split(","):
        if e[0] in "rwi": nbytes += int(e[1:])
    m = re.match(r"err=(\d) total=(\d+) len=(\d+) text=(\S+)", out)
    if not m:
        return "unparsable output"
    err, total, ln = int(m.group(1)), int(m.group(2)), int(m.group(3))
    if t[1].startswith("fixed:"):
        size = int(t[1][6:])
        if err == 0 and (ln != nbytes or total != nbytes):
            return "fixed buffer reported success for truncated text (%d of %d bytes)" % (ln, nbytes)
        if err == 1 and nbytes < size - 64:
            return "overflow although the text (%d) is shorter than size - reserve (%d)" % (nbytes, size - 64)
    else:
        if err != 0 or ln != nbytes or total != nbytes:
            return "growing buffer / file mode lost or duplicated output (%d of %d bytes, err %d)" % (ln, nbytes, err)
    return None


def run(ctx):
    ths = proof_stage(ctx)
    if ths is None:
        finish(ctx, [])
    flatcc, _ = build_flatcc(ctx)
    gen_dir = os.path.join(ctx.work, "gen")
    for f in ("a", "b"):
        rc, log = flatcc_generate(ctx, flatcc, os.path.join(VERIF, "harness/evo/%s.fbs" % f), gen_dir, opts=("-a", "--json-printer"))
        if rc != 0:
            raise BuildError("flatcc failed on harness/evo/%s.fbs: %s" % (f, log))
    rt = build_runtime_objs(ctx)
    h = build_harness(ctx, "h_print", [os.path.join(VERIF, "harness/h_print.c")], [o for o in rt if o.endswith("json_printer.o")])
    hj = build_harness(ctx, "jprint", [os.path.join(VERIF, "harness/evo/jprint.c")], rt, incs=[gen_dir, os.path.join(VERIF, "harness/evo")])
    lines = gen(ctx)
    rc_c, out_c, err_c = run_parallel(h, lines, 16, timeout=1800)
    rc_m, out_m, err_m = run_parallel(FMODEL, lines, 16, timeout=3000)
    idx, a, b = diff_streams(lines, out_c, out_m)
    spec_fail = [(i, w) for i, w in ((i, spec(l, a[i])) for i, l in enumerate(lines)) if w]
    # whole printer: every fixed size for buffers of the generated printer, several flag sets, ordinary and stress variants
    jobs = []
    r = ctx.rng
    nflag = 6 if ctx.quick() else 80
    for k in range(nflag):
        flags = r.randrange(16) | (r.randrange(5) << 4)
        jobs.append([str(r.randrange(65536)), "4" if ctx.quick() else "12", str(r.choice([1, 3, 977, 5417])), str(flags), "0"])
        jobs.append([str(r.randrange(1, 128)), "3" if ctx.quick() else "10", str(r.choice([1, 2, 32, 31])), str(flags & 0x3f), "1"])
    # strings made of escapes only (stress bit 32): step 64 walks the four escape patterns, v % 97 the run length
    for k in range(2 if ctx.quick() else 12):
        jobs.append([str(32 + r.randrange(11, 32) + 64 * k), "4" if ctx.quick() else "8", "64", str(r.randrange(16) | (r.choice([0, 2]) << 4)), "1"])
    # long texts (stress mode 2): the end of the text at every offset around 1, 2 and 3 flush units of the FILE printer (16384 bytes), flags with and without indentation
    for unit in range(3):
        for fl in ((0, 32) if ctx.quick() else (0, 16, 32, 48, 5, 64 + 3)):
            jobs.append([str(200 * unit), "200", "1", str(fl), "2"])
    with ThreadPoolExecutor(16) as ex:
        rs = list(ex.map(lambda j: sh([hj] + j, timeout=1500, env=ASAN_ENV), jobs))
    jfail, fixed_runs, variants = [], 0, 0
    for j, (rc, out, err) in zip(jobs, rs):
        bad = [l for l in out.split("\n") if l.startswith("BAD") or l.startswith("HANG")]
        m = re.search(r"variants=(\d+) fixed_runs=(\d+)", out)
        if m:
            variants += int(m.group(1)); fixed_runs += int(m.group(2))
        if rc != 0 or bad or not m:
            jfail.append("jprint %s: rc=%d %s %s" % (" ".join(j), rc, bad[:2], err[-600:] if rc != 0 else ""))
    if spec_fail or jfail:
        if spec_fail:
            i, why = min(spec_fail, key=lambda t: len(lines[t[0]]))
            payload = {"kind": "property-fails-on-implementation", "op": lines[i], "c_output": a[i], "model_output": b[i], "why": why, "count": len(spec_fail), "stderr": err_c[-1200:]}
        else:
            payload = {"kind": "property-fails-on-implementation", "why": jfail[0], "all": jfail[:10], "replay": "harness/evo/jprint.c <first> <count> <step> <flags> <stress>"}
        violation(ctx, "spec_%d.json" % ctx.seed, payload)
    elif idx:
        i = min(idx, key=lambda k: len(lines[k]))
        violation(ctx, "corr_%d.json" % ctx.seed, {"kind": "correspondence-broken", "theorems_no_longer_tied": [t["name"] for t in ths],
                                                     "op": lines[i], "c_output": a[i], "model_output": b[i], "count": len(idx)}, no_failing_input=True)
    ctx.cov.update({"evaluations": len(lines) + fixed_runs, "distinct_nontrivial": len(set(lines)) + variants,
                    "rule": "output layer through the public API (char / write / indent / flush_partial / flush) in the three modes: random event sequences with raw runs "
                            "< reserve, writes and indents around the flush point, every fixed size 64..200 (quick) with writes of size-64+-2; model vs C (error, total, "
                            "length, text hash) and a byte-count oracle. Whole printer (generated code for harness/evo/b.fbs incl. base64, union vectors, vectors of empty "
                            "tables / NONE unions): %d buffer variants x %d flag sets, EVERY fixed buffer size from the reserve to text+reserve+8 (%d fixed runs) vs the "
                            "growing-buffer text and the file output, under ASan with canaries and a watchdog." % (variants, nflag, fixed_runs),
                    "layer_lines": len(lines), "whole_printer_fixed_runs": fixed_runs, "whole_printer_variants": variants,
                    "traces_validated_against_impl": len(lines), "correspondence_disagreements": len(idx), "spec_oracle_failures": len(spec_fail) + len(jfail)})
    ctx.samples = [{"op": lines[i], "c": a[i], "model": b[i]} for i in (0, 1, len(lines) - 1)]
    ctx.notes = ["theorems are about the output layer (print/print_ex/indent/raw/flush in three modes); that every printer function keeps its raw runs "
                 "below the reserve between checked operations is NOT proved: it is what the exhaustive fixed-size sweep of the generated printer checks",
                 "allocation failure of the growing buffer is covered under C13, not here"]
    finish(ctx, ths)
