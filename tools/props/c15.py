"""C15 — nested buffers are self-contained and correctly aligned.
Model: Builder.lean (startBuffer / endBuffer / createBuffer nested header, embedBuffer, vtable cache keyed by nest id); theorems Props/C15.lean.
Tie: (1) byte-exact run of the runtime builder vs model on nesting-heavy trees (in place inside an open parent, bottom-up, embedded from
bytes of an independent encoder; depth up to 8; alignments up to 256; size flag; identifiers; clustering on/off); every nested buffer
is cut out of the parent, decoded standalone by the independent decoder, verified standalone by the runtime verifier and the
verifier model as a root of the nested type; alignment inside the parent; nothing of the parent inside a nested range.
(2) a generated-code scenario (harness/nest/) for the generated nested-root API: start/end_as_root, create_as_root, clone_as_root, nest."""
import vtree
from vlib import *
from props import c02


def run(ctx):
    ths = proof_stage(ctx)
    if ths is None:
        finish(ctx, [])
    flatcc, _ = build_flatcc(ctx)
    gen_dir = os.path.join(ctx.work, "gen")
    open(os.path.join(ctx.work, "empty.fbs"), "w").write("table Empty { x:int; }\n")
    rc, log = flatcc_generate(ctx, flatcc, os.path.join(ctx.work, "empty.fbs"), gen_dir, opts=("-c",))
    if rc != 0:
        raise BuildError("flatcc -c failed: " + log)
    rt = build_runtime_objs(ctx)
    h_build = build_harness(ctx, "h_build", [os.path.join(VERIF, "harness/h_build.c")], rt)
    h_verify = build_harness(ctx, "h_verify", [os.path.join(VERIF, "harness/h_verify.c")], rt, incs=[gen_dir])
    kw = dict(nested_ws=0.25, embed=0.2, nest_aligns=(0, 0, 0, 1, 2, 4, 8, 16, 32, 64, 128, 256))
    cases = c02.build_cases(ctx, nested=0.7, nschema=60 if ctx.quick() else 900, per=5 if ctx.quick() else 10, gen_kw=kw, depths=(3, 5, 8))
    cases = [c for c in cases if " B " in c["toks"] or " E " in c["toks"] or c["toks"].startswith("B")] + [c02.short_nested_case()]
    c_out, m_out, err = c02.run_builds(ctx, h_build, cases)
    corr, spec = [], []
    depth_hist = {}
    for ci, c in enumerate(cases):
        for st, o in sorted(c_out[ci].items()):
            if o != m_out[ci]:
                corr.append((ci, st)); break
        for st, o in sorted(c_out[ci].items()):
            w = "builder crashed (sanitizer / signal)" if o.startswith("<crash") else c02.check_buffer(c, o)
            if w:
                spec.append((ci, st, w)); break
        d = max((len(re.findall(r"\bB\b|\bE\b", c["toks"])), 0))
        depth_hist[min(d, 9)] = depth_hist.get(min(d, 9), 0) + 1
    # standalone verification of every extracted nested buffer (+ the parent) by the runtime verifier and the model
    blocks, owner = [], []
    by_schema = {}
    for ci, c in enumerate(cases): by_schema.setdefault(c["si"], []).append(ci)
    for si, cis in by_schema.items():
        c0 = cases[cis[0]]
        lines = [vtree.schema_line(c0["tables"], c0["unions"])]; own = [None]
        for ci in cis:
            o = c_out[ci].get(0, "")
            if o.startswith("ok") and "nested_found" in cases[ci]:
                for l in c02.verify_lines(cases[ci], o):
                    lines.append(l); own.append(ci)
        blocks.append(lines); owner.append(own)
    rc_v, out_v, err_v = run_blocks(h_verify, blocks, 16)
    rc_w, out_w, err_w = run_blocks(FMODEL, blocks, 16)
    vlines = [l for b in blocks for l in b]
    vown = [x for o in owner for x in o]
    out_v = ["reject" if o.startswith("reject") else o for o in out_v]
    idx, va, vb = diff_streams(vlines, out_v, out_w)
    nested_verified = 0
    short_hits = []
    for i, (l, o) in enumerate(zip(vlines, va)):
        if not l.startswith("verify"): continue
        nested_verified += 1
        if not o.startswith("ok"):
            e = (vown[i], "verify", "the verifier rejects a nested buffer cut out of its parent (or the parent): %s | %s" % (o[:80], l[:1500]))
            if c02.short_nested_struct(cases[vown[i]]): short_hits.append(e)
            else: spec.append(e)
    if short_hits:
        if any(f["property"] == "C15" and f["id"] == "nested-struct-root-below-header-size" and f["status"] == "known" for f in load_known()):
            known_finding(ctx, "nested-struct-root-below-header-size", "a nested buffer whose root is a struct of fewer than 4 bytes (no identifier, no size prefix) is emitted as "
                          "4 + size < 8 bytes; cut out of the parent it is rejected by the verifier, which demands an 8-byte header of every buffer, and so is the parent "
                          "(%d verify lines this run), e.g. %s" % (len(short_hits), short_hits[0][2][-60:]))
        else: spec += short_hits
    # generated nested-root API scenario
    gen_fail, gen_lines = nest_scenario(ctx, flatcc, rt)
    known = [f for f in load_known() if f["property"] == "C15" and f["status"] == "known"]
    gen_bad = []
    for (tag, why) in gen_fail:
        f = next((f for f in known if f["id"] == tag), None)
        if f: known_finding(ctx, tag, why)
        else: gen_bad.append((tag, why))
    if gen_bad:
        violation(ctx, "nestapi_%d.json" % ctx.seed, {"kind": "property-fails-on-implementation", "why": gen_bad[0][1], "all": gen_bad, "program_output": gen_lines,
                                                        "how_to_replay": "harness/nest/nest.c built against flatcc -a output of harness/nest/nest.fbs"})
    elif spec:
        ci, st, why = min(spec, key=lambda t: len(cases[t[0]]["toks"]))
        c = cases[ci]
        violation(ctx, "spec_%d.json" % ctx.seed, {
            "kind": "property-fails-on-implementation", "why": why, "count": len(spec), "schema": vtree.schema_line(c["tables"], c["unions"]), "root": c["root"],
            "h_build_lines": ["fresh 1", c02.build_line(c, st if isinstance(st, int) else 0)],
            "c_output": c_out[ci].get(st if isinstance(st, int) else 0, "")[:4000], "model_output": m_out[ci][:4000], "stderr": (err + err_v)[-2500:]})
    elif corr or idx:
        if corr:
            ci, st = min(corr, key=lambda t: len(cases[t[0]]["toks"])); c = cases[ci]
            payload = {"h_build_lines": ["fresh 1", c02.build_line(c, st)], "c_output": c_out[ci][st][:4000], "model_output": m_out[ci][:4000]}
        else:
            i = min(idx, key=lambda k: len(vlines[k]))
            payload = {"schema": next(x for x in reversed(vlines[:i + 1]) if x.startswith("schema")), "op": vlines[i][:4000], "c_output": va[i][:2000], "model_output": vb[i][:2000]}
        payload.update({"kind": "correspondence-broken", "theorems_no_longer_tied": [t["name"] for t in ths], "count": len(corr) + len(idx)})
        violation(ctx, "corr_%d.json" % ctx.seed, payload, no_failing_input=True)
    nb = sum(len(x) for x in c_out)
    ctx.cov.update({
        "evaluations": nb + len(vlines), "distinct_nontrivial": len(set(structural_hash(c["toks"] + str((c["flags"], c["ident"], c["ba"]))) for c in cases)),
        "rule": "schemas with nested table/struct root fields (70% of tables) x trees up to depth 8 with nested buffers built in place (style 1/2: inside the "
                "open parent table) or before the parent (style 0), embedded from an independent encoder's bytes, size flag on 25%, nested block "
                "alignment 1..256, struct roots with alignment 1..32, identifiers, parent clustering on/off, parent size prefix / block alignment. "
                "Oracles: C bytes == model bytes; each nested buffer cut out and decoded standalone == its subtree; placement inside the parent "
                "aligned to the nested content's needs; no parent object inside a nested range; reported alignment >= nested needs; runtime verifier and "
                "verifier model accept every cut-out buffer as root of the nested type. Generated nested-root API scenario (start/end, create, clone, nest).",
        "builds": nb, "cases": len(cases), "nested_nodes_per_case_hist": depth_hist, "nested_buffers_verified_standalone": nested_verified,
        "generated_api_lines": len(gen_lines), "traces_validated_against_impl": nb, "correspondence_disagreements": len(corr) + len(idx),
        "spec_oracle_failures": len(spec) + len(gen_bad)})
    ctx.samples = [{"op": c02.build_line(c, 1)[:300], "c": c_out[i].get(1, "")[:300]} for i, c in list(enumerate(cases))[:2]]
    finish(ctx, ths)


def nest_scenario(ctx, flatcc, rt):
    """builds harness/nest/nest.c against the current compiler's output for nest.fbs; returns ([(finding-id, text)], output lines)"""
    d = os.path.join(ctx.work, "nest")
    os.makedirs(d, exist_ok=True)
    rc, log = flatcc_generate(ctx, flatcc, os.path.join(VERIF, "harness/nest/nest.fbs"), d, opts=("-a",))
    if rc != 0:
        raise BuildError("flatcc -a nest.fbs failed: " + log)
    exe = build_harness(ctx, "nest_prog", [os.path.join(VERIF, "harness/nest/nest.c")], rt, incs=[d])
    rc, out, err = sh([exe], timeout=120, env=ASAN_ENV)
    lines = [l for l in out.split("\n") if l]
    fails = []
    if rc != 0:
        fails.append(("nest-crash", "generated nested-root scenario crashed: " + err[-800:]))
    for l in lines:
        if l.startswith("FAIL "):
            t = l.split(" ", 2)
            fails.append((t[1], t[2]))
    return fails, lines
