"""C13 — allocation and emit failures are reported, never turned into corruption.
Model: Builder.lean emit layer (Props/C13.lean: a refused emit leaves the stream untouched and the null reference is never a
successful result; after reset the builder is the initial state — C14_reset_is_init). Tie: for every scenario of a build corpus and
EVERY k up to the number of allocator (resp. emitter, resp. malloc-level) calls the scenario makes, the k-th call fails (once, and from
then on): the build must report failure (or complete with exactly the fault-free bytes), no sanitizer report, then reset and rebuild
must give the model's fresh bytes, and clear must release every block."""
import vtree
from vlib import *
from props import c02


def make_pfault(quick):
    """callback for c05.json_job: for a few texts of the schema, the k-th allocator request during the generated parser's run is refused, for EVERY k
    (once / from then on), on a fresh builder; afterwards reset + the same parse without faults + clear (json_main.c.in `pfault`)"""
    def mut(r, prog, rt_lines, metas):
        texts = []
        for l in rt_lines:
            t = l.split(" ")
            if len(t) > 7 and t[7].startswith("pok") and t[6] != "-" and len(t[6]) <= 6000:
                try: texts.append((metas[int(t[1])]["ti"], t[6], int(t[4])))
                except ValueError: pass
        r.shuffle(texts)
        texts = texts[:2 if quick else 6]
        base_lines = ["pfault %d %d 0 0 %s" % (ti, jf, hx) for (ti, hx, jf) in texts]
        rc, base, err0 = run_lines([prog, "pfault"], base_lines, timeout=300, sticky=None)
        lines, ref = [], []
        for (ti, hx, jf), b in zip(texts, base):
            m = re.match(r"pok calls=(\d+) verify=0 (\S*) \| again pok verify=0 (\S*)$", b)
            if not m or m.group(2) != m.group(3): continue
            for k in range(1, min(int(m.group(1)), 80) + 1):
                for rep in (0, 1):
                    lines.append("pfault %d %d %d %d %s" % (ti, jf, k, rep, hx)); ref.append(m.group(2))
        rc, out, err = run_lines([prog, "pfault"], lines, timeout=600, sticky=None)
        bad, nfail, nok = [], 0, 0
        for l, o, d in zip(lines, out, ref):
            det = dict(op=l[:3000], output=o[:1200], text=bytes.fromhex(l.split(" ")[5]).decode("latin1")[:800])
            if o.startswith("<"):
                det["stderr"] = err[-2500:]
                bad.append(("generated parser faulted (sanitizer report / signal) when an allocation was refused during the parse", det)); continue
            first, _, again = o.partition(" | ")
            if first.startswith("perr=") or first.startswith("finalize-failed") or first.startswith("init-failed"):
                nfail += 1      # the parse call returned non-zero (its failure value); an error code in the context is C04's business
            elif first.startswith("pok"):
                nok += 1
                mm = re.match(r"pok calls=\d+ verify=(-?\d+) (\S*)", first)
                if not mm or mm.group(1) != "0" or mm.group(2) != d:
                    bad.append(("a parse during which an allocation was refused reports success with a buffer that does not verify / differs from the fault-free result", det))
            else: bad.append(("unexpected harness output", det))
            if again != "again pok verify=0 " + d:
                bad.append(("after a parse with a refused allocation, reset + the same parse on the same builder does not give the fault-free result", det))
        return dict(bad=bad[:20], nbad=len(bad), lines=len(lines), failed=nfail, succeeded=nok, texts=len(texts), skipped=sum(1 for b in base if not b.startswith("pok")))
    return mut


def json_fault_stage(ctx):
    from props import c05
    from concurrent.futures import ThreadPoolExecutor
    flatcc, _ = build_flatcc(ctx)
    rtj = build_runtime_objs(ctx, flags=["-O1", "-g", "-fsanitize=address", "-fno-omit-frame-pointer", "-DNDEBUG"], tag="rtj")
    mut = make_pfault(ctx.quick())
    jobs = [(ctx.work, flatcc, rtj, ctx.seed + 77, si, 8, mut) for si in range(8 if ctx.quick() else 80)]
    with ThreadPoolExecutor(16) as ex:
        results = list(ex.map(c05.json_job, jobs))
    bad, stats = [], dict(json_fault_lines=0, json_fault_failed=0, json_fault_succeeded=0, json_fault_texts=0)
    # fixed scenario: a union vector with 3000 elements (its type vector is larger than the parser's user stack at that point), every request refused in turn
    d = os.path.join(ctx.work, "ufault"); os.makedirs(d, exist_ok=True)
    open(os.path.join(d, "s.fbs"), "w").write("table A { x:int; }\nunion U { A }\ntable T { v:[U]; }\nroot_type T;\n")
    rc, out, err = sh([flatcc, "-a", "--json", "-o", d, os.path.join(d, "s.fbs")])
    if rc != 0: raise BuildError("flatcc rejects the union-vector fault schema: " + (out + err)[-300:])
    exe = build_harness(ctx, "ufault_prog", [os.path.join(VERIF, "harness/ufault.c")], rtj, incs=[d], flags=["-O1", "-g", "-w", "-DNDEBUG", "-fsanitize=address", "-fno-omit-frame-pointer"])
    rc, out, err = sh([exe], timeout=300, env=ASAN_ENV)
    stats["json_fault_union_vector_scenario"] = (out.strip().split("\n") or [""])[-1][:80]
    if rc != 0 or "BAD" in out or "done " not in out:
        bad.append(("JSON parse of a 3000-element union vector with a refused allocation: %s" % ("sanitizer report / crash" if rc != 0 else "wrong result"),
                    dict(op="harness/ufault.c (schema: table A { x:int; } union U { A } table T { v:[U]; })", output=out[-600:], stderr=err[-2500:])))
    for res in results:
        m = res.get("mut")
        if "error" in res or not m: continue
        stats["json_fault_lines"] += m["lines"]; stats["json_fault_failed"] += m["failed"]; stats["json_fault_succeeded"] += m["succeeded"]; stats["json_fault_texts"] += m["texts"]
        for why, det in m["bad"]:
            det["schema_fbs"] = res["fbs"]; bad.append((why, det))
    return stats, bad


def run(ctx):
    ths = proof_stage(ctx)
    if ths is None:
        finish(ctx, [])
    quick = ctx.quick()
    r = ctx.rng
    jf_stats, jf_bad = json_fault_stage(ctx)
    ctx.cov.update(jf_stats)
    if jf_bad:
        why, det = jf_bad[0]
        det.update({"kind": "property-fails-on-implementation", "why": why, "count": len(jf_bad)})
        violation(ctx, "jsonfault_%d.json" % ctx.seed, det)
    rt = build_runtime_objs(ctx, tag="rtnd", extra_defs=("-DNDEBUG",))
    h = build_harness(ctx, "h_build", [os.path.join(VERIF, "harness/h_build.c")], rt, defs=("-DNDEBUG",))
    mdefs = ("-DNDEBUG", "-DFLATCC_ALLOC=h_malloc", "-DFLATCC_CALLOC=h_calloc", "-DFLATCC_REALLOC=h_realloc", "-DFLATCC_FREE=h_free",
             "-DFLATCC_USE_GENERIC_ALIGNED_ALLOC", "-include", os.path.join(VERIF, "harness/h_allocs.h"))
    rtm = build_runtime_objs(ctx, tag="rtm", extra_defs=mdefs)
    hm = build_harness(ctx, "h_build_m", [os.path.join(VERIF, "harness/h_build.c")], rtm, defs=mdefs)
    cases = c02.build_cases(ctx, nested=0.3, nschema=8 if quick else 60, per=3 if quick else 5, big=not quick)
    cases = [c for c in cases if len(c["toks"]) < (4000 if quick else 40000)]
    styles = [r.randrange(3) for _ in cases]
    # pass 0: how many allocator / emit / malloc calls does each scenario make on a fresh builder
    count_blocks = [["fresh 1", "faulta 1000000 0 " + c02.build_line(c, st)[6:]] for c, st in zip(cases, styles)]
    rc, out0, err0 = run_blocks(h, count_blocks, 16, sticky="fresh ")
    mcount_blocks = [["fresh 0", "faultm 1000000 0 " + c02.build_line(c, st)[6:]] for c, st in zip(cases, styles)]
    rc, outm0, errm0 = run_blocks(hm, mcount_blocks, 16, sticky="fresh ")
    mlines = [c02.build_line(c, 0) for c in cases]
    rc, mout, _ = run_parallel(FMODEL, mlines, 16)

    def core(o):
        t = o.split(" ")
        i = t.index("ok") if "ok" in t else -1
        return " ".join(t[i:i + 3]) if i >= 0 else t[0]
    spec, corr = [], []
    blocks, info = [], []
    cap = 40 if quick else 400
    for ci, (c, st) in enumerate(zip(cases, styles)):
        o = out0[2 * ci + 1]
        m = re.search(r"allocs=(\d+) emits=(\d+)", o)
        if not o.startswith("done") or not m:
            spec.append((ci, "fault-free build failed: " + o[:200])); continue
        if core(o) != core(mout[ci]): corr.append((ci, o, mout[ci]))
        na, ne = int(m.group(1)), int(m.group(2))
        mm = re.search(r"mallocs=(\d+)", outm0[2 * ci + 1])
        nm = int(mm.group(1)) if mm else 0
        bl = c02.build_line(c, st)
        for kind, n, custom in (("faulta", na, 1), ("faulte", ne, 1), ("faultm", nm, 0)):
            ks = list(range(1, n + 1))
            if len(ks) > cap: ks = sorted(set(ks[:cap // 2] + r.sample(ks, cap // 2)))
            lines, inf = [], []
            for k in ks:
                for rep in (0, 1):
                    # a fresh builder for every fault point, so that the k-th call is reached as counted
                    lines += ["fresh %d" % custom, "%s %d %d %s" % (kind, k, rep, bl[6:]), "reset 0", bl, "clear"]
                    inf += [None, ("fault", ci, kind, k, rep), None, ("rebuild", ci, kind, k, rep), ("clear", ci, kind)]
            blocks.append((kind, lines)); info.append(inf)
    outs = {}
    for binary, kinds in ((h, ("faulta", "faulte")), (hm, ("faultm",))):
        sel = [i for i, (k, _) in enumerate(blocks) if k in kinds]
        rc, o, e = run_blocks(binary, [blocks[i][1] for i in sel], 16, sticky="fresh ", timeout=3000)
        pos = 0
        for i in sel:
            outs[i] = o[pos:pos + len(blocks[i][1])]; pos += len(blocks[i][1])
        err0 += e
    nfault = nfail = ntolerated = nnotreached = 0
    per_kind = {}
    for bi, (kind, lines) in enumerate(blocks):
        for l, o, inf in zip(lines, outs[bi], info[bi]):
            if o.startswith("<crash"):
                spec.append((inf[1] if inf else -1, "crash (sanitizer report / signal) while handling an injected failure: %s" % (l[:200])))
                continue
            if inf is None: continue
            ci = inf[1]
            if inf[0] == "fault":
                nfault += 1
                per_kind[kind] = per_kind.get(kind, 0) + 1
                fired = int(re.search(r"fired=(\d+)", o).group(1)) if "fired=" in o else 0
                if o.startswith("fail"):
                    nfail += 1
                    if fired == 0: spec.append((ci, "build reported failure although no fault was injected: " + l[:200]))
                elif o.startswith("done"):
                    if fired == 0: nnotreached += 1
                    elif core(o) == core(mout[ci]): ntolerated += 1
                    else: spec.append((ci, "%s k=%d: a call failed but the build reported success with different bytes (corruption): %s" % (kind, inf[3], o[:160])))
                else:
                    spec.append((ci, "unexpected harness output: " + o[:200]))
            elif inf[0] == "rebuild":
                if core(o) != core(mout[ci]):
                    spec.append((ci, "after a failed build (%s k=%d rep=%d) and reset, the rebuild differs from a fresh builder: %s" % (inf[2], inf[3], inf[4], o[:160])))
            elif inf[0] == "clear":
                m = re.search(r"live=(-?\d+) mlive=(-?\d+)", o)
                if not m or int(m.group(1)) != 0 or int(m.group(2)) != 0:
                    spec.append((ci, "clear left allocator blocks alive: " + o))
    # reference map: operation histories in which the allocator refuses whole calls (refmap.c built with the FLATCC_CALLOC macro routed to the harness)
    from props import c18
    rm_lines, rm_refusals, rm_fail, rm_tie = c18.fault_stage(ctx)
    if rm_fail:
        rm_fail["theorems_no_longer_tied"] = [t["name"] for t in ths if "refmap" in t["name"]]
        violation(ctx, "refmap_%d.json" % ctx.seed, rm_fail, no_failing_input=rm_tie)
    if spec:
        ci, why = spec[0]
        c = cases[ci] if ci >= 0 else None
        violation(ctx, "spec_%d.json" % ctx.seed, {"kind": "property-fails-on-implementation", "why": why, "count": len(spec), "more": [w for _, w in spec[1:6]],
                                                     "scenario": c02.build_line(c, styles[ci])[:3000] if c else None, "stderr": err0[-3000:]})
    elif corr:
        ci, o, mo = corr[0]
        violation(ctx, "corr_%d.json" % ctx.seed, {"kind": "correspondence-broken", "theorems_no_longer_tied": [t["name"] for t in ths],
                                                     "op": mlines[ci][:3000], "c_output": o[:2000], "model_output": mo[:2000]}, no_failing_input=True)
    ctx.cov.update({
        "evaluations": nfault * 2, "distinct_nontrivial": nfault,
        "rule": "build corpus (random schemas/trees incl. nested buffers, unions, vectors; 3 call styles) x EVERY k in 1..#calls (capped at %d per scenario "
                "and kind, then sampled) x {fails once, fails from then on} for: custom allocator calls, custom emitter calls, and every malloc/calloc/realloc of the "
                "runtime through the FLATCC_ALLOC macros (builder buffers, emitter pages, finalize copy). Each: NDEBUG runtime under ASan/UBSan; the faulted build must "
                "return failure or complete with the fault-free bytes; reset; rebuild == Lean model fresh bytes; clear leaves 0 live blocks." % cap,
        "refmap_fault_histories": rm_lines, "refmap_refused_calls": rm_refusals,
        "scenarios": len(cases), "fault_points": nfault, "by_kind": per_kind, "reported_failure": nfail, "completed_identically": ntolerated, "fault_not_reached": nnotreached,
        "traces_validated_against_impl": nfault, "correspondence_disagreements": len(corr), "spec_oracle_failures": len(spec)})
    ctx.samples = [{"fault_line": blocks[0][1][2][:200], "result": outs[0][2][:120]}] if blocks else []
    ctx.notes = ["JSON-parse scenarios under fault injection are part of C04's check (generated parsers); reference map and printer allocation failures: see DESIGN.md",
                 "asserts are compiled out (NDEBUG) as in a release build: with asserts enabled an emitter refusal aborts by design (`check(0, ...)`)"]
    finish(ctx, ths)
