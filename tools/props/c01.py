"""C01 — verifier acceptance implies in-bounds, aligned reads. Model: Verifier.lean, Reader.lean; theorems Props/C01.lean."""
import struct
import fbenc
from vlib import *


def mutations(r, buf, marks, quick, all_wraps=False):
    """structure-aware single-word mutations at the positions the encoder recorded, plus truncations and byte noise"""
    n = len(buf)
    out = []
    per = 6 if quick else 16
    for (pos, size, what) in marks:
        cur = int.from_bytes(buf[pos:pos + size], "little")
        if size == 4:
            cand = {0, 1, 2, 3, 4, 5, 7, 8, cur + 1, cur - 1, cur + 2, cur + 4, cur - 4, cur + 8, n - pos, n - pos - 1, n - pos - 4, n - pos + 4,
                    n - pos - 5, n, n - 1, n + 1, 0x7fffffff, 0x80000000, 0x80000004, 0xffffffff, 0xfffffffc, 0xfffffff8,
                    (2**32 - pos) & 0xffffffff, (2**32 - pos + 4) & 0xffffffff, (2**32 - pos + 8) & 0xffffffff, (2**32 - pos - 4) & 0xffffffff,
                    0x3fffffff, 0x40000000, 0x40000001, pos, pos + 4, cur ^ 0x80000000, r.getrandbits(32), r.randrange(0, n + 8)}
        else:
            cand = {0, 1, 2, 3, 4, 5, 6, 8, cur + 1, cur - 1, cur + 2, cur - 2, cur + 4, 0xffff, 0xfffe, 0xfffc, 0x8000, 0x7fff, n - pos, n, r.getrandbits(16), r.randrange(0, 64)}
        cand = [v & (0xffffffff if size == 4 else 0xffff) for v in cand if v != cur]
        pick = r.sample(cand, min(per, len(cand)))
        if what.endswith("veclen"):
            # counts whose product with an element size of 2..48 wraps around 2^32 to a small value
            wraps = [2**32 // e + k for e in (2, 3, 4, 6, 8, 12, 16, 24, 32, 48) for k in (0, 1)]
            pick += wraps if all_wraps else r.sample(wraps, 5 if quick else 20)
        for v in pick:
            m = bytearray(buf); m[pos:pos + size] = v.to_bytes(size, "little"); out.append(bytes(m))
    cuts = range(0, n) if n <= 96 and not quick else sorted(set(r.randrange(0, n) for _ in range(12)) | {n - 1, n - 2, n - 4, 8, 7, 4, 0})
    for k in cuts:
        if 0 <= k < n: out.append(buf[:k])
    for _ in range(4 if quick else 16):
        m = bytearray(buf); i = r.randrange(n); m[i] = r.choice([0, 1, 0xff, m[i] ^ (1 << r.randrange(8)), r.randrange(256)]); out.append(bytes(m))
    for _ in range(2):
        out.append(buf + bytes(r.randrange(256) for _ in range(r.choice([1, 4, 8]))))
    return out


def hand_schemas():
    """schemas aimed at specific checks"""
    F = fbenc.fld
    return [
        # deep recursion through table / table vector / union vector (nesting limit)
        ([[F(0, 0, "t", 0), F(1, 0, "tv", 0), F(3, 0, "uv", 0)]], [[dict(code=1, kind="t", a=0, b=0)]]),
        # union of struct with large alignment and string
        ([[F(1, 0, "u", 0), F(3, 1, "u", 0)]], [[dict(code=1, kind="st", a=16, b=16), dict(code=2, kind="str", a=0, b=0), dict(code=7, kind="t", a=0, b=0)]]),
        # vectors with big elements and small max_count
        ([[F(0, 0, "v", 16, 16, 0xffffffff // 16), F(1, 0, "v", 1, 1, 0xffffffff), F(2, 1, "sv"), F(3, 0, "s", 8, 8)]], []),
    ]


def deep_buffer(levels, via):
    """chain of `levels` tables of type 0, each pointing to the next through field `via` ('t' id 0, 'tv' id 1, 'uv' ids 2/3)"""
    r = random.Random(levels)
    tabs, uns = hand_schemas()[0]
    e = fbenc.Enc(r, tabs, uns)
    # innermost empty table
    def mk(children):
        # build table 0 with given (id -> target) map
        e.tables = tabs
        return None
    # build manually bottom-up using Enc internals
    cur = None
    for lvl in range(levels):
        present = []
        if cur is not None:
            if via == "t":
                present.append((0, ("off", cur), 4, 4))
            elif via == "tv":
                present.append((1, ("off", e.offset_vector([cur])), 4, 4))
            else:
                vals = e.offset_vector([cur]); tv = e.vector(bytes([1]), 1, 1)
                present.append((2, ("off", tv), 4, 4)); present.append((3, ("off", vals), 4, 4))
        off, body, slots, vt = 4, bytearray(b"\0\0\0\0"), [], {}
        for (fid, val, size, al) in present:
            vt[fid] = off; slots.append((off, val[1])); body += b"\0\0\0\0"; off += 4
        e.pad(4, off); e.prepend(bytes(body)); tpos = e.L()
        for (o, target) in slots:
            e.patch32(tpos - o, (tpos - o) - target)
        nent = (max(vt) + 1) if vt else 0
        vtb = struct.pack("<HH", 4 + 2 * nent, off) + b"".join(struct.pack("<H", vt.get(i, 0)) for i in range(nent))
        e.pad(2, len(vtb)); e.prepend(vtb); vpos = e.L()
        e.patch32(tpos, vpos - tpos)
        cur = tpos
    return e.finish(cur)[0]


def gen(ctx, extra_schemas=None, hot=()):
    """extra_schemas: descriptors translated from generated verifiers; hot: indices of those that differ from what the schema demands
    (more buffers and every wrap-around count for them: the search for a concrete failing input)"""
    r = ctx.rng
    blocks, expect_ok = [], []
    # thorough: ~10x the quick volume; the protocol lines and both output streams (with access lists) are held in memory: 600 x 12 needed > 40 GB,
    # 160 x 8 17 GB
    nschema = 40 if ctx.quick() else 100
    nbuf = 6 if ctx.quick() else 8
    schemas = [fbenc.random_schema(r, nested=(i % 3 == 2)) for i in range(nschema)] + hand_schemas()
    nbase = len(schemas)
    schemas += (extra_schemas or [])
    for si, (tabs, uns) in enumerate(schemas):
        lines = [fbenc.schema_line(tabs, uns)]
        exp = [None]
        is_hot = (si - nbase) in hot
        for _ in range(nbuf * 6 if is_hot else 3 if si >= nbase and ctx.quick() else nbuf):
            ti = r.randrange(len(tabs))
            ws = r.random() < 0.25
            ident = r.choice([None, None, b"ABCD", b"A\0CD", bytes(r.randrange(256) for _ in range(4))])
            knobs = {k: True for k in ("shuffle_fields", "long_vtable", "no_vt_share", "extra_pad") if r.random() < 0.3}
            # nested buffers placed at a multiple of 4 only: the verifier must reject them when their content needs more
            if r.random() < 0.2: knobs["misalign_nested"] = True
            try:
                buf, marks, minal = fbenc.encode_table_root(r, tabs, uns, ti, ident, ws, knobs)
            except RecursionError:
                continue
            def line(b, variant=None, idreq=None, shift=0):
                v = variant or ("size" if ws else "plain")
                i = "-" if idreq is None else idreq.hex()
                return "verify t%d %s %s %d %s" % (ti, v, i, shift, b.hex() if b else "-")
            # the valid buffer under several identifier requests and placements
            good = None if knobs.get("misalign_nested") else True
            lines.append(line(buf)); exp.append(good)
            if ident is not None:
                lines.append(line(buf, idreq=ident)); exp.append(None if b"\0" in ident else good)
                lines.append(line(buf, "typedsize" if ws else "typed", ident)); exp.append(good)
                lines.append(line(buf, idreq=b"WXYZ")); exp.append(False)
            for sh in (4, 8, 2):
                lines.append(line(buf, shift=sh)); exp.append(None)
            lines.append(line(buf, "plain" if ws else "size")); exp.append(None)
            for m in mutations(r, buf, marks, ctx.quick(), all_wraps=is_hot):
                lines.append(line(m)); exp.append(None)
        blocks.append(lines); expect_ok.append(exp)
    # nesting depth: chains through every hop kind around the limit
    tabs, uns = hand_schemas()[0]
    lines = [fbenc.schema_line(tabs, uns)]; exp = [None]
    for via in ("t", "tv", "uv"):
        for levels in (1, 2, 30, 48, 49, 50, 51, 52, 97, 98, 99, 100, 101, 102, 150, 400):
            b = deep_buffer(levels, via)
            lines.append("verify t0 plain - 0 %s" % b.hex()); exp.append(None)
    blocks.append(lines); expect_ok.append(exp)
    # nesting depth through nested buffers: table 0 { f0:[ubyte] (nested_flatbuffer: table 0) }, a chain of `levels` buffers inside each other; the
    # nesting budget is one budget for the whole verification, not one per nested buffer
    lines = [fbenc.schema_line([[fbenc.fld(0, 0, "nt", 0, 1)]], [])]; exp = [None]
    for levels in (1, 2, 10, 49, 50, 51, 98, 99, 100, 101, 102, 150, 300, 1000):
        b = struct.pack("<I", 8) + struct.pack("<HH", 4, 4) + struct.pack("<i", 4)
        for _ in range(levels - 1):
            b = struct.pack("<I", 12) + struct.pack("<HHH", 6, 8, 4) + b"\0\0" + struct.pack("<i", 8) + struct.pack("<I", 4) + struct.pack("<I", len(b)) + b
            b += b"\0" * (-len(b) % 4)
        lines.append("verify t0 plain - 0 %s" % b.hex()); exp.append(None)
    blocks.append(lines); expect_ok.append(exp)
    # struct roots
    lines = ["schema _"]; exp = [None]
    for (size, align) in ((0, 1), (1, 1), (4, 4), (8, 8), (16, 16), (24, 8), (3, 1)):
        for ws in (False, True):
            body = bytes(r.randrange(256) for _ in range(size))
            for ident in (None, b"STRU"):
                hdr = 8
                pad = (-hdr - (4 if ws else 0)) % align
                b = struct.pack("<I", hdr + pad) + (ident or b"\0\0\0\0") + b"\0" * pad + body
                total = len(b)
                if ws: b = struct.pack("<I", total) + b
                # fix root offset relative to its own position (always 8+pad from the offset field)
                base = [b]
                # all four entry points (identifier / type hash, plain / size-prefixed), the buffer also at addresses 4 and 8 mod 4096
                for typed in (False, True):
                    var = ("typedsize" if ws else "typed") if typed else ("size" if ws else "plain")
                    for bb in base + [b[:k] for k in range(len(b))]:
                        lines.append("verify st:%d:%d %s %s 0 %s" % (size, align, var, ident.hex() if ident else "-", bb.hex() if bb else "-")); exp.append(None)
                    for sh in (4, 8):
                        lines.append("verify st:%d:%d %s %s %d %s" % (size, align, var, ident.hex() if ident else "-", sh, b.hex())); exp.append(None)
                    # the struct cut short by 1..4 bytes with the size field adjusted (size-prefixed): the last bytes lie behind the declared size
                    if ws and size:
                        for cut in (1, 2, 3, 4):
                            if cut <= size:
                                t = bytearray(b[:len(b) - cut]); t[0:4] = struct.pack("<I", len(t) - 4)
                                lines.append("verify st:%d:%d %s %s 0 %s" % (size, align, var, ident.hex() if ident else "-", bytes(t).hex())); exp.append(None)
                    for v in (0, 1, 4, 7, 8, len(b), len(b) - size, len(b) - size + 1, len(b) - size - 4, len(b) - size + 4, 0xffffffff, 0xfffffffc, (2**32 - 4 + 8) & 0xffffffff, 2**32 - (4 if ws else 0) + 8 & 0xffffffff):
                        m = bytearray(b); o = 4 if ws else 0; m[o:o + 4] = struct.pack("<I", v & 0xffffffff)
                        lines.append("verify st:%d:%d %s - 0 %s" % (size, align, var, bytes(m).hex())); exp.append(None)
    blocks.append(lines); expect_ok.append(exp)
    return blocks, expect_ok


def canon(o):
    return "reject" if o.startswith("reject") else o


def generated_stage(ctx, flatcc):
    """Tie of the hypothesis `wfB S M` (C01_generated_verifier) and of the model's call lists to the code the CURRENT compiler generates:
    random .fbs schemas -> flatcc -> *_verifier.h -> translated call lists, which must (a) be fully recognised, (b) equal what the schema
    demands (sizes / alignments / ids from the Lean layout model, max counts = UOFFSET_MAX / element size, required flags, union members,
    unknown union types accepted), (c) satisfy wfB in Lean. The translated descriptors then drive the runtime verifier in the differential run.
    -> (descriptors, hot indices, translator failures, differences, wf failures, stats)"""
    import schemagen, schemamodel, genverifier as gv
    r = ctx.rng
    n = 24 if ctx.quick() else 120      # each translated schema also gets its own block of buffers in the differential run (memory)
    descs, hot, ties, diffs, wf_bad = [], set(), [], [], []
    cases = []
    for i in range(n):
        S = schemagen.gen_schema(r)
        lay = schemamodel.layouts(S, r)
        cases.append((i, S, lay, schemamodel.ids(S)))
    def compile_one(case):
        i, S, lay, ids = case
        d = os.path.join(ctx.work, "gv%d" % i); os.makedirs(d, exist_ok=True)
        fbs = os.path.join(d, "s.fbs"); open(fbs, "w").write(schemagen.render(S))
        rc, log = flatcc_generate(ctx, flatcc, fbs, d, opts=("--verifier",))
        p = os.path.join(d, "s_verifier.h")
        if rc != 0 or not os.path.exists(p):
            return (i, None, "flatcc --verifier failed on a generator-valid schema: " + log[:300])
        return (i, open(p).read(), None)
    with ThreadPoolExecutor(8) as ex:
        texts = list(ex.map(compile_one, cases))
    wf_lines, wf_meta = [], []
    ncalls = 0
    for (i, S, lay, ids), (_, text, err) in zip(cases, texts):
        if err: ties.append("schema %d: %s\n%s" % (i, err, schemagen.render(S))); continue
        try:
            parsed = gv.parse(text)
            tabs, uns = gv.to_descriptor(parsed[0], parsed[1], parsed[2], parsed[3])
        except gv.TranslateError as e:
            ties.append("schema %d: %s\n%s" % (i, e, schemagen.render(S))); continue
        if len(tabs) > 16 or len(uns) > 16: continue
        ncalls += sum(len(fs) for fs in tabs) + sum(len(ms) for ms in uns)
        dd = gv.compare(parsed, gv.expected(S, lay, ids))
        k = len(descs)
        descs.append((tabs, uns))
        if dd:
            hot.add(k); diffs.append("schema %d: %s\n%s" % (i, "; ".join(dd[:4]), schemagen.render(S)))
        wf_lines.append([fbenc.schema_line(tabs, uns), "wf %d" % gv.max_align(tabs, uns)]); wf_meta.append((i, k, S))
    if wf_lines:
        rc, out, _ = run_blocks(FMODEL, wf_lines, 8)
        for j, (i, k, S) in enumerate(wf_meta):
            o = out[2 * j + 1]
            if o != "wf ok":
                hot.add(k); wf_bad.append("schema %d: %s (hypothesis wfB of C01_generated_verifier is false for the generated call lists)\n%s" % (i, o, schemagen.render(S)))
    return descs, hot, ties, diffs, wf_bad, {"generated_verifiers_translated": len(descs), "generated_calls_checked": ncalls}


def run(ctx):
    ths = proof_stage(ctx)
    if ths is None:
        finish(ctx, [])
    flatcc, _ = build_flatcc(ctx)
    gen_dir = os.path.join(ctx.work, "gen")
    open(os.path.join(ctx.work, "empty.fbs"), "w").write("table Empty { x:int; }\n")
    rc, log = flatcc_generate(ctx, flatcc, os.path.join(ctx.work, "empty.fbs"), gen_dir, opts=("-c",))
    if rc != 0 or not os.path.exists(os.path.join(gen_dir, "flatbuffers_common_reader.h")):
        raise BuildError("flatcc -c failed: " + log)
    rt = build_runtime_objs(ctx)
    h = build_harness(ctx, "h_verify", [os.path.join(VERIF, "harness/h_verify.c")], rt, incs=[gen_dir])
    gdescs, ghot, gties, gdiffs, gwf, gstats = generated_stage(ctx, flatcc)
    blocks, expect = gen(ctx, gdescs, ghot)
    rc_c, out_c, err_c = run_blocks(h, blocks, 16)
    rc_m, out_m, err_m = run_blocks(FMODEL, blocks, 16)
    lines = [l for b in blocks for l in b]
    exp = [e for b in expect for e in b]
    out_c = [canon(o) for o in out_c]
    idx, a, b = diff_streams(lines, out_c, out_m)
    # property oracle on the implementation alone: an accepted buffer must be walked without a fault,
    # every access inside the buffer and aligned at its absolute address; valid encoder output must be accepted.
    spec_fail = []
    maxal = 1
    for i, (l, o) in enumerate(zip(lines, a)):
        if l.startswith("schema"):
            # largest alignment the schema uses: the placement precondition of the property
            als = [int(x) for x in re.findall(r":s:\d+:(\d+)", l) + re.findall(r":v:\d+:(\d+):", l) + re.findall(r":st:\d+:(\d+)", l)]
            maxal = max([4] + als)
        if not l.startswith("verify"):
            continue
        t = l.split(" ")
        n = 0 if t[5] == "-" else len(t[5]) // 2
        shift = int(t[4])
        if o.startswith("<crash"):
            spec_fail.append((i, "verifier or reader faulted (sanitizer / signal)")); continue
        if o.startswith("ok"):
            if "NULLDEREF" in o or "DEPTH" in o:
                spec_fail.append((i, "accepted buffer leads the reader to a null dereference / unbounded depth")); continue
            for acc in o[3:].split(","):
                ad, ln, al = (int(x) for x in acc.split(":"))
                if ad < 0 or ad + ln > n:
                    spec_fail.append((i, "accepted buffer: reader access %s outside [0,%d)" % (acc, n))); break
                # wherever the buffer lies: alignment is checked on absolute addresses (the buffer address is `shift` mod 4096)
                if al > 1 and ln > 0 and (shift + ad) % al != 0:
                    spec_fail.append((i, "accepted buffer: reader access %s misaligned (buffer at %d mod 4096)" % (acc, shift))); break
        if exp[i] is True and not o.startswith("ok"):
            spec_fail.append((i, "conforming buffer from the independent encoder rejected"))
        if exp[i] is False and o.startswith("ok"):
            spec_fail.append((i, "buffer with a different identifier accepted"))
    model_bad = [i for i, o in enumerate(b) if o.startswith("MODEL-")]
    if spec_fail:
        i, why = min(spec_fail, key=lambda t: len(lines[t[0]]))
        sch = next(l for l in reversed(lines[:i + 1]) if l.startswith("schema"))
        violation(ctx, "spec_%d.json" % ctx.seed, {"kind": "property-fails-on-implementation", "schema": sch, "op": lines[i], "c_output": a[i][:3000],
                                                     "model_output": b[i][:3000], "why": why, "count": len(spec_fail), "stderr": err_c[-2500:],
                                                     "generated_verifier_difference": ((gwf + gdiffs)[0][:2000] if (gwf or gdiffs) else None)})
    elif idx or model_bad:
        i = min(idx or model_bad, key=lambda k: len(lines[k]))
        sch = next(l for l in reversed(lines[:i + 1]) if l.startswith("schema"))
        violation(ctx, "corr_%d.json" % ctx.seed,
                  {"kind": "correspondence-broken", "theorems_no_longer_tied": [t["name"] for t in ths], "schema": sch,
                   "op": lines[i], "c_output": a[i][:3000], "model_output": b[i][:3000], "count": len(idx), "model_internal": len(model_bad),
                   "stderr": (err_c + err_m)[-1500:]}, no_failing_input=True)
    # the generated verifiers: a call list that is not what the schema demands (or for which wfB is false) breaks the hypothesis of
    # C01_generated_verifier; when the runs above exhibited a concrete accepted-but-unsafe buffer for it, that is the replay (spec_*.json)
    if (gdiffs or gwf) and not spec_fail:
        violation(ctx, "generated_verifier_%d.json" % ctx.seed,
                  {"kind": "proof-obligation-broken", "obligation": "hypothesis wfB S M of Flatcc.Verifier.C01_generated_verifier / generated call list = what the schema demands",
                   "why": (gwf + gdiffs)[0][:3000], "count": len(gdiffs) + len(gwf), "more": [d[:300] for d in (gwf + gdiffs)[1:6]]}, no_failing_input=True)
    elif gdiffs or gwf:
        ctx.notes_extra = "the failing input of spec_%d.json was found for a generated verifier whose call list differs from what its schema demands: %s" % (ctx.seed, (gwf + gdiffs)[0][:600])
    if gties:
        violation(ctx, "translator_%d.json" % ctx.seed,
                  {"kind": "translator-does-not-recognise-generated-code", "theorems_no_longer_tied": ["Flatcc.Verifier.C01_generated_verifier"],
                   "why": gties[0][:3000], "count": len(gties)}, no_failing_input=True)
    nver = sum(1 for l in lines if l.startswith("verify"))
    nok = sum(1 for o in a if o.startswith("ok"))
    nested_sch = nested_ok = nested_rej = 0; cur_nested = False
    for l, o in zip(lines, a):
        if l.startswith("schema"):
            cur_nested = ":nt:" in l or ":ns:" in l; nested_sch += cur_nested
        elif cur_nested and l.startswith("verify"):
            if o.startswith("ok"): nested_ok += 1
            else: nested_rej += 1
    rej = {}
    ctx.cov.update({
        "evaluations": nver, "distinct_nontrivial": len(set(structural_hash(l) for l in lines if l.startswith("verify") and len(l) > 60)),
        "rule": "random descriptor schemas (scalars, strings, vectors, string/table vectors, unions of table/struct/string, union vectors, gaps, "
                "required fields) x buffers from an independent encoder with layout knobs (field order, long vtables, unshared vtables, extra padding, "
                "size prefix, identifiers incl. embedded zero) x every recorded offset/length/vtable word set to boundary values (0,1,+-1,+-4, n-pos+-k, "
                "2^31, 2^32-pos+k wrap values), every truncation of small buffers, byte noise, misaligned placement (shift 2/4/8), wrong verify variant; "
                "nesting chains of 1..400 levels through table / table-vector / union-vector hops; struct roots. Each line: C verdict + the reader walk's "
                "access list vs the model's verdict + access list. distinct = verify lines by hash.",
        "schemas": len(blocks), "accepted": nok, "rejected": nver - nok,
        "generated_verifiers_translated": gstats["generated_verifiers_translated"], "generated_calls_checked": gstats["generated_calls_checked"],
        "generated_verifier_differences": len(gdiffs) + len(gwf), "translator_failures": len(gties),
        "schemas_with_nested_roots": nested_sch, "nested_schema_lines_accepted": nested_ok, "nested_schema_lines_rejected": nested_rej,
        "traces_validated_against_impl": nver, "correspondence_disagreements": len(idx), "spec_oracle_failures": len(spec_fail)})
    oks = [i for i, o in enumerate(a) if o.startswith("ok")]
    ctx.samples = [{"op": lines[i][:400], "c": a[i][:400], "model": b[i][:400]} for i in (oks[:2] + [1, len(lines) - 1])]
    ctx.notes = ["nested table and struct roots are part of the model, the theorem and this run (every third schema has nested_flatbuffer fields; nested buffers are also placed at multiples of 4 only, which must be rejected when their content needs more)",
                 "the reader side is the macro text of flatbuffers_common_reader.h emitted by the current compiler, driven with run-time ids; "
                 "per-schema generated wrappers are instances of those macros",
                 "buffer placement: address congruent to `shift` mod 4096; theorems assume the buffer start aligned to the largest alignment used"]
    finish(ctx, ths)
