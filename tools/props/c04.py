"""C04 — the JSON parser is memory-safe on any text and only yields verifiable buffers.
Model: Json.lean (string scanner / unescaper: total on every input, consumes a prefix), Num.lean (integer scanners, C19); theorems Props/C04.lean.
Tie / decision by execution: generated parsers for random schemas run on (a) the printer's own output and (b) mutants of it — every
truncation, byte flips, structural edits, nesting bombs, oversized numbers, broken escapes, garbage — with the input placed so that
it ENDS at an inaccessible page (any read past the given length faults), all flag subsets, under ASan; oracles: no fault, error
location inside the input, success => generated verifier accepts, and the same builder parses a control text correctly afterwards."""
import random
from vlib import *
from props import c05


def mutants(r, text, quick):
    n = len(text)
    out = []
    cuts = range(n) if n <= (160 if quick else 400) else sorted(set(r.randrange(n) for _ in range(160 if quick else 400)))
    for k in cuts: out.append(text[:k])
    for _ in range(30 if quick else 120):
        m = bytearray(text)
        if not m: break
        c = r.random()
        i = r.randrange(len(m))
        if c < 0.3: m[i] = r.choice(b'{}[]",:\\ \n0-.eE+tfn/u\x00\x1f\x7f\xff')
        elif c < 0.5: del m[i:i + r.choice([1, 1, 2, 5])]
        elif c < 0.7: m[i:i] = bytes(r.choice([b'"', b'\\', b'{', b'[', b',', b':', b'\\u', b'\\ud83d', b'\\x', b'123456789012345678901234567890', b'1e999', b'-', b'.', b' ', b'\t', b'//', b'/*']))
        elif c < 0.8: m[i] = r.randrange(256)
        elif c < 0.9:
            j = r.randrange(len(m)); a, b = min(i, j), max(i, j); m[a:b] = m[a:b] * 2
        else:
            m = m[:i] + bytearray(r.randbytes(r.randint(1, 8))) + m[i:]
        out.append(bytes(m))
    # union type codes given as numbers, also codes no member has, mostly under skip_unknown (entries with their own parser flags)
    for m_ in list(re.finditer(rb'"f\d+x_type"\s*:\s*\[([^\]]*)\]', text))[:6]:
        elems = m_.group(1).split(b",")
        if elems == [b""] or not elems: continue
        for code in (b"9", b"200", b"1", b"0", b"255", b"2"):
            e2 = list(elems); e2[r.randrange(len(e2))] = code
            out.append((text[:m_.start(1)] + b",".join(e2) + text[m_.end(1):], r.choice([1, 1, 1, 9, 3, 0])))
    for m_ in list(re.finditer(rb'"f\d+x_type"\s*:\s*("[A-Za-z0-9_]+")', text))[:6]:
        for code in (b"9", b"200", b"1", b"0"):
            out.append((text[:m_.start(1)] + code + text[m_.end(1):], r.choice([1, 1, 1, 9, 3, 0])))
    for depth in (10, 100, 600, 5000):
        out.append(b'{"zz":' * depth + b'1' + b'}' * depth)
        out.append(b'{"zz":' + b'[' * depth + b']' * depth + b'}')
        out.append(b'[' * depth)
        out.append(b'{"zz":' + b'{"a":' * depth)
    out += [b"", b" ", b"{", b"}", b"{}", b"[]", b"null", b'"', b'"\\', b'{"', b'{"a', b'{"a"', b'{"a":', b'{"a":"', b'{"a":"\\', b'{"a":"\\u12', b'{"a":1',
            b'{"a":-', b'{"a":1.', b'{"a":1e', b'{"a":1e+', b'{"a":t', b'{"a":tru', b'{"a":nul', b"\xef\xbb\xbf{}", b"{}" + b" " * 50, b"{} x", b"\x00", b"{\x00}"]
    return out


def make_mutate(quick):
    def mutate(r, prog, rt_lines, metas):
        texts = []
        for l in rt_lines:
            t = l.split(" ")
            if len(t) > 7 and t[7].startswith("pok") and t[6] != "-":
                try:
                    texts.append((metas[int(t[1])]["ti"], bytes.fromhex(t[6]), int(t[2])))
                except ValueError:
                    pass
        r.shuffle(texts)
        # hundreds of prefixes of a 100 KB text are hundreds of MB of protocol lines per schema: long texts get a share of one
        short = [t for t in texts if len(t[1]) <= 6000]
        texts = (short[:(4 if quick else 8) - 1] + [t for t in texts if len(t[1]) > 6000][:1]) if short else texts[:1]
        lines, kinds = [], []
        for (ti, text, pf) in texts:
            control = "parse %d 0 %s" % (ti, text.hex())
            lines.append(control); kinds.append(("control", len(text)))
            for k, m in enumerate(mutants(r, text, quick)):
                jf = r.choice([0, 0, 1, 2, 3, 4, 8, 16, 31, r.getrandbits(5)])
                if isinstance(m, tuple): m, jf = m
                lines.append("parse %d %d %s" % (ti, jf, m.hex() or "-")); kinds.append(("mutant", len(m)))
                if k % 50 == 49:
                    lines.append(control); kinds.append(("control", len(text)))
            lines.append(control); kinds.append(("control", len(text)))
        rc, out, err = run_lines([prog, "parse"], lines, timeout=600, sticky=None)
        # judged here, per schema: only the failures and the counts are kept (all lines of all schemas at once took tens of GB in the thorough tier)
        return judge_mut(lines, kinds, out, err[-3000:])
    return mutate


def judge_mut(lines, kinds, out, err):
    bad, nmut, nok, nerr, errs = [], 0, 0, 0, {}
    control_dump = None
    for li, (l, (kind, n), o) in enumerate(zip(lines, kinds, out)):
        det = dict(op=l[:6000], output=o[:1500], text=bytes.fromhex(l.split(" ")[3]).decode("latin1")[:1500] if l.split(" ")[3] != "-" else "",
                   history_same_builder=[(x[:400], y[:80]) for x, y in zip(lines[max(0, li - 6):li], out[max(0, li - 6):li])])
        if o.startswith("<crash") or o.startswith("<skipped") or o.startswith("<no-output"):
            det["stderr"] = err
            bad.append(("parser faulted (read outside the given bytes, sanitizer report, or hang) on this input", det)); continue
        if kind == "control":
            if not o.startswith("pok verify=0"):
                bad.append(("after earlier failed parses the same builder no longer parses a valid text", det))
            elif control_dump is not None and control_dump[0] == l and control_dump[1] != o:
                bad.append(("the same text parses to a different buffer after failed parses", det))
            control_dump = (l, o)
            continue
        nmut += 1
        if o.startswith("pok"):
            nok += 1
            if not o.startswith("pok verify=0"):
                bad.append(("parser reports success but the generated verifier rejects the buffer", det))
        elif o.startswith("perr="):
            nerr += 1
            mm = re.match(r"perr=(-?\d+) loc=(-?\d+)", o)
            e, loc = int(mm.group(1)), int(mm.group(2))
            errs[e] = errs.get(e, 0) + 1
            if e == 0: bad.append(("parser returns failure without an error code", det))
            if not (0 <= loc <= n): bad.append(("reported error location %d lies outside the input of %d bytes" % (loc, n), det))
        else:
            bad.append(("unexpected harness output", det))
    return dict(bad=bad[:50], nbad=len(bad), nmut=nmut, nok=nok, nerr=nerr, errs=errs)


def jscan_stage(ctx, ths):
    """the runtime's generic scanners (space, symbols, strings, numbers, constants, object/array delimiters, the generic skipper):
    the real functions on exact-length heap copies under ASan/UBSan vs JsonScan.lean, call by call"""
    h = build_harness(ctx, "h_jscan", [os.path.join(VERIF, "harness/h_jscan.c")],
                      [o for o in build_runtime_objs(ctx, tag="rtjs") if not o.endswith("json_parser.o")], flags=SAN + ["-w"])
    rc, o, e = sh([sys.executable, os.path.join(VERIF, "tools", "gen_jscan.py"), str(ctx.seed)])
    lines = [l for l in o.split("\n") if l]
    if ctx.quick():
        lines = lines[::4]
    rc, a, err = run_parallel(h, lines, 16, timeout=900)
    rc, b, _ = run_parallel(FMODEL, lines, 16, timeout=900)
    idx, a, b = diff_streams(lines, a, b)
    oob = [i for i in range(len(lines)) if b[i].startswith("MODEL-")]
    crash = [i for i in range(len(lines)) if a[i].startswith("<crash")]
    if crash:
        i = crash[0]
        violation(ctx, "jscan_spec_%d.json" % ctx.seed, {"kind": "property-fails-on-implementation", "why": "scanner faulted (read outside the given bytes / sanitizer report)",
                  "op": lines[i], "model_output": b[i], "stderr": err[-2500:], "count": len(crash)})
    elif idx or oob:
        i = (oob or idx)[0]
        violation(ctx, "jscan_corr_%d.json" % ctx.seed, {"kind": "correspondence-broken", "engine": "jscan", "op": lines[i], "c_output": a[i], "model_output": b[i],
                  "count": len(idx), "theorems_no_longer_tied": [t["name"] for t in ths if "scanner" in t["name"] or "generic" in t["name"]], "stderr": err[-1500:]}, no_failing_input=True)
    fns = {}
    for l in lines:
        fns[l.split(" ")[1]] = fns.get(l.split(" ")[1], 0) + 1
    return {"jscan_lines": len(lines), "jscan_functions": fns, "jscan_errors": sum(1 for x in a if x.startswith("err:")), "jscan_disagreements": len(idx)}


def chararr_stage(ctx, ths):
    """flatcc_json_parser_char_array / print_char_array called directly: the N-byte destination ends at a PROT_NONE page and is
    preceded by a canary region; vs CharArray.lean. Independent oracle on the implementation: a successful call stored the first N
    bytes of the unescaped string (Python's own unescaping for the plain / simple-escape subset), zero padded, and the printer's text
    of an array parses back to the array."""
    h = build_harness(ctx, "h_chararr", [os.path.join(VERIF, "harness/h_chararr.c")],
                      [o for o in build_runtime_objs(ctx, tag="rtca", flags=["-O1", "-g", "-fsanitize=address", "-fno-omit-frame-pointer"]) if not o.endswith("json_printer.o")],
                      flags=["-O1", "-g", "-fsanitize=address", "-fno-omit-frame-pointer", "-w"])
    rc, o, e = sh([sys.executable, os.path.join(VERIF, "tools", "gen_chararr.py"), str(ctx.seed)])
    lines = [l for l in o.split("\n") if l]
    if ctx.quick():
        lines = lines[::5]
    rc, a, err = run_parallel(h, lines, 16, timeout=900)
    rc, b, _ = run_parallel(FMODEL, lines, 16, timeout=900)
    idx, a, b = diff_streams(lines, a, b)
    spec = []
    for i, (l, x) in enumerate(zip(lines, a)):
        t = l.split(" ")
        if x in ("err segv", "err write-outside") or x.startswith("<crash"):
            spec.append((i, "char array parser wrote or read outside its buffers")); continue
        if t[0] == "chararr" and x.startswith("ok "):
            N, fl = int(t[1]), int(t[2]); text = bytes.fromhex(t[3]) if t[3] != "-" else b""
            # independent reading for texts without escapes: "<plain>" + anything
            m = re.match(rb'"([^"\\\x00-\x1f]*)"', text)
            if m:
                sbytes = m.group(1); got = bytes.fromhex(x.split(" ")[1]) if x.split(" ")[1] != "-" else b""
                want = sbytes[:N] + b"\0" * max(0, N - len(sbytes))
                if got != want: spec.append((i, "char array holds %r, the text says %r" % (got, want)))
                elif len(sbytes) > N and not (fl & 1): spec.append((i, "overlong string accepted without skip_array_overflow"))
                elif len(sbytes) < N and (fl & 2): spec.append((i, "short string accepted with reject_array_underflow"))
    # printer -> parser on the implementation alone
    r = ctx.rng
    arrs = [bytes(r.choice(b'ab"\\\n\x00\x1f\x7f\xc3\xff') for _ in range(n)) for n in list(range(0, 10)) * 6]
    rc, pt, _ = run_parallel(h, ["chararrp %s" % (x.hex() or "-") for x in arrs], 4)
    rl = ["chararr %d %d %s" % (len(x), fl, t) for x, t in zip(arrs, pt) for fl in (0, 1)]
    rc, ro, _ = run_parallel(h, rl, 4)
    k = 0
    for x, t in zip(arrs, pt):
        for fl in (0, 1):
            if not ro[k].startswith("ok " + (x.hex() or "-") + " "):
                spec.append((None, "print->parse of char array %s gives %s (text %s)" % (x.hex(), ro[k], t)))
            k += 1
    if spec:
        i, why = spec[0]
        violation(ctx, "chararr_spec_%d.json" % ctx.seed, {"kind": "property-fails-on-implementation", "why": why, "op": lines[i] if i is not None else None,
                  "c_output": a[i] if i is not None else None, "model_output": b[i] if i is not None else None, "count": len(spec), "stderr": err[-1500:]})
    elif idx:
        i = idx[0]
        violation(ctx, "chararr_corr_%d.json" % ctx.seed, {"kind": "correspondence-broken", "engine": "chararr", "op": lines[i], "c_output": a[i], "model_output": b[i],
                  "count": len(idx), "theorems_no_longer_tied": [t["name"] for t in ths if "char_array" in t["name"]]}, no_failing_input=True)
    res = {}
    for l, x in zip(lines, a):
        k = "printed" if l.startswith("chararrp") else " ".join(x.split(" ")[:2]) if x.startswith("err") else x.split(" ")[0]
        res[k] = res.get(k, 0) + 1
    return {"chararr_lines": len(lines), "chararr_results": res, "chararr_disagreements": len(idx), "chararr_print_parse_roundtrips": len(rl)}


NESTED_RAW_C = r'''
#include <stdio.h>
#include <string.h>
#include "nr_builder.h"
#include "nr_verifier.h"
#include "nr_json_parser.h"
int main(void) {
    flatcc_builder_t b, *B = &b; flatcc_json_parser_t jc; int k;
    const char *texts[] = {"{\"n\":[1,2]}", "{\"m\":[1,2,3]}", "{\"n\":[8,0,0,0,0,0,0,0,7,0,0,0]}", "{\"n\":{\"a\":7}}", "{\"m\":{\"n\":{\"a\":7}}}"};
    flatcc_builder_init(B);
    for (k = 0; k < 5; ++k) {
        void *buf; size_t size; int rc;
        flatcc_builder_reset(B); memset(&jc, 0, sizeof jc);
        rc = NR_T_parse_json_as_root(B, &jc, texts[k], strlen(texts[k]), 0, 0);
        if (rc) { printf("%d perr=%d\n", k, jc.error); continue; }
        buf = flatcc_builder_finalize_aligned_buffer(B, &size);
        printf("%d pok verify=%d\n", k, buf ? NR_T_verify_as_root(buf, size) : -1);
        if (buf) flatcc_builder_aligned_free(buf);
    }
    flatcc_builder_clear(B);
    return 0;
}
'''


def nested_raw_stage(ctx, flatcc, rt):
    """a nested_flatbuffer field given as a plain array of bytes (accepted syntax for a [ubyte] field): the parser stores the bytes unchecked, so a
    successful parse can yield a buffer the generated verifier rejects. Returns the list of (text index, output) with success + verifier rejection."""
    d = os.path.join(ctx.work, "nraw"); os.makedirs(d, exist_ok=True)
    open(os.path.join(d, "nr.fbs"), "w").write('namespace NR;\nstruct S { a:int; }\ntable T { n:[ubyte] (nested_flatbuffer: "S"); m:[ubyte] (nested_flatbuffer: "T"); }\nroot_type T;\n')
    open(os.path.join(d, "prog.c"), "w").write(NESTED_RAW_C)
    rc, out, err = sh([flatcc, "-a", "--json", "-o", d, os.path.join(d, "nr.fbs")])
    if rc != 0: raise BuildError("flatcc rejects the nested-raw schema: " + (out + err)[-300:])
    exe = build_harness(ctx, "nraw_prog", [os.path.join(d, "prog.c")], rt, incs=[d], flags=["-O1", "-g", "-w", "-fsanitize=address", "-fno-omit-frame-pointer"])
    rc, out, err = sh([exe], timeout=60, env=ASAN_ENV)
    lines = [l for l in out.split("\n") if l]
    crashed = rc != 0 or len(lines) != 5
    return [l for l in lines if "pok" in l and "verify=0" not in l], crashed, (out + err)[-600:]


def is_nested_raw(fbs, text):
    """the failing text gives a nested_flatbuffer field of the schema as a JSON array"""
    for name in re.findall(r"(f\d+x):\[ubyte\] \(id: \d+, nested_flatbuffer", fbs):
        if re.search(r'"?%s"?\s*:\s*\[' % name, text): return True
    return False


def run(ctx):
    ths, results = c05.run(ctx, mutate=make_mutate(ctx.quick()), judge_extra=True)
    jcov = jscan_stage(ctx, ths)
    jcov.update(chararr_stage(ctx, ths))
    bad = []
    # fixed-length arrays of structs / scalars / enums inside structs: under-filled, over-filled, members in any order (tools/sarr.py)
    import sarr, glob
    sa_stats, sa_bad = sarr.stage(ctx, os.path.join(ctx.work, "cc", "flatcc"), sorted(glob.glob(os.path.join(ctx.work, "rtj", "*.o"))), ["-DNDEBUG"])
    bad += sa_bad
    jcov["struct_array_texts"] = sa_stats
    nmut = nok = nerr = nbad_more = 0
    errs = {}
    nested_raw_hits = []
    for res in results:
        if "error" in res:
            bad.append(("generated code unusable: " + res["error"][:300], dict(schema_fbs=res["fbs"]))); continue
        # the printer's own output must parse (also judged by C05) and nothing may crash there
        for ci, e in res["crashed"].items():
            if e and ci < res["ncases"]: bad.append(("generated printer/parser program crashed on the printer's own output", dict(schema_fbs=res["fbs"], case=ci, stderr=e)))
        m = res.get("mut")
        if not m: continue
        nmut += m["nmut"]; nok += m["nok"]; nerr += m["nerr"]; nbad_more += m["nbad"] - len(m["bad"])
        for e, k in m["errs"].items(): errs[e] = errs.get(e, 0) + k
        for why, det in m["bad"]:
            det["schema_fbs"] = res["fbs"]
            if why.startswith("parser reports success but the generated verifier rejects") and is_nested_raw(res["fbs"], det.get("text", "")):
                nested_raw_hits.append((why, det))
            else: bad.append((why, det))
    # known finding: nested_flatbuffer fields given as raw byte arrays are stored unverified
    nr_lines, nr_crashed, nr_out = nested_raw_stage(ctx, os.path.join(ctx.work, "cc", "flatcc"), sorted(glob.glob(os.path.join(ctx.work, "rtj", "*.o"))))
    if nr_crashed: bad.append(("nested-raw scenario crashed: " + nr_out, dict(op="nested_raw_stage")))
    if nr_lines or nested_raw_hits:
        if any(f["property"] == "C04" and f["id"] == "nested-flatbuffer-raw-bytes-not-verified" and f["status"] == "known" for f in load_known()):
            known_finding(ctx, "nested-flatbuffer-raw-bytes-not-verified", "a nested_flatbuffer field given as a plain array of bytes is stored unchecked: the parser reports success and the "
                          "generated verifier rejects the buffer (fixed cases: %s; mutants this run: %d)" % (",".join(nr_lines)[:80], len(nested_raw_hits)))
        else:
            bad += nested_raw_hits + [("parser reports success but the generated verifier rejects the buffer (nested_flatbuffer field given as raw bytes): " + l, dict(op="nested_raw_stage " + l)) for l in nr_lines]
    if bad:
        why, det = min(bad, key=lambda x: len(x[1].get("op", "")) or 10**9)
        det.update({"kind": "property-fails-on-implementation", "why": why, "count": len(bad) + nbad_more})
        violation(ctx, "spec_%d.json" % ctx.seed, det)
    ctx.cov.update({
        "evaluations": nmut, "distinct_nontrivial": nmut,
        "rule": "per random schema: the printer's output for several value trees, then per text every truncation (all prefixes up to a cap, sampled beyond), "
                "byte replacements by structural / control / high bytes, deletions, insertions of quotes, escapes, surrogate halves, oversized and malformed numbers, "
                "comments, duplicated spans, random bytes; nesting bombs of depth 10..5000 through objects and arrays; hand-made fragments ending inside every "
                "token kind; random subsets of the five parser flags. Input copied to end exactly at a PROT_NONE page; ASan on the runtime; control text re-parsed "
                "on the same builder every 50 mutants. Scanner units: 17 runtime scanner functions called directly on exact-length heap copies (grammar-derived JSON "
                "nested to MAX_NEST+2, every truncation, whitespace runs of 0..33 before the end, numbers ending after - . e e+, strings ending inside escapes, random bytes; "
                "flags incl. skip_unknown and unquoted state) vs JsonScan.lean: result position / error class / error location / more / line / pos must agree. "
                "Char arrays: flatcc_json_parser_char_array on N = 0..9,16,17 with every escape form starting with 0..3 bytes of room left, all four flag sets, "
                "destination ending at a guard page with a canary in front, vs CharArray.lean; print_char_array -> char_array round trip on the implementation. "
                "Struct arrays (tools/sarr.py): random struct shapes with fixed arrays of structs (nested), scalars, enums; arrays given exactly / under-filled / "
                "[] / over-filled, members shuffled or left out; accepted texts must verify and carry exactly the predicted struct bytes.",
        **jcov, "schemas": len(results), "mutants": nmut, "accepted": nok, "rejected": nerr, "error_codes": errs,
        "traces_validated_against_impl": nmut, "spec_oracle_failures": len(bad)})
    ctx.samples = []
    ctx.notes = ["memory safety of the generated per-schema parsers is decided by execution (guard page + sanitizer); for the runtime scanners it is proved on the model "
                 "(every read guarded as in C: C04_scanners_read_in_bounds) and the model is tied call by call",
                 "allocation / emitter faults during a parse: see C13"]
    finish(ctx, ths)
