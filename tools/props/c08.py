"""C08 — schema numeric literals accepted iff representable. Model: SchemaNum.lean; theorems Props/C08.lean."""
from vlib import *

TYPES = {"ubyte": (0, 2**8 - 1), "ushort": (0, 2**16 - 1), "uint": (0, 2**32 - 1), "ulong": (0, 2**64 - 1),
         "byte": (-2**7, 2**7 - 1), "short": (-2**15, 2**15 - 1), "int": (-2**31, 2**31 - 1), "long": (-2**63, 2**63 - 1)}


def grid():
    vals = set()
    for lo, hi in TYPES.values():
        for d in (-2, -1, 0, 1, 2):
            vals.add(lo + d); vals.add(hi + d)
    for d in range(-2, 3):
        vals.add(d); vals.add(2**63 + d); vals.add(2**64 + d); vals.add(-2**63 + d); vals.add(-2**64 + d); vals.add(10 * 2**64 + d)
    for v in (20500000000000000000, 27670116110564327424, 36893488147419103232, 99999999999999999999, 184467440737095516160):
        vals.add(v); vals.add(-v)
    return sorted(vals)


def spellings(r, v, quick):
    out = [str(v)]
    if abs(v) < 2**64:
        out.append(("-" if v < 0 else "") + hex(abs(v)))
        if not quick or r.random() < 0.3:
            out.append(("-" if v < 0 else "") + "0X" + ("%X" % abs(v)))
            out.append(("-" if v < 0 else "") + "0x" + "0" * r.randint(1, 3) + ("%x" % abs(v)))
    if not quick or r.random() < 0.3:
        out.append(("-" if v < 0 else "") + "0" * r.randint(1, 4) + str(abs(v)) if False else str(v))
    return list(dict.fromkeys(out))


def tok_value(tok):
    neg = tok.startswith("-")
    b = tok[1:] if neg else tok
    v = int(b, 16) if b[:2].lower() == "0x" else int(b)
    return -v if neg else v


def spec_lit(ty, tok, ob, out):
    """independent oracle for integer literal tokens into integer types"""
    if tok in ("true", "false"):
        if ty == "bool":
            return None if out == "ok %d" % (tok == "true") else "bool literal mis-handled"
        if ob & 1:
            v = 1 if tok == "true" else 0
            return None if out == "ok %d" % v else "boolean conversion mis-handled"
        return None if out == "reject" else "bool literal accepted for an integer field without boolean conversion"
    if ty == "bool":
        v = tok_value(tok)
        if (ob & 1) and v in (0, 1) and not tok.startswith("-"):
            return None if out == "ok %d" % v else "0/1 not accepted as bool with boolean conversion"
        return None if out == "reject" else "integer accepted for bool"
    v = tok_value(tok)
    b = tok.lstrip("-")
    if b[:2].lower() == "0x" and len(b) - 2 > 16:
        return None   # more than 16 hex digits: token-level rejection, not constrained here
    lo, hi = TYPES[ty]
    if lo <= v <= hi:
        if tok.startswith("-") and v == 0 and False:
            return None
        return None if out == "ok %d" % (v % 2**64) else "representable literal %d not accepted with its value (got %s)" % (v, out)
    return None if out == "reject" else "literal %d outside %s accepted (as %s)" % (v, ty, out)


def spec_real(ty, tok, out):
    """float / double fields given an INTEGER literal: accepted iff the integer is exactly representable in the field's type (no silent rounding),
    and the recorded default is then exactly that value"""
    import struct
    v = tok_value(tok)
    if abs(v) >= 2**64: return None          # the literal itself overflows: token-level, not constrained here
    if v < -2**63: return None               # negative magnitudes above 2^63: the recorded finding schema-negative-literal-sign-wrap (judged on the integer types)
    try:
        d = float(v)
        exact = int(d) == v
        if exact and ty == "float":
            f = struct.unpack("<f", struct.pack("<f", d))[0]
            exact = int(f) == v
    except (OverflowError, struct.error):
        exact = False
    if exact:
        want = "ok r%016x" % struct.unpack("<Q", struct.pack("<d", float(v)))[0]
        if v == 0 and tok.startswith("-"): return None      # -0: sign of zero not constrained
        return None if out == want else "integer %d is exactly representable as %s but is not accepted with its value (got %s, want %s)" % (v, ty, out, want)
    return None if out == "reject" else "integer %d is not representable as %s but is accepted (as %s): silent rounding" % (v, ty, out)


def gen(ctx):
    r = ctx.rng
    L = []   # (line, kind, meta)
    vals = grid()
    # float / double targets with integer literals around the limits of exact representation
    rv = set()
    for k in (24, 25, 31, 32, 53, 54, 62, 63, 64):
        for d in (-2, -1, 0, 1, 2, 3): rv.update([2**k + d, -(2**k + d)])
    rv.update([0, 1, -1, 16777215, 16777216, 16777217, 9007199254740991, 9007199254740993, 2**63 - 1, -2**63, 2**64 - 1, 2**64 - 2**40, 2**64 - 2**11, 2**63 + 2**39, 2**63 + 2**40, 3 * 2**40, 10**15, 10**17, 10**19])
    for ty in ("float", "double"):
        for v in sorted(rv):
            if abs(v) < 2**64:
                L.append(("lit 0 %s %s" % (ty, str(v).encode().hex()), "real", (ty, str(v))))
    if not ctx.quick():
        for _ in range(4000):
            vals.append(r.choice([1, -1]) * r.getrandbits(r.choice([7, 8, 15, 16, 31, 32, 62, 63, 64, 65, 70])))
    for ty in list(TYPES) + ["bool"]:
        for v in vals:
            for tok in spellings(r, v, ctx.quick()):
                for ob in ((0, 1) if ty == "bool" or v in (0, 1) else (0,)):
                    L.append(("lit %d %s %s" % (ob, ty, tok.encode().hex()), "lit", (ty, tok, ob)))
        for tok in ("true", "false"):
            for ob in (0, 1):
                L.append(("lit %d %s %s" % (ob, ty, tok.encode().hex()), "lit", (ty, tok, ob)))
    # enums: auto-increment from boundary starts, explicit values, mixed
    for ty, (lo, hi) in TYPES.items():
        starts = [lo, lo + 1, -2, -1, 0, 1, hi - 2, hi - 1, hi]
        for s0 in starts:
            if not (lo <= s0 <= hi): continue
            for n in (1, 2, 3):
                L.append(("enum 0 %s %s" % (ty, ",".join([str(s0)] + ["_"] * n)), "enum", (ty, [s0] + [None] * n)))
        L.append(("enum 0 %s _,_,_" % ty, "enum", (ty, [None] * 3)))
        for _ in range(10 if ctx.quick() else 200):
            items = []
            for _ in range(r.randint(1, 6)):
                items.append(None if r.random() < 0.5 else r.choice([lo, hi, 0, 1, hi - 1, r.randint(lo, hi), hi + 1, lo - 1]))
            L.append(("enum 0 %s %s" % (ty, ",".join("_" if x is None else str(x) for x in items)), "enum", (ty, items)))
    # bit_flags enums: positions on both sides of the bit width, explicit (decimal and hex) and reached by auto-numbering
    for ty, (lo, hi) in TYPES.items():
        w = hi.bit_length() + (1 if lo < 0 else 0)
        cases = [[w - 2], [w - 1], [w], [w + 1], [0, w], [0, w - 1], [w - 2, None], [w - 1, None], [w - 3, None, None], [w - 2, None, None],
                 [None, None, None], [None, w - 1, None], [5, 2, None], [hex(w)], [hex(w - 1)], [0, hex(w)], [2**32], [2**64 - 1], [-1], [0, 0]]
        for _ in range(6 if ctx.quick() else 100):
            cases.append([None if r.random() < 0.5 else r.choice([0, 1, w - 2, w - 1, w, r.randrange(w), r.randrange(70)]) for _ in range(r.randint(1, 5))])
        for items in cases:
            L.append(("enum 2 %s %s" % (ty, ",".join("_" if x is None else str(x) for x in items)), "flags", (ty, items)))
    # force_align: every power of two and its neighbours, the limit, and values whose low 8/16/32 bits alone would be a permitted alignment
    fav = [0, 1, 2, 3, 4, 5, 6, 7, 8, 9, 15, 16, 17, 32, 64, 100, 128, 255, 256, 257, 512, 1024, 32768, 65535, 65536, 2**32, 2**63, 2**64 - 1, 2**64, 2**64 + 16]
    for base in (2**8, 2**16, 2**17, 2**32, 2**63):
        fav += [base + a for a in (1, 2, 4, 8, 16, 64, 256)]
    if not ctx.quick():
        fav += [r.getrandbits(r.choice([4, 9, 17, 33, 64])) for _ in range(300)]
    for nat in (1, 2, 4, 8):
        for v in fav:
            toks = [str(v)] + ([hex(v)] if v < 2**64 and (v % 7 == 0 or v in (16, 256, 65552)) else [])
            for tok in toks:
                L.append(("falign %d %s" % (nat, tok), "falign", (nat, tok)))
        for tok in ("-16", "-1", "-0"):
            L.append(("falign %d %s" % (nat, tok), "falign", (nat, tok)))
    return L


def spec_falign(nat, tok, out):
    """independent oracle: accepted iff the literal is a non-negative integer whose value is a power of two in 1..256 and >= the natural alignment;
    the struct then has exactly that alignment"""
    neg = tok.startswith("-")
    v = int(tok, 0)
    ok = (not neg) and v in (1, 2, 4, 8, 16, 32, 64, 128, 256) and v >= nat
    if ok:
        return None if out.split(" ")[:2] == ["ok", str(v)] else "force_align %s over natural alignment %d: expected alignment %d, got %s" % (tok, nat, v, out)
    return None if out == "reject" else "force_align %s (not a permitted alignment for natural alignment %d) accepted: %s" % (tok, nat, out)


def spec_flags(ty, items, out):
    """independent oracle: member value = 1 << position, position explicit (unsigned) or previous position + 1; accepted iff
    every position is below the bit width and every flag value is representable in the underlying type"""
    lo, hi = TYPES[ty]
    w = hi.bit_length() + (1 if lo < 0 else 0)
    vals, prev = [], None
    for it in items:
        if it is None: pos = 0 if prev is None else prev + 1
        else:
            pos = int(it, 16) if isinstance(it, str) else it
            if pos < 0:
                return None if out == "reject" else "negative bit_flags position accepted: %s" % out
        if pos >= w or not (lo <= (1 << pos) <= hi):
            return None if out == "reject" else "bit_flags position %d accepted for %s (%d bits): %s" % (pos, ty, w, out)
        vals.append(1 << pos); prev = pos
    exp = "ok " + ",".join(str(v) for v in vals)
    if out == exp: return None
    if out.startswith("ok") and sorted(out[3:].split(","), key=int) == sorted(exp[3:].split(","), key=int): return None
    return "bit_flags values differ: expected %s got %s" % (exp, out)


def spec_enum(ty, items, out):
    lo, hi = TYPES[ty]
    vals, prev = [], None
    for it in items:
        v = it if it is not None else (0 if prev is None else prev + 1)
        if not (lo <= v <= hi):
            return None if out == "reject" else "enum value %d outside %s accepted: %s" % (v, ty, out)
        vals.append(v); prev = v
    exp = "ok " + ",".join(str(v % 2**64) for v in vals)
    if out == exp:
        return None
    if out.startswith("ok") and sorted(out[3:].split(","), key=int) == sorted(exp[3:].split(","), key=int):
        return None     # the binary schema sorts enum values; same multiset
    return "enum values differ: expected %s got %s" % (exp, out)


def generated_defaults_stage(ctx):
    """`the generated reader returns exactly the declared default for an absent field and the generated enum constants equal the declared
    values`, on the generated C itself: a table with boundary defaults of every scalar type, float / double defaults that need all 9 / 17
    significant digits, and enum members; the program reads an EMPTY table through the generated accessors and prints bit patterns."""
    import struct
    r = random.Random(ctx.seed * 131 + 8)
    flatcc, _ = build_flatcc(ctx, tag="ccplain")
    rt = build_runtime_objs(ctx)
    ints = {"byte": (-128, 127), "ubyte": (0, 255), "short": (-32768, 32767), "ushort": (0, 65535), "int": (-2**31, 2**31 - 1), "uint": (0, 2**32 - 1),
            "long": (-2**63, 2**63 - 1), "ulong": (0, 2**64 - 1)}
    fields = []
    for t, (lo, hi) in ints.items():
        for v in (lo, hi, r.randint(lo, hi)): fields.append((t, str(v), v))
    fields += [("bool", "true", 1), ("bool", "false", 0)]
    fl = ["3.1415927", "16777215", "0.1", "1e-7", "3.4028235e38", "1.17549435e-38", "8388609.5", "0.30000001"] + ["%.9g" % struct.unpack("<f", struct.pack("<I", r.getrandbits(32) & 0x7f7fffff))[0] for _ in range(12)]
    db = ["0.30000000000000004", "1e23", "1.7976931348623157e308", "2.2250738585072014e-308", "123456789012345680", "0.1", "9007199254740992", "5e-324"] + \
         [repr(struct.unpack("<d", struct.pack("<Q", r.getrandbits(64) & 0x7fefffffffffffff))[0]) for _ in range(12)]
    for s in fl:
        if "nan" in s or "inf" in s: continue
        fields.append(("float", s, struct.unpack("<I", struct.pack("<f", float(s)))[0]))
    for s in db:
        if "nan" in s or "inf" in s: continue
        fields.append(("double", s, struct.unpack("<Q", struct.pack("<d", float(s)))[0]))
    enums = [("EA", "byte", [("A0", -128), ("A1", -1), ("A2", 127)]), ("EB", "ulong", [("B0", 0), ("B1", 2**63), ("B2", 2**64 - 1)]), ("EC", "ushort", [("C0", 65535)])]
    fbs = ["namespace GD;"] + ["enum %s:%s { %s }" % (n, t, ", ".join("%s = %d" % m for m in ms)) for n, t, ms in enums]
    fbs.append("table T {\n" + "\n".join("  f%d:%s = %s;" % (i, t, s) for i, (t, s, _) in enumerate(fields)) +
               "\n" + "\n".join("  e%d:%s = %s;" % (i, n, ms[-1][0]) for i, (n, t, ms) in enumerate(enums)) + "\n}\nroot_type T;")
    d = os.path.join(ctx.work, "gdef"); os.makedirs(d, exist_ok=True)
    open(os.path.join(d, "gd.fbs"), "w").write("\n".join(fbs) + "\n")
    rc, log = flatcc_generate(ctx, flatcc, os.path.join(d, "gd.fbs"), d, opts=("-a",))
    if rc != 0:
        return {}, [("flatcc rejects the defaults schema: " + log[-600:], "\n".join(fbs))]
    prog = ['#include <stdio.h>', '#include <string.h>', '#include "gd_builder.h"', 'int main(void) {', ' flatcc_builder_t b, *B = &b; void *buf; size_t n; GD_T_table_t t;',
            ' flatcc_builder_init(B); GD_T_start_as_root(B); GD_T_end_as_root(B); buf = flatcc_builder_finalize_aligned_buffer(B, &n); t = GD_T_as_root(buf);']
    for i, (ty, s, _) in enumerate(fields):
        if ty == "float": prog.append(' { float v = GD_T_f%d(t); unsigned u; memcpy(&u, &v, 4); printf("f%d=%%u p%%d\\n", u, (int)GD_T_f%d_is_present(t)); }' % (i, i, i))
        elif ty == "double": prog.append(' { double v = GD_T_f%d(t); unsigned long long u; memcpy(&u, &v, 8); printf("f%d=%%llu p%%d\\n", u, (int)GD_T_f%d_is_present(t)); }' % (i, i, i))
        elif ty in ("ulong",): prog.append(' printf("f%d=%%llu p%%d\\n", (unsigned long long)GD_T_f%d(t), (int)GD_T_f%d_is_present(t));' % (i, i, i))
        else: prog.append(' printf("f%d=%%lld p%%d\\n", (long long)GD_T_f%d(t), (int)GD_T_f%d_is_present(t));' % (i, i, i))
    for i, (n, t, ms) in enumerate(enums):
        cast = "unsigned long long" if t.startswith("u") else "long long"; fm = "%llu" if t.startswith("u") else "%lld"
        prog.append(' printf("e%d=%s\\n", (%s)GD_T_e%d(t));' % (i, fm, cast, i))
        for (mn, mv) in ms: prog.append(' printf("c_%s_%s=%s\\n", (%s)GD_%s_%s);' % (n, mn, fm, cast, n, mn))
    prog += [' flatcc_builder_aligned_free(buf); flatcc_builder_clear(B); return 0; }']
    open(os.path.join(d, "prog.c"), "w").write("\n".join(prog) + "\n")
    try:
        exe = build_harness(ctx, "gdef_prog", [os.path.join(d, "prog.c")], rt, incs=[d])
    except BuildError as e:
        return {}, [("generated code for the defaults schema does not compile: " + str(e)[-800:], "\n".join(fbs))]
    rc, out, err = sh([exe], timeout=60, env=ASAN_ENV)
    got = dict(l.split("=", 1) for l in out.split("\n") if "=" in l)
    fails = []
    if rc != 0: fails.append(("defaults program crashed: " + err[-500:], "\n".join(fbs)))
    for i, (ty, s, want) in enumerate(fields):
        g = got.get("f%d" % i, "?")
        if g != "%d p0" % want:
            fails.append(("table T { x:%s = %s; }: the generated reader returns %s for the absent field (value%s, then is_present), declared default is %d" %
                          (ty, s, g, " as IEEE bits" if ty in ("float", "double") else "", want), "\n".join(fbs)))
    for i, (n, t, ms) in enumerate(enums):
        if got.get("e%d" % i) != str(ms[-1][1]): fails.append(("enum field default %s.%s reads as %s, declared %d" % (n, ms[-1][0], got.get("e%d" % i), ms[-1][1]), "\n".join(fbs)))
        for (mn, mv) in ms:
            if got.get("c_%s_%s" % (n, mn)) != str(mv): fails.append(("generated constant %s_%s is %s, declared %d" % (n, mn, got.get("c_%s_%s" % (n, mn)), mv), "\n".join(fbs)))
    return {"generated_defaults_checked": len(fields) + sum(len(e[2]) + 1 for e in enums)}, fails


def enum_name_default_stage(ctx):
    """a scalar field's default may be given as the NAME of an enum member (x:short = Limit.Big): it is a numeric literal like any other — accepted iff
    the member's value is representable in the field's type, and the generated reader's default is then exactly that value. One schema per (type,
    member) pair through the flatcc binary; the default is read from the generated reader's field definition."""
    import shutil, re
    from concurrent.futures import ThreadPoolExecutor
    flatcc, _ = build_flatcc(ctx, tag="ccplain")
    ints = {"byte": (-128, 127), "ubyte": (0, 255), "short": (-32768, 32767), "ushort": (0, 65535), "int": (-2**31, 2**31 - 1), "uint": (0, 2**32 - 1),
            "long": (-2**63, 2**63 - 1), "ulong": (0, 2**64 - 1)}
    mi = [-2**31, -32769, -32768, -129, -128, -5, 0, 7, 127, 128, 255, 256, 32767, 32768, 65535, 65536, 70000, 2**31 - 1]
    ml = [-2**63, -2**31 - 1, 2**31, 2**32 - 1, 2**32, 2**63 - 1]
    mu = [2**63, 2**64 - 1]
    d = os.path.join(ctx.work, "endef"); os.makedirs(d, exist_ok=True)
    jobs = []
    for t in ints:
        for (en, et, vals) in (("Li", "int", mi), ("Ll", "long", ml), ("Lu", "ulong", mu)):
            for k, v in enumerate(vals): jobs.append((t, en, et, k, v))
    def one(j):
        t, en, et, k, v = j
        name = "e_%s_%s_%d" % (t, en, k)
        fbs = "namespace ED;\nenum %s:%s { M = %d }\ntable T { x:%s = %s.M; }\n" % (en, et, v, t, en)
        p = os.path.join(d, name + ".fbs"); open(p, "w").write(fbs)
        od = os.path.join(d, name); os.makedirs(od, exist_ok=True)
        rc, out, err = sh([flatcc, "-o", od, p], timeout=60)
        lo, hi = ints[t]
        fits = lo <= v <= hi
        if rc < 0 or rc in (134, 139): return ("the compiler crashed (rc=%d) on x:%s = %s.M with M = %d" % (rc, t, en, v), fbs)
        if rc == 0 and not fits: return ("x:%s = %s.M with M = %d is accepted although the value is not representable in %s" % (t, en, v, t), fbs)
        if rc != 0 and fits: return ("x:%s = %s.M with M = %d is rejected although the value fits %s: %s" % (t, en, v, t, (out + err)[-200:]), fbs)
        if rc == 0:
            txt = open(os.path.join(od, name + "_reader.h")).read()
            m = re.search(r"define_scalar_field\(\d+, ED_T, x, \w+, \w+, (?:U?INT\d+_C\()?(-?\d+)", txt)
            if not m or int(m.group(1)) != v: return ("x:%s = %s.M with M = %d: the generated reader's default is %s" % (t, en, v, m.group(1) if m else "not found"), fbs)
        return None
    # an ENUM-typed field whose default names a member of ANOTHER enum: the value must fit the field's enum type and be one of its members
    def one_x(j):
        k, v = j
        name = "x_%d" % k
        fbs = "namespace ED;\nenum A:byte { p = 1, q = 100, r = -3 }\nenum B:int { M = %d }\ntable T { f:A = B.M; }\n" % v
        p = os.path.join(d, name + ".fbs"); open(p, "w").write(fbs)
        od = os.path.join(d, name); os.makedirs(od, exist_ok=True)
        rc, out, err = sh([flatcc, "-o", od, p], timeout=60)
        ok = v in (1, 100, -3)
        if rc < 0 or rc in (134, 139): return ("the compiler crashed (rc=%d) on f:A = B.M with M = %d" % (rc, v), fbs)
        if rc == 0 and not ok: return ("f:A = B.M with B.M = %d is accepted although %d is not a value of enum A:byte { 1, 100, -3 }" % (v, v), fbs)
        if rc != 0 and ok: return ("f:A = B.M with B.M = %d is rejected although A has a member with that value: %s" % (v, (out + err)[-200:]), fbs)
        if rc == 0:
            txt = open(os.path.join(od, name + "_reader.h")).read()
            m = re.search(r"define_scalar_field\(\d+, ED_T, f, \w+, \w+, (?:U?INT\d+_C\()?(-?\d+)", txt)
            if not m or int(m.group(1)) != v: return ("f:A = B.M with B.M = %d: the generated reader's default is %s" % (v, m.group(1) if m else "not found"), fbs)
        return None
    xjobs = list(enumerate([1, 100, -3, 0, 2, 127, 128, -128, -129, 255, 256, 100000, -100000, 2**31 - 1]))
    with ThreadPoolExecutor(16) as ex:
        res = [x for x in ex.map(one, jobs) if x] + [x for x in ex.map(one_x, xjobs) if x]
    shutil.rmtree(d, ignore_errors=True)
    return {"enum_name_defaults_checked": len(jobs) + len(xjobs)}, res


def run(ctx):
    ths = proof_stage(ctx)
    if ths is None:
        finish(ctx, [])
    gd_stats, gd_fail = generated_defaults_stage(ctx)
    ctx.cov.update(gd_stats)
    en_stats, en_fail = enum_name_default_stage(ctx)
    ctx.cov.update(en_stats)
    gd_fail = gd_fail + en_fail
    if gd_fail:
        violation(ctx, "gendefaults_%d.json" % ctx.seed, {"kind": "property-fails-on-implementation", "why": gd_fail[0][0][:2000], "count": len(gd_fail),
                                                            "schema_fbs": gd_fail[0][1], "more": [f[0][:200] for f in gd_fail[1:6]]})
    _, cobjs = build_flatcc(ctx, flags=SAN, with_cli=False)
    vobj = [o for o in build_runtime_objs(ctx) if o.endswith("verifier.o")]
    h = build_harness(ctx, "h_schema", [os.path.join(VERIF, "harness/h_schema.c")], cobjs + vobj)
    items = gen(ctx)
    lines = [x[0] for x in items]
    rc_c, out_c, err_c = run_parallel(h, lines, 16, timeout=1800)
    rc_m, out_m, err_m = run_parallel(FMODEL, lines, 16, timeout=1800)
    # enum results: compare as multisets (bfbs order is by value)
    def canon(l, o):
        if l.startswith("enum") and o.startswith("ok "):
            return "ok " + ",".join(sorted(o[3:].split(","), key=int))
        if l.startswith("falign") and o.startswith("ok "):
            return " ".join(o.split(" ")[:2])      # the alignment; the size (C side only) is C07's business
        return o
    out_c2 = [canon(l, o) for l, o in zip(lines, out_c)]
    out_m2 = [canon(l, o) for l, o in zip(lines, out_m)]
    idx, a, b = diff_streams(lines, out_c2, out_m2)
    idx = [i for i in idx if b[i] != "unmodelled"]
    known = [f for f in load_known() if f["property"] == "C08" and f["status"] == "known"]
    spec_fail, known_hit = [], {}
    for i, (l, kind, meta) in enumerate(items):
        why = spec_lit(meta[0], meta[1], meta[2], out_c[i]) if kind == "lit" else spec_real(meta[0], meta[1], out_c[i]) if kind == "real" else spec_flags(meta[0], meta[1], out_c[i]) if kind == "flags" \
            else spec_falign(meta[0], meta[1], out_c[i]) if kind == "falign" else spec_enum(meta[0], meta[1], out_c[i])
        if why:
            # known finding: silent sign change for negative magnitudes above 2^63
            if kind == "lit" and meta[1].startswith("-") and meta[1] not in ("true", "false") and abs(tok_value(meta[1])) > 2**63 and abs(tok_value(meta[1])) < 2**64 \
               and any(f["id"] == "schema-negative-literal-sign-wrap" for f in known):
                known_hit.setdefault("schema-negative-literal-sign-wrap", (l, out_c[i])); continue
            if kind == "enum" and any(x is not None and x < -2**63 and x > -2**64 for x in meta[1]) \
               and any(f["id"] == "schema-negative-literal-sign-wrap" for f in known):
                known_hit.setdefault("schema-negative-literal-sign-wrap", (l, out_c[i])); continue
            spec_fail.append((i, why))
    for fid, (l, o) in known_hit.items():
        known_finding(ctx, fid, "%s -> %s (negative literal of magnitude above 2^63 changes sign; FLATCC_FAIL_ON_INT_SIGN_OVERFLOW is off by default)" % (l, o))
    if spec_fail:
        i, why = spec_fail[0]
        violation(ctx, "spec_%d.json" % ctx.seed, {"kind": "property-fails-on-implementation", "op": lines[i], "token": str(items[i][2]), "c_output": out_c[i],
                                                     "model_output": out_m[i], "why": why, "count": len(spec_fail), "stderr": err_c[-1500:]})
    elif idx:
        i = idx[0]
        violation(ctx, "corr_%d.json" % ctx.seed, {"kind": "correspondence-broken", "theorems_no_longer_tied": [t["name"] for t in ths], "op": lines[i],
                                                     "token": str(items[i][2]), "c_output": a[i], "model_output": b[i], "count": len(idx)}, no_failing_input=True)
    res = {}
    for o in out_c:
        res[o.split(" ")[0]] = res.get(o.split(" ")[0], 0) + 1
    ctx.cov.update({"evaluations": len(lines), "distinct_nontrivial": len(set(lines)),
                    "rule": "one-field schemas `table T { x:<type> = <literal>; }` for the 8 integer types and bool x the boundary grid (0, +-1, each MIN/MAX +-2, "
                            "2^63, 2^64 +-2, 10*2^64, 20-digit wrap values) in decimal / hex / upper-case hex / leading-zero spellings, true/false, with and without "
                            "boolean conversion; enums of every underlying type auto-incrementing from boundary starts and with random explicit values; bit_flags enums "
                            "with positions on both sides of the bit width (explicit decimal / hex, reached by auto-numbering, the sign bit of signed types). Compiled by "
                            "the real compiler in-process (ASan/UBSan); accept/reject and the default / enum values read back from the generated binary schema vs the model "
                            "and an independent big-integer oracle.",
                    "results": res, "traces_validated_against_impl": len(lines), "correspondence_disagreements": len(idx),
                    "spec_oracle_failures": len(spec_fail), "known_findings": list(known_hit)})
    ctx.samples = [{"op": lines[i], "token": str(items[i][2]), "c": out_c[i], "model": out_m[i]} for i in (0, len(lines) // 3, len(lines) - 1)]
    ctx.notes = ["float literals and float/double targets are not modelled (strtod); fixed array lengths and force_align values are exercised under C07",
                 "generated reader defaults / enum constants are compared through the binary schema, which C20 ties to the generated C code"]
    finish(ctx, ths)
