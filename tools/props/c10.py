"""C10 — JSON field / enum names dispatch exactly. Validator: Trie.lean (snd/cmp + theorems Props/C10.lean);
generator model: TrieGen.lean; translator: tools/trie_extract.py; behavioural run of the generated parser."""
import trie_extract as te
from vlib import *

KEYWORDS = {"int", "char", "long", "short", "float", "double", "if", "do", "for", "while", "case", "goto", "auto", "enum", "union", "struct", "void",
            "const", "else", "break", "return", "static", "switch", "default", "signed", "sizeof", "extern", "typedef", "unsigned", "volatile", "register",
            "continue", "inline", "restrict", "table", "root_type", "namespace", "attribute", "include", "string", "bool", "byte", "ubyte", "ushort",
            "uint", "ulong", "true", "false", "null", "file_identifier", "file_extension", "rpc_service", "native_include"}


def name_sets(r, quick):
    sets = [
        ["a", "alpha", "alpha2"], ["Red", "Green", "Blue"],
        ["a", "ab", "abc", "abcd", "abcde", "abcdef", "abcdefg", "abcdefgh", "abcdefghi"],
        ["abcdefg", "abcdefgh", "abcdefghi"],
        ["abcdefgh", "abcdefghi", "abcdefghij", "abcdefghijklmnop", "abcdefghijklmnopq", "abcdefghijklmnopqr"],
        ["u", "u_typ", "ua", "u_types"], ["hello", "hello_typ", "hello_types", "hello_type_x"], ["abcdefgh"],
        ["abcdefghX", "abcdefghY", "abcdefgh"], ["abcdefg1", "abcdefg2", "abcdefg"],
        ["x", "y", "z", "xa", "xb", "xaa", "xab", "xabcdefgh", "xabcdefghi", "xabcdefghj"],
        ["aaaaaaaaaaaaaaaa", "aaaaaaaaaaaaaaab", "aaaaaaaaaaaaaaaaa", "aaaaaaaa", "aaaaaaab", "aaaaaaa"],
        ["name_", "pos", "mana", "hp", "color", "inventory", "friendly", "testarrayoftables", "testarrayofstring", "testarrayofstring2", "testarrayofbools",
         "testarrayofsortedstruct", "enemy", "test", "test4", "test5", "testnestedflatbuffer", "testempty", "testbool", "testhashs32_fnv1", "testhashu32_fnv1",
         "testhashs64_fnv1", "testhashu64_fnv1", "testhashs32_fnv1a", "testhashu32_fnv1a", "testhashs64_fnv1a", "testhashu64_fnv1a", "testf", "testf2", "testf3",
         "flex", "vector_of_longs", "vector_of_doubles", "parent_namespace_test", "testbase64"],
    ]
    # prefix chains inside one 8-byte window with siblings that branch off the middle of the chain (they are reached only through
    # the prefix-guard label of the chain's median)
    sets += [["ab", "abc", "abcd", "abce"], ["prefix8_v", "prefix8_va", "prefix8_val", "prefix8_vax"], ["r", "rw", "rwa", "rwx", "rx"],
             ["k", "ka", "kab", "kabc", "kabcd", "kb", "kac", "kabd", "kabce"]]
    n = 16 if quick else 300
    al = "abcxyz_019"
    for it in range(n):
        mode = r.random()
        names = set()
        if it % 4 == 3:      # chain within a window + branches off every chain member
            base = "".join(r.choice("abcdefgh") for _ in range(r.choice([0, 0, 8, 8, 16, 5])))
            room = 8 - len(base) % 8
            chain = [base + "p"]
            for _ in range(r.randint(2, max(2, min(5, room - 1)))):
                chain.append(chain[-1] + r.choice("abc"))
            names.update(chain)
            for c in chain:
                for _ in range(r.randint(0, 2)):
                    names.add(c + r.choice("xyz") + "".join(r.choice(al) for _ in range(r.choice([0, 0, 1, 3, 9]))))
        elif mode < 0.3:       # prefix chain with window-straddling lengths
            base = "".join(r.choice("abcdefgh") for _ in range(r.choice([1, 3, 7, 8])))
            cur = base
            for L in sorted(r.sample([1, 2, 6, 7, 8, 9, 10, 15, 16, 17, 18, 23, 24, 25, 31, 32, 33, 40], r.randint(2, 8))):
                while len(cur) < L: cur += r.choice(al)
                names.add(cur[:L])
        elif mode < 0.6:     # many siblings sharing 8- and 16-byte prefixes, differing in the last byte of a window
            p = "".join(r.choice("mnopq") for _ in range(r.choice([7, 8, 15, 16])))
            for _ in range(r.randint(3, 24)):
                names.add(p + "".join(r.choice(al) for _ in range(r.choice([0, 1, 1, 2, 8, 9]))))
        else:
            for _ in range(r.randint(1, 30)):
                names.add("".join(r.choice(al) for _ in range(r.choice([1, 2, 3, 5, 7, 8, 9, 12, 16, 17, 24, 25, 40]))))
        names = [("f" + x if x[0] in "0123456789_" else x) for x in names]
        names = [x for x in set(names) if x not in KEYWORDS and not x.endswith("_type") and x not in ("ev", "zs", "q", "Zz0", "name", "is_known_value")]
        if names: sets.append(sorted(names))
    return sets


def probes_for(r, names):
    ps = set(names)
    for nm in names:
        for _ in range(3):
            k = r.randrange(len(nm))
            ps.add(nm[:k] + r.choice("abzAZ_09") + nm[k + 1:])        # one byte changed
        ps.add(nm[:-1]); ps.add(nm + "x"); ps.add(nm + "_type"); ps.add(nm[:8]); ps.add(nm[:7]); ps.add(nm[:9]); ps.add(nm + nm)
        if len(nm) >= 8:
            ps.add(nm[:7] + chr(ord(nm[7]) ^ 1) + nm[8:])                  # last byte of the first window
    ps.discard("")
    return sorted(ps)


def pick_unions(r, names):
    """names that become union / union vector fields: those whose own length or whose `<name>_type` length is a multiple of the
    8-byte window first (their two dictionary entries then meet at a window boundary), plus a few random ones.
    Returns {name: 'U' | 'V'}"""
    pri = [n for n in names if len(n) % 8 == 0 or (len(n) + 5) % 8 == 0]
    rest = [n for n in names if n not in pri]
    r.shuffle(pri); r.shuffle(rest)
    chosen = pri[:4] + rest[:2]
    return {n: ("U" if i % 2 == 0 else "V") for i, n in enumerate(chosen)}


def field_ids(names, unions):
    """declaration order ids (a union value field has the id after its hidden type field)"""
    ids, nxt = {}, 0
    for n in names:
        if n in unions: ids[n] = nxt + 1; nxt += 2
        else: ids[n] = nxt; nxt += 1
    return ids, nxt


def gen_program(names, workdir, tag, unions=None):
    """schema with one int (or union / union vector) field per name (+ an enum with the same symbols) and a program that parses
    `{"probe":7}` / `{"probe_type":"A","probe":{"x":7}}` texts"""
    unions = unions or {}
    fbs = "enum E:int { Zz0 = 0, %s }\n" % ", ".join("%s = %d" % (n, i + 1) for i, n in enumerate(names))
    fbs += "table A { x:int; }\nunion Un { A }\n"
    def decl(n):
        return "%s:Un;" % n if unions.get(n) == "U" else "%s:[Un];" % n if unions.get(n) == "V" else "%s:int;" % n
    fbs += "table T { %s ev:E; zs:string; q:string; }\nroot_type T;\n" % " ".join(decl(n) for n in names)
    open(os.path.join(workdir, tag + ".fbs"), "w").write(fbs)
    C = ['#include <stdio.h>', '#include <string.h>', '#include <stdlib.h>', '#include "%s_builder.h"' % tag, '#include "%s_json_parser.h"' % tag, '#include "%s_verifier.h"' % tag,
         'static int hv(int c) { return c <= \'9\' ? c - \'0\' : (c | 0x20) - \'a\' + 10; }',
         'int main(void) { char *line = 0; size_t cap = 0; ssize_t n; flatcc_builder_t B; flatcc_builder_init(&B);',
         ' setvbuf(stdout, 0, _IOLBF, 0);',
         ' while ((n = getline(&line, &cap, stdin)) > 0) { size_t len, i; char *txt; flatcc_json_parser_t ctx; int ret; void *buf; size_t size;',
         '  while (n > 0 && (line[n-1] == \'\\n\')) line[--n] = 0;',
         '  len = (size_t)n / 2; txt = malloc(len ? len : 1); for (i = 0; i < len; ++i) txt[i] = (char)(hv(line[2*i]) * 16 + hv(line[2*i+1]));',
         '  flatcc_builder_reset(&B);',
         '  ret = T_parse_json_as_root(&B, &ctx, txt, len, 0, 0);   /* exact-length heap copy: reads past the end are ASan errors */',
         '  free(txt);',
         '  if (ret) { printf("u\\n"); continue; }',
         '  buf = flatcc_builder_finalize_aligned_buffer(&B, &size);',
         '  if (T_verify_as_root(buf, size)) { printf("unverifiable\\n"); flatcc_builder_aligned_free(buf); continue; }',
         '  { T_table_t t = T_as_root(buf); int hit = -1, nh = 0, uhit = -1, nu = 0;']
    for i, nm in enumerate(names):
        if unions.get(nm) == "U":
            C.append('    if (T_%s_is_present(t) || T_%s_type(t) != 0) { ++nu; if (T_%s_type(t) == Un_A && T_%s(t) && A_x((A_table_t)T_%s(t)) == 7) uhit = %d; }' % (nm, nm, nm, nm, nm, i))
        elif unions.get(nm) == "V":
            C.append('    if (T_%s_is_present(t) || T_%s_type(t) != 0) { ++nu; if (T_%s_type(t) && T_%s(t) && flatbuffers_vec_len(T_%s_type(t)) == 1 && flatbuffers_vec_len(T_%s(t)) == 1 && '
                     'Un_vec_at(T_%s_type(t), 0) == Un_A && A_x((A_table_t)flatbuffers_generic_vec_at(T_%s(t), 0)) == 7) uhit = %d; }' % (nm, nm, nm, nm, nm, nm, nm, nm, i))
        else:
            C.append('    if (T_%s(t) == 7) { hit = %d; ++nh; }' % (nm, i))
    C += ['    if (nu) { if (nu == 1 && uhit >= 0 && nh == 0) printf("U%d\\n", uhit); else printf("ubad%d\\n", nu); }',
          '    else if (T_q(t)) printf("Q%d\\n", (int)flatbuffers_string_len(T_q(t))); else if (T_zs(t)) printf("S%d\\n", (int)flatbuffers_string_len(T_zs(t))); else if (T_ev(t) != 0) printf("e%d\\n", (int)T_ev(t)); else if (nh == 1) printf("%d\\n", hit); else printf("none%d\\n", nh); }',
          '  flatcc_builder_aligned_free(buf); }',
          ' flatcc_builder_clear(&B); return 0; }']
    open(os.path.join(workdir, tag + ".c"), "w").write("\n".join(C) + "\n")


def run(ctx):
    ths = proof_stage(ctx)
    if ths is None:
        finish(ctx, [])
    r = ctx.rng
    flatcc, _ = build_flatcc(ctx)
    rt = build_runtime_objs(ctx)
    sets = name_sets(r, ctx.quick())
    fails, tie_breaks = [], []
    mlines, meta = [], []
    progs = []
    # every second name set gets union and union vector fields (two dictionary entries each: <name> and <name>_type)
    unions_of = {k: (pick_unions(r, sets[k]) if k % 2 == 1 or k in (4, 6) else {}) for k in range(len(sets))}
    def prepare(k):
        names = sets[k]
        d = os.path.join(ctx.work, "s%d" % k); os.makedirs(d, exist_ok=True)
        tag = "s%d" % k
        gen_program(names, d, tag, unions_of[k])
        rc, log = flatcc_generate(ctx, flatcc, os.path.join(d, tag + ".fbs"), d, opts=("-a", "--json-parser"))
        if rc != 0:
            return (k, None, "flatcc rejected the name-set schema: " + log[:300])
        try:
            exe = build_harness(ctx, os.path.join("s%d" % k, "probe"), [os.path.join(d, tag + ".c")], rt, incs=[d])
        except BuildError as e:
            return (k, None, "generated parser does not compile: " + str(e)[-600:])
        return (k, exe, None)
    with ThreadPoolExecutor(16) as ex:
        prepared = list(ex.map(prepare, range(len(sets))))
    ntries = 0
    for (k, exe, err) in prepared:
        names = sets[k]
        if err:
            fails.append("name set %d %s: %s" % (k, names[:5], err)); continue
        d = os.path.join(ctx.work, "s%d" % k); tag = "s%d" % k
        text = open(os.path.join(d, tag + "_json_parser.h")).read()
        un = unions_of[k]
        fdict = te.dict_sort(names + [n + "_type" for n in un] + ["ev", "zs", "q"])
        edict = te.dict_sort(names + ["Zz0"])
        fid, nxt = field_ids(names, un)
        ids = {v: n for n, v in fid.items()}; ids[nxt] = "ev"; ids[nxt + 1] = "zs"; ids[nxt + 2] = "q"
        def h_table(h, kind, ids=ids, fdict=fdict, un=un):
            # union fields: the value entry and the `_type` entry call different runtime functions with the VALUE field's id
            m = re.search(r"flatcc_json_parser_union(_type)?(_vector)?\(ctx, buf, end, \d+, (\d+),", h)
            if m:
                nm = ids.get(int(m.group(3)))
                if nm is None or nm not in un or (un[nm] == "V") != bool(m.group(2)):
                    raise te.TranslateError("union handler does not fit the schema: " + h[:160])
                return fdict.index(nm + "_type" if m.group(1) else nm)
            m = re.search(r"flatcc_builder_table_add(?:_offset)?\(ctx->ctx, (\d+)", h)
            if not m: raise te.TranslateError("table field handler without table_add: " + h[:120])
            if ids[int(m.group(1))] in un: raise te.TranslateError("scalar handler for a union field: " + h[:160])
            return fdict.index(ids[int(m.group(1))])
        def h_enum(h, kind):
            m = re.search(r"\*value = UINT64_C\((\d+)\)", h)
            if not m: raise te.TranslateError("enum handler without value: " + h[:120])
            return edict.index("Zz0" if int(m.group(1)) == 0 else names[int(m.group(1)) - 1])
        probes = probes_for(r, names)
        try:
            tt = te.encode(te.extract_trie(text, "T_parse_json_table", h_table))
            et = te.encode(te.extract_trie(text, "E_parse_json_enum", h_enum))
        except te.TranslateError as e:
            tie_breaks.append("name set %d: translator: %s" % (k, e)); continue
        ntries += 2
        pin = [(p + '"').encode().hex() for p in probes] + [(p + '":7}').encode().hex() for p in probes[:20]] + [(p + '"\xc3\xa9').encode("latin1").hex() for p in names[:20]]
        mlines.append("trie %s %s %s" % (";".join(x.encode().hex() for x in fdict), tt, ";".join(pin)))
        meta.append((k, "table", fdict, probes, exe))
        mlines.append("trie %s %s %s" % (";".join(x.encode().hex() for x in edict), et, ";".join((p + '"').encode().hex() for p in probes)))
        meta.append((k, "enum", edict, probes, exe))
    rc_m, out_m, err_m = run_parallel(FMODEL, mlines, 16, timeout=1800)
    nprobe = 0
    for (k, kind, dct, probes, exe), o in zip(meta, out_m):
        m = re.match(r"snd=(\w+) cmp=(\w+) keys=(\w+) gen=(\w+) probes=(.*)", o)
        if not m:
            tie_breaks.append("name set %d %s: model output %r" % (k, kind, o[:200])); continue
        if m.group(1) != "true" or m.group(2) != "ok" or m.group(3) != "true":
            # the emitted trie is not exact for this dictionary: find the misdispatched name on the real parser below
            fails.append("name set %d (%s parser): generated trie fails validation snd=%s cmp=%s; dictionary %s" % (k, kind, m.group(1), m.group(2), dct))
        elif m.group(4) != "same":
            # valid for quoted names, but not the tree the generator model (TrieGen.lean) builds: what the emitted code does for unquoted names
            # (other terminators than the quote) is only known through that model
            tie_breaks.append("name set %d (%s parser): the emitted decision tree differs from the generator model (gen=%s); dictionary %s" % (k, kind, m.group(4), dct))
        res = m.group(5).split(";")
        # model evaluation of the extracted tree must equal the specification on every probe
        for p, rr in zip(probes, res):
            want = str(dct.index(p)) if p in dct else "u"
            if rr != want:
                fails.append("name set %d (%s): extracted trie sends %r to %s, specification says %s" % (k, kind, p, rr, want))
                break
    known_unquoted = []
    known_brace = []
    # behavioural: the real generated parser on `{"<probe>":7}`, `{"ev":"<probe>"}`, unquoted, at the very end of the buffer, high bytes after the name
    def behave(k):
        names = sets[k]; exe = prepared[k][1]
        if exe is None: return []
        probes = probes_for(r, names)
        texts, want = [], []
        un = unions_of[k]
        for p in probes:
            idx = names.index(p) if p in names else None
            if p in un:
                tv, vv = ('"A"', '{"x":7}') if un[p] == "U" else ('["A"]', '[{"x":7}]')
                texts.append(('{"%s_type":%s,"%s":%s}' % (p, tv, p, vv)).encode()); want.append("U%d" % idx)
                texts.append(('{"%s":%s,"%s_type":%s}' % (p, vv, p, tv)).encode()); want.append("U%d" % idx)
                texts.append(('{ %s_type : %s, %s : %s }' % (p, tv.replace('"', ''), p, vv.replace('"', ''))).encode()); want.append("U%d" % idx)
                texts.append(('{"%s":7}' % p).encode()); want.append("u")
                texts.append(('{"ev":"%s"}' % p).encode()); want.append("e%d" % (idx + 1))
                continue
            if p.endswith("_type") and p[:-5] in un:
                continue      # a declared dictionary entry of its own (exercised through the union texts above)
            texts.append(('{"%s":7}' % p).encode()); want.append(str(idx) if idx is not None else "u")
            texts.append(('{ "%s" : 7 }' % p).encode()); want.append(str(idx) if idx is not None else "u")
            texts.append(('{%s:7}' % p).encode()); want.append(str(idx) if idx is not None else "u")
            texts.append(('{"ev":"%s"}' % p).encode()); want.append("e%d" % (idx + 1) if idx is not None else "u")
            if idx is not None:
                texts.append(('{"ev":"%s","%s":7}' % (p, p)).encode()); want.append("e%d" % (idx + 1))
                # a value with a non-ASCII byte close behind the name, at the very end of the buffer
                texts.append(('{"ev":"%s"' % p).encode()); want.append(None)
        # enum symbols in their type-qualified form, near misses behind a matching qualifier, unknown qualifiers, and lists of symbols
        # that mix qualified and bare forms in every order (values add up)
        plain = [n for n in names if n not in un][:8]
        for j, p in enumerate(plain):
            i1 = names.index(p) + 1
            texts.append(('{"ev":"E.%s"}' % p).encode()); want.append("e%d" % i1)
            texts.append(('{"ev":E.%s}' % p).encode()); want.append("e%d" % i1)
            for near in (p + "x", p[:-1], p + "_type"):
                if near and near not in names and near != "Zz0":
                    texts.append(('{"ev":"E.%s"}' % near).encode()); want.append("u")
                    texts.append(('{"ev":"%s E.%s"}' % (p, near)).encode()); want.append("u")
            texts.append(('{"ev":"Q.%s"}' % p).encode()); want.append("u")
            texts.append(('{"ev":"E.E.%s"}' % p).encode()); want.append("u")
            q = plain[(j + 1) % len(plain)]
            if q != p:
                i2 = names.index(q) + 1
                for form in ("E.%s %s", "%s E.%s", "E.%s E.%s", "%s %s"):
                    texts.append(('{"ev":"%s"}' % (form % (p, q))).encode()); want.append("e%d" % (i1 + i2))
                o = plain[(j + 2) % len(plain)]
                if o not in (p, q):
                    texts.append(('{"ev":"E.%s E.%s %s"}' % (p, q, o)).encode()); want.append("e%d" % (i1 + i2 + names.index(o) + 1))
                    texts.append(('{"ev":"E.%s %s E.%s"}' % (p, q, o)).encode()); want.append("e%d" % (i1 + i2 + names.index(o) + 1))
        # a non-ASCII byte within 8 bytes after a name start, with fewer than 8 bytes left in the buffer
        texts.append(b'{"q":"\xe9"}'); want.append("Q1")      # 7 bytes from the name to the end: the short-window loader
        texts.append(b'{"q":"\x7f"}'); want.append("Q1")
        texts.append(b'{"zs":"\xe9"}'); want.append("S1")
        texts.append(b'{"zs":"\xc3\xa9"}'); want.append("S2")
        if names[0] not in unions_of[k]:
            texts.append(('{"%s":7,"zs":"\xff"}' % names[0]).encode("latin1")); want.append("S1")
        if "ev" in names or "zs" in names or "q" in names:
            return []
        rc, out, err = run_lines(exe, [t.hex() for t in texts], timeout=600)
        bad = []
        for t, w, o in zip(texts, want, out):
            if w is not None and o != w:
                ts = t.decode("latin1")
                m = re.fullmatch(r"\{(\w+):7\}", ts)
                if m and o == "u" and any(n2 != m.group(1) and n2.startswith(m.group(1)) and n2[len(m.group(1))] in "0123456789" for n2 in names):
                    known_unquoted.append((k, ts)); continue
                # same root cause on the value side: an unquoted symbol directly followed by `}` (which sorts above every identifier character)
                # while a sibling symbol continues the name
                m = re.fullmatch(r"\{\"ev\":E\.(\w+)\}", ts)
                if m and o == "u" and any(n2 != m.group(1) and n2.startswith(m.group(1)) for n2 in names + ["Zz0"]):
                    known_brace.append((k, ts)); continue
                bad.append("name set %d: parser maps %r to %s, expected %s" % (k, ts, o, w))
            if o.startswith("<crash"):
                bad.append("name set %d: parser faulted on %r: %s" % (k, t.decode("latin1"), err[-300:]))
        return [len(texts)] + bad[:3]
    with ThreadPoolExecutor(16) as ex:
        for res in ex.map(behave, range(len(sets))):
            if res:
                nprobe += res[0]; fails += res[1:]
    if known_unquoted:
        if any(f["id"] == "unquoted-name-colon-vs-digit-sibling" and f["status"] == "known" for f in load_known()):
            known_finding(ctx, "unquoted-name-colon-vs-digit-sibling", "%s is not dispatched although the field exists (name set %d; a sibling continues with a digit, which sorts below ':')" % (known_unquoted[0][1], known_unquoted[0][0]))
        else:
            fails.append("name set %d: unquoted %r not dispatched" % known_unquoted[0])
    if known_brace:
        if any(f["id"] == "unquoted-symbol-brace-vs-longer-sibling" and f["status"] == "known" for f in load_known()):
            known_finding(ctx, "unquoted-symbol-brace-vs-longer-sibling", "%s is rejected although the symbol exists (name set %d; unquoted, directly followed by `}`, and a sibling symbol continues the name: `}` sorts above identifier characters)" % (known_brace[0][1], known_brace[0][0]))
        else:
            fails.append("name set %d: unquoted %r not dispatched" % known_brace[0])
    if fails:
        violation(ctx, "spec_%d.json" % ctx.seed, {"kind": "property-fails-on-implementation", "why": fails[0][:2000], "count": len(fails), "all": [f[:300] for f in fails[:10]]})
    elif tie_breaks:
        violation(ctx, "tie_%d.json" % ctx.seed, {"kind": "translator-does-not-recognise-generated-code", "theorems_no_longer_tied": [t["name"] for t in ths],
                                                    "why": tie_breaks[0][:2000], "count": len(tie_breaks)}, no_failing_input=True)
    gens = sum(1 for o in out_m if "gen=same" in o)
    ctx.cov.update({"evaluations": nprobe + sum(len(m[3]) for m in meta), "distinct_nontrivial": len(sets) + ntries,
                    "rule": "%d name sets (fixed adversarial ones incl. the 35-field monster table, prefix chains at lengths 1..40 around 7/8/9/15/16/17/24/25, siblings sharing "
                            "8/16-byte prefixes and differing in the last byte of a window, random sets); for each, the table parser's and the enum parser's decision code "
                            "emitted by the current compiler is parsed into a Tree and VALIDATED (snd + cmp for every key: by the theorems this is exact dispatch for all "
                            "inputs); the tree is also compared structurally with the Lean model of the generator and evaluated on names and near misses; the real generated "
                            "parser is run on the same names (int fields; in every second set some names are union / union-vector fields given type-first, value-first and unquoted) / near misses quoted, spaced, unquoted, as enum symbols, and at the very end of the buffer." % len(sets),
                    "name_sets": len(sets), "tries_validated": ntries, "tries_equal_to_generator_model": gens, "behavioural_probes": nprobe,
                    "traces_validated_against_impl": nprobe, "correspondence_disagreements": len(tie_breaks), "spec_oracle_failures": len(fails)})
    ctx.samples = [{"names": sets[0], "model": out_m[0][:200] if out_m else ""}]
    ctx.notes = ["the numeric word compares of the C code are read as lexicographic compares of 8-byte windows (big-endian load); this reading, and the terminator "
                 "semantics of match_symbol / match_constant, are tied by the behavioural run",
                 "scope (namespace-qualified enum) tries are covered only by a fixed sample, not by generated name sets; union / union vector fields with their `_type` entries are part of every second name set"]
    finish(ctx, ths)
