"""C17 — identifiers and type hashes. Model: Ident.lean (+ header checks of Verifier.lean); theorems Props/C17.lean."""
from vlib import *


def fnv(name, h=2166136261):
    for b in name:
        h = ((h ^ b) * 16777619) & 0xffffffff
    return h


def thash(dotted):
    h = fnv(dotted)
    return h or 2166136261


def find_names(r, scope):
    """type names (within dotted scope prefix) whose hash has a zero byte at position 0,1,2,3, plus ordinary ones"""
    out, want = [], {0, 1, 2, 3}
    i = 0
    prefix = (scope + ".").encode() if scope else b""
    while want and i < 400000:
        nm = "Z%d" % i
        h = thash(prefix + nm.encode())
        for k in list(want):
            if (h >> (8 * k)) & 0xff == 0:
                out.append(nm); want.discard(k); break
        i += 1
    return out


def gen_lines(ctx):
    r = ctx.rng
    L = []
    alpha = b"abcdefghijklmnopqrstuvwxyzABCDEFGHIJKLMNOPQRSTUVWXYZ0123456789_."
    for n in list(range(1, 65)) * (2 if ctx.quick() else 40):
        nm = bytes(r.choice(alpha) for _ in range(n))
        L.append("ident hash " + nm.hex())
    L.append("ident hash -")
    ids = [b"ABCD", b"A\0CD", b"\0BCD", b"AB\0D", b"ABC\0", b"\0\0\0\0", b"\0\0\0\1", b"\xff\xff\xff\xff", b"MONS", b"X\0\0\0"]
    for _ in range(100 if ctx.quick() else 3000):
        ids.append(bytes(r.choice([0, 0, 1, 65, 255, r.randrange(256)]) for _ in range(4)))
    for i in ids:
        L.append("ident fromstr " + i.hex()); L.append("ident id2hash " + i.hex())
        h = int.from_bytes(i, "little")
        L.append("ident hash2id %d" % h)
        for ws in (0, 1):
            L.append("ident stored %s %d" % (i.hex(), ws))
        for stored in (h, 0, h ^ 1, h & 0xffff, h & 0xff, int.from_bytes(i[:1] + b"\0\0\0", "little"), r.getrandbits(32)):
            L.append("ident has %s %d" % (i.hex(), stored))
            L.append("ident hastype %d %d" % (h, stored))
    for s in (b"A", b"AB", b"ABC", b"ABCDE"):        # shorter / longer than 4 schema identifiers
        L.append("ident fromstr " + s.hex())
        for stored in (int.from_bytes((s + b"\0\0\0\0")[:4], "little"), 0x41, 0x4241):
            L.append("ident has %s %d" % (s.hex(), stored))
    L += ["ident has null 0", "ident has null 12345", "ident stored null 0", "ident stored null 1", "ident hastype 0 77"]
    return L


def spec_line(l, o):
    """property oracle independent of the model"""
    t = l.split(" ")
    if t[1] == "hash":
        nm = bytes.fromhex(t[2]) if t[2] != "-" else b""
        return None if o == str(thash(nm)) else "type hash is not FNV-1a-32 of the name (0 -> hash of empty string)"
    if t[1] == "hash2id":
        return None if o == int(t[2]).to_bytes(4, "little").hex() else "identifier is not the little-endian hash"
    if t[1] == "hastype":
        th, st = int(t[2]), int(t[3])
        return None if o == ("1" if th == 0 or th == st else "0") else "has_type_hash is not (zero or equal)"
    if t[1] == "stored":
        if t[2] == "null" or bytes.fromhex(t[2]) == b"\0\0\0\0":
            return None if o == "none" else "identifier emitted for null / all-zero identifier"
        return None if o == "id " + t[2] else "buffer does not carry the identifier it was finished with"
    if t[1] == "has":
        if t[2] == "null":
            return None if o == "1" else "null identifier must accept"
        fid = bytes.fromhex(t[2])
        if b"\0" in fid[:4] or len(fid) != 4:
            return None     # string identifiers with embedded zero / other lengths: C-string semantics, compared with the model
        want = int.from_bytes(fid, "little")
        return None if o == ("1" if int(t[3]) == want else "0") else "has_identifier is not equality for a 4-character identifier"
    return None


def gen_schema_program(ctx, workdir):
    """a schema with engineered type names + a C program exercising every generated identifier entry point"""
    r = ctx.rng
    scopes = ["", "NS", "Deep.Name.Space"]
    types = []   # (scope, name, kind)
    for sc in scopes:
        names = find_names(r, sc) + ["Plain", "T%d" % r.randrange(1000)]
        for i, nm in enumerate(names):
            types.append((sc, nm, "struct" if i % 3 == 2 else "table"))
    fbs = []
    cur = None
    for (sc, nm, kind) in types:
        if sc != cur:
            fbs.append("namespace %s;" % sc if sc else "namespace ;") if False else None
            if sc: fbs.append("namespace %s;" % sc)
            cur = sc
        if kind == "table": fbs.append("table %s { x:int; }" % nm)
        else: fbs.append("struct %s { x:int; }" % nm)
    # global-namespace types must come first (no way to return to the global namespace): reorder
    glob = [t for t in types if t[0] == ""]
    rest = [t for t in types if t[0] != ""]
    fbs = []
    for (sc, nm, kind) in glob:
        fbs.append(("table %s { x:int; }" if kind == "table" else "struct %s { x:int; }") % nm)
    cur = ""
    for (sc, nm, kind) in rest:
        if sc != cur:
            fbs.append("namespace %s;" % sc); cur = sc
        fbs.append(("table %s { x:int; }" if kind == "table" else "struct %s { x:int; }") % nm)
    open(os.path.join(workdir, "idt.fbs"), "w").write("\n".join(fbs) + "\n")
    types = glob + rest
    C = ['#include <stdio.h>', '#include <string.h>', '#include "idt_builder.h"', '#include "idt_verifier.h"',
         'static void hex(const void *p, size_t n) { size_t i; for (i = 0; i < n; ++i) printf("%02x", ((const unsigned char *)p)[i]); }',
         'int main(void) { flatcc_builder_t B; void *buf; size_t size; flatcc_builder_init(&B);']
    for k, (sc, nm, kind) in enumerate(types):
        cn = (sc.replace(".", "_") + "_" if sc else "") + nm
        other = types[(k + 1) % len(types)]
        on = (other[0].replace(".", "_") + "_" if other[0] else "") + other[1]
        C.append('printf("%s hash %%u\\n", (unsigned)%s_type_hash);' % (cn, cn))
        C.append('printf("%s tid "); hex(%s_type_identifier, 4); printf("\\n");' % (cn, cn))
        for ws in (0, 1):
            sfx = "_with_size" if ws else ""
            C.append('flatcc_builder_reset(&B);')
            if kind == "table":
                C.append('%s_start_as_typed_root%s(&B); %s_x_add(&B, 7); %s_end_as_typed_root(&B);' % (cn, sfx, cn, cn))
            else:
                C.append('%s_create_as_typed_root%s(&B, 7);' % (cn, sfx))
            C.append('buf = flatcc_builder_finalize_aligned_buffer(&B, &size);')
            C.append('printf("%s ws%d stored "); hex((char *)buf + %d, 4); printf("\\n");' % (cn, ws, 8 if ws else 4))
            C.append('printf("%s ws%d verify_typed %%d\\n", %s_verify_as_typed_root%s(buf, size) == 0);' % (cn, ws, cn, sfx))
            C.append('printf("%s ws%d verify_hash %%d\\n", %s_verify_as_root_with_type_hash%s(buf, size, %s_type_hash) == 0);' % (cn, ws, cn, "_and_size" if ws else "", cn))
            C.append('printf("%s ws%d verify_otherhash %%d\\n", %s_verify_as_root_with_type_hash%s(buf, size, %s_type_hash) == 0);' % (cn, ws, cn, "_and_size" if ws else "", on))
            C.append('printf("%s ws%d verify_nullid %%d\\n", %s_verify_as_root_with_identifier%s(buf, size, 0) == 0);' % (cn, ws, cn, "_and_size" if ws else ""))
            same = [t2 for t2 in types if t2[2] == kind and t2 != (sc, nm, kind)]
            for t2 in same[:3]:
                o2 = (t2[0].replace(".", "_") + "_" if t2[0] else "") + t2[1]
                C.append('printf("%s ws%d typed_by_%s %%d\\n", %s_verify_as_typed_root%s(buf, size) == 0);' % (cn, ws, o2, o2, sfx))
            if not ws:
                C.append('printf("%s ws0 as_typed %%d\\n", %s_as_typed_root(buf) != 0);' % (cn, cn))
                C.append('printf("%s ws0 as_otherhash %%d\\n", %s_as_root_with_type_hash(buf, %s_type_hash) != 0);' % (cn, cn, on))
                C.append('printf("%s ws0 as_nullid %%d\\n", %s_as_root_with_identifier(buf, 0) != 0);' % (cn, cn))
            C.append('flatcc_builder_aligned_free(buf);')
    C.append('flatcc_builder_clear(&B); return 0; }')
    open(os.path.join(workdir, "idt.c"), "w").write("\n".join(C) + "\n")
    return types


def run(ctx):
    ths = proof_stage(ctx)
    if ths is None:
        finish(ctx, [])
    flatcc, _ = build_flatcc(ctx)
    gen_dir = os.path.join(ctx.work, "gen")
    types = gen_schema_program(ctx, ctx.work)
    rc, log = flatcc_generate(ctx, flatcc, os.path.join(ctx.work, "idt.fbs"), gen_dir)
    if rc != 0:
        raise BuildError("flatcc failed on the identifier schema: " + log)
    rt = build_runtime_objs(ctx)
    h = build_harness(ctx, "h_ident", [os.path.join(VERIF, "harness/h_ident.c")], rt, incs=[gen_dir])
    hp = build_harness(ctx, "idt", [os.path.join(ctx.work, "idt.c")], rt, incs=[gen_dir])
    lines = gen_lines(ctx)
    rc_c, out_c, err_c = run_parallel(h, lines, 8)
    rc_m, out_m, err_m = run_parallel(FMODEL, lines, 8)
    idx, a, b = diff_streams(lines, out_c, out_m)
    spec_fail = [(i, w) for i, w in ((i, spec_line(l, a[i])) for i, l in enumerate(lines)) if w]
    # generated code scenario
    rc_p, out_p, err_p = sh([hp], timeout=120, env=ASAN_ENV)
    got = {}
    for l in out_p.split("\n"):
        t = l.split(" ")
        if len(t) >= 3:
            got[" ".join(t[:-1])] = t[-1]
    mlines, keys = [], []
    gen_fail = []
    if rc_p != 0:
        gen_fail.append(("generated-code program", "exit %d: %s" % (rc_p, err_p[-800:])))
    for (sc, nm, kind) in types:
        cn = (sc.replace(".", "_") + "_" if sc else "") + nm
        scope_hex = ".".join(x.encode().hex() for x in sc.split(".")) if sc else "-"
        mlines.append("ident chash %s %s" % (scope_hex, nm.encode().hex())); keys.append(cn)
    rc_m2, out_m2, _ = run_lines(FMODEL, mlines)
    for cn, (sc, nm, kind), mh in zip(keys, types, out_m2):
        dotted = ((sc + ".") if sc else "") + nm
        want = thash(dotted.encode())
        if str(want) != mh:
            gen_fail.append((cn, "MODEL compileTypeHash %s != FNV-1a(%s)=%d" % (mh, dotted, want)))
        if got.get(cn + " hash") != str(want):
            gen_fail.append((cn, "generated %s_type_hash=%s, FNV-1a-32(%s)=%d" % (cn, got.get(cn + " hash"), dotted, want)))
        if got.get(cn + " tid") != want.to_bytes(4, "little").hex():
            gen_fail.append((cn, "generated type identifier %s is not the little-endian hash" % got.get(cn + " tid")))
        for ws in (0, 1):
            p = "%s ws%d " % (cn, ws)
            exp = {"stored": want.to_bytes(4, "little").hex(), "verify_typed": "1", "verify_hash": "1", "verify_otherhash": "0", "verify_nullid": "1"}
            if not ws:
                exp.update({"as_typed": "1", "as_otherhash": "0", "as_nullid": "1"})
            for k2 in got:
                if k2.startswith(p + "typed_by_"):
                    exp[k2[len(p):]] = "0"
            for k, v in exp.items():
                if got.get(p + k) != v:
                    gen_fail.append((cn, "%s%s = %s, expected %s (type hash 0x%08x)" % (p, k, got.get(p + k), v, want)))
    # nested buffers: a nested buffer carries exactly the identifier IT was finished with, whatever identifier the enclosing buffer carries
    pids = ["null", "5041524e", "50005241", "00000000", "ffffffff"]; nids = ["null", "4e455354", "00000000", "4e000054"]
    nl = ["ident nstored %s %s" % (p, n) for p in pids for n in nids]
    rc_n, out_n, err_n = run_lines(h, nl)
    res_n = dict(zip(nl, out_n))
    for p in pids:
        for n in nids:
            o = res_n["ident nstored %s %s" % (p, n)]; base = res_n["ident nstored null %s" % n]
            mo, mb = re.match(r"outer (\w+) nested (\d+) (\w+)", o), re.match(r"outer (\w+) nested (\d+) (\w+)", base)
            if not mo or not mb:
                gen_fail.append(("nested", "nested identifier scenario failed: %s / %s %s" % (o[:80], base[:80], err_n[-300:]))); continue
            if mo.group(3) != mb.group(3):
                gen_fail.append(("nested", "a nested buffer finished with identifier %s inside a buffer with identifier %s is %s, inside a buffer without identifier %s: "
                                           "it does not carry exactly the identifier it was finished with" % (n, p, mo.group(3), mb.group(3))))
            elif n not in ("null", "00000000") and mo.group(3)[8:16] != n:
                gen_fail.append(("nested", "nested buffer finished with identifier %s carries %s" % (n, mo.group(3)[8:16])))
    known = {f["id"]: f for f in load_known() if f["property"] == "C17" and f["status"] == "known"}
    if spec_fail or gen_fail:
        if spec_fail:
            i, why = spec_fail[0]
            payload = {"kind": "property-fails-on-implementation", "op": lines[i], "c_output": a[i], "model_output": b[i], "why": why,
                       "count": len(spec_fail)}
        else:
            payload = {"kind": "property-fails-on-implementation", "schema": open(os.path.join(ctx.work, "idt.fbs")).read(),
                       "why": gen_fail[0][1], "type": gen_fail[0][0], "all": [g[1] for g in gen_fail][:40],
                       "replay": "flatcc -a idt.fbs; compile the program of tools/props/c17.py gen_schema_program"}
        violation(ctx, "spec_%d.json" % ctx.seed, payload)
    elif idx:
        i = idx[0]
        violation(ctx, "corr_%d.json" % ctx.seed, {"kind": "correspondence-broken", "theorems_no_longer_tied": [t["name"] for t in ths],
                                                     "op": lines[i], "c_output": a[i], "model_output": b[i], "count": len(idx)}, no_failing_input=True)
    ctx.cov.update({"evaluations": len(lines) + len(got), "distinct_nontrivial": len(set(lines)),
                    "rule": "names of length 1..64 through the runtime hash; 4-byte identifiers incl. embedded zero bytes, all-zero, short/long schema identifiers "
                            "through from_string / from_identifier / has_identifier / has_type_hash with equal, truncated and unrelated stored words; "
                            "builder-stored identifier with and without size prefix; generated code for %d types in 3 namespaces (names engineered so that "
                            "each byte of the type hash is zero once): type_hash/type_identifier constants, typed root build, stored bytes, "
                            "verify_as_typed_root(_with_size), with_type_hash(_and_size), other type's hash, null identifier, as_typed_root." % len(types),
                    "generated_types": len(types), "generated_checks": len(got),
                    "traces_validated_against_impl": len(lines), "correspondence_disagreements": len(idx),
                    "spec_oracle_failures": len(spec_fail) + len(gen_fail)})
    ctx.samples = [{"op": lines[i], "c": a[i], "model": b[i]} for i in (0, 70, 200, len(lines) - 1) if i < len(lines)]
    ctx.notes = ["header acceptance of the eight verify variants is the verifier model of C01 (tied there by the h_verify run incl. identifiers); "
                 "the stored-identifier statement is tied to the real builder here",
                 "names engineered to hash to exactly 0 are searched only in the thorough tier"]
    finish(ctx, ths)
