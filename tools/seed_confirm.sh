#!/bin/sh
# seed_confirm.sh <worktree> <seeded-id> [build-type]
# Confirms a candidate seeded change in its scratch worktree (the 23 tests pass with it; the demonstration fails with it and
# passes without it) and copies patch + demonstration (no build output) to /verif/seeded/<id>/.
set -u
WT=$1; ID=$2; BT=${3:-RelWithDebInfo}
V=$(cd "$(dirname "$0")/.." && pwd)
cd "$WT" || exit 2
[ -f demo/patch.diff ] || { echo "no demo/patch.diff"; exit 2; }
git diff --quiet -- src include && { echo "worktree has no change applied"; exit 2; }
mkdir -p _b && (cd _b && cmake -G Ninja .. -DCMAKE_BUILD_TYPE=$BT >/dev/null 2>&1 && ninja >/dev/null 2>&1) || { echo "BUILD FAILED with change"; exit 1; }
T=$(cd _b && ctest -j8 --timeout 900 2>&1 | grep "tests passed")
echo "ctest with change: $T"
timeout 1200 sh demo/run.sh >/tmp/seed_with_$ID.log 2>&1; W=$?
git apply -R demo/patch.diff || exit 2
timeout 1200 sh demo/run.sh >/tmp/seed_without_$ID.log 2>&1; WO=$?
git apply demo/patch.diff
echo "demo with change: exit $W ; without: exit $WO"
case "$T" in "100% tests passed"*) ;; *) echo "NOT CONFIRMED (tests)"; exit 1;; esac
[ "$W" != 0 ] && [ "$WO" = 0 ] || { echo "NOT CONFIRMED (demo)"; exit 1; }
D="$V/seeded/$ID"; mkdir -p "$D"
for f in demo/*; do
  [ -f "$f" ] || continue
  case "$f" in *.o|*.a|demo/demo|*.log|*.bin) continue;; esac
  [ "$(stat -c %s "$f")" -lt 200000 ] && cp "$f" "$D/"
done
rm -f /tmp/seed_with_$ID.log /tmp/seed_without_$ID.log
echo "CONFIRMED $ID; files in $D: $(ls "$D" | tr '\n' ' ')"
echo "ran: ctest ($T); demo/run.sh with change exit $W, without exit $WO"
