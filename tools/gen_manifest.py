#!/usr/bin/env python3
"""Writes /verif/MANIFEST.json from the table below (kept in one place so it is always valid)."""
import json, os
VERIF = os.path.dirname(os.path.dirname(os.path.abspath(__file__)))

CLAIMED = {
 "C19": dict(
  technique="Lean 4 proof (induction over digit lists / printing plans) + differential execution of model vs C",
  text="Theorems in lean/FlatccModel/Props/C19.lean over a hand model of pprintint.h, flatcc_json_parser_integer and the "
       "coerce_* functions: printing yields exactly the decimal digits for every value of every width; the scanner returns the "
       "exact value or a range error for every digit text of any length (never a wrapped value); fraction/exponent notation is "
       "never accepted as an integer; narrowing is a range check; print->scan->coerce is the identity for all 8 integer types. "
       "The model is tied to the C code by running both on all 8/16-bit values, boundary grids and random 32/64-bit values and "
       "texts. Floats (grisu3/strtod) are not modelled: bit-exact print->parse is observed on the implementation only "
       "(thorough: all finite float32 patterns), so the property is proved for integers and partial for floats.",
  note="Trusted: Lean kernel, axioms propext/Classical.choice/Quot.sound, the hand translation of the C functions into Num.lean "
       "(validated by the differential run, not proved), gcc+ASan/UBSan. Float conversion routines are outside the model.",
  ref="§4 C19"),
}

NOT_YET = {
}

def main():
    props = [json.loads(l) for l in open(os.path.join(VERIF, "properties.jsonl"))]
    checks = []
    for p in props:
        pid = p["id"]
        if pid not in CLAIMED:
            continue
        c = CLAIMED[pid]
        checks.append({
            "property_id": pid,
            "quick_cmd": "python3 tools/check.py %s --tier quick" % pid,
            "thorough_cmd": "python3 tools/check.py %s --tier thorough" % pid,
            "evidence_file": "/verif/evidence/%s.json" % pid,
            "replay_cmd_template": "python3 tools/check.py %s --replay {path}" % pid,
            "engine": "lean-proof+correspondence",
            "level_claimed": {"category": "proof", "text": c["text"], "design_ref": c["ref"]},
            "level_note": c["note"],
            "technique": c["technique"],
        })
    na = []
    for p in props:
        if p["id"] not in CLAIMED:
            na.append({"property_id": p["id"],
                       "reason": NOT_YET.get(p["id"], "not claimed yet: the Lean model and correspondence check for this property "
                                             "have not been built (the technique applies; see DESIGN.md §4 for the planned theorems)")})
    m = {
        "version": 1,
        "setup_cmd": "python3 tools/check.py setup",
        "hooks": {"guard": "FLATCC_VERIF", "enable": "none needed: harnesses #include the repo's .c files / link its objects; no hook commits",
                  "baseline_off_cmd": "cmake --build /repo/_build && ctest --test-dir /repo/_build -j8 --timeout 900",
                  "source_commits": [], "add_only": True},
        "engines": [{"name": "lean-proof+correspondence", "path": "tools/check.py",
                     "serves_properties": sorted(CLAIMED),
                     "kind_free_text": "Lean 4 theorems over a hand-written executable model (lean/FlatccModel), rebuilt and axiom-audited on every run; "
                                       "the model is tied to /repo by differential execution (C harness built from the working tree vs the compiled model `fmodel`)"}],
        "checks": checks,
        "not_applicable": na,
        "notes": "See DESIGN.md. known_findings.json lists genuine defects (fixed by `fix:` commits in /repo, or recorded).",
    }
    json.dump(m, open(os.path.join(VERIF, "MANIFEST.json"), "w"), indent=1)
    try:
        import jsonschema
        jsonschema.validate(m, json.load(open("/root/.vp/MANIFEST.schema.json")))
        print("MANIFEST.json valid; claimed:", sorted(CLAIMED))
    except ImportError:
        print("written (jsonschema not available)")

if __name__ == "__main__":
    main()
