#!/usr/bin/env python3
"""seeded.py run <id> [--tier quick] [--inplace]
       apply /verif/seeded/<id>/patch.diff, run the owning check(s), undo.
       default: the patch is applied to a scratch worktree of /repo (under /tmp, removed afterwards) and the checks run with
       VERIF_REPO pointing at it, so /repo itself is never modified and other work is not disturbed;
       --inplace: git -C /repo apply, run, git -C /repo checkout -- .   (the two are equivalent for the checks: every check
       builds only from the tree VERIF_REPO names)
   seeded.py all [--jobs N]            run every seeded change, print a detection table (JSON to seeded/RESULTS.json)."""
import json, os, subprocess, sys, time, shutil
from concurrent.futures import ThreadPoolExecutor
import threading
VERIF = os.path.dirname(os.path.dirname(os.path.abspath(__file__)))
_prop_locks = {}
_pl = threading.Lock()


def prop_lock(p):
    with _pl:
        return _prop_locks.setdefault(p, threading.Lock())


def run_checks(meta, tier, env):
    res = {}
    for prop in meta.get("checks", [meta["property"]]):
        with prop_lock(prop):
            t = time.time()
            p = subprocess.run([sys.executable, os.path.join(VERIF, "tools/check.py"), prop, "--tier", tier],
                               capture_output=True, text=True, cwd=VERIF, env=env)
            viol = [l for l in p.stdout.split("\n") if l.startswith("VIOLATION")]
            res[prop] = {"rc": p.returncode, "violations": viol[:3], "wall_s": round(time.time() - t, 1)}
    return res


def run_one(sid, tier="quick", inplace=False):
    d = os.path.join(VERIF, "seeded", sid)
    meta = json.load(open(os.path.join(d, "meta.json")))
    patch = os.path.join(d, "patch.diff")
    if inplace:
        st = subprocess.run(["git", "-C", "/repo", "status", "--porcelain", "--untracked-files=no"], capture_output=True, text=True).stdout.strip()
        if st:
            print("refusing: /repo has local modifications:\n" + st); return None
        try:
            subprocess.run(["git", "-C", "/repo", "apply", patch], check=True)
            return run_checks(meta, tier, dict(os.environ))
        finally:
            subprocess.run(["git", "-C", "/repo", "checkout", "--", "."], check=True)
    wt = "/tmp/seedrun_" + sid
    subprocess.run(["git", "-C", "/repo", "worktree", "remove", "--force", wt], capture_output=True)
    shutil.rmtree(wt, ignore_errors=True)
    subprocess.run(["git", "-C", "/repo", "worktree", "add", "-f", "--detach", wt, "HEAD"], check=True, capture_output=True)
    try:
        subprocess.run(["git", "-C", wt, "apply", patch], check=True)
        env = dict(os.environ); env["VERIF_REPO"] = wt; env["VERIF_EVID"] = wt + "_evid"; env["VERIF_REPLAYS"] = wt + "_evid/replays"
        return run_checks(meta, tier, env)
    finally:
        subprocess.run(["git", "-C", "/repo", "worktree", "remove", "--force", wt], capture_output=True)
        shutil.rmtree(wt, ignore_errors=True); shutil.rmtree(wt + "_evid", ignore_errors=True)
        # put the source-derived Lean data back to what /repo says (the run regenerated it from the scratch tree)
        subprocess.run([sys.executable, "-c", "import sys; sys.path.insert(0, %r); import vlib, gen_consts; lk = vlib._lock(); gen_consts.regenerate(); lk.close()"
                        % os.path.join(VERIF, "tools")], env={k: v for k, v in os.environ.items() if k != "VERIF_REPO"})


def verdict(r):
    return {k: ("DETECTED" if v["rc"] == 1 and v["violations"] else "missed rc=%d" % v["rc"]) for k, v in (r or {}).items()}


if __name__ == "__main__":
    a = sys.argv[1:]
    if a[0] == "run":
        tier = a[a.index("--tier") + 1] if "--tier" in a else "quick"
        r = run_one(a[1], tier, "--inplace" in a)
        print(json.dumps(r, indent=1)); print(a[1], verdict(r))
    else:
        jobs = int(a[a.index("--jobs") + 1]) if "--jobs" in a else 3
        ids = sorted(os.listdir(os.path.join(VERIF, "seeded")))
        ids = [i for i in ids if os.path.isdir(os.path.join(VERIF, "seeded", i))]
        if "--match" in a:       # only ids containing the given substring; results are merged into RESULTS.json
            ids = [i for i in ids if a[a.index("--match") + 1] in i]
        out = {}
        try:
            out.update(json.load(open(os.path.join(VERIF, "seeded", "RESULTS.json"))))
        except (OSError, ValueError):
            pass
        def one(sid):
            r = run_one(sid)
            out[sid] = r
            print(sid, verdict(r), flush=True)
        with ThreadPoolExecutor(jobs) as ex:
            list(ex.map(one, ids))
        json.dump({k: out[k] for k in sorted(out)}, open(os.path.join(VERIF, "seeded", "RESULTS.json"), "w"), indent=1)
