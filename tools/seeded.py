#!/usr/bin/env python3
"""seeded.py run <id> [--tier quick]   apply /verif/seeded/<id>/patch.diff to /repo, run the owning check(s), revert.
   seeded.py all                       run every seeded change, print a detection table."""
import json, os, subprocess, sys, time
VERIF = os.path.dirname(os.path.dirname(os.path.abspath(__file__)))


def run_one(sid, tier="quick"):
    d = os.path.join(VERIF, "seeded", sid)
    meta = json.load(open(os.path.join(d, "meta.json")))
    patch = os.path.join(d, "patch.diff")
    st = subprocess.run(["git", "-C", "/repo", "status", "--porcelain", "--untracked-files=no"], capture_output=True, text=True).stdout.strip()
    if st:
        print("refusing: /repo has local modifications:\n" + st); return None
    res = {}
    try:
        subprocess.run(["git", "-C", "/repo", "apply", patch], check=True)
        for prop in meta.get("checks", [meta["property"]]):
            t = time.time()
            p = subprocess.run([sys.executable, os.path.join(VERIF, "tools/check.py"), prop, "--tier", tier], capture_output=True, text=True, cwd=VERIF)
            viol = [l for l in p.stdout.split("\n") if l.startswith("VIOLATION")]
            res[prop] = {"rc": p.returncode, "violations": viol[:3], "wall_s": round(time.time() - t, 1)}
    finally:
        subprocess.run(["git", "-C", "/repo", "checkout", "--", "."], check=True)
    return res


if __name__ == "__main__":
    if sys.argv[1] == "run":
        print(json.dumps(run_one(sys.argv[2], sys.argv[4] if len(sys.argv) > 4 else "quick"), indent=1))
    else:
        for sid in sorted(os.listdir(os.path.join(VERIF, "seeded"))):
            r = run_one(sid)
            print(sid, {k: ("DETECTED" if v["rc"] == 1 and v["violations"] else "missed rc=%d" % v["rc"]) for k, v in (r or {}).items()})
