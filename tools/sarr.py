"""Fixed-length arrays of structs (and of scalars / enums) inside structs, parsed from JSON by the generated parser.
Random struct shapes; texts that give an array with exactly, fewer (down to []) or more elements than its length, members in any
order, element objects with members left out. Oracle (computed here from the schema shape and the values alone): the struct
bytes in the finished buffer are the FlatBuffers layout of the given values with everything not given zero; under-filled arrays
are an error exactly with reject_array_underflow, over-filled ones unless skip_array_overflow. Run under ASan with the text ending
at an inaccessible page, so a pad that runs past the struct faults."""
import os, random, struct as pystruct, shutil
from vlib import *
from concurrent.futures import ThreadPoolExecutor

SCAL = {"ubyte": (1, "<B", 0, 255), "byte": (1, "<b", -128, 127), "ushort": (2, "<H", 0, 65535), "short": (2, "<h", -32768, 32767),
        "uint": (4, "<I", 0, 2**32 - 1), "int": (4, "<i", -2**31, 2**31 - 1), "ulong": (8, "<Q", 0, 2**64 - 1), "long": (8, "<q", -2**63, 2**63 - 1),
        "float": (4, "<f", 0, 0), "double": (8, "<d", 0, 0), "E": (1, "<B", 0, 0)}
ENUM = {"A": 0, "B": 1, "C": 5}
FLOATS = [0.5, -2.0, 1.0, 3.25, -0.125, 1024.0]


class Shape:
    def __init__(self, r):
        self.r = r
        sc = lambda: r.choice(["ubyte", "byte", "ushort", "short", "uint", "int", "ulong", "long", "float", "double", "E"])
        self.structs = {}
        self.structs["Pt"] = [("x", sc(), None)] + [(n, sc(), None) for n in ("y", "z")[:r.randrange(3)]]
        self.structs["Mid"] = self.shuffled([("q", "Pt", r.choice([1, 2, 3, 5])), ("w", sc(), None)])
        ms = [("pre", sc(), None), ("pts", "Pt", r.choice([1, 2, 3, 4, 7, 16])), ("tag", "int", None), ("id", sc(), None),
              ("sc", r.choice(["short", "ubyte", "long", "uint"]), r.choice([1, 2, 5, 9])), ("es", "E", 3)]
        if r.random() < 0.7: ms.append(("mids", "Mid", r.choice([1, 2, 4])))
        self.structs["Path"] = self.shuffled(ms)
        self.structs["Big"] = self.shuffled([("cells", r.choice(["Pt", "Pt", "Mid"]), r.choice([16, 40, 64])), ("last", "int", None)])
        self.lay = {}
        for n in ("Pt", "Mid", "Path", "Big"): self.lay[n] = self.layout(n)

    def shuffled(self, l):
        self.r.shuffle(l); return l

    def size_align(self, t):
        if t in SCAL: return SCAL[t][0], SCAL[t][0]
        size, align, _ = self.lay[t]; return size, align

    def layout(self, name):
        off, align, offs = 0, 1, {}
        for (m, t, cnt) in self.structs[name]:
            s, a = self.size_align(t)
            off = (off + a - 1) // a * a
            offs[m] = off
            off += s * (cnt or 1)
            align = max(align, a)
        return (off + align - 1) // align * align, align, offs

    def fbs(self):
        out = ["namespace sa;", "enum E:ubyte { A = 0, B = 1, C = 5 }"]
        for n in ("Pt", "Mid", "Path", "Big"):
            out.append("struct %s { %s }" % (n, " ".join("%s:%s;" % (m, t if cnt is None else "[%s:%d]" % (t, cnt)) for (m, t, cnt) in self.structs[n])))
        out.append("table Doc { before:int; path:Path; big:Big; name:string; after:int; }")
        out.append("root_type Doc;")
        return "\n".join(out) + "\n"

    # ---- values: returns (json text, bytes, flags) where flags = set of {"under", "over"}
    def scalar(self, t):
        r = self.r
        if t == "E":
            k = r.choice(list(ENUM))
            return (('"%s"' % k) if r.random() < 0.6 else str(ENUM[k])), bytes([ENUM[k]])
        if t in ("float", "double"):
            v = r.choice(FLOATS); return repr(v), pystruct.pack(SCAL[t][1], v)
        _, fmt, lo, hi = SCAL[t]
        v = r.choice([lo, hi, 1, 7, 9, 201, hi - 1, r.randint(lo, hi)])
        v = max(lo, min(hi, v))
        return str(v), pystruct.pack(fmt, v)

    def value(self, name, what, fill):
        """fill: probability that an array is given in full"""
        r = self.r
        size, _, offs = self.lay[name]
        buf = bytearray(size)
        ms = list(self.structs[name]); r.shuffle(ms)
        parts = []
        for (m, t, cnt) in ms:
            if r.random() < 0.12: continue
            es, _ = self.size_align(t)
            if cnt is None:
                txt, b = self.scalar(t) if t in SCAL else self.value(t, what, fill)
                buf[offs[m]:offs[m] + es] = b
            else:
                c = r.random()
                k = cnt if c < fill else 0 if c < fill + 0.12 else r.randint(0, cnt) if c < 0.93 else cnt + r.randint(1, 2)
                if k < cnt: what.add("under")
                if k > cnt: what.add("over")
                el = []
                for i in range(k):
                    etxt, b = self.scalar(t) if t in SCAL else self.value(t, what, fill)
                    el.append(etxt)
                    if i < cnt: buf[offs[m] + i * es:offs[m] + (i + 1) * es] = b
                txt = "[" + ",".join(el) + "]"
            parts.append('"%s":%s' % (m, txt))
        return "{" + ",".join(parts) + "}", bytes(buf)


DRIVER = r'''
#include <stdio.h>
#include <stdlib.h>
#include <string.h>
#include <stdint.h>
#include "s_builder.h"
#include "s_reader.h"
#include "s_verifier.h"
#include "s_json_parser.h"
#include "hcommon.h"
int main(void) {
    static flatcc_builder_t builder, *B = &builder; static char *tok[8];
    h_init(); flatcc_builder_init(B);
    while (h_getline()) {
        int k = h_split(tok, 8), jf, rc, ws; size_t tlen, size = 0; uint8_t *text; void *buf; flatcc_json_parser_t jc; h_guard_t g; char *in;
        if (k < 3) { printf("bad-op\n"); continue; }
        jf = atoi(tok[1]); tlen = h_hexlen(tok[2]); text = malloc(tlen + 1); h_unhex(tok[2], text);
        if (h_guard_alloc(&g, tlen ? tlen : 1, 1, 1)) { printf("guard-alloc-failed\n"); free(text); continue; }
        in = (char *)g.p + (tlen ? 0 : 1); memcpy(in, text, tlen);
        flatcc_builder_reset(B); memset(&jc, 0, sizeof jc);
        rc = sa_Doc_parse_json_as_root(B, &jc, in, tlen, (flatcc_json_parser_flags_t)jf, 0);
        ws = (jf & flatcc_json_parser_f_with_size) != 0;
        if (rc) printf("perr=%d loc=%ld", jc.error, jc.error_loc ? (long)(jc.error_loc - in) : -99999L);
        else if (!(buf = flatcc_builder_finalize_aligned_buffer(B, &size))) printf("perr=0 finalize-failed");
        else {
            int vr = ws ? sa_Doc_verify_as_root_with_size(buf, size) : sa_Doc_verify_as_root(buf, size);
            printf("pok verify=%d", vr);
            if (!vr) {
                sa_Doc_table_t d = sa_Doc_as_root(ws ? (char *)buf + 4 : (char *)buf);
                sa_Path_struct_t p = sa_Doc_path(d); sa_Big_struct_t b = sa_Doc_big(d); flatbuffers_string_t s = sa_Doc_name(d);
                printf(" path="); if (p) h_puthex((const uint8_t *)p, sizeof(sa_Path_t)); else printf("-");
                printf(" big="); if (b) h_puthex((const uint8_t *)b, sizeof(sa_Big_t)); else printf("-");
                printf(" name="); if (s) { h_puthex((const uint8_t *)s, flatbuffers_string_len(s)); printf("."); } else printf("-");
                printf(" before=%d after=%d", (int)sa_Doc_before(d), (int)sa_Doc_after(d));
            }
            flatcc_builder_aligned_free(buf);
        }
        printf("\n");
        h_guard_free(&g); free(text);
    }
    flatcc_builder_clear(B);
    return 0;
}
'''


def job(args):
    work, flatcc, rt_objs, seed, si, ntext, ndebug = args
    r = random.Random(seed * 104729 + si)
    sh_ = Shape(r)
    d = os.path.join(work, "sarr%d" % si)
    os.makedirs(os.path.join(d, "gen"), exist_ok=True)
    fbs = sh_.fbs()
    open(os.path.join(d, "s.fbs"), "w").write(fbs)
    open(os.path.join(d, "prog.c"), "w").write(DRIVER)
    try:
        rc, out, err = sh([flatcc, "-a", "--json", "-o", os.path.join(d, "gen"), os.path.join(d, "s.fbs")])
        if rc != 0:
            return dict(si=si, error="flatcc rejected the schema: " + (out + err)[-800:], fbs=fbs)
        rc, log = cc(["-g", "-O1", "-w", *ndebug, "-fsanitize=address,undefined", "-fno-sanitize=alignment", "-fno-sanitize-recover=all",
                      "-I", os.path.join(REPO, "include"), "-I", os.path.join(VERIF, "harness"), "-I", os.path.join(d, "gen"), os.path.join(d, "prog.c"), *rt_objs, "-o", os.path.join(d, "prog")])
        if rc != 0:
            return dict(si=si, error="generated code does not compile: " + log[-1500:], fbs=fbs)
        lines, exp = [], []
        for ti in range(ntext):
            what = set()
            fill = r.choice([0.2, 0.5, 0.5, 0.9])
            parts, e = [], dict(path=None, big=None, name=None, before=0, after=0)
            for m in r.sample(["before", "path", "big", "name", "after"], 5):
                if r.random() < (0.55 if m == "big" else 0.15): continue
                if m in ("before", "after"):
                    v = r.randint(-2**31, 2**31 - 1); e[m] = v; parts.append('"%s":%d' % (m, v))
                elif m == "name":
                    s = "".join(r.choice("abcxyz09 _") for _ in range(r.randrange(12))); e[m] = s.encode(); parts.append('"name":"%s"' % s)
                else:
                    txt, b = sh_.value("Path" if m == "path" else "Big", what, fill if m == "path" else r.choice([0.0, 0.3, 1.0]))
                    e[m] = b; parts.append('"%s":%s' % (m, txt))
            text = "{" + ",".join(parts) + "}"
            jf = r.choice([0, 0, 0, 2, 8, 16, 24, 1, r.getrandbits(5)])
            lines.append("p %d %s" % (jf, text.encode().hex()))
            exp.append((e, what, jf, text))
        rc, out, err = run_lines([os.path.join(d, "prog")], lines, timeout=600, sticky=None)
        bad, stats = [], dict(texts=len(lines), under=0, over=0, accepted=0, rejected=0)
        for l, (e, what, jf, text), o in zip(lines, exp, out):
            det = dict(schema_fbs=fbs, op=l[:4000], text=text[:3000], parser_flags=jf, output=o[:3000])
            if "under" in what: stats["under"] += 1
            if "over" in what: stats["over"] += 1
            if o.startswith("<"):
                det["stderr"] = err[-3000:]
                bad.append(("generated struct parser faulted (sanitizer report / signal) on a text with fixed-length arrays", det)); continue
            must_fail = ("over" in what and not jf & 8) or ("under" in what and jf & 16)
            if o.startswith("perr="):
                # an error return is always within C04; which texts are rejected is only counted (README: skip_array_overflow drops extra
                # elements -- the generated parser does not consume extra *struct* elements and reports unbalanced_array instead)
                stats["rejected"] += 1
                if not must_fail: stats["rejected_though_documented_as_accepted"] = stats.get("rejected_though_documented_as_accepted", 0) + 1
                mm = re.match(r"perr=(-?\d+) loc=(-?\d+)", o)
                if not mm or int(mm.group(1)) == 0 or not (0 <= int(mm.group(2)) <= len(text.encode())):
                    bad.append(("failure without an error code or with an error location outside the input", det))
                continue
            stats["accepted"] += 1
            if must_fail: stats["accepted_though_flags_demand_error"] = stats.get("accepted_though_flags_demand_error", 0) + 1
            if not o.startswith("pok verify=0 "):
                bad.append(("parser reports success but the generated verifier rejects the buffer", det)); continue
            got = dict(x.split("=", 1) for x in o.split(" ")[2:])
            want = dict(path=e["path"].hex() if e["path"] is not None else "-", big=e["big"].hex() if e["big"] is not None else "-",
                        name=((e["name"].hex() or "-") + ".") if e["name"] is not None else "-", before=str(e["before"]), after=str(e["after"]))
            if jf & 2 and e["name"] is None: want["name"] = got.get("name")   # force_add does not concern strings; keep as parsed
            for k in ("path", "big", "name", "before", "after"):
                if got.get(k) != want[k]:
                    det["member"] = k; det["expected"] = want[k][:3000]; det["got"] = (got.get(k) or "")[:3000]
                    bad.append(("struct / table content differs from the values in the text (everything not given must be zero)", det)); break
        return dict(si=si, fbs=fbs, bad=bad, stats=stats)
    finally:
        shutil.rmtree(d, ignore_errors=True)


def stage(ctx, flatcc, rt, ndebug=()):
    quick = ctx.quick()
    jobs = [(ctx.work, flatcc, rt, ctx.seed, si, 160 if quick else 500, list(ndebug)) for si in range(8 if quick else 64)]
    with ThreadPoolExecutor(16) as ex:
        rs = list(ex.map(job, jobs))
    bad, stats = [], {}
    for x in rs:
        if "error" in x:
            bad.append(("generated code unusable: " + x["error"][:400], dict(schema_fbs=x["fbs"]))); continue
        bad += x["bad"]
        for k, v in x["stats"].items(): stats[k] = stats.get(k, 0) + v
    stats["schemas"] = len(rs)
    return stats, bad
