#!/usr/bin/env python3
"""check.py <Cxx> [--tier quick|thorough] [--replay file]   (cwd-independent; see DESIGN.md §5)"""
import argparse, importlib, os, sys
sys.path.insert(0, os.path.dirname(os.path.abspath(__file__)))
import vlib


def main():
    ap = argparse.ArgumentParser()
    ap.add_argument("prop")
    ap.add_argument("--tier", default=os.environ.get("VERIF_TIER", "quick"))
    ap.add_argument("--replay")
    a = ap.parse_args()
    seed = int(os.environ.get("VERIF_SEED", "1") or 1)
    if a.prop == "setup":
        import gen_consts
        gen_consts.regenerate()
        ok, log = vlib.lake_build()
        print(log[-3000:])
        sys.exit(0 if ok else 1)
    mod = importlib.import_module("props." + a.prop.lower())
    ctx = vlib.Ctx(a.prop, a.tier, seed)
    try:
        if a.replay:
            mod.replay(ctx, a.replay)
        else:
            mod.run(ctx)
    except vlib.BuildError as e:
        vlib.violation(ctx, "build_error.json", {"kind": "harness-does-not-build-against-current-tree", "log": str(e)},
                       no_failing_input=True)
        vlib.finish(ctx, [])
    except Exception:
        # the machinery itself could not digest what the current tree produced (e.g. a harness line cut by a crash): the property is no
        # longer shown to hold; the traceback names the stage
        import traceback
        vlib.violation(ctx, "checker_error.json", {"kind": "check-could-not-complete-on-current-tree", "traceback": traceback.format_exc()[-4000:]},
                       no_failing_input=True)
        vlib.finish(ctx, [])


if __name__ == "__main__":
    main()
