import FlatccModel.Util
import FlatccModel.Num
import FlatccModel.ScanSwap
import FlatccModel.RefmapFault
import FlatccModel.Reader
import FlatccModel.VerifierWF
import FlatccModel.Ident
import FlatccModel.Emitter
import FlatccModel.PrintFlush
import FlatccModel.SchemaNum
import FlatccModel.Layout
import FlatccModel.Trie
import FlatccModel.TrieGen
import FlatccModel.Base64
import FlatccModel.CharArray
import FlatccModel.JsonScan
import FlatccModel.Builder
import FlatccModel.Alloc
import FlatccModel.StructGraph
import FlatccModel.Clone
import FlatccModel.Props.C12_Iov
import FlatccModel.Sortable
/-! `fmodel`: executes the model's definitions on protocol lines (stdin → stdout, one result line per op line). -/
open Flatcc Flatcc.Util

namespace Drv

def numOp (args : List String) : String :=
  open Flatcc.Num in
  match args with
  | ["pu", bits, n] =>
    let v := natArg n
    bytesToStr (match bits with
      | "8" => printU8 v | "16" => printU16 v | "32" => printU32 v | _ => printU64 v)
  | ["pi", bits, n] =>
    let v := intArg n
    bytesToStr (match bits with
      | "8" => printI8 v | "16" => printI16 v | "32" => printI32 v | _ => printI64 v)
  | ["ji", ty, hex] =>
    match jsonInteger (hexToBytes hex) with
    | .nomatch => "nomatch"
    | .range => "range"
    | .floatUnexpected => "float"
    | .ok neg v k =>
      let u (lim : Nat) := match coerceU lim neg v with | some r => s!"ok {r} {k}" | none => "range"
      let s (m : Nat) := match coerceS m neg v with | some r => s!"ok {r} {k}" | none => "range"
      match ty with
      | "u8" => u 256 | "u16" => u 65536 | "u32" => u 4294967296 | "u64" => u 18446744073709551616
      | "i8" => s 128 | "i16" => s 32768 | "i32" => s 2147483648 | "i64" => s 9223372036854775808
      | "bool" => (match coerceBool neg v with | some r => s!"ok {r} {k}" | none => "range")
      | _ => "bad-op"
  | _ => "bad-op"

/-- items "k:p,k:p" → (key text, payload text) -/
def parseItems (s : String) : Array (String × String) :=
  if s == "_" then #[] else
  (s.splitOn ",").toArray.map (fun it =>
    match it.splitOn ":" with
    | [k] => (k, "")
    | k :: p :: _ => (k, p)
    | [] => ("", ""))

def showItems (xs : Array (String × String)) : String :=
  if xs.isEmpty then "_" else
  ",".intercalate (xs.toList.map (fun (k, p) => if p == "" then k else k ++ ":" ++ p))

def isStrKind (k : String) : Bool := k == "str" || k == "nn"

def sortOp (args : List String) : String :=
  open Flatcc.Sort in
  match args with
  | ["sort", kind, items] =>
    let xs := parseItems items
    let sorted :=
      if isStrKind kind then
        let ys : Array (List Nat × String × String) := xs.map (fun (k, p) => (hexToBytes k, k, p))
        let r := heapSort (fun a b => decide (stringNCmp a.1 b.1 < 0)) ys
        r.map (fun (_, k, p) => (k, p))
      else
        let ys : Array (Int × String × String) := xs.map (fun (k, p) => (intArg k, k, p))
        let r := heapSort (fun a b => scalarLt a.1 b.1) ys
        r.map (fun (_, k, p) => (k, p))
    showItems sorted ++ " frame=same verify=ok"
  | [op, kind, items, b, e, key] =>
    let xs := parseItems items
    let len := xs.size
    let bN := natArg b
    let eN := if e == "end" then 18446744073709551615 else natArg e
    let cmp : Nat → Int :=
      if isStrKind kind then
        let ks := xs.map (fun (k, _) => hexToBytes k)
        let kb := hexToBytes key
        if op == "findn" || op == "scann" || op == "rscann" then fun i => stringNCmp ks[i]! kb
        else fun i => strcmp ks[i]! kb
      else
        let ks := xs.map (fun (k, _) => intArg k)
        let kv := intArg key
        fun i => scalarCmp ks[i]! kv
    let r :=
      if op == "find" || op == "findn" then find cmp len
      else if op == "scan" || op == "scann" then scan cmp len bN eN
      else if op == "rscan" || op == "rscann" then rscan cmp len bN eN
      else if op == "scanall" then scan cmp len 0 len
      else if op == "rscanall" then rscan cmp len 0 len
      else none
    match r with
    | some i => toString i
    | none => "nf"
  | _ => "bad-op"

/-- refmap <op,op,...>: i<k>:<ref> | f<k> | r<n> | R | C ; output: results joined by ',' then ' b<buckets> c<count> inv=<ok> spec=<ok>' -/
def refmapOp (args : List String) : String :=
  open Flatcc.Refmap in
  match args with
  | [opsS] =>
    let toks := if opsS == "_" then [] else opsS.splitOn ","
    -- a leading `X` = the allocator refuses every request made during this call
    let ops : List (Op × Bool) := toks.map (fun t0 =>
      let ok := !t0.startsWith "X"
      let t := if ok then t0 else (t0.drop 1).toString
      let body := (t.drop 1).toString
      (if t.startsWith "i" then
        match body.splitOn ":" with
        | [k, r] => Op.ins (natArg k) (intArg r)
        | _ => Op.clr
      else if t.startsWith "f" then Op.fnd (natArg body)
      else if t.startsWith "r" then Op.rsz (natArg body)
      else if t == "R" then Op.rst else Op.clr, ok))
    -- run, collecting outputs, checking the invariant and the abstract spec after every step
    let (m, outs, invAll, specAll, _) := ops.foldl (fun (acc : Map × List String × Bool × Bool × List Op) opk =>
      let (m, outs, iv, sp, hist) := acc
      let op := opk.1
      let (m', r) := stepF murmur m op opk.2
      let hist' := effective m op opk.2 :: hist
      let spOk := match op with
        | .fnd k => r == spec hist k
        | _ => true
      (m', toString r :: outs, iv && (m'.rm.buckets > 64 || invOk murmur m') && !m'.nested, sp && spOk, hist')) (Map.init, [], true, true, [])
    ",".intercalate outs.reverse ++ s!" b{m.rm.buckets} c{m.count} inv={invAll && invOk murmur m} spec={specAll}"
  | _ => "bad-op"

/-! ### verifier / reader -/
open Flatcc.Verifier in
def parseField (s : String) : Field :=
  match s.splitOn ":" with
  | id :: req :: kind :: args =>
    let a (i : Nat) := natArg (args.getD i "0")
    let k : Kind := match kind with
      | "s" => .scalar (a 0) (a 1)
      | "str" => .string
      | "v" => .vector (a 0) (a 1) (a 2)
      | "sv" => .stringVector
      | "t" => .table (a 0 % 16)
      | "tv" => .tableVector (a 0 % 16)
      | "u" => .union (a 0 % 16)
      | "nt" => .nestedTable (a 0 % 16) (a 1)
      | "ns" => .nestedStruct (a 0) (a 1)
      | _ => .unionVector (a 0 % 16)
    { id := natArg id, required := natArg req != 0, kind := k }
  | _ => { id := 0, required := false, kind := .string }

open Flatcc.Verifier in
def parseMember (s : String) : Nat × Member :=
  match s.splitOn ":" with
  | code :: kind :: args =>
    let a (i : Nat) := natArg (args.getD i "0")
    (natArg code, match kind with
      | "t" => .table (a 0 % 16)
      | "st" => .struct (a 0) (a 1)
      | _ => .string)
  | _ => (0, .string)

open Flatcc.Verifier in
def parseSchema (s : String) : Schema :=
  let parts := s.splitOn "#"
  let tabs := (parts.getD 0 "").splitOn ";"
  let uns := if parts.length > 1 then (parts.getD 1 "").splitOn "|" else []
  { tables := tabs.map (fun t => if t == "_" || t == "" then [] else (t.splitOn ",").map parseField),
    unions := uns.map (fun u => if u == "_" || u == "" then [] else (u.splitOn ",").map parseMember) }

open Flatcc.Verifier in
def showAcc (l : List Access) : String :=
  ",".intercalate (l.map (fun a => s!"{a.addr}:{a.len}:{a.align}"))

open Flatcc.Verifier in
def verifyOp (S : Schema) (args : List String) : String :=
  match args with
  | [root, variant, idS, shiftS, hex] =>
    let bytes := (hexToBytes hex).toArray
    let c : Ctx := { buf := fun i => bytes.getD i 0, n := bytes.size, A := 1048576 + natArg shiftS % 4096 }
    let withSize := variant == "size" || variant == "typedsize"
    let typed := variant == "typed" || variant == "typedsize"
    let idb := if idS == "-" then [] else hexToBytes idS
    let idHash := if idS == "-" then 0
      else if typed then idb.getD 0 0 + 256 * idb.getD 1 0 + 65536 * idb.getD 2 0 + 16777216 * idb.getD 3 0
      else hashFromString (idb ++ [0, 0, 0, 0])
    let b0 := if withSize then 4 else 0
    if root.startsWith "t" then
      let t := natArg (root.drop 1).toString % 16
      let r := if withSize then verifyTableAsRootWithSize S c idHash t else verifyTableAsRoot S c idHash t
      match r with
      | .ok _ => "ok " ++ showAcc (⟨b0, 4, 4⟩ :: tableAcc S c 200 (b0 + r32 c b0) t)
      | .error .oob => "MODEL-OOB"
      | .error .fuel => "MODEL-FUEL"
      | .error .reject => "reject"
    else
      match root.splitOn ":" with
      | [_, sz, al] =>
        let r := if withSize then verifyStructAsRootWithSize c idHash (natArg sz) (natArg al)
                 else verifyStructAsRoot c idHash (natArg sz) (natArg al)
        match r with
        | .ok _ => "ok " ++ showAcc [⟨b0, 4, 4⟩, ⟨b0 + r32 c b0, natArg sz, natArg al⟩]
        | .error .oob => "MODEL-OOB"
        | .error .fuel => "MODEL-FUEL"
        | .error .reject => "reject"
      | _ => "bad-op"
  | _ => "bad-op"

structure DrvState where
  schema : Flatcc.Verifier.Schema := { tables := [], unions := [] }

def stepS (st : DrvState) (line : String) : DrvState × String :=
  let l := line.trimAscii.toString
  if l.startsWith "schema " then
    let S := parseSchema (l.drop 7).toString
    ({ st with schema := S }, s!"schema {S.tables.length} {S.unions.length}")
  else match l.splitOn " " with
    | "verify" :: args => (st, verifyOp st.schema args)
    | ["wf", m] =>
      -- the hypothesis of C01_generated_verifier, evaluated on the current (translated) descriptor set
      (st, if Flatcc.Verifier.wfB st.schema (natArg m) then "wf ok"
           else match Flatcc.Verifier.wfFirstBad st.schema (natArg m) with
             | some (ti, id) => s!"wf FAIL table {ti} field id {id}"
             | none => "wf FAIL (union member or M)")
    | _ => (st, "")

def identOp (args : List String) : String :=
  open Flatcc.Ident Flatcc.Verifier in
  match args with
  | ["hash", hex] => toString (typeHashFromName (hexToBytes hex))
  | ["chash", scope, name] =>
    let sc := if scope == "-" then [] else (scope.splitOn ".").map hexToBytes
    toString (compileTypeHash sc (hexToBytes name))
  | ["fromstr", hex] => toString (hashFromString (hexToBytes hex ++ [0, 0, 0, 0]))
  | ["id2hash", hex] => toString (hashFromIdentifier (hexToBytes hex))
  | ["hash2id", h] => bytesToHex (identifierFromHash (natArg h))
  | ["has", fid, stored] =>
    if hasIdentifier (natArg stored) (if fid == "null" then none else some (hexToBytes fid)) then "1" else "0"
  | ["hastype", th, stored] => if hasTypeHash (natArg stored) (natArg th) then "1" else "0"
  | ["stored", fid, _ws] =>
    match storedIdentifier (if fid == "null" then none else some (hexToBytes fid)) with
    | none => "none"
    | some s => "id " ++ bytesToHex s
  | _ => "bad-op"

def fnvBytes (l : List Nat) : Nat := l.foldl (fun h b => ((h ^^^ (b % 256)) * 16777619) % 4294967296) 2166136261

def hex8 (n : Nat) : String :=
  String.ofList ((List.range 8).reverse.map (fun i => hexDigit (n / 16 ^ i % 16)))

/-- emit <ops>: see harness/h_emit.c -/
def emitOp (args : List String) : String :=
  open Flatcc.Emitter in
  match args with
  | [opsS] =>
    let toks := opsS.splitOn ","
    let gen (ctr len : Nat) : List Nat := (List.range len).map (fun i => ((ctr + i) * 131 + 7) % 251)
    let (s, _, outs) := toks.foldl (fun (acc : Em × Nat × List String) t =>
      let (s, ctr, outs) := acc
      if t.startsWith "f" || t.startsWith "b" then
        let sizes := ((t.drop 1).toString.splitOn "+").map natArg
        let len := sizes.sum
        let data := gen ctr len
        let pieces := (sizes.foldl (fun (a : List (List Nat) × List Nat) n => (a.1 ++ [a.2.take n], a.2.drop n)) ([], data)).1
        let s' := if t.startsWith "f" then emitFront s pieces else emitBack s pieces
        (s', ctr + len, outs ++ ["0"])
      else if t == "c" || t.startsWith "k" then
        let size := s.used
        let bufsize := if t == "c" then size else natArg (t.drop 1).toString
        let d := match directBuffer s with
          | some l => s!"y:{size}:{hex8 (fnvBytes l)}"
          | none => "n"
        let c := match copyBuffer s bufsize with
          | some l => s!"ok:{hex8 (fnvBytes l)}"
          | none => "null"
        (s, ctr, outs ++ [s!"size={size} direct={d} copy={c}"])
      else if t == "R" then (reset s, ctr, outs ++ ["R"])
      else if t == "C" then (Em.init s.page, ctr, outs ++ ["C"])
      else (s, ctr, outs ++ ["?"])) (Em.init Flatcc.Consts.emitterPageSize, 0, [])
    " ".intercalate outs ++ s!" cap={s.capacity}"
  | _ => "bad-op"

/-- pr <mode> <events>: see harness/h_print.c -/
def prOp (args : List String) : String :=
  open Flatcc.PrintFlush in
  match args with
  | [modeS, evS] =>
    let s0 : Pr :=
      if modeS.startsWith "fixed:" then initFixed (natArg (modeS.drop 6).toString)
      else if modeS.startsWith "dyn:" then initDynamic (natArg (modeS.drop 4).toString)
      else initFile
    let gen (ctr len : Nat) : List Nat := (List.range len).map (fun i => ((ctr + i) * 131 + 7) % 251)
    let (s, _) := (evS.splitOn ",").foldl (fun (acc : Pr × Nat) t =>
      let (s, ctr) := acc
      let k := natArg (t.drop 1).toString
      if t.startsWith "r" then ((List.range k).foldl (fun s i => stepEv s (.raw (gen (ctr + i) 1))) s, ctr + k)
      else if t.startsWith "w" then (stepEv s (.print (gen ctr k)), ctr + k)
      else if t.startsWith "i" then (stepEv s (.indent k), ctr)
      else if t == "p" then (stepEv s .fpartial, ctr)
      else if t == "F" then (stepEv s .flushAll, ctr)
      else (s, ctr)) (s0, 0)
    -- what the API reports at the end
    let s := match s.mode with
      | .fixed => flush s false          -- get_buffer flushes (may raise overflow)
      | .dynamic => flush s false
      | .file => flush s true
    let err := s.overflow
    if s.mode == .fixed && err then "err=1 total=0 len=0 text=-"
    else
      let t := text s
      s!"err={if err then 1 else 0} total={s.total + s.buf.length} len={t.length} text={hex8 (fnvBytes t)}"
  | _ => "bad-op"

open Flatcc.SchemaNum in
def styOf (s : String) : Option STy :=
  match s with
  | "ubyte" => some .ubyte | "ushort" => some .ushort | "uint" => some .uint | "ulong" => some .ulong
  | "byte" => some .byte | "short" => some .short | "int" => some .int | "long" => some .long | "bool" => some .bool
  | "uint8" => some .ubyte | "uint16" => some .ushort | "uint32" => some .uint | "uint64" => some .ulong
  | "int8" => some .byte | "int16" => some .short | "int32" => some .int | "int64" => some .long
  | _ => none

open Flatcc.SchemaNum in
def litOf (t : String) : Option Lit :=
  if t == "true" then some (.bool true) else if t == "false" then some (.bool false) else
  let neg := t.startsWith "-"
  let body := if neg then (t.drop 1).toString else t
  if body.startsWith "0x" || body.startsWith "0X" then
    let ds := (body.drop 2).toString.toList
    if ds.all (fun c => c.isDigit || ('a' ≤ c ∧ c ≤ 'f') || ('A' ≤ c ∧ c ≤ 'F')) then some (.hex neg (ds.map Flatcc.Util.hexVal)) else none
  else
    let ds := body.toList
    if !ds.isEmpty && ds.all Char.isDigit then some (.dec neg (ds.map Char.toNat)) else none

def u64Of (i : Int) : Nat := (i % 18446744073709551616).toNat

def schemaNumOp (op : String) (args : List String) : String :=
  open Flatcc.SchemaNum in
  match op, args with
  | "lit", [ob, ty, hex] =>
    match styOf ty, litOf (bytesToStr (hexToBytes hex)) with
    | some st, some l =>
      (match acceptLit (natArg ob % 2 == 1) st l with
       | some v => s!"ok {u64Of v}"
       | none => "reject")
    | _, _ => "unmodelled"
  | "enum", [ob, ty, items] =>
    match styOf ty with
    | some st =>
      let ms : List (Option (Option Val)) := (items.splitOn ",").map (fun t =>
        if t == "_" then some none else
        match litOf t with
        | some l => (match readLit l with | .invalid => none | v => some (some v))
        | none => none)
      if ms.any Option.isNone then "reject" else
      (match (if natArg ob / 2 % 2 == 1 then enumFlagValues else enumValues) st none (ms.map (fun m => m.getD none)) with
       | some vs => "ok " ++ ",".intercalate (vs.map (fun v => toString (u64Of v)))
       | none => "reject")
    | none => "unmodelled"
  | "falign", [nat, tok] =>
    -- struct S (force_align: <tok>) over a member of natural alignment <nat>: the struct's alignment, or reject
    match litOf tok with
    | some l => (match forceAlign l (natArg nat) with | some a => s!"ok {a}" | none => "reject")
    | none => "reject"
  | _, _ => "bad-op"

def layoutOp (op : String) (args : List String) : String :=
  open Flatcc.Layout in
  match op, args with
  | "layout", [fa, ms] =>
    let members : List Member := if ms == "_" then [] else (ms.splitOn ",").map (fun t =>
      match t.splitOn ":" with
      | [s, a] => ⟨natArg s, natArg a⟩
      | _ => ⟨0, 1⟩)
    (match layoutStruct members (natArg fa) with
     | some (size, align, offs) => s!"{size} {align} " ++ ",".intercalate (offs.map toString)
     | none => "reject")
  | "ids", [bs] =>
    let fields := if bs == "_" then [] else (bs.splitOn ",").map (fun t => t == "1")
    ",".intercalate ((assignIds fields 0).map toString)
  | _, _ => "bad-op"

/-! ### generated JSON parser tries -/
partial def parseTree (toks : Array String) (i : Nat) : Flatcc.Trie.Tree × Nat :=
  match toks.getD i "U" with
  | "L" =>
    let tag := hexToBytes (toks.getD (i + 1) "")
    let (l, j) := parseTree toks (i + 2)
    let (r, k) := parseTree toks j
    (.lt tag l r, k)
  | "E" =>
    let n := natArg (toks.getD (i + 1) "0")
    let bs := hexToBytes (toks.getD (i + 2) "")
    let (t, j) := parseTree toks (i + 3)
    let (e, k) := parseTree toks j
    (.eqm n bs t e, k)
  | "M" =>
    let (f, j) := parseTree toks (i + 3)
    (.matchAt (natArg (toks.getD (i + 1) "0")) (natArg (toks.getD (i + 2) "0")) f, j)
  | "D" => let (t, j) := parseTree toks (i + 1); (.descend t, j)
  | _ => (.unmatched, i + 1)

def bytesOfWord (w : Nat) : List Nat := (List.range 8).map (fun i => (w / 2 ^ (56 - 8 * i)) % 256)
def maskBytes (m : Nat) : Nat := ((List.range 9).find? (fun n => m == 2^64 - 2^(8 * (8 - n)))).getD 99

partial def convGen : Flatcc.TrieGen.Tree → Flatcc.Trie.Tree
  | .lt tag l r => .lt (bytesOfWord tag) (convGen l) (convGen r)
  | .eqm mask tag t e => let n := maskBytes mask; .eqm n ((bytesOfWord tag).take n) (convGen t) (convGen e)
  | .matchAt idx n fail => .matchAt idx n (convGen fail)
  | .descend t => .descend (convGen t)
  | .unmatched => .unmatched
  | .bug _ => .unmatched

partial def treeEq : Flatcc.Trie.Tree → Flatcc.Trie.Tree → Bool
  | .lt a l r, .lt b l2 r2 => a == b && treeEq l l2 && treeEq r r2
  | .eqm n bs t e, .eqm n2 bs2 t2 e2 => n == n2 && bs == bs2 && treeEq t t2 && treeEq e e2
  | .matchAt i n f, .matchAt i2 n2 f2 => i == i2 && n == n2 && treeEq f f2
  | .descend t, .descend t2 => treeEq t t2
  | .unmatched, .unmatched => true
  | _, _ => false

/-- trie <dict hex;hex;…> <tree tokens> <probes hex;hex;…|-> -/
def trieOp (args : List String) : String :=
  match args with
  | [dictS, treeS, probesS] =>
    let d : List (List Nat) := (dictS.splitOn ";").map hexToBytes
    let (t, _) := parseTree (treeS.splitOn ",").toArray 0
    let sndOk := Flatcc.Trie.snd d t [] []
    let bad := (List.range d.length).find? (fun i => !Flatcc.Trie.cmp (d.getD i []) i t 0)
    let termFree := d.all (fun k => k.all (fun b => b != 34))
    let distinct := d.eraseDups.length == d.length
    let g := convGen (Flatcc.TrieGen.genTrie d.toArray 0 (d.length - 1) 0)
    let same := treeEq g t
    let probes := if probesS == "-" then [] else (probesS.splitOn ";").map hexToBytes
    let rs := probes.map (fun s => match Flatcc.Trie.eval t s 0 with | some i => toString i | none => "u")
    s!"snd={sndOk} cmp={match bad with | some i => toString i | none => "ok"} keys={termFree && distinct} gen={if same then "same" else "diff"} probes={";".intercalate rs}"
  | _ => "bad-op"


/-! builder value trees -/
partial def parseVal (toks : Array String) (i : Nat) : Flatcc.Builder.Val × Nat :=
  open Flatcc.Builder in
  let nat (j : Nat) := (toks.getD j "0").toNat!
  let hex (j : Nat) := let t := toks.getD j "-"; if t == "-" then [] else hexToBytes t
  match toks.getD i "N" with
  | "T" =>
    let n := nat (i + 1)
    let (fs, j) := (List.range n).foldl (fun (acc : List (Nat × Val) × Nat) _ =>
      let id := nat acc.2
      let (v, j) := parseVal toks (acc.2 + 1)
      (acc.1 ++ [(id, v)], j)) ([], i + 2)
    (.tab fs, j)
  | "W" =>
    let n := nat (i + 1)
    let (fs, j) := (List.range n).foldl (fun (acc : List (Nat × Val) × Nat) _ =>
      let ty := nat acc.2
      let (v, j) := parseVal toks (acc.2 + 1)
      (acc.1 ++ [(ty, v)], j)) ([], i + 2)
    (.uvec fs, j)
  | "o" =>
    let n := nat (i + 1)
    let (fs, j) := (List.range n).foldl (fun (acc : List Val × Nat) _ =>
      let (v, j) := parseVal toks acc.2
      (acc.1 ++ [v], j)) ([], i + 2)
    (.ovec fs, j)
  | "i" => (.inl (nat (i + 1)) (nat (i + 2)) (hex (i + 3)), i + 4)
  | "v" => (.vec (nat (i + 1)) (nat (i + 2)) (hex (i + 3)), i + 4)
  | "u" => (.struct (nat (i + 1)) (hex (i + 2)), i + 3)
  | "E" => (.embed (nat (i + 1) != 0) (nat (i + 2)) (nat (i + 3)) (hex (i + 4)), i + 5)
  | "s" => (.str (hex (i + 1)), i + 2)
  | "r" => (.ref (nat (i + 1)), i + 2)
  | "B" =>
    let (v, j) := parseVal toks (i + 4)
    (.nested (hex (i + 1)) (nat (i + 2) != 0) (nat (i + 3)) v, j)
  | "U" =>
    let (v, j) := parseVal toks (i + 2)
    (.union (nat (i + 1)) v, j)
  | _ => (.null, i + 1)

def buildOp (args : List String) : String :=
  open Flatcc.Builder in
  match args with
  | flags :: ident :: ba :: _style :: toks =>
    let fl := flags.toNat!
    let (v, _) := parseVal toks.toArray 0
    let cfg : Config := { ident := if ident == "-" then [] else hexToBytes ident, withSize := fl % 2 == 1,
                          blockAlign := ba.toNat!, clustering := fl / 2 % 2 == 0, pre := fl / 8 % 2 == 1 }
    let (bytes, al, emits) := build cfg v
    let es := ",".intercalate (emits.map (fun e => s!"{e.1}:{e.2}"))
    s!"ok {al} {bytesToHex bytes} {if es.isEmpty then "-" else es}"
  | _ => "bad-op"

/-- vtcache <hash:hexvt,...>: `flatcc_builder_create_cached_vtable` called directly on a fresh builder, one call per
item; prints the reference each call returned (equal references = the cached vtable was reused) -/
def vtcacheOp (args : List String) : String :=
  open Flatcc.Builder in
  match args with
  | [items] =>
    let (_, outs) := (items.splitOn ",").foldl (fun (acc : BS × List String) it =>
      match it.splitOn ":" with
      | [h, hex] => let (s', r) := createCachedVtable acc.1 (hexToBytes hex) h.toNat!; (s', acc.2 ++ [toString r])
      | _ => (acc.1, acc.2 ++ ["bad"])) (initBS, [])
    ",".intercalate outs
  | _ => "bad-op"

/-- clone <usemap 0/1> <root address> <addr:kid.kid...;addr:...>: the generated clone on a source object graph (addresses as the
independent decoder found them in the source buffer); prints the number of objects created and of reference map entries -/
def cloneOp (args : List String) : String :=
  open Flatcc.Clone in
  match args with
  | [um, root, graph] =>
    let objs : List (Nat × SObj) := (graph.splitOn ";").filterMap (fun it =>
      match it.splitOn ":" with
      | [a, ks] => some (a.toNat!, { payload := [], kids := if ks.isEmpty then [] else (ks.splitOn ".").map String.toNat! })
      | _ => none)
    let src : Src := fun a => (objs.find? (fun e => e.1 == a)).map Prod.snd
    match clone (um == "1") src (objs.length + 1) root.toNat! init with
    | some (r, st) => s!"ok r={r} objs={st.dst.length} memo={st.memo.length}"
    | none => "fail"
  | _ => "bad-op"

/-- iov <fill> <clustering 0/1> <kind> <args..>: the pieces (`iov` entries) of the emit call one `create_*` call makes when `fill`
bytes were emitted at the front before (Props/C12_Iov.lean); printed as F|B <len> : piece lengths -/
def iovOp (args : List String) : String :=
  open Flatcc.Builder in
  match args with
  | fill :: cl :: kind :: rest =>
    let s0 : BS := { initBS with clustering := cl == "1" }
    let (s, r0) := if fill.toNat! = 0 then (s0, (0 : Int)) else createStruct s0 (zeros fill.toNat!) 1
    let pr (tag : String) (ps : List (List Nat)) : String :=
      s!"ok {tag}{(ps.map List.length).foldl (· + ·) 0}:{"+".intercalate (ps.map (fun p => toString p.length))}"
    match kind, rest with
    | "str", [hex] => pr "F" (stringIov s (hexToBytes hex))
    | "vec", [esz, al, hex] =>
      let d := hexToBytes hex
      pr "F" (vectorIov s d (if esz.toNat! = 0 then 0 else d.length / esz.toNat!) al.toNat!)
    | "ovec", [cnt] => pr "F" (offsetVectorIov s (List.replicate cnt.toNat! r0))
    | "struct", [al, hex] => pr "F" (structIov s (hexToBytes hex) al.toNat!)
    | "vt", [hex] => pr (if s.nestId = 0 ∧ s.clustering then "B" else "F") (vtableIov s (hexToBytes hex))
    | _, _ => "bad-op"
  | _ => "bad-op"

def allocOp (args : List String) : String :=
  match args with
  | [hint, len0, reqs] =>
    let (_, outs) := (reqs.splitOn ",").foldl (fun (acc : Nat × List String) r =>
      let l := Flatcc.Alloc.defaultAlloc acc.1 r.toNat! hint.toNat!
      (l, acc.2 ++ [toString l])) (len0.toNat!, [])
    ",".intercalate outs
  | _ => "bad-op"

/-- sgraph <structs ';' separated; members ',' separated: s = scalar, number = struct index> -/
def sgraphOp (args : List String) : String :=
  open Flatcc.StructGraph in
  match args with
  | [gs] =>
    let g : Graph := (gs.splitOn ";").map (fun ms => (ms.splitOn ",").filterMap (fun m =>
      if m == "s" then some none else if m == "" then none else some (some m.toNat!)))
    let st := analyzeAll g
    match st.diags with
    | [] => s!"ok order={",".intercalate (st.order.map toString)}"
    | d :: _ => s!"fail first={match d with | .circular => "circular" | .deep => "deep" | .empty => "empty"} diags={st.diags.length}"
  | _ => "bad-op"

/-- sortable <types in declaration order ';' separated: `d` or `-` (has a non-deprecated sorted member), ':', refs ',' separated> -/
def sortableOp (args : List String) : String :=
  open Flatcc.Sortable in
  match args with
  | [gs] =>
    let ts : List Ty := (gs.splitOn ";").map (fun s =>
      match s.splitOn ":" with
      | [d, rs] => { direct := d == "d", refs := (rs.splitOn ",").filterMap (fun r => if r == "" then none else some r.toNat!) }
      | _ => { direct := false, refs := [] })
    match markSortable ts with
    | some m => "ok " ++ String.ofList (m.map (fun b => if b then '1' else '0'))
    | none => "fuel"
  | _ => "bad-op"

/-- b64 enc|dec|decl|size|parse|chunks|rooms: see OUT/h_b64.c (pbase64.h, FlatccModel/Base64.lean) -/
def b64Op (args : List String) : String :=
  open Flatcc.Base64 in
  match args with
  | ["enc", mode, hex] =>
    let m := natArg mode
    let src := hexToBytes hex
    s!"{encodeRet m} {bytesToHex (encode src m)} {if encodeRet m == 0 then src.length else 0}"
  | ["dec", mode, hex] =>
    let r := decode (hexToBytes hex) (natArg mode)
    s!"{r.ret} {bytesToHex r.decoded} {r.srcConsumed}"
  | ["decl", mode, lim, hex] =>
    let r := decodeLim (natArg lim) (hexToBytes hex) (natArg mode)
    s!"{r.ret} {bytesToHex r.decoded} {r.srcConsumed}"
  | ["size", len, mode] => s!"{encodedSize (natArg len) (natArg mode)} {decodedSize (natArg len)}"
  | ["parse", urlsafe, hex] =>
    (match parseBase64 (hexToBytes hex) (natArg urlsafe != 0) with
     | some l => s!"ok {bytesToHex l}"
     | none => "fail")
  | ["chunks", mode, chunk, hex] => bytesToHex (printChunks (natArg chunk) (hexToBytes hex) (natArg mode))
  | ["print", mode, r0, sched, hex] =>
    -- see OUT/h_b64print.c: r0 = room after the opening quote, sched = room after each flush, then 256
    let m := natArg mode
    let src := hexToBytes hex
    let sch := (if sched == "-" then [] else (sched.splitOn ",").map natArg) ++ List.replicate 64 256
    let first := encodedSize src.length m ≥ natArg r0          -- `if (ctx->p + len >= ctx->pflush) flush`
    let pieces := printRoomsPieces (if first then sch else [natArg r0]) src m
    let lens := pieces.map List.length
    let lens := if first then 1 :: (lens.dropLast ++ [lens.getLastD 0 + 1]) else [lens.getLastD 0 + 2]
    s!"{bytesToHex (34 :: pieces.flatten ++ [34])} {",".intercalate (lens.map toString)}"
  | ["rooms", mode, rooms, hex] =>
    bytesToHex (printRooms ((rooms.splitOn ",").map natArg) (hexToBytes hex) (natArg mode))
  | _ => "bad-op"

/-- jscan <fn> <flags> <startpos> <hex>: see OUT/h_jscan.c. flags: the parser flags, +256 = `ctx->unquoted` initially set,
+512 = model the build with FLATCC_JSON_PARSE_WIDE_SPACE=1.
answer: `<pos|err:class> <error_loc|-> p<returned pos> m<more> u<unquoted> l<line> c<pos field>` -/
def jscanErrName (e : Nat) : String :=
  match e with
  | 2 => "deep_nesting" | 4 => "expected_colon" | 5 => "unexpected_character" | 6 => "invalid_numeric"
  | 9 => "unbalanced_array" | 10 => "unbalanced_object" | 13 => "unknown_symbol" | 16 => "expected_string"
  | 17 => "invalid_character" | 18 => "invalid_escape" | 20 => "unterminated_string" | 21 => "expected_object"
  | 22 => "expected_array" | n => s!"e{n}"

def jscanOp (args : List String) : String :=
  open Flatcc.JsonScan in
  match args with
  | [fn, flagsS, startS, hex] =>
    let inp := (hexToBytes hex).toArray
    let fl := natArg flagsS
    let i := natArg startS
    let c : Ctx := { flags := fl % 256, unquoted := fl / 256 % 2 == 1, wide := fl / 512 % 2 == 1 }
    let two (r : M (Nat × Ctx)) : M (Nat × Ctx × Bool) := r >>= fun x => .ok (x.1, x.2, false)
    let r : Option (M (Nat × Ctx × Bool)) :=
      match fn with
      | "space" => some (two (space inp i c))
      | "spaceext" => some (two (spaceExt inp i c))
      | "number" => some (two (number inp i c))
      | "skipconst" => some (two (skipConstant inp i c))
      | "unmatched" => some (two (unmatchedSymbol inp i c))
      | "generic" => some (two (generic inp i c))
      | "symstart" => some (two (symbolStart inp i c))
      | "symend" => some (two (symbolEnd inp i c))
      | "conststart" => some (two (constantStart inp i c))
      | "strstart" => some (two (stringStart inp i c))
      | "strend" => some (two (stringEnd inp i c))
      | "strpart" => some (two (stringPart inp i c))
      | "stresc" => some (two (stringEscape inp i c))
      | "objstart" => some (objectStart inp i c)
      | "objend" => some (objectEnd inp i c)
      | "arrstart" => some (arrayStart inp i c)
      | "arrend" => some (arrayEnd inp i c)
      | _ => none
    match r with
    | none => "bad-op"
    | some (.error .oob) => "MODEL-OOB"
    | some (.error .fuel) => "MODEL-FUEL"
    | some (.ok (p, c', more)) =>
      let head := if c'.error != 0 then s!"err:{jscanErrName c'.error} {c'.errorLoc}" else s!"{p} -"
      s!"{head} p{p} m{if more then 1 else 0} u{if c'.unquoted then 1 else 0} l{c'.line} c{c'.pos}"
  | _ => "bad-op"

/-- chararr <N> <flags> <hex-text> / chararrp <hex-array>: see OUT/h_chararr.c (FlatccModel/CharArray.lean).
A call that returns without recording an error prints as `ok`; bytes it did not store keep the harness prefill 0xEE. -/
def chararrOp (op : String) (args : List String) : String :=
  open Flatcc.CharArray in
  match op, args with
  | "chararr", [n, fl, hex] =>
    let N := natArg n
    let f : Flags := ⟨natArg fl % 2 == 1, natArg fl / 2 % 2 == 1⟩
    let text := hexToBytes hex
    (match charArrayG N f text with
     | .ok (w, rest) => s!"ok {bytesToHex w} {text.length - rest.length}"
     | .error .overflow => "err overflow"
     | .error .underflow => "err underflow"
     | .error (.silentEnd w) => s!"ok {bytesToHex (w ++ List.replicate (N - w.length) 0xEE)} {text.length}"
     | .error .writeOutside => "err write-outside"
     | .error _ => "err other")
  | "chararrp", [hex] => bytesToHex (printCharArray (hexToBytes hex))
  | _, _ => "bad-op"


def step (line : String) : String :=
  match line.trimAscii.toString.splitOn " " with
  | "num" :: args => numOp args
  | "build" :: args => buildOp args
  | "b64" :: args => b64Op args
  | "chararr" :: args => chararrOp "chararr" args
  | "chararrp" :: args => chararrOp "chararrp" args
  | "jscan" :: args => jscanOp args
  | "alloc" :: args => allocOp args
  | "vtcache" :: args => vtcacheOp args
  | "clone" :: args => cloneOp args
  | "iov" :: args => iovOp args
  | "sgraph" :: args => sgraphOp args
  | "sortable" :: args => sortableOp args
  | "refmap" :: args => refmapOp args
  | "ident" :: args => identOp args
  | "emit" :: args => emitOp args
  | "pr" :: args => prOp args
  | "lit" :: args => schemaNumOp "lit" args
  | "layout" :: args => layoutOp "layout" args
  | "trie" :: args => trieOp args
  | "ids" :: args => layoutOp "ids" args
  | "enum" :: args => schemaNumOp "enum" args
  | "falign" :: args => schemaNumOp "falign" args
  | "sort" :: args => sortOp ("sort" :: args)
  | "find" :: args => sortOp ("find" :: args)
  | "findn" :: args => sortOp ("findn" :: args)
  | "scan" :: args => sortOp ("scan" :: args)
  | "scann" :: args => sortOp ("scann" :: args)
  | "rscan" :: args => sortOp ("rscan" :: args)
  | "rscann" :: args => sortOp ("rscann" :: args)
  | "scanall" :: args => sortOp ("scanall" :: args)
  | "rscanall" :: args => sortOp ("rscanall" :: args)
  | _ => "bad-op"

end Drv

partial def loop (h : IO.FS.Stream) (out : IO.FS.Stream) (st : Drv.DrvState) : IO Unit := do
  let line ← h.getLine
  if line.isEmpty then return ()
  let (st', r) := Drv.stepS st line
  out.putStrLn (if r.isEmpty then Drv.step line else r)
  loop h out st'

def main : IO Unit := do
  let out ← IO.getStdout
  loop (← IO.getStdin) out {}
  out.flush
