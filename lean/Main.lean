import FlatccModel.Util
import FlatccModel.Num
import FlatccModel.ScanSwap
import FlatccModel.Refmap
/-! `fmodel`: executes the model's definitions on protocol lines (stdin → stdout, one result line per op line). -/
open Flatcc Flatcc.Util

namespace Drv

def numOp (args : List String) : String :=
  open Flatcc.Num in
  match args with
  | ["pu", bits, n] =>
    let v := natArg n
    bytesToStr (match bits with
      | "8" => printU8 v | "16" => printU16 v | "32" => printU32 v | _ => printU64 v)
  | ["pi", bits, n] =>
    let v := intArg n
    bytesToStr (match bits with
      | "8" => printI8 v | "16" => printI16 v | "32" => printI32 v | _ => printI64 v)
  | ["ji", ty, hex] =>
    match jsonInteger (hexToBytes hex) with
    | .nomatch => "nomatch"
    | .range => "range"
    | .floatUnexpected => "float"
    | .ok neg v k =>
      let u (lim : Nat) := match coerceU lim neg v with | some r => s!"ok {r} {k}" | none => "range"
      let s (m : Nat) := match coerceS m neg v with | some r => s!"ok {r} {k}" | none => "range"
      match ty with
      | "u8" => u 256 | "u16" => u 65536 | "u32" => u 4294967296 | "u64" => u 18446744073709551616
      | "i8" => s 128 | "i16" => s 32768 | "i32" => s 2147483648 | "i64" => s 9223372036854775808
      | "bool" => (match coerceBool neg v with | some r => s!"ok {r} {k}" | none => "range")
      | _ => "bad-op"
  | _ => "bad-op"

/-- items "k:p,k:p" → (key text, payload text) -/
def parseItems (s : String) : Array (String × String) :=
  if s == "_" then #[] else
  (s.splitOn ",").toArray.map (fun it =>
    match it.splitOn ":" with
    | [k] => (k, "")
    | k :: p :: _ => (k, p)
    | [] => ("", ""))

def showItems (xs : Array (String × String)) : String :=
  if xs.isEmpty then "_" else
  ",".intercalate (xs.toList.map (fun (k, p) => if p == "" then k else k ++ ":" ++ p))

def isStrKind (k : String) : Bool := k == "str" || k == "nn"

def sortOp (args : List String) : String :=
  open Flatcc.Sort in
  match args with
  | ["sort", kind, items] =>
    let xs := parseItems items
    let sorted :=
      if isStrKind kind then
        let ys : Array (List Nat × String × String) := xs.map (fun (k, p) => (hexToBytes k, k, p))
        let r := heapSort (fun a b => decide (stringNCmp a.1 b.1 < 0)) ys
        r.map (fun (_, k, p) => (k, p))
      else
        let ys : Array (Int × String × String) := xs.map (fun (k, p) => (intArg k, k, p))
        let r := heapSort (fun a b => scalarLt a.1 b.1) ys
        r.map (fun (_, k, p) => (k, p))
    showItems sorted ++ " frame=same verify=ok"
  | [op, kind, items, b, e, key] =>
    let xs := parseItems items
    let len := xs.size
    let bN := natArg b
    let eN := if e == "end" then 18446744073709551615 else natArg e
    let cmp : Nat → Int :=
      if isStrKind kind then
        let ks := xs.map (fun (k, _) => hexToBytes k)
        let kb := hexToBytes key
        if op == "findn" || op == "scann" || op == "rscann" then fun i => stringNCmp ks[i]! kb
        else fun i => strcmp ks[i]! kb
      else
        let ks := xs.map (fun (k, _) => intArg k)
        let kv := intArg key
        fun i => scalarCmp ks[i]! kv
    let r :=
      if op == "find" || op == "findn" then find cmp len
      else if op == "scan" || op == "scann" then scan cmp len bN eN
      else if op == "rscan" || op == "rscann" then rscan cmp len bN eN
      else if op == "scanall" then scan cmp len 0 len
      else if op == "rscanall" then rscan cmp len 0 len
      else none
    match r with
    | some i => toString i
    | none => "nf"
  | _ => "bad-op"

/-- refmap <op,op,...>: i<k>:<ref> | f<k> | r<n> | R | C ; output: results joined by ',' then ' b<buckets> c<count> inv=<ok> spec=<ok>' -/
def refmapOp (args : List String) : String :=
  open Flatcc.Refmap in
  match args with
  | [opsS] =>
    let toks := if opsS == "_" then [] else opsS.splitOn ","
    let ops : List Op := toks.map (fun t =>
      let body := (t.drop 1).toString
      if t.startsWith "i" then
        match body.splitOn ":" with
        | [k, r] => Op.ins (natArg k) (intArg r)
        | _ => Op.clr
      else if t.startsWith "f" then Op.fnd (natArg body)
      else if t.startsWith "r" then Op.rsz (natArg body)
      else if t == "R" then Op.rst else Op.clr)
    -- run, collecting outputs, checking the invariant and the abstract spec after every step
    let (m, outs, invAll, specAll, _) := ops.foldl (fun (acc : Map × List String × Bool × Bool × List Op) op =>
      let (m, outs, iv, sp, hist) := acc
      let (m', r) := step murmur m op
      let hist' := op :: hist
      let spOk := match op with
        | .fnd k => r == spec hist k
        | _ => true
      (m', toString r :: outs, iv && (m'.rm.buckets > 64 || invOk murmur m') && !m'.nested, sp && spOk, hist')) (Map.init, [], true, true, [])
    ",".intercalate outs.reverse ++ s!" b{m.rm.buckets} c{m.count} inv={invAll && invOk murmur m} spec={specAll}"
  | _ => "bad-op"

def step (line : String) : String :=
  match line.trimAscii.toString.splitOn " " with
  | "num" :: args => numOp args
  | "refmap" :: args => refmapOp args
  | "sort" :: args => sortOp ("sort" :: args)
  | "find" :: args => sortOp ("find" :: args)
  | "findn" :: args => sortOp ("findn" :: args)
  | "scan" :: args => sortOp ("scan" :: args)
  | "scann" :: args => sortOp ("scann" :: args)
  | "rscan" :: args => sortOp ("rscan" :: args)
  | "rscann" :: args => sortOp ("rscann" :: args)
  | "scanall" :: args => sortOp ("scanall" :: args)
  | "rscanall" :: args => sortOp ("rscanall" :: args)
  | _ => "bad-op"

end Drv

partial def loop (h : IO.FS.Stream) (out : IO.FS.Stream) : IO Unit := do
  let line ← h.getLine
  if line.isEmpty then return ()
  out.putStrLn (Drv.step line)
  loop h out

def main : IO Unit := do
  let out ← IO.getStdout
  loop (← IO.getStdin) out
  out.flush
