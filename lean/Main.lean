import FlatccModel.Util
import FlatccModel.Num
/-! `fmodel`: executes the model's definitions on protocol lines (stdin → stdout, one result line per op line). -/
open Flatcc Flatcc.Util

namespace Drv

def numOp (args : List String) : String :=
  open Flatcc.Num in
  match args with
  | ["pu", bits, n] =>
    let v := natArg n
    bytesToStr (match bits with
      | "8" => printU8 v | "16" => printU16 v | "32" => printU32 v | _ => printU64 v)
  | ["pi", bits, n] =>
    let v := intArg n
    bytesToStr (match bits with
      | "8" => printI8 v | "16" => printI16 v | "32" => printI32 v | _ => printI64 v)
  | ["ji", ty, hex] =>
    match jsonInteger (hexToBytes hex) with
    | .nomatch => "nomatch"
    | .range => "range"
    | .floatUnexpected => "float"
    | .ok neg v k =>
      let u (lim : Nat) := match coerceU lim neg v with | some r => s!"ok {r} {k}" | none => "range"
      let s (m : Nat) := match coerceS m neg v with | some r => s!"ok {r} {k}" | none => "range"
      match ty with
      | "u8" => u 256 | "u16" => u 65536 | "u32" => u 4294967296 | "u64" => u 18446744073709551616
      | "i8" => s 128 | "i16" => s 32768 | "i32" => s 2147483648 | "i64" => s 9223372036854775808
      | "bool" => (match coerceBool neg v with | some r => s!"ok {r} {k}" | none => "range")
      | _ => "bad-op"
  | _ => "bad-op"

def step (line : String) : String :=
  match line.trimAscii.toString.splitOn " " with
  | "num" :: args => numOp args
  | _ => "bad-op"

end Drv

partial def loop (h : IO.FS.Stream) (out : IO.FS.Stream) : IO Unit := do
  let line ← h.getLine
  if line.isEmpty then return ()
  out.putStrLn (Drv.step line)
  loop h out

def main : IO Unit := do
  let out ← IO.getStdout
  loop (← IO.getStdin) out
  out.flush
