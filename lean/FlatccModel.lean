-- Root of the `FlatccModel` library: every model, proof and property file.
import FlatccModel.Generated.Consts
import FlatccModel.Util
import FlatccModel.Num
import FlatccModel.NumProofs
import FlatccModel.Sort
import FlatccModel.Find
import FlatccModel.ScanSwap
import FlatccModel.RefmapCore
import FlatccModel.Refmap
import FlatccModel.Props.C16
import FlatccModel.Props.C18
import FlatccModel.Props.C19
