import FlatccModel.Num
import FlatccModel.NumProofs
