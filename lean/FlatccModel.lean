-- Root of the `FlatccModel` library: every model, proof and property file.
import FlatccModel.Find
import FlatccModel.Generated.Consts
import FlatccModel.Num
import FlatccModel.NumProofs
import FlatccModel.Reader
import FlatccModel.Refmap
import FlatccModel.RefmapCore
import FlatccModel.ScanSwap
import FlatccModel.Sort
import FlatccModel.Util
import FlatccModel.Verifier
import FlatccModel.Props.C01
import FlatccModel.Props.C16
import FlatccModel.Props.C18
import FlatccModel.Props.C19
