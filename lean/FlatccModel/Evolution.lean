import FlatccModel.VerifierSound
/-!
# Schema evolution (C09): the old schema's verifier accepts whatever the new schema's verifier accepts

`Extends A B`: `B` was obtained from `A` by the permitted evolutions that only *add* — new table
fields (new calls in a table's list), new union members (new codes), new tables/unions appended.
Positions (table / union indices) are shared.
-/
namespace Flatcc.Verifier

structure Extends (A B : Schema) : Prop where
  fields : ∀ t f, f ∈ A.table t → f ∈ B.table t
  members : ∀ u ty m, lookupMember (A.union u) ty = some m → lookupMember (B.union u) ty = some m

theorem bind_mono {α} {e : V α} {k1 k2 : α → V Unit}
    (hk : ∀ v, k1 v = .ok () → k2 v = .ok ()) (h : (e >>= k1) = .ok ()) : (e >>= k2) = .ok () := by
  cases e with
  | error _ => simp [bind, Except.bind] at h
  | ok v => exact hk v h

/-- old accepts whatever new accepts, for tables verified with the same fuel -/
def TableMono (A B : Schema) (c : Ctx) (fuel : Nat) : Prop :=
  ∀ base offset ttl t, verifyTable B c fuel base offset ttl t = .ok () → verifyTable A c fuel base offset ttl t = .ok ()

theorem member_mono {A B : Schema} (E : Extends A B) (c : Ctx) (fuel : Nat) (IH : TableMono A B c fuel)
    (u ty b o : Nat) (ttl : Int)
    (h : verifyMember B c fuel b o ttl (lookupMember (B.union u) ty) = .ok ()) :
    verifyMember A c fuel b o ttl (lookupMember (A.union u) ty) = .ok () := by
  cases hA : lookupMember (A.union u) ty with
  | none => unfold verifyMember; rfl
  | some m =>
    rw [E.members u ty m hA] at h
    cases m with
    | table t => unfold verifyMember at h ⊢; exact IH _ _ _ _ h
    | struct s a => unfold verifyMember at h ⊢; exact h
    | string => unfold verifyMember at h ⊢; exact h

theorem tables_mono {A B : Schema} (c : Ctx) (fuel : Nat) (IH : TableMono A B c fuel) (ttl : Int) (t : Nat) :
    ∀ cnt base, verifyTables B c fuel ttl t cnt base = .ok () → verifyTables A c fuel ttl t cnt base = .ok () := by
  intro cnt
  induction cnt with
  | zero => intro base _; unfold verifyTables; rfl
  | succ cnt ih =>
    intro base h
    unfold verifyTables at h ⊢
    refine bind_mono (fun o h => ?_) h
    obtain ⟨_, h1, h2⟩ := bind_ok h
    rw [IH _ _ _ _ h1]
    exact ih _ h2

theorem unions_mono {A B : Schema} (E : Extends A B) (c : Ctx) (fuel : Nat) (IH : TableMono A B c fuel) (ttl : Int) (u : Nat) :
    ∀ cnt tbase base, verifyUnions B c fuel ttl u cnt tbase base = .ok () → verifyUnions A c fuel ttl u cnt tbase base = .ok () := by
  intro cnt
  induction cnt with
  | zero => intro tbase base _; unfold verifyUnions; rfl
  | succ cnt ih =>
    intro tbase base h
    unfold verifyUnions at h ⊢
    refine bind_mono (fun elem h => ?_) h
    refine bind_mono (fun ty h => ?_) h
    obtain ⟨_, h1, h2⟩ := bind_ok h
    have : (if elem = 0 then guard' (ty == 0)
            else guard' (ty != 0) >>= fun _ => verifyMember A c fuel base elem ttl (lookupMember (A.union u) ty)) = .ok () := by
      by_cases hz : elem = 0
      · simp only [hz, if_true] at h1 ⊢; exact h1
      · simp only [hz, if_false] at h1 ⊢
        exact bind_mono (fun _ h => member_mono E c fuel IH u ty base elem ttl h) h1
    rw [this]
    exact ih _ _ h2

theorem optmatch_mono {k1 k2 : Nat → V Unit} (hk : ∀ b, k1 b = .ok () → k2 b = .ok ()) (r : Option Nat)
    (h : (match r with | none => (pure () : V Unit) | some b => k1 b) = .ok ()) :
    (match r with | none => (pure () : V Unit) | some b => k2 b) = .ok () := by
  cases r with
  | none => exact h
  | some b => exact hk b h

theorem kind_mono {A B : Schema} (E : Extends A B) (c : Ctx) (fuel : Nat) (IHall : ∀ c, TableMono A B c fuel) (td : TD) (f : Field)
    (h : verifyKind B c fuel td f = .ok ()) : verifyKind A c fuel td f = .ok () := by
  have IH : TableMono A B c fuel := IHall c
  unfold verifyKind at h ⊢
  cases hk : f.kind with
  | nestedTable t a =>
    -- the nested bytes are verified as a buffer of their own, at their own address: the hypothesis for every buffer applies
    simp only [hk] at h ⊢
    refine bind_mono (fun r h => ?_) h
    refine optmatch_mono (fun b h => ?_) r h
    refine bind_mono (fun o h => ?_) h
    refine bind_mono (fun len h => ?_) h
    unfold verifyNestedTable at h ⊢
    refine bind_mono (fun _ h => ?_) h
    exact bind_mono (fun ro h => IHall _ _ _ _ _ h) h
  | nestedStruct s a => simp only [hk] at h ⊢; exact h
  | scalar s a => simp only [hk] at h ⊢; exact h
  | string => simp only [hk] at h ⊢; exact h
  | vector e a m => simp only [hk] at h ⊢; exact h
  | stringVector => simp only [hk] at h ⊢; exact h
  | table t =>
    simp only [hk] at h ⊢
    refine bind_mono (fun r h => ?_) h
    refine optmatch_mono (fun b h => ?_) r h
    exact bind_mono (fun o h => IH _ _ _ _ h) h
  | tableVector t =>
    simp only [hk] at h ⊢
    refine bind_mono (fun r h => ?_) h
    refine optmatch_mono (fun b h => ?_) r h
    refine bind_mono (fun o h => ?_) h
    refine bind_mono (fun _ h => ?_) h
    exact bind_mono (fun n h => tables_mono c fuel IH _ t n _ h) h
  | union u =>
    simp only [hk] at h ⊢
    refine bind_mono (fun vteType h => ?_) h
    by_cases hz : vteType = 0
    · simp only [hz, if_true] at h ⊢; exact h
    · simp only [hz, if_false] at h ⊢
      refine bind_mono (fun _ h => ?_) h
      refine bind_mono (fun vteTable h => ?_) h
      refine bind_mono (fun ty h => ?_) h
      refine bind_mono (fun _ h => ?_) h
      by_cases ht : ty = 0
      · simp only [ht, if_true] at h ⊢; exact h
      · simp only [ht, if_false] at h ⊢
        refine bind_mono (fun r h => ?_) h
        refine optmatch_mono (fun b h => ?_) r h
        exact bind_mono (fun o h => member_mono E c fuel IH u ty b o td.ttl h) h
  | unionVector u =>
    simp only [hk] at h ⊢
    refine bind_mono (fun vteType h => ?_) h
    refine bind_mono (fun _ h => ?_) h
    refine bind_mono (fun rt h => ?_) h
    refine optmatch_mono (fun tb h => ?_) rt h
    refine bind_mono (fun to h => ?_) h
    refine bind_mono (fun count h => ?_) h
    refine bind_mono (fun r h => ?_) h
    refine optmatch_mono (fun b h => ?_) r h
    refine bind_mono (fun o h => ?_) h
    refine bind_mono (fun _ h => ?_) h
    refine bind_mono (fun n h => ?_) h
    refine bind_mono (fun _ h => ?_) h
    exact unions_mono E c fuel IH _ u n _ _ h

/-- a verified field list: every call succeeded (and conversely) -/
theorem fields_all {S : Schema} (c : Ctx) (fuel : Nat) (td : TD) :
    ∀ fs, verifyFields S c fuel td fs = .ok () ↔ ∀ f ∈ fs, verifyKind S c fuel td f = .ok () := by
  intro fs
  induction fs with
  | nil => unfold verifyFields; simp
  | cons f fs ih =>
    unfold verifyFields
    constructor
    · intro h
      obtain ⟨_, h1, h2⟩ := bind_ok h
      intro g hg
      simp only [List.mem_cons] at hg
      rcases hg with rfl | hg
      · exact h1
      · exact (ih.mp h2) g hg
    · intro h
      rw [h f List.mem_cons_self]
      exact ih.mpr (fun g hg => h g (List.mem_cons_of_mem _ hg))

theorem table_mono {A B : Schema} (E : Extends A B) : ∀ fuel c, TableMono A B c fuel := by
  intro fuel
  induction fuel with
  | zero => intro c base offset ttl t h; unfold verifyTable at h; contradiction
  | succ fuel ih =>
    intro c base offset ttl t h
    unfold verifyTable at h ⊢
    refine bind_mono (fun _ h => ?_) h
    refine bind_mono (fun _ h => ?_) h
    refine bind_mono (fun so h => ?_) h
    refine bind_mono (fun _ h => ?_) h
    refine bind_mono (fun _ h => ?_) h
    refine bind_mono (fun _ h => ?_) h
    refine bind_mono (fun vsize h => ?_) h
    refine bind_mono (fun _ h => ?_) h
    refine bind_mono (fun _ h => ?_) h
    refine bind_mono (fun tsize h => ?_) h
    refine bind_mono (fun _ h => ?_) h
    rw [fields_all] at h ⊢
    intro f hf
    exact kind_mono E c fuel ih _ f (h f (E.fields t f hf))

end Flatcc.Verifier
