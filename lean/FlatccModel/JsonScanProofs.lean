import FlatccModel.JsonScan
/-!
# C04 — memory safety, termination and position bounds of the generic JSON scanners (model: JsonScan.lean)

For EVERY byte array `inp`, EVERY start position `i ≤ inp.size` (the callers' contract `buf ≤ end`) and EVERY context `c`
(flags, `unquoted`, an earlier error or none, either build of `space_ext`):

* `space_no_oob`, `spaceExt_no_oob`, `number_no_oob`, `skipConstant_no_oob`, `generic_no_oob`, `unmatchedSymbol_no_oob`,
  `symbolStart/symbolEnd/constantStart/stringStart/stringEnd/stringPart/stringEscape/objectStart/objectEnd/arrayStart/arrayEnd_no_oob`:
  the model never answers `.error .oob`, i.e. no byte outside `[0, size)` is read and the nesting stack of `generic_json` is never
  accessed outside `stack[MAX_NEST]`;
* `*_terminates`: a result exists (`.error .fuel` does not happen either);
* `*_pos_in_range`: the returned position `p` has `i ≤ p ≤ size`; an error recorded by the call has `i ≤ error_loc ≤ size`; an error
  recorded earlier is kept (`InRange`); `setError_spec`: first error wins, `end` is returned;
* `spaceExt_fuel_enough`, `symbolEnd_fuel_enough`, `skipConstant_fuel_enough`, `gString_fuel_enough`, `generic_fuel_enough`,
  `scanWhile_fuel_enough`, `spFastWide_fuel_enough`: with the fuel `size - i + 1` the result is that of any larger fuel;
* `generic_nesting_bounded`, `generic_states_in_range`: every state the `generic_json` state machine runs through (`Reach`,
  tied to the runner by `iter_reach`) has at most `MAX_NEST` stack entries and a position in `[i, size]`.

No `_partial` theorem: the faithful model has no out-of-bounds read. Method: a total-correctness predicate `Sat m Q` on the model
monad with rules for `>>=`, `rd` and the loop runner `iter` (`iter_sat`: invariant + decreasing measure ⇒ ends normally within
`measure + 1` rounds), one `_sat` lemma per C function stating `Post`: position in `[i, size]` and the error discipline `ErrOk`.
-/
namespace Flatcc.JsonScan

/-! ## total-correctness predicate on the model monad -/

/-- `m` ends normally (neither `.oob` nor `.fuel`) with a value satisfying `Q` -/
def Sat {α : Type} (m : M α) (Q : α → Prop) : Prop := ∃ x, m = .ok x ∧ Q x

theorem Sat.pure {α : Type} {Q : α → Prop} {x : α} (h : Q x) : Sat (Except.ok x : M α) Q := ⟨x, rfl, h⟩

theorem Sat.bind {α β : Type} {m : M α} {k : α → M β} {Q : β → Prop}
    (h : Sat m (fun x => Sat (k x) Q)) : Sat (m >>= k) Q := by
  obtain ⟨x, hm, y, hk, hq⟩ := h
  exact ⟨y, by rw [hm]; exact hk, hq⟩

theorem Sat.mono {α : Type} {m : M α} {Q Q' : α → Prop} (h : Sat m Q) (hq : ∀ x, Q x → Q' x) : Sat m Q' := by
  obtain ⟨x, hm, hx⟩ := h
  exact ⟨x, hm, hq x hx⟩

theorem Sat.rd {inp : Array Nat} {i : Nat} {Q : Nat → Prop} (hi : i < inp.size) (h : Q (byteAt inp i)) :
    Sat (rd inp i) Q := by
  unfold JsonScan.rd; rw [if_pos hi]; exact ⟨_, rfl, h⟩

theorem Sat.ne_error {α : Type} {m : M α} {Q : α → Prop} (h : Sat m Q) (e : Err) : m ≠ .error e := by
  obtain ⟨x, hm, _⟩ := h; rw [hm]; intro h; cases h

/-! ## the loop runner -/

def NextP {σ ρ : Type} (A : σ → Prop) (B : ρ → Prop) : Next σ ρ → Prop
  | .cont s => A s
  | .done r => B r

@[simp] theorem NextP_cont {σ ρ : Type} (A : σ → Prop) (B : ρ → Prop) (s : σ) : NextP A B (.cont s) = A s := rfl
@[simp] theorem NextP_done {σ ρ : Type} (A : σ → Prop) (B : ρ → Prop) (r : ρ) : NextP A B (.done r) = B r := rfl

/-- a loop whose every round keeps `Inv` and decreases `μ` ends normally within `μ + 1` rounds -/
theorem iter_sat {σ ρ : Type} (step : σ → M (Next σ ρ)) (μ : σ → Nat) (Inv : σ → Prop) (P : ρ → Prop)
    (h : ∀ s, Inv s → Sat (step s) (NextP (fun s' => Inv s' ∧ μ s' < μ s) P)) :
    ∀ fuel s, Inv s → μ s < fuel → Sat (iter step fuel s) P := by
  intro fuel
  induction fuel with
  | zero => intro s _ h0; omega
  | succ f ih =>
    intro s hi hf
    obtain ⟨x, hx, hq⟩ := h s hi
    unfold iter
    apply Sat.bind
    refine ⟨x, hx, ?_⟩
    cases x with
    | cont s' =>
      simp only [NextP_cont] at hq
      exact ih s' hq.1 (by omega)
    | done r =>
      simp only [NextP_done] at hq
      exact Sat.pure hq

/-- more fuel does not change a normal result -/
theorem iter_mono {σ ρ : Type} (step : σ → M (Next σ ρ)) (f : Nat) (s : σ) (r : ρ) (k : Nat)
    (h : iter step f s = .ok r) : iter step (f + k) s = .ok r := by
  induction f generalizing s with
  | zero => simp [iter] at h
  | succ f ih =>
    have e : f + 1 + k = (f + k) + 1 := by omega
    rw [e]
    unfold iter at h ⊢
    cases hs : step s with
    | error e => rw [hs] at h; cases h
    | ok x =>
      rw [hs] at h
      cases x with
      | cont s' => exact ih s' h
      | done r' => exact h

theorem iter_fuel_enough {σ ρ : Type} (step : σ → M (Next σ ρ)) (f : Nat) (s : σ) (P : ρ → Prop)
    (h : Sat (iter step f s) P) (k : Nat) : iter step (f + k) s = iter step f s := by
  obtain ⟨r, hr, _⟩ := h
  rw [hr]; exact iter_mono step f s r k hr

/-- states reachable from `s0` by rounds of `step` -/
inductive Reach {σ ρ : Type} (step : σ → M (Next σ ρ)) (s0 : σ) : σ → Prop where
  | refl : Reach step s0 s0
  | next {s s' : σ} : Reach step s0 s → step s = .ok (.cont s') → Reach step s0 s'

theorem Reach.inv {σ ρ : Type} {step : σ → M (Next σ ρ)} {μ : σ → Nat} {Inv : σ → Prop} {P : ρ → Prop}
    (h : ∀ s, Inv s → Sat (step s) (NextP (fun s' => Inv s' ∧ μ s' < μ s) P))
    {s0 s : σ} (h0 : Inv s0) (hr : Reach step s0 s) : Inv s := by
  induction hr with
  | refl => exact h0
  | next _ hs ih =>
    obtain ⟨x, hx, hq⟩ := h _ ih
    rw [hs] at hx
    cases hx
    exact hq.1

/-! ## errors: the first one wins and lies inside `[s, n]` -/

/-- relation between the context `c0` at position `s` and a later context `c` -/
def ErrOk (n s : Nat) (c0 c : Ctx) : Prop :=
  (c0.error ≠ 0 → c.error = c0.error ∧ c.errorLoc = c0.errorLoc) ∧
  (c0.error = 0 → c.error ≠ 0 → s ≤ c.errorLoc ∧ c.errorLoc ≤ n)

theorem ErrOk.refl (n s : Nat) (c : Ctx) : ErrOk n s c c := ⟨fun _ => ⟨rfl, rfl⟩, fun h h' => absurd h h'⟩

theorem ErrOk.upd {n s : Nat} {c0 c c' : Ctx} (h : ErrOk n s c0 c) (h1 : c'.error = c.error) (h2 : c'.errorLoc = c.errorLoc) :
    ErrOk n s c0 c' := by
  unfold ErrOk at *; rw [h1, h2]; exact h

theorem ErrOk.setError {n s : Nat} {c0 c : Ctx} (h : ErrOk n s c0 c) {loc : Nat} (h1 : s ≤ loc) (h2 : loc ≤ n) (e : Nat) :
    ErrOk n s c0 (JsonScan.setError c loc n e).2 := by
  unfold JsonScan.setError
  by_cases hc : c.error = 0
  · simp only [hc, if_true]
    refine ⟨fun h0 => ?_, fun _ _ => ⟨h1, h2⟩⟩
    have := (h.1 h0).1; omega
  · simp only [hc, if_false]; exact h

@[simp] theorem setError_fst (c : Ctx) (loc n e : Nat) : (setError c loc n e).1 = n := rfl

/-- what every scanner guarantees, started at `i` (with `s ≤ i` the position where the context was `c0`) -/
def Post (n s : Nat) (c0 : Ctx) (i : Nat) (r : Nat × Ctx) : Prop := i ≤ r.1 ∧ r.1 ≤ n ∧ ErrOk n s c0 r.2

theorem Post.ret {n s i p : Nat} {c0 c : Ctx} (h1 : i ≤ p) (h2 : p ≤ n) (h : ErrOk n s c0 c) : Post n s c0 i (p, c) := ⟨h1, h2, h⟩

theorem Post.err {n s i loc : Nat} {c0 c : Ctx} (hi : i ≤ n) (h1 : s ≤ loc) (h2 : loc ≤ n) (h : ErrOk n s c0 c) (e : Nat) :
    Post n s c0 i (setError c loc n e) := ⟨hi, Nat.le_refl _, h.setError h1 h2 e⟩

theorem Post.weaken {n s i i' : Nat} {c0 : Ctx} {r : Nat × Ctx} (h : Post n s c0 i r) (hi : i' ≤ i) : Post n s c0 i' r :=
  ⟨Nat.le_trans hi h.1, h.2.1, h.2.2⟩

/-! ## `while (buf != end && p(*buf)) ++buf` -/

theorem scanStep_sat (p : Nat → Bool) (inp : Array Nat) (i0 i : Nat) (h : i0 ≤ i ∧ i ≤ inp.size) :
    Sat (scanStep p inp i) (NextP (fun i' => (i0 ≤ i' ∧ i' ≤ inp.size) ∧ inp.size - i' < inp.size - i)
      (fun j => i0 ≤ j ∧ j ≤ inp.size)) := by
  unfold scanStep
  split
  · apply Sat.bind; apply Sat.rd (by omega)
    split
    · apply Sat.pure; simp only [NextP_cont]; omega
    · apply Sat.pure; simp only [NextP_done]; omega
  · apply Sat.pure; simp only [NextP_done]; omega

theorem scanWhileF_sat (p : Nat → Bool) (inp : Array Nat) (i fuel : Nat) (hi : i ≤ inp.size) (hf : inp.size - i < fuel) :
    Sat (scanWhileF p fuel inp i) (fun j => i ≤ j ∧ j ≤ inp.size) :=
  iter_sat (scanStep p inp) (fun i => inp.size - i) (fun i' => i ≤ i' ∧ i' ≤ inp.size) _
    (fun s hs => scanStep_sat p inp i s hs) fuel i ⟨Nat.le_refl _, hi⟩ hf

theorem scanWhile_sat (p : Nat → Bool) (inp : Array Nat) (i : Nat) (hi : i ≤ inp.size) :
    Sat (scanWhile p inp i) (fun j => i ≤ j ∧ j ≤ inp.size) :=
  scanWhileF_sat p inp i _ hi (by omega)

theorem scanWhile_fuel_enough (p : Nat → Bool) (inp : Array Nat) (i : Nat) (hi : i ≤ inp.size) (extra : Nat) :
    scanWhileF p (inp.size - i + 1 + extra) inp i = scanWhile p inp i :=
  iter_fuel_enough _ _ _ _ (scanWhile_sat p inp i hi) extra

theorem scanWhile_progress (p : Nat → Bool) (inp : Array Nat) (i : Nat) (hi : i < inp.size) (hp : p (byteAt inp i) = true) :
    Sat (scanWhile p inp i) (fun j => i < j ∧ j ≤ inp.size) := by
  unfold scanWhile scanWhileF iter
  apply Sat.bind
  unfold scanStep
  rw [if_pos (by omega)]
  apply Sat.bind; apply Sat.rd hi
  rw [if_pos hp]
  apply Sat.pure
  show Sat (iter (scanStep p inp) (inp.size - i) (i + 1)) _
  exact (scanWhileF_sat p inp (i + 1) (inp.size - i) (by omega) (by omega)).mono (fun j hj => by omega)

/-! ## `space_ext`, `space` -/

theorem spFast2_sat (inp : Array Nat) (i : Nat) (hi : i + 1 < inp.size) :
    Sat (spFast2 inp i) (fun r => i ≤ r.1 ∧ r.1 ≤ i + 1 ∧ (byteAt inp i = 32 → r.1 = i + 1)) := by
  unfold spFast2
  apply Sat.bind; apply Sat.rd (by omega)
  apply Sat.bind; apply Sat.rd (by split <;> omega)
  apply Sat.pure
  simp only []
  split <;> omega

theorem spFastDefault_sat (inp : Array Nat) (i : Nat) (hi : i ≤ inp.size) :
    Sat (spFastDefault inp i) (fun r => i ≤ r.1 ∧ r.1 ≤ inp.size ∧ (r.2 = true → r.1 < inp.size)
      ∧ (byteAt inp i = 32 → i < r.1 ∨ (r.1 = i ∧ r.2 = false))) := by
  unfold spFastDefault
  split
  · apply Sat.bind; apply Sat.rd (by omega)
    split
    · rename_i hb
      apply Sat.pure
      refine ⟨Nat.le_refl _, hi, fun _ => by omega, fun h32 => ?_⟩
      rw [h32] at hb; simp [sgt] at hb
    · apply Sat.bind; apply Sat.rd (by omega)
      apply Sat.bind; apply Sat.rd (by omega)
      split
      · exact (spFast2_sat inp (i + 2) (by omega)).mono (fun r hr => by omega)
      · exact (spFast2_sat inp i (by omega)).mono (fun r hr => by omega)
  · apply Sat.pure
    exact ⟨Nat.le_refl _, hi, fun h => (by cases h), fun _ => Or.inr ⟨rfl, rfl⟩⟩

theorem rd16_sat (inp : Array Nat) (i : Nat) (hi : i + 1 < inp.size) : Sat (rd16 inp i) (fun _ => True) := by
  unfold rd16
  apply Sat.bind; apply Sat.rd (by omega)
  apply Sat.bind; apply Sat.rd (by omega)
  apply Sat.pure; trivial

theorem rd32_sat (inp : Array Nat) (i : Nat) (hi : i + 3 < inp.size) : Sat (rd32 inp i) (fun _ => True) := by
  unfold rd32
  apply Sat.bind; apply (rd16_sat inp i (by omega)).mono; intro _ _
  apply Sat.bind; apply (rd16_sat inp (i + 2) (by omega)).mono; intro _ _
  apply Sat.pure; trivial

theorem rd64_sat (inp : Array Nat) (i : Nat) (hi : i + 7 < inp.size) : Sat (rd64 inp i) (fun _ => True) := by
  unfold rd64
  apply Sat.bind; apply (rd32_sat inp i (by omega)).mono; intro _ _
  apply Sat.bind; apply (rd32_sat inp (i + 4) (by omega)).mono; intro _ _
  apply Sat.pure; trivial

theorem spDescend_sat (inp : Array Nat) (i : Nat) (hi : i + 7 < inp.size) :
    Sat (spDescend inp i) (fun r => i ≤ r.1 ∧ r.1 ≤ i + 7 ∧ (byteAt inp i = 32 → i < r.1)) := by
  unfold spDescend
  apply Sat.bind; apply (rd32_sat inp i (by omega)).mono; intro w _
  by_cases hw : w = 0x20202020
  · simp only [hw, if_true]
    apply Sat.bind; apply (rd16_sat inp (i + 4) (by omega)).mono; intro h _
    split
    · exact (spFast2_sat inp (i + 4 + 2) (by omega)).mono (fun r hr => by omega)
    · exact (spFast2_sat inp (i + 4) (by omega)).mono (fun r hr => by omega)
  · simp only [hw, if_false]
    apply Sat.bind; apply (rd16_sat inp i (by omega)).mono; intro h _
    split
    · exact (spFast2_sat inp (i + 2) (by omega)).mono (fun r hr => by omega)
    · exact (spFast2_sat inp i (by omega)).mono (fun r hr => by omega)

theorem spWideStep_sat (inp : Array Nat) (i : Nat) (hi : i ≤ inp.size) :
    Sat (spWideStep inp i) (NextP (fun i' => i' ≤ inp.size ∧ i < i' ∧ inp.size - i' < inp.size - i)
      (fun r => i ≤ r.1 ∧ r.1 ≤ inp.size ∧ (r.2 = true → r.1 < inp.size)
        ∧ (byteAt inp i = 32 → i < r.1 ∨ (r.1 = i ∧ r.2 = false)))) := by
  unfold spWideStep
  split
  · apply Sat.bind; apply Sat.rd (by omega)
    split
    · rename_i hb
      apply Sat.pure; simp only [NextP_done]
      refine ⟨Nat.le_refl _, hi, fun _ => by omega, fun h32 => ?_⟩
      rw [h32] at hb; simp [sgt] at hb
    · apply Sat.bind; apply (rd64_sat inp i (by omega)).mono; intro w0 _
      split
      · apply Sat.bind; apply (spDescend_sat inp i (by omega)).mono; intro r hr
        apply Sat.pure; simp only [NextP_done]
        exact ⟨hr.1, by omega, fun _ => by omega, fun h32 => Or.inl (hr.2.2 h32)⟩
      · apply Sat.bind; apply (rd64_sat inp (i + 8) (by omega)).mono; intro w1 _
        split
        · apply Sat.bind; apply (spDescend_sat inp (i + 8) (by omega)).mono; intro r hr
          apply Sat.pure; simp only [NextP_done]
          exact ⟨by omega, by omega, fun _ => by omega, fun _ => Or.inl (by omega)⟩
        · apply Sat.pure; simp only [NextP_cont]; omega
  · apply Sat.pure
    exact ⟨Nat.le_refl _, hi, fun h => (by cases h), fun _ => Or.inr ⟨rfl, rfl⟩⟩

theorem spFastWideF_sat (inp : Array Nat) (i fuel : Nat) (hi : i ≤ inp.size) (hf : inp.size - i < fuel) :
    Sat (spFastWideF fuel inp i) (fun r => i ≤ r.1 ∧ r.1 ≤ inp.size ∧ (r.2 = true → r.1 < inp.size)
      ∧ (byteAt inp i = 32 → i < r.1 ∨ (r.1 = i ∧ r.2 = false))) := by
  apply iter_sat (spWideStep inp) (fun j => inp.size - j) (fun j => j ≤ inp.size ∧ (j = i ∨ i < j)) _ _ fuel i ⟨hi, Or.inl rfl⟩ hf
  intro j hj
  apply (spWideStep_sat inp j hj.1).mono
  intro x hx
  cases x with
  | cont j' => simp only [NextP_cont] at hx ⊢; omega
  | done r =>
    simp only [NextP_done] at hx ⊢
    rcases hj.2 with rfl | hlt
    · exact hx
    · exact ⟨by omega, hx.2.1, hx.2.2.1, fun _ => Or.inl (by omega)⟩

theorem spFastWide_fuel_enough (inp : Array Nat) (i : Nat) (hi : i ≤ inp.size) (extra : Nat) :
    spFastWideF (inp.size - i + 1 + extra) inp i = spFastWide inp i :=
  iter_fuel_enough _ _ _ _ (spFastWideF_sat inp i _ hi (by omega)) extra

theorem spFast_sat (wide : Bool) (inp : Array Nat) (i : Nat) (hi : i ≤ inp.size) :
    Sat (spFast wide inp i) (fun r => i ≤ r.1 ∧ r.1 ≤ inp.size ∧ (r.2 = true → r.1 < inp.size)
      ∧ (byteAt inp i = 32 → i < r.1 ∨ (r.1 = i ∧ r.2 = false))) := by
  unfold spFast
  split
  · exact spFastWideF_sat inp i _ hi (by omega)
  · exact spFastDefault_sat inp i hi

theorem spHead_sat (wide : Bool) (inp : Array Nat) (i : Nat) (hi : i ≤ inp.size) :
    Sat (spHead wide inp i) (fun r => i ≤ r.1 ∧ r.1 ≤ inp.size ∧ (r.2 = true → r.1 < inp.size)
      ∧ (i < inp.size → byteAt inp i = 32 → i < r.1)) := by
  unfold spHead
  apply Sat.bind
  apply (spFast_sat wide inp i hi).mono
  intro r hr
  split
  · rename_i h2
    apply Sat.pure
    refine ⟨hr.1, hr.2.1, hr.2.2.1, fun _ h32 => ?_⟩
    rcases hr.2.2.2 h32 with h | ⟨_, h⟩
    · exact h
    · rw [h] at h2; cases h2
  · apply Sat.bind
    by_cases he : r.1 = i ∧ i < inp.size ∧ byteAt inp i = 32
    · have hp : isSp (byteAt inp r.1) = true := by rw [he.1]; simp [isSp, he.2.2]
      apply (scanWhile_progress isSp inp r.1 (by omega) hp).mono
      intro j hj
      apply Sat.pure
      exact ⟨by omega, hj.2, fun h => (by cases h), fun _ _ => (by omega)⟩
    · apply (scanWhile_sat isSp inp r.1 hr.2.1).mono
      intro j hj
      apply Sat.pure
      refine ⟨by omega, hj.2, fun h => (by cases h), fun hlt h32 => ?_⟩
      have := hr.2.2.2 h32
      show i < j
      omega

/-- the rounds of the second loop of `space_ext` -/
theorem spWsStep_sat (inp : Array Nat) (st : Nat) (c0 : Ctx) (i0 : Nat) (s : Nat × Ctx)
    (h : i0 ≤ s.1 ∧ s.1 ≤ inp.size ∧ st ≤ i0 ∧ ErrOk inp.size st c0 s.2) :
    Sat (spWsStep inp s)
      (NextP (fun s' => (i0 ≤ s'.1 ∧ s'.1 ≤ inp.size ∧ st ≤ i0 ∧ ErrOk inp.size st c0 s'.2) ∧ inp.size - s'.1 < inp.size - s.1)
        (Post inp.size st c0 i0)) := by
  obtain ⟨h1, h2, h3, h4⟩ := h
  unfold spWsStep
  split
  · apply Sat.bind; apply Sat.rd (by omega)
    split
    · split
      · apply Sat.bind
        have : Sat (spCr inp s.1) (fun j => s.1 ≤ j ∧ j < inp.size) := by
          unfold spCr
          split
          · apply Sat.bind; apply Sat.rd (by omega); apply Sat.pure; split <;> omega
          · apply Sat.pure; omega
        apply this.mono
        intro j hj
        apply Sat.pure
        simp only [NextP_cont]
        exact ⟨⟨by omega, by omega, h3, h4.upd rfl rfl⟩, by omega⟩
      · split
        · apply Sat.pure
          simp only [NextP_cont]
          exact ⟨⟨by omega, by omega, h3, h4.upd rfl rfl⟩, by omega⟩
        · split
          · apply Sat.pure
            simp only [NextP_cont]
            exact ⟨⟨by omega, by omega, h3, h4⟩, by omega⟩
          · split
            · rename_i h32
              apply Sat.bind
              apply (spHead_sat _ inp s.1 h2).mono
              intro r hr
              have hlt := hr.2.2.2 (by omega) h32
              split
              · apply Sat.pure
                simp only [NextP_done]
                exact Post.ret (by omega) hr.2.1 h4
              · apply Sat.pure
                simp only [NextP_cont]
                exact ⟨⟨by omega, hr.2.1, h3, h4⟩, by omega⟩
            · apply Sat.pure
              simp only [NextP_done]
              exact Post.err (by omega) (by omega) h2 h4 _
    · apply Sat.pure
      simp only [NextP_done]
      exact Post.ret h1 h2 h4
  · apply Sat.pure
    simp only [NextP_done]
    exact Post.ret h1 h2 h4

theorem spaceExtF_sat (inp : Array Nat) (st : Nat) (c0 : Ctx) (i : Nat) (c : Ctx) (fuel : Nat)
    (hs : st ≤ i) (hi : i ≤ inp.size) (he : ErrOk inp.size st c0 c) (hf : inp.size - i < fuel) :
    Sat (spaceExtF fuel inp i c) (Post inp.size st c0 i) := by
  unfold spaceExtF
  apply Sat.bind
  apply (spHead_sat _ inp i hi).mono
  intro r hr
  split
  · apply Sat.pure; exact Post.ret hr.1 hr.2.1 he
  · exact (iter_sat (spWsStep inp) (fun s => inp.size - s.1)
      (fun s' => r.1 ≤ s'.1 ∧ s'.1 ≤ inp.size ∧ st ≤ r.1 ∧ ErrOk inp.size st c0 s'.2) _
      (fun s hs' => spWsStep_sat inp st c0 r.1 s hs') fuel (r.1, c)
      ⟨Nat.le_refl _, hr.2.1, by omega, he⟩ (by show inp.size - r.1 < fuel; omega)).mono
      (fun x hx => hx.weaken hr.1)

theorem spaceExt_sat (inp : Array Nat) (st : Nat) (c0 : Ctx) (i : Nat) (c : Ctx)
    (hs : st ≤ i) (hi : i ≤ inp.size) (he : ErrOk inp.size st c0 c) :
    Sat (spaceExt inp i c) (Post inp.size st c0 i) :=
  spaceExtF_sat inp st c0 i c _ hs hi he (by omega)

theorem space_sat (inp : Array Nat) (st : Nat) (c0 : Ctx) (i : Nat) (c : Ctx)
    (hs : st ≤ i) (hi : i ≤ inp.size) (he : ErrOk inp.size st c0 c) :
    Sat (space inp i c) (Post inp.size st c0 i) := by
  unfold space
  split
  · apply Sat.bind; apply Sat.rd (by omega)
    split
    · apply Sat.pure; exact Post.ret (Nat.le_refl _) hi he
    · split
      · apply Sat.bind; apply Sat.rd (by omega)
        split
        · apply Sat.pure; exact Post.ret (by omega) (by omega) he
        · exact spaceExt_sat inp st c0 i c hs hi he
      · exact spaceExt_sat inp st c0 i c hs hi he
  · exact spaceExt_sat inp st c0 i c hs hi he

/-- `Post`, and the position moved if there was anything left -/
def PostS (n s : Nat) (c0 : Ctx) (i : Nat) (r : Nat × Ctx) : Prop := Post n s c0 i r ∧ (i < n → i < r.1)

theorem PostS.err {n s i loc : Nat} {c0 c : Ctx} (hi : i ≤ n) (h1 : s ≤ loc) (h2 : loc ≤ n) (h : ErrOk n s c0 c) (e : Nat) :
    PostS n s c0 i (setError c loc n e) := ⟨Post.err hi h1 h2 h e, fun h => h⟩

theorem PostS.ret {n s i p : Nat} {c0 c : Ctx} (h1 : i < p) (h2 : p ≤ n) (h : ErrOk n s c0 c) : PostS n s c0 i (p, c) :=
  ⟨Post.ret (Nat.le_of_lt h1) h2 h, fun _ => h1⟩

theorem PostS.weaken {n s i i' : Nat} {c0 : Ctx} {r : Nat × Ctx} (h : PostS n s c0 i r) (hi : i' ≤ i) (hn : i ≤ n) :
    PostS n s c0 i' r := by
  refine ⟨h.1.weaken hi, fun hlt => ?_⟩
  have := h.1.1; have := h.1.2.1
  by_cases hc : i < n
  · have := h.2 hc; omega
  · omega

theorem Sat.weaken' {n s i i' : Nat} {c0 : Ctx} {m : M (Nat × Ctx)} (h : Sat m (PostS n s c0 i)) (hi : i' ≤ i ∧ i ≤ n) :
    Sat m (PostS n s c0 i') := h.mono (fun _ hx => hx.weaken hi.1 hi.2)

/-! ## strings -/

theorem stringStart_sat (inp : Array Nat) (st : Nat) (c0 : Ctx) (i : Nat) (c : Ctx)
    (hs : st ≤ i) (hi : i ≤ inp.size) (he : ErrOk inp.size st c0 c) :
    Sat (stringStart inp i c) (PostS inp.size st c0 i) := by
  unfold stringStart
  split
  · apply Sat.pure; exact PostS.err hi hs hi he _
  · apply Sat.bind; apply Sat.rd (by omega)
    split
    · apply Sat.pure; exact PostS.err hi hs hi he _
    · apply Sat.pure; exact PostS.ret (by omega) (by omega) he

theorem stringEnd_sat (inp : Array Nat) (st : Nat) (c0 : Ctx) (i : Nat) (c : Ctx)
    (hs : st ≤ i) (hi : i ≤ inp.size) (he : ErrOk inp.size st c0 c) :
    Sat (stringEnd inp i c) (PostS inp.size st c0 i) := by
  unfold stringEnd
  split
  · apply Sat.pure; exact PostS.err hi hs hi he _
  · apply Sat.bind; apply Sat.rd (by omega)
    split
    · apply Sat.pure; exact PostS.err hi hs hi he _
    · apply Sat.pure; exact PostS.ret (by omega) (by omega) he

theorem stringPart_sat (inp : Array Nat) (st : Nat) (c0 : Ctx) (i : Nat) (c : Ctx)
    (hs : st ≤ i) (hi : i ≤ inp.size) (he : ErrOk inp.size st c0 c) :
    Sat (stringPart inp i c) (Post inp.size st c0 i) := by
  unfold stringPart
  apply Sat.bind
  apply (scanWhile_sat isPlain inp i hi).mono
  intro j hj
  split
  · apply Sat.pure; exact Post.err hi (by omega) hj.2 he _
  · apply Sat.bind; apply Sat.rd (by omega)
    split
    · apply Sat.pure; exact Post.ret hj.1 hj.2 he
    · split
      · apply Sat.pure; exact Post.err hi (by omega) hj.2 he _
      · apply Sat.pure; exact Post.ret hj.1 hj.2 he

theorem decodeHex4_sat (inp : Array Nat) (i : Nat) (hi : i + 3 < inp.size) : Sat (decodeHex4 inp i) (fun _ => True) := by
  unfold decodeHex4
  apply Sat.bind; apply Sat.rd (by omega)
  split
  · apply Sat.pure; trivial
  · apply Sat.bind; apply Sat.rd (by omega)
    split
    · apply Sat.pure; trivial
    · apply Sat.bind; apply Sat.rd (by omega)
      split
      · apply Sat.pure; trivial
      · apply Sat.bind; apply Sat.rd (by omega)
        split
        · apply Sat.pure; trivial
        · apply Sat.pure; trivial

theorem escX_sat (inp : Array Nat) (st : Nat) (c0 : Ctx) (i : Nat) (c : Ctx)
    (hs : st ≤ i) (hi : i ≤ inp.size) (he : ErrOk inp.size st c0 c) :
    Sat (escX inp i c) (PostS inp.size st c0 i) := by
  unfold escX
  split
  · apply Sat.pure; exact PostS.err hi hs hi he _
  · apply Sat.bind; apply Sat.rd (by omega)
    split
    · apply Sat.pure; exact PostS.err hi hs hi he _
    · apply Sat.bind; apply Sat.rd (by omega)
      split
      · apply Sat.pure; exact PostS.err hi hs hi he _
      · apply Sat.pure; exact PostS.ret (by omega) (by omega) he

theorem escPair_sat (inp : Array Nat) (st : Nat) (c0 : Ctx) (i : Nat) (c : Ctx) (u : Nat)
    (hs : st ≤ i) (hi : i + 6 ≤ inp.size) (he : ErrOk inp.size st c0 c) :
    Sat (escPair inp i c u) (PostS inp.size st c0 i) := by
  unfold escPair
  split
  · apply Sat.bind; apply Sat.rd (by omega)
    split
    · apply Sat.pure; exact PostS.ret (by omega) (by omega) he
    · apply Sat.bind; apply Sat.rd (by omega)
      split
      · apply Sat.pure; exact PostS.ret (by omega) (by omega) he
      · apply Sat.bind
        apply (decodeHex4_sat inp (i + 8) (by omega)).mono
        intro u2 _
        split
        · split
          · apply Sat.pure; exact PostS.err (by omega) hs (by omega) he _
          · apply Sat.pure; exact PostS.ret (by omega) (by omega) he
        · apply Sat.pure; exact PostS.ret (by omega) (by omega) he
  · apply Sat.pure; exact PostS.ret (by omega) (by omega) he

theorem escU_sat (inp : Array Nat) (st : Nat) (c0 : Ctx) (i : Nat) (c : Ctx)
    (hs : st ≤ i) (hi : i ≤ inp.size) (he : ErrOk inp.size st c0 c) :
    Sat (escU inp i c) (PostS inp.size st c0 i) := by
  unfold escU
  split
  · apply Sat.pure; exact PostS.err hi hs hi he _
  · apply Sat.bind
    apply (decodeHex4_sat inp (i + 2) (by omega)).mono
    intro u _
    split
    · apply Sat.pure; exact PostS.err hi hs hi he _
    · exact escPair_sat inp st c0 i c _ hs (by omega) he

theorem stringEscape_sat (inp : Array Nat) (st : Nat) (c0 : Ctx) (i : Nat) (c : Ctx)
    (hs : st ≤ i) (hi : i ≤ inp.size) (he : ErrOk inp.size st c0 c) :
    Sat (stringEscape inp i c) (PostS inp.size st c0 i) := by
  unfold stringEscape
  split
  · apply Sat.pure; exact PostS.err hi hs hi he _
  · apply Sat.bind; apply Sat.rd (by omega)
    split
    · apply Sat.pure; exact PostS.err hi hs hi he _
    · apply Sat.bind; apply Sat.rd (by omega)
      split
      · exact escX_sat inp st c0 i c hs hi he
      · split
        · exact escU_sat inp st c0 i c hs hi he
        · split
          · apply Sat.pure; exact PostS.ret (by omega) (by omega) he
          · apply Sat.pure; exact PostS.err hi hs hi he _

/-! ## symbols -/

theorem symbolStart_sat (inp : Array Nat) (st : Nat) (c0 : Ctx) (i : Nat) (c : Ctx)
    (hs : st ≤ i) (hi : i ≤ inp.size) (he : ErrOk inp.size st c0 c) :
    Sat (symbolStart inp i c) (Post inp.size st c0 i) := by
  unfold symbolStart
  split
  · apply Sat.pure; exact Post.ret (Nat.le_refl _) hi he
  · apply Sat.bind; apply Sat.rd (by omega)
    split
    · apply Sat.pure; exact Post.ret (by omega) (by omega) (he.upd rfl rfl)
    · split
      · apply Sat.pure; exact Post.err hi hs hi he _
      · apply Sat.pure; exact Post.ret (Nat.le_refl _) hi (he.upd rfl rfl)

theorem symUnqStep_sat (inp : Array Nat) (i0 : Nat) (s : Nat × Nat) (h : i0 ≤ s.1 ∧ s.1 ≤ inp.size) :
    Sat (symUnqStep inp s) (NextP (fun s' => (i0 ≤ s'.1 ∧ s'.1 ≤ inp.size) ∧ inp.size - s'.1 < inp.size - s.1)
      (fun r => i0 ≤ r.1 ∧ r.1 ≤ inp.size)) := by
  unfold symUnqStep
  split
  · apply Sat.bind; apply Sat.rd (by omega)
    split
    · split
      · apply Sat.pure; simp only [NextP_cont]; omega
      · apply Sat.pure; simp only [NextP_done]; omega
    · apply Sat.pure; simp only [NextP_done]; omega
  · apply Sat.pure; simp only [NextP_done]; omega

theorem symQStep_sat (inp : Array Nat) (i0 : Nat) (i : Nat) (h : i0 ≤ i ∧ i ≤ inp.size) :
    Sat (symQStep inp i) (NextP (fun i' => (i0 ≤ i' ∧ i' ≤ inp.size) ∧ inp.size - i' < inp.size - i)
      (fun j => i0 ≤ j ∧ j ≤ inp.size)) := by
  unfold symQStep
  split
  · apply Sat.bind; apply Sat.rd (by omega)
    split
    · split
      · split
        · apply Sat.pure; simp only [NextP_done]; omega
        · apply Sat.pure; simp only [NextP_cont]; omega
      · apply Sat.pure; simp only [NextP_cont]; omega
    · apply Sat.pure; simp only [NextP_done]; omega
  · apply Sat.pure; simp only [NextP_done]; omega

theorem symbolEndF_sat (inp : Array Nat) (st : Nat) (c0 : Ctx) (i : Nat) (c : Ctx) (fuel : Nat)
    (hs : st ≤ i) (hi : i ≤ inp.size) (he : ErrOk inp.size st c0 c) (hf : inp.size - i < fuel) :
    Sat (symbolEndF fuel inp i c) (Post inp.size st c0 i) := by
  unfold symbolEndF
  split
  · apply Sat.bind
    apply (iter_sat (symUnqStep inp) (fun s => inp.size - s.1) (fun s' => i ≤ s'.1 ∧ s'.1 ≤ inp.size) _
      (fun s hs' => symUnqStep_sat inp i s hs') fuel (i, 0) ⟨Nat.le_refl _, hi⟩ hf).mono
    intro r hr
    split
    · apply Sat.pure; exact Post.err hi (by omega) hr.2 he _
    · apply Sat.pure; exact Post.ret hr.1 hr.2 he
  · apply Sat.bind
    apply (iter_sat (symQStep inp) (fun s => inp.size - s) (fun s' => i ≤ s' ∧ s' ≤ inp.size) _
      (fun s hs' => symQStep_sat inp i s hs') fuel i ⟨Nat.le_refl _, hi⟩ hf).mono
    intro j hj
    split
    · apply Sat.pure; exact Post.err hi (by omega) hj.2 he _
    · apply Sat.bind; apply Sat.rd (by omega)
      split
      · apply Sat.pure; exact Post.err hi (by omega) hj.2 he _
      · apply Sat.pure; exact Post.ret (by omega) (by omega) he

theorem symbolEnd_sat (inp : Array Nat) (st : Nat) (c0 : Ctx) (i : Nat) (c : Ctx)
    (hs : st ≤ i) (hi : i ≤ inp.size) (he : ErrOk inp.size st c0 c) :
    Sat (symbolEnd inp i c) (Post inp.size st c0 i) :=
  symbolEndF_sat inp st c0 i c _ hs hi he (by omega)

theorem constantStart_sat (inp : Array Nat) (st : Nat) (c0 : Ctx) (i : Nat) (c : Ctx)
    (hs : st ≤ i) (hi : i ≤ inp.size) (he : ErrOk inp.size st c0 c) :
    Sat (constantStart inp i c) (Post inp.size st c0 i) := by
  unfold constantStart
  apply Sat.bind
  apply (symbolStart_sat inp st c0 i c hs hi he).mono
  intro r hr
  split
  · exact (space_sat inp st c0 r.1 r.2 (by have := hr.1; omega) hr.2.1 hr.2.2).mono (fun x hx => hx.weaken hr.1)
  · exact Sat.pure hr

/-! ## objects and arrays -/

theorem groupStart_sat (opn cls err : Nat) (inp : Array Nat) (st : Nat) (c0 : Ctx) (i : Nat) (c : Ctx)
    (hs : st ≤ i) (hi : i ≤ inp.size) (he : ErrOk inp.size st c0 c) :
    Sat (groupStart opn cls err inp i c) (fun r => Post inp.size st c0 i (r.1, r.2.1)) := by
  unfold groupStart
  split
  · apply Sat.pure; exact Post.err hi hs hi he _
  · apply Sat.bind; apply Sat.rd (by omega)
    split
    · apply Sat.pure; exact Post.err hi hs hi he _
    · apply Sat.bind
      apply (space_sat inp st c0 (i + 1) c (by omega) (by omega) he).mono
      intro r hr
      have h1 := hr.1; have h2 := hr.2.1
      split
      · apply Sat.bind; apply Sat.rd (by omega)
        split
        · apply Sat.bind
          apply (space_sat inp st c0 (r.1 + 1) r.2 (by omega) (by omega) hr.2.2).mono
          intro r2 hr2
          apply Sat.pure; exact Post.ret (by have := hr2.1; omega) hr2.2.1 hr2.2.2
        · apply Sat.pure; exact Post.ret (by omega) h2 hr.2.2
      · apply Sat.pure; exact Post.ret (by omega) h2 hr.2.2

theorem groupEnd_sat (cls err : Nat) (inp : Array Nat) (st : Nat) (c0 : Ctx) (i : Nat) (c : Ctx)
    (hs : st ≤ i) (hi : i ≤ inp.size) (he : ErrOk inp.size st c0 c) :
    Sat (groupEnd cls err inp i c) (fun r => PostS inp.size st c0 i (r.1, r.2.1)) := by
  unfold groupEnd
  apply Sat.bind
  apply (space_sat inp st c0 i c hs hi he).mono
  intro r hr
  have h1 := hr.1; have h2 := hr.2.1
  split
  · rename_i hn
    apply Sat.pure
    exact ⟨Post.ret h1 h2 hr.2.2, fun hlt => by show i < r.1; omega⟩
  · apply Sat.bind; apply Sat.rd (by omega)
    split
    · split
      · apply Sat.pure; exact PostS.err hi (by omega) h2 hr.2.2 _
      · apply Sat.bind
        apply (space_sat inp st c0 (r.1 + 1) r.2 (by omega) (by omega) hr.2.2).mono
        intro r2 hr2
        apply Sat.pure; exact PostS.ret (by have := hr2.1; omega) hr2.2.1 hr2.2.2
    · apply Sat.bind
      apply (space_sat inp st c0 (r.1 + 1) r.2 (by omega) (by omega) hr.2.2).mono
      intro r2 hr2
      have h3 := hr2.1; have h4 := hr2.2.1
      split
      · apply Sat.pure; exact PostS.err hi (by omega) h4 hr2.2.2 _
      · apply Sat.bind; apply Sat.rd (by omega)
        split
        · apply Sat.bind
          apply (space_sat inp st c0 (r2.1 + 1) r2.2 (by omega) (by omega) hr2.2.2).mono
          intro r3 hr3
          apply Sat.pure; exact PostS.ret (by have := hr3.1; omega) hr3.2.1 hr3.2.2
        · apply Sat.pure; exact PostS.ret (by omega) h4 hr2.2.2

/-! ## `skip_constant` -/

theorem skipConstStep_sat (inp : Array Nat) (st : Nat) (c0 : Ctx) (i0 : Nat) (s : Nat × Ctx)
    (h : i0 ≤ s.1 ∧ s.1 ≤ inp.size ∧ st ≤ i0 ∧ ErrOk inp.size st c0 s.2) :
    Sat (skipConstStep inp s)
      (NextP (fun s' => (i0 ≤ s'.1 ∧ s'.1 ≤ inp.size ∧ st ≤ i0 ∧ ErrOk inp.size st c0 s'.2) ∧ inp.size - s'.1 < inp.size - s.1)
        (Post inp.size st c0 i0)) := by
  obtain ⟨h1, h2, h3, h4⟩ := h
  unfold skipConstStep
  split
  · apply Sat.bind; apply Sat.rd (by omega)
    split
    · apply Sat.pure
      simp only [NextP_cont]
      exact ⟨⟨by omega, by omega, h3, h4⟩, by omega⟩
    · apply Sat.bind
      apply (space_sat inp st c0 s.1 s.2 (by omega) h2 h4).mono
      intro r hr
      have h5 := hr.1; have h6 := hr.2.1
      split
      · apply Sat.pure
        simp only [NextP_done]
        exact hr.weaken h1
      · apply Sat.pure
        simp only [NextP_cont]
        exact ⟨⟨by omega, h6, h3, hr.2.2⟩, by omega⟩
  · apply Sat.pure
    simp only [NextP_done]
    exact Post.ret h1 h2 h4

theorem skipConstantF_sat (inp : Array Nat) (st : Nat) (c0 : Ctx) (i : Nat) (c : Ctx) (fuel : Nat)
    (hs : st ≤ i) (hi : i ≤ inp.size) (he : ErrOk inp.size st c0 c) (hf : inp.size - i < fuel) :
    Sat (skipConstantF fuel inp i c) (Post inp.size st c0 i) :=
  iter_sat (skipConstStep inp) (fun s => inp.size - s.1)
    (fun s' => i ≤ s'.1 ∧ s'.1 ≤ inp.size ∧ st ≤ i ∧ ErrOk inp.size st c0 s'.2) _
    (fun s hs' => skipConstStep_sat inp st c0 i s hs') fuel (i, c) ⟨Nat.le_refl _, hi, hs, he⟩ hf

theorem skipConstant_sat (inp : Array Nat) (st : Nat) (c0 : Ctx) (i : Nat) (c : Ctx)
    (hs : st ≤ i) (hi : i ≤ inp.size) (he : ErrOk inp.size st c0 c) :
    Sat (skipConstant inp i c) (Post inp.size st c0 i) :=
  skipConstantF_sat inp st c0 i c _ hs hi he (by omega)

/-! ## `__flatcc_json_parser_number` -/

theorem numTail_sat (inp : Array Nat) (st : Nat) (c0 : Ctx) (i : Nat) (c : Ctx)
    (hs : st ≤ i) (hi : i ≤ inp.size) (he : ErrOk inp.size st c0 c) :
    Sat (numTail inp i c) (Post inp.size st c0 i) := by
  unfold numTail
  split
  · apply Sat.bind; apply Sat.rd (by omega)
    split
    · apply Sat.pure; exact Post.ret (Nat.le_refl _) hi he
    · apply Sat.pure; exact Post.err hi hs hi he _
  · apply Sat.pure; exact Post.err hi hs hi he _

theorem numExp2_sat (inp : Array Nat) (st : Nat) (c0 : Ctx) (i : Nat) (c : Ctx)
    (hs : st ≤ i) (hi : i ≤ inp.size) (he : ErrOk inp.size st c0 c) :
    Sat (numExp2 inp i c) (Post inp.size st c0 i) := by
  unfold numExp2
  split
  · apply Sat.pure; exact Post.err hi hs hi he _
  · apply Sat.bind; apply Sat.rd (by omega)
    have key : ∀ i2, i ≤ i2 → i2 ≤ inp.size →
        Sat (if i2 = inp.size then Except.ok (setError c i2 inp.size E_invalid_numeric) else
          rd inp i2 >>= fun d =>
          if (slt d 48 || sgt d 57) = true then Except.ok (setError c i2 inp.size E_invalid_numeric) else
          scanWhile isDigit inp (i2 + 1) >>= fun j => numTail inp j c) (Post inp.size st c0 i) := by
      intro i2 h1 h2
      split
      · apply Sat.pure; exact Post.err hi (by omega) h2 he _
      · apply Sat.bind; apply Sat.rd (by omega)
        split
        · apply Sat.pure; exact Post.err hi (by omega) h2 he _
        · apply Sat.bind
          apply (scanWhile_sat isDigit inp (i2 + 1) (by omega)).mono
          intro j hj
          exact (numTail_sat inp st c0 j c (by omega) hj.2 he).mono (fun x hx => hx.weaken (by omega))
    split
    · exact key (i + 1) (by omega) (by omega)
    · exact key i (Nat.le_refl _) hi

theorem numExp_sat (inp : Array Nat) (st : Nat) (c0 : Ctx) (i : Nat) (c : Ctx)
    (hs : st ≤ i) (hi : i ≤ inp.size) (he : ErrOk inp.size st c0 c) :
    Sat (numExp inp i c) (Post inp.size st c0 i) := by
  unfold numExp
  split
  · apply Sat.bind; apply Sat.rd (by omega)
    split
    · exact (numExp2_sat inp st c0 (i + 1) c (by omega) (by omega) he).mono (fun x hx => hx.weaken (by omega))
    · exact numTail_sat inp st c0 i c hs hi he
  · exact numTail_sat inp st c0 i c hs hi he

theorem numFrac_sat (inp : Array Nat) (st : Nat) (c0 : Ctx) (i : Nat) (c : Ctx)
    (hs : st ≤ i) (hi : i ≤ inp.size) (he : ErrOk inp.size st c0 c) :
    Sat (numFrac inp i c) (Post inp.size st c0 i) := by
  unfold numFrac
  split
  · apply Sat.bind; apply Sat.rd (by omega)
    split
    · split
      · apply Sat.pure; exact Post.err hi (by omega) (by omega) he _
      · apply Sat.bind; apply Sat.rd (by omega)
        split
        · apply Sat.pure; exact Post.err hi (by omega) (by omega) he _
        · apply Sat.bind
          apply (scanWhile_sat isDigit inp (i + 2) (by omega)).mono
          intro j hj
          exact (numExp_sat inp st c0 j c (by omega) hj.2 he).mono (fun x hx => hx.weaken (by omega))
    · exact numExp_sat inp st c0 i c hs hi he
  · exact numExp_sat inp st c0 i c hs hi he

theorem numInt_sat (inp : Array Nat) (st : Nat) (c0 : Ctx) (i : Nat) (c : Ctx)
    (hs : st ≤ i) (hi : i < inp.size) (he : ErrOk inp.size st c0 c) :
    Sat (numInt inp i c) (PostS inp.size st c0 i) := by
  unfold numInt
  apply Sat.bind; apply Sat.rd hi
  split
  · apply (numFrac_sat inp st c0 (i + 1) c (by omega) (by omega) he).mono
    intro x hx
    exact ⟨hx.weaken (by omega), fun _ => by have := hx.1; omega⟩
  · split
    · apply Sat.pure; exact PostS.err (by omega) hs (by omega) he _
    · apply Sat.bind
      apply (scanWhile_sat isDigit inp (i + 1) (by omega)).mono
      intro j hj
      apply (numFrac_sat inp st c0 j c (by omega) hj.2 he).mono
      intro x hx
      exact ⟨hx.weaken (by omega), fun _ => by have := hx.1; omega⟩

theorem number_sat (inp : Array Nat) (st : Nat) (c0 : Ctx) (i : Nat) (c : Ctx)
    (hs : st ≤ i) (hi : i ≤ inp.size) (he : ErrOk inp.size st c0 c) :
    Sat (number inp i c) (PostS inp.size st c0 i) := by
  unfold number
  split
  · apply Sat.pure; exact ⟨Post.ret (Nat.le_refl _) hi he, fun h => by omega⟩
  · apply Sat.bind; apply Sat.rd (by omega)
    split
    · split
      · apply Sat.pure; exact PostS.err hi (by omega) (by omega) he _
      · exact (numInt_sat inp st c0 (i + 1) c (by omega) (by omega) he).weaken' (by omega)
    · exact numInt_sat inp st c0 i c hs (by omega) he

/-! ## `generic_json` -/

theorem peek_sat (stk : List Nat) (h : stk.length ≠ 0) : Sat (peek stk) (fun _ => True) := by
  cases stk with
  | nil => simp at h
  | cons t r => exact ⟨t, rfl, trivial⟩

theorem push_sat (stk : List Nat) (v : Nat) (h : stk.length < MAX_NEST) :
    Sat (push stk v) (fun s' => s'.length = stk.length + 1) := by
  unfold push; rw [if_pos h]; exact ⟨_, rfl, by simp⟩

theorem gStrStep_sat (inp : Array Nat) (st : Nat) (c0 : Ctx) (i0 : Nat) (s : Nat × Ctx)
    (h : i0 ≤ s.1 ∧ s.1 ≤ inp.size ∧ st ≤ i0 ∧ ErrOk inp.size st c0 s.2) :
    Sat (gStrStep inp s)
      (NextP (fun s' => (i0 ≤ s'.1 ∧ s'.1 ≤ inp.size ∧ st ≤ i0 ∧ ErrOk inp.size st c0 s'.2) ∧ inp.size - s'.1 < inp.size - s.1)
        (Post inp.size st c0 i0)) := by
  obtain ⟨h1, h2, h3, h4⟩ := h
  unfold gStrStep
  split
  · apply Sat.bind; apply Sat.rd (by omega)
    split
    · apply Sat.bind
      apply (stringPart_sat inp st c0 s.1 s.2 (by omega) h2 h4).mono
      intro r hr
      have h5 := hr.1; have h6 := hr.2.1
      have esc : Sat (stringEscape inp r.1 r.2 >>= fun r2 => Except.ok (Next.cont r2))
          (NextP (fun s' => (i0 ≤ s'.1 ∧ s'.1 ≤ inp.size ∧ st ≤ i0 ∧ ErrOk inp.size st c0 s'.2) ∧ inp.size - s'.1 < inp.size - s.1)
            (Post inp.size st c0 i0)) := by
        apply Sat.bind
        apply (stringEscape_sat inp st c0 r.1 r.2 (by omega) h6 hr.2.2).mono
        intro r2 hr2
        have h7 := hr2.1.1; have h8 := hr2.1.2.1; have h9 := hr2.2
        apply Sat.pure
        simp only [NextP_cont]
        refine ⟨⟨by omega, h8, h3, hr2.1.2.2⟩, ?_⟩
        by_cases hc : r.1 < inp.size
        · have := h9 hc; omega
        · omega
      split
      · apply Sat.bind; apply Sat.rd (by omega)
        split
        · apply Sat.pure
          simp only [NextP_done]
          exact hr.weaken h1
        · exact esc
      · exact esc
    · apply Sat.pure
      simp only [NextP_done]
      exact Post.ret h1 h2 h4
  · apply Sat.pure
    simp only [NextP_done]
    exact Post.ret h1 h2 h4

theorem gStringF_sat (inp : Array Nat) (st : Nat) (c0 : Ctx) (i : Nat) (c : Ctx) (fuel : Nat)
    (hs : st ≤ i) (hi : i ≤ inp.size) (he : ErrOk inp.size st c0 c) (hf : inp.size - i < fuel) :
    Sat (gStringF fuel inp i c) (PostS inp.size st c0 i) := by
  unfold gStringF
  apply Sat.bind
  apply (stringStart_sat inp st c0 i c hs hi he).mono
  intro r hr
  have h1 := hr.1.1; have h2 := hr.1.2.1; have h3 := hr.2
  apply Sat.bind
  apply (iter_sat (gStrStep inp) (fun s => inp.size - s.1)
    (fun s' => r.1 ≤ s'.1 ∧ s'.1 ≤ inp.size ∧ st ≤ r.1 ∧ ErrOk inp.size st c0 s'.2) _
    (fun s hs' => gStrStep_sat inp st c0 r.1 s hs') fuel r
    ⟨Nat.le_refl _, h2, by omega, hr.1.2.2⟩ (by show inp.size - r.1 < fuel; omega)).mono
  intro r2 hr2
  have h4 := hr2.1; have h5 := hr2.2.1
  apply (stringEnd_sat inp st c0 r2.1 r2.2 (by omega) h5 hr2.2.2).mono
  intro r3 hr3
  have h6 := hr3.1.1
  exact ⟨⟨by omega, hr3.1.2.1, hr3.1.2.2⟩, fun hlt => by have := h3 hlt; omega⟩

theorem gString_sat (inp : Array Nat) (st : Nat) (c0 : Ctx) (i : Nat) (c : Ctx)
    (hs : st ≤ i) (hi : i ≤ inp.size) (he : ErrOk inp.size st c0 c) :
    Sat (gString inp i c) (PostS inp.size st c0 i) :=
  gStringF_sat inp st c0 i c _ hs hi he (by omega)

/-- invariant of the state machine of `generic_json` started at `i0` -/
def GInv (inp : Array Nat) (st : Nat) (c0 : Ctx) (i0 : Nat) (s : GState) : Prop :=
  i0 ≤ s.i ∧ s.i ≤ inp.size ∧ st ≤ i0 ∧ ErrOk inp.size st c0 s.c ∧ s.stk.length ≤ MAX_NEST

theorem gField_sat (inp : Array Nat) (st : Nat) (c0 : Ctx) (i : Nat) (c : Ctx)
    (hs : st ≤ i) (hi : i ≤ inp.size) (he : ErrOk inp.size st c0 c) :
    Sat (gField inp i c) (NextP (fun r => Post inp.size st c0 i r ∧ r.1 < inp.size) (Post inp.size st c0 i)) := by
  unfold gField
  apply Sat.bind
  apply (symbolStart_sat inp st c0 i c hs hi he).mono
  intro r1 hr1
  have a1 := hr1.1; have a2 := hr1.2.1
  apply Sat.bind
  apply (symbolEnd_sat inp st c0 r1.1 r1.2 (by omega) a2 hr1.2.2).mono
  intro r2 hr2
  have b1 := hr2.1; have b2 := hr2.2.1
  apply Sat.bind
  apply (space_sat inp st c0 r2.1 r2.2 (by omega) b2 hr2.2.2).mono
  intro r3 hr3
  have d1 := hr3.1; have d2 := hr3.2.1
  split
  · apply Sat.pure; simp only [NextP_done]; exact Post.err hi (by omega) d2 hr3.2.2 _
  · apply Sat.bind; apply Sat.rd (by omega)
    split
    · apply Sat.pure; simp only [NextP_done]; exact Post.err hi (by omega) d2 hr3.2.2 _
    · apply Sat.bind
      apply (space_sat inp st c0 (r3.1 + 1) r3.2 (by omega) (by omega) hr3.2.2).mono
      intro r4 hr4
      have e1 := hr4.1; have e2 := hr4.2.1
      split
      · apply Sat.pure; simp only [NextP_done]; exact Post.err hi (by omega) e2 hr4.2.2 _
      · apply Sat.pure; simp only [NextP_cont]
        exact ⟨⟨by omega, e2, hr4.2.2⟩, by omega⟩

theorem gOpen_sat (inp : Array Nat) (st : Nat) (c0 : Ctx) (i0 i : Nat) (stk : List Nat) (c : Ctx) (cls : Nat)
    (hs : st ≤ i0) (h0 : i0 ≤ i) (hi : i < inp.size) (he : ErrOk inp.size st c0 c) (hk : stk.length ≤ MAX_NEST) :
    Sat (gOpen inp i stk c cls) (NextP (fun s' => GInv inp st c0 i0 s' ∧ i < s'.i) (Post inp.size st c0 i0)) := by
  unfold gOpen
  split
  · apply Sat.pure; simp only [NextP_done]; exact Post.err (by omega) (by omega) (by omega) he _
  · apply Sat.bind
    apply (push_sat stk cls (by omega)).mono
    intro stk' hstk
    apply Sat.bind
    apply (space_sat inp st c0 (i + 1) c (by omega) (by omega) he).mono
    intro r hr
    have a1 := hr.1; have a2 := hr.2.1
    have hk' : stk'.length ≤ MAX_NEST := by omega
    split
    · apply Sat.bind; apply Sat.rd (by omega)
      split
      · apply Sat.pure; simp only [NextP_cont]
        exact ⟨⟨by show i0 ≤ r.1; omega, a2, hs, hr.2.2, hk'⟩, by show i < r.1; omega⟩
      · apply Sat.pure; simp only [NextP_cont]
        exact ⟨⟨by show i0 ≤ r.1; omega, a2, hs, hr.2.2, hk'⟩, by show i < r.1; omega⟩
    · apply Sat.pure; simp only [NextP_cont]
      exact ⟨⟨by show i0 ≤ r.1; omega, a2, hs, hr.2.2, hk'⟩, by show i < r.1; omega⟩

theorem gSwitch_sat (inp : Array Nat) (st : Nat) (c0 : Ctx) (i0 i : Nat) (stk : List Nat) (c : Ctx)
    (hs : st ≤ i0) (h0 : i0 ≤ i) (hi : i < inp.size) (he : ErrOk inp.size st c0 c) (hk : stk.length ≤ MAX_NEST) :
    Sat (gSwitch inp i stk c) (NextP (fun s' => GInv inp st c0 i0 s' ∧ i < s'.i) (Post inp.size st c0 i0)) := by
  unfold gSwitch
  apply Sat.bind; apply Sat.rd hi
  split
  · apply Sat.bind
    apply (gString_sat inp st c0 i c (by omega) (by omega) he).mono
    intro r hr
    have a1 := hr.2 hi; have a2 := hr.1.2.1
    apply Sat.pure; simp only [NextP_cont]
    exact ⟨⟨by show i0 ≤ r.1; omega, a2, hs, hr.1.2.2, hk⟩, a1⟩
  · split
    · apply Sat.bind
      apply (number_sat inp st c0 i c (by omega) (by omega) he).mono
      intro r hr
      have a1 := hr.2 hi; have a2 := hr.1.2.1
      apply Sat.pure; simp only [NextP_cont]
      exact ⟨⟨by show i0 ≤ r.1; omega, a2, hs, hr.1.2.2, hk⟩, a1⟩
    · split
      · exact gOpen_sat inp st c0 i0 i stk c 93 hs h0 hi he hk
      · split
        · exact gOpen_sat inp st c0 i0 i stk c 125 hs h0 hi he hk
        · apply Sat.bind
          apply (skipConstant_sat inp st c0 i c (by omega) (by omega) he).mono
          intro r hr
          have a1 := hr.1; have a2 := hr.2.1
          split
          · apply Sat.pure; simp only [NextP_done]
            exact Post.err (by omega) (by omega) a2 hr.2.2 _
          · apply Sat.pure; simp only [NextP_cont]
            exact ⟨⟨by show i0 ≤ r.1; omega, a2, hs, hr.2.2, hk⟩, by show i < r.1; omega⟩

theorem gAgain_sat (inp : Array Nat) (st : Nat) (c0 : Ctx) (i0 i : Nat) (stk : List Nat) (c : Ctx)
    (hs : st ≤ i0) (h0 : i0 ≤ i) (hi : i ≤ inp.size) (he : ErrOk inp.size st c0 c) (hk : stk.length ≤ MAX_NEST) :
    Sat (gAgain inp i stk c) (NextP (fun s' => GInv inp st c0 i0 s' ∧ i < s'.i) (Post inp.size st c0 i0)) := by
  unfold gAgain
  split
  · apply Sat.pure; simp only [NextP_done]; exact Post.ret h0 hi he
  · split
    · rename_i hne
      apply Sat.bind
      apply (peek_sat stk hne).mono
      intro t _
      split
      · apply Sat.bind
        apply (gField_sat inp st c0 i c (by omega) hi he).mono
        intro x hx
        cases x with
        | cont r =>
          simp only [NextP_cont] at hx
          have a1 := hx.1.1
          apply (gSwitch_sat inp st c0 i0 r.1 stk r.2 hs (by omega) hx.2 hx.1.2.2 hk).mono
          intro y hy
          cases y with
          | cont s' => simp only [NextP_cont] at hy ⊢; exact ⟨hy.1, by omega⟩
          | done r' => simp only [NextP_done] at hy ⊢; exact hy
        | done r =>
          simp only [NextP_done] at hx
          apply Sat.pure; simp only [NextP_done]; exact hx.weaken h0
      · exact gSwitch_sat inp st c0 i0 i stk c hs h0 (by omega) he hk
    · exact gSwitch_sat inp st c0 i0 i stk c hs h0 (by omega) he hk

theorem gClose_sat (inp : Array Nat) (st : Nat) (c0 : Ctx) (i0 i : Nat) (stk : List Nat) (c : Ctx)
    (hs : st ≤ i0) (h0 : i0 ≤ i) (hi : i ≤ inp.size) (he : ErrOk inp.size st c0 c) (hk : stk.length ≤ MAX_NEST) :
    Sat (gClose inp i stk c) (NextP (fun s' => GInv inp st c0 i0 s' ∧ i < s'.i) (Post inp.size st c0 i0)) := by
  unfold gClose
  have htl : stk.tail.length ≤ MAX_NEST := by
    cases stk with
    | nil => simp
    | cons a b => simp at hk ⊢; omega
  split
  · rename_i hc
    apply Sat.bind
    apply (peek_sat stk hc.2).mono
    intro t _
    apply Sat.bind
    have : Sat (if t = 93 then arrayEnd inp i c else objectEnd inp i c)
        (fun r => PostS inp.size st c0 i (r.1, r.2.1)) := by
      split
      · exact groupEnd_sat 93 E_unbalanced_array inp st c0 i c (by omega) hi he
      · exact groupEnd_sat 125 E_unbalanced_object inp st c0 i c (by omega) hi he
    apply this.mono
    intro r hr
    have a1 : i < r.1 := hr.2 (by omega)
    have a2 : r.1 ≤ inp.size := hr.1.2.1
    have a3 : ErrOk inp.size st c0 r.2.1 := hr.1.2.2
    split
    · apply Sat.pure; simp only [NextP_cont]
      exact ⟨⟨by show i0 ≤ r.1; omega, a2, hs, a3, hk⟩, a1⟩
    · apply Sat.pure; simp only [NextP_cont]
      exact ⟨⟨by show i0 ≤ r.1; omega, a2, hs, a3, htl⟩, a1⟩
  · split
    · rename_i hc
      apply Sat.bind
      apply (peek_sat stk hc.2).mono
      intro t _
      apply Sat.pure; simp only [NextP_done]
      exact Post.err (by omega) (by omega) hi he _
    · apply Sat.pure; simp only [NextP_done]; exact Post.ret h0 hi he

theorem gStep_sat (inp : Array Nat) (st : Nat) (c0 : Ctx) (i0 : Nat) (s : GState) (h : GInv inp st c0 i0 s) :
    Sat (gStep inp s) (NextP (fun s' => GInv inp st c0 i0 s' ∧ inp.size - s'.i < inp.size - s.i) (Post inp.size st c0 i0)) := by
  obtain ⟨h1, h2, h3, h4, h5⟩ := h
  unfold gStep
  have fin : ∀ x : Next GState (Nat × Ctx),
      NextP (fun s' => GInv inp st c0 i0 s' ∧ s.i < s'.i) (Post inp.size st c0 i0) x →
      NextP (fun s' => GInv inp st c0 i0 s' ∧ inp.size - s'.i < inp.size - s.i) (Post inp.size st c0 i0) x := by
    intro x hx
    cases x with
    | cont s' =>
      simp only [NextP_cont] at hx ⊢
      have := hx.1.2.1
      exact ⟨hx.1, by omega⟩
    | done r => exact hx
  split
  · exact (gAgain_sat inp st c0 i0 s.i s.stk s.c h3 h1 h2 h4 h5).mono fin
  · exact (gClose_sat inp st c0 i0 s.i s.stk s.c h3 h1 h2 h4 h5).mono fin

theorem genericF_sat (inp : Array Nat) (st : Nat) (c0 : Ctx) (i : Nat) (c : Ctx) (fuel : Nat)
    (hs : st ≤ i) (hi : i ≤ inp.size) (he : ErrOk inp.size st c0 c) (hf : inp.size - i < fuel) :
    Sat (genericF fuel inp i c) (Post inp.size st c0 i) :=
  iter_sat (gStep inp) (fun s => inp.size - s.i) (GInv inp st c0 i) _
    (fun s hs' => gStep_sat inp st c0 i s hs') fuel ⟨true, i, [], c⟩
    ⟨Nat.le_refl _, hi, hs, he, Nat.zero_le _⟩ hf

theorem generic_sat (inp : Array Nat) (st : Nat) (c0 : Ctx) (i : Nat) (c : Ctx)
    (hs : st ≤ i) (hi : i ≤ inp.size) (he : ErrOk inp.size st c0 c) :
    Sat (generic inp i c) (Post inp.size st c0 i) :=
  genericF_sat inp st c0 i c _ hs hi he (by omega)

/-! ## `unmatched_symbol` -/

theorem unmatchedSymbol_sat (inp : Array Nat) (st : Nat) (c0 : Ctx) (i : Nat) (c : Ctx)
    (hs : st ≤ i) (hi : i ≤ inp.size) (he : ErrOk inp.size st c0 c) :
    Sat (unmatchedSymbol inp i c) (Post inp.size st c0 i) := by
  unfold unmatchedSymbol
  split
  · apply Sat.bind
    apply (symbolEnd_sat inp st c0 i c hs hi he).mono
    intro r1 hr1
    have a1 := hr1.1; have a2 := hr1.2.1
    apply Sat.bind
    apply (space_sat inp st c0 r1.1 r1.2 (by omega) a2 hr1.2.2).mono
    intro r2 hr2
    have b1 := hr2.1; have b2 := hr2.2.1
    split
    · apply Sat.bind; apply Sat.rd (by omega)
      split
      · apply Sat.bind
        apply (space_sat inp st c0 (r2.1 + 1) r2.2 (by omega) (by omega) hr2.2.2).mono
        intro r3 hr3
        have d1 := hr3.1; have d2 := hr3.2.1
        exact (generic_sat inp st c0 r3.1 r3.2 (by omega) d2 hr3.2.2).mono (fun x hx => hx.weaken (by omega))
      · apply Sat.pure; exact Post.err hi (by omega) b2 hr2.2.2 _
    · apply Sat.pure; exact Post.err hi (by omega) b2 hr2.2.2 _
  · apply Sat.pure; exact Post.err hi hs hi he _

/-! # The theorems

`inp` is ANY byte array, `i` ANY start position inside it (`buf ≤ end` is the callers' contract), `c` ANY parser context
(any flags, any `unquoted`, an error already recorded or not). -/

/-- what `_pos_in_range` states about a result `(p, c')` of a scanner started at `i` with context `c` in an input of `n` bytes:
the returned position lies in `[i, n]`; an error recorded by this call has its location in `[i, n]`; an earlier error is kept. -/
def InRange (n i : Nat) (c : Ctx) (p : Nat) (c' : Ctx) : Prop :=
  i ≤ p ∧ p ≤ n ∧
  (c.error = 0 → c'.error ≠ 0 → i ≤ c'.errorLoc ∧ c'.errorLoc ≤ n) ∧
  (c.error ≠ 0 → c'.error = c.error ∧ c'.errorLoc = c.errorLoc)

theorem Post.inRange {n i : Nat} {c : Ctx} {r : Nat × Ctx} (h : Post n i c i r) : InRange n i c r.1 r.2 :=
  ⟨h.1, h.2.1, h.2.2.2, h.2.2.1⟩

/-- `set_error`: the first error wins, the location is recorded, `end` is returned -/
theorem setError_spec (c : Ctx) (loc n e : Nat) :
    (setError c loc n e).1 = n ∧
    (c.error = 0 → (setError c loc n e).2.error = e ∧ (setError c loc n e).2.errorLoc = loc
      ∧ (setError c loc n e).2.pos = loc + 1 - c.lineStart) ∧
    (c.error ≠ 0 → (setError c loc n e).2 = c) := by
  unfold setError
  refine ⟨rfl, fun h => ?_, fun h => ?_⟩
  · simp [h]
  · simp [h]

theorem Sat.inRange {m : M (Nat × Ctx)} {n i : Nat} {c : Ctx} (h : Sat m (Post n i c i)) (p : Nat) (c' : Ctx) (hr : m = .ok (p, c')) :
    InRange n i c p c' := by
  obtain ⟨x, hx, hp⟩ := h
  rw [hr] at hx; cases hx; exact hp.inRange

section
variable (inp : Array Nat) (i : Nat) (c : Ctx) (hi : i ≤ inp.size)
include hi

/-! ### never out of bounds -/
theorem space_no_oob : space inp i c ≠ .error .oob := (space_sat inp i c i c (Nat.le_refl _) hi (ErrOk.refl _ _ _)).ne_error _
theorem spaceExt_no_oob : spaceExt inp i c ≠ .error .oob := (spaceExt_sat inp i c i c (Nat.le_refl _) hi (ErrOk.refl _ _ _)).ne_error _
theorem number_no_oob : number inp i c ≠ .error .oob := (number_sat inp i c i c (Nat.le_refl _) hi (ErrOk.refl _ _ _)).ne_error _
theorem skipConstant_no_oob : skipConstant inp i c ≠ .error .oob := (skipConstant_sat inp i c i c (Nat.le_refl _) hi (ErrOk.refl _ _ _)).ne_error _
theorem generic_no_oob : generic inp i c ≠ .error .oob := (generic_sat inp i c i c (Nat.le_refl _) hi (ErrOk.refl _ _ _)).ne_error _
theorem unmatchedSymbol_no_oob : unmatchedSymbol inp i c ≠ .error .oob := (unmatchedSymbol_sat inp i c i c (Nat.le_refl _) hi (ErrOk.refl _ _ _)).ne_error _
theorem symbolStart_no_oob : symbolStart inp i c ≠ .error .oob := (symbolStart_sat inp i c i c (Nat.le_refl _) hi (ErrOk.refl _ _ _)).ne_error _
theorem symbolEnd_no_oob : symbolEnd inp i c ≠ .error .oob := (symbolEnd_sat inp i c i c (Nat.le_refl _) hi (ErrOk.refl _ _ _)).ne_error _
theorem constantStart_no_oob : constantStart inp i c ≠ .error .oob := (constantStart_sat inp i c i c (Nat.le_refl _) hi (ErrOk.refl _ _ _)).ne_error _
theorem stringStart_no_oob : stringStart inp i c ≠ .error .oob := (stringStart_sat inp i c i c (Nat.le_refl _) hi (ErrOk.refl _ _ _)).ne_error _
theorem stringEnd_no_oob : stringEnd inp i c ≠ .error .oob := (stringEnd_sat inp i c i c (Nat.le_refl _) hi (ErrOk.refl _ _ _)).ne_error _
theorem stringPart_no_oob : stringPart inp i c ≠ .error .oob := (stringPart_sat inp i c i c (Nat.le_refl _) hi (ErrOk.refl _ _ _)).ne_error _
theorem stringEscape_no_oob : stringEscape inp i c ≠ .error .oob := (stringEscape_sat inp i c i c (Nat.le_refl _) hi (ErrOk.refl _ _ _)).ne_error _
theorem objectStart_no_oob : objectStart inp i c ≠ .error .oob := (groupStart_sat _ _ _ inp i c i c (Nat.le_refl _) hi (ErrOk.refl _ _ _)).ne_error _
theorem arrayStart_no_oob : arrayStart inp i c ≠ .error .oob := (groupStart_sat _ _ _ inp i c i c (Nat.le_refl _) hi (ErrOk.refl _ _ _)).ne_error _
theorem objectEnd_no_oob : objectEnd inp i c ≠ .error .oob := (groupEnd_sat _ _ inp i c i c (Nat.le_refl _) hi (ErrOk.refl _ _ _)).ne_error _
theorem arrayEnd_no_oob : arrayEnd inp i c ≠ .error .oob := (groupEnd_sat _ _ inp i c i c (Nat.le_refl _) hi (ErrOk.refl _ _ _)).ne_error _

/-! ### termination: a result exists (the fuel is never what ends a scanner) -/
theorem space_terminates : ∃ r, space inp i c = .ok r := (space_sat inp i c i c (Nat.le_refl _) hi (ErrOk.refl _ _ _)).imp (fun _ h => h.1)
theorem number_terminates : ∃ r, number inp i c = .ok r := (number_sat inp i c i c (Nat.le_refl _) hi (ErrOk.refl _ _ _)).imp (fun _ h => h.1)
theorem skipConstant_terminates : ∃ r, skipConstant inp i c = .ok r := (skipConstant_sat inp i c i c (Nat.le_refl _) hi (ErrOk.refl _ _ _)).imp (fun _ h => h.1)
theorem generic_terminates : ∃ r, generic inp i c = .ok r := (generic_sat inp i c i c (Nat.le_refl _) hi (ErrOk.refl _ _ _)).imp (fun _ h => h.1)
theorem unmatchedSymbol_terminates : ∃ r, unmatchedSymbol inp i c = .ok r := (unmatchedSymbol_sat inp i c i c (Nat.le_refl _) hi (ErrOk.refl _ _ _)).imp (fun _ h => h.1)
theorem symbolEnd_terminates : ∃ r, symbolEnd inp i c = .ok r := (symbolEnd_sat inp i c i c (Nat.le_refl _) hi (ErrOk.refl _ _ _)).imp (fun _ h => h.1)

/-! ### positions: the result and a recorded error location lie inside `[start, end]` -/
theorem space_pos_in_range (p : Nat) (c' : Ctx) (h : space inp i c = .ok (p, c')) : InRange inp.size i c p c' :=
  (space_sat inp i c i c (Nat.le_refl _) hi (ErrOk.refl _ _ _)).inRange p c' h
theorem spaceExt_pos_in_range (p : Nat) (c' : Ctx) (h : spaceExt inp i c = .ok (p, c')) : InRange inp.size i c p c' :=
  (spaceExt_sat inp i c i c (Nat.le_refl _) hi (ErrOk.refl _ _ _)).inRange p c' h
theorem number_pos_in_range (p : Nat) (c' : Ctx) (h : number inp i c = .ok (p, c')) : InRange inp.size i c p c' :=
  ((number_sat inp i c i c (Nat.le_refl _) hi (ErrOk.refl _ _ _)).mono (fun _ h => h.1)).inRange p c' h
theorem skipConstant_pos_in_range (p : Nat) (c' : Ctx) (h : skipConstant inp i c = .ok (p, c')) : InRange inp.size i c p c' :=
  (skipConstant_sat inp i c i c (Nat.le_refl _) hi (ErrOk.refl _ _ _)).inRange p c' h
theorem generic_pos_in_range (p : Nat) (c' : Ctx) (h : generic inp i c = .ok (p, c')) : InRange inp.size i c p c' :=
  (generic_sat inp i c i c (Nat.le_refl _) hi (ErrOk.refl _ _ _)).inRange p c' h
theorem unmatchedSymbol_pos_in_range (p : Nat) (c' : Ctx) (h : unmatchedSymbol inp i c = .ok (p, c')) : InRange inp.size i c p c' :=
  (unmatchedSymbol_sat inp i c i c (Nat.le_refl _) hi (ErrOk.refl _ _ _)).inRange p c' h
theorem symbolStart_pos_in_range (p : Nat) (c' : Ctx) (h : symbolStart inp i c = .ok (p, c')) : InRange inp.size i c p c' :=
  (symbolStart_sat inp i c i c (Nat.le_refl _) hi (ErrOk.refl _ _ _)).inRange p c' h
theorem symbolEnd_pos_in_range (p : Nat) (c' : Ctx) (h : symbolEnd inp i c = .ok (p, c')) : InRange inp.size i c p c' :=
  (symbolEnd_sat inp i c i c (Nat.le_refl _) hi (ErrOk.refl _ _ _)).inRange p c' h
theorem constantStart_pos_in_range (p : Nat) (c' : Ctx) (h : constantStart inp i c = .ok (p, c')) : InRange inp.size i c p c' :=
  (constantStart_sat inp i c i c (Nat.le_refl _) hi (ErrOk.refl _ _ _)).inRange p c' h
theorem stringStart_pos_in_range (p : Nat) (c' : Ctx) (h : stringStart inp i c = .ok (p, c')) : InRange inp.size i c p c' :=
  ((stringStart_sat inp i c i c (Nat.le_refl _) hi (ErrOk.refl _ _ _)).mono (fun _ h => h.1)).inRange p c' h
theorem stringEnd_pos_in_range (p : Nat) (c' : Ctx) (h : stringEnd inp i c = .ok (p, c')) : InRange inp.size i c p c' :=
  ((stringEnd_sat inp i c i c (Nat.le_refl _) hi (ErrOk.refl _ _ _)).mono (fun _ h => h.1)).inRange p c' h
theorem stringPart_pos_in_range (p : Nat) (c' : Ctx) (h : stringPart inp i c = .ok (p, c')) : InRange inp.size i c p c' :=
  (stringPart_sat inp i c i c (Nat.le_refl _) hi (ErrOk.refl _ _ _)).inRange p c' h
theorem stringEscape_pos_in_range (p : Nat) (c' : Ctx) (h : stringEscape inp i c = .ok (p, c')) : InRange inp.size i c p c' :=
  ((stringEscape_sat inp i c i c (Nat.le_refl _) hi (ErrOk.refl _ _ _)).mono (fun _ h => h.1)).inRange p c' h

theorem groupStart_pos_in_range (opn cls err p : Nat) (c' : Ctx) (more : Bool) (h : groupStart opn cls err inp i c = .ok (p, c', more)) :
    InRange inp.size i c p c' := by
  obtain ⟨x, hx, hp⟩ := groupStart_sat opn cls err inp i c i c (Nat.le_refl _) hi (ErrOk.refl _ _ _)
  rw [h] at hx; cases hx; exact hp.inRange
theorem groupEnd_pos_in_range (cls err p : Nat) (c' : Ctx) (more : Bool) (h : groupEnd cls err inp i c = .ok (p, c', more)) :
    InRange inp.size i c p c' := by
  obtain ⟨x, hx, hp⟩ := groupEnd_sat cls err inp i c i c (Nat.le_refl _) hi (ErrOk.refl _ _ _)
  rw [h] at hx; cases hx; exact hp.1.inRange
theorem objectStart_pos_in_range (p : Nat) (c' : Ctx) (more : Bool) (h : objectStart inp i c = .ok (p, c', more)) : InRange inp.size i c p c' :=
  groupStart_pos_in_range inp i c hi _ _ _ p c' more h
theorem arrayStart_pos_in_range (p : Nat) (c' : Ctx) (more : Bool) (h : arrayStart inp i c = .ok (p, c', more)) : InRange inp.size i c p c' :=
  groupStart_pos_in_range inp i c hi _ _ _ p c' more h
theorem objectEnd_pos_in_range (p : Nat) (c' : Ctx) (more : Bool) (h : objectEnd inp i c = .ok (p, c', more)) : InRange inp.size i c p c' :=
  groupEnd_pos_in_range inp i c hi _ _ p c' more h
theorem arrayEnd_pos_in_range (p : Nat) (c' : Ctx) (more : Bool) (h : arrayEnd inp i c = .ok (p, c', more)) : InRange inp.size i c p c' :=
  groupEnd_pos_in_range inp i c hi _ _ p c' more h

/-! ### the fuel `size - pos + 1` is enough: any larger fuel gives the same result -/
theorem spaceExt_fuel_enough (extra : Nat) : spaceExtF (inp.size - i + 1 + extra) inp i c = spaceExt inp i c := by
  obtain ⟨r, hr, hp⟩ := spHead_sat c.wide inp i hi
  unfold spaceExt spaceExtF
  rw [hr]
  show (if r.2 = true then _ else _) = (if r.2 = true then _ else _)
  split
  · rfl
  · exact iter_fuel_enough _ _ _ _
      (iter_sat (spWsStep inp) (fun s => inp.size - s.1)
        (fun s' => r.1 ≤ s'.1 ∧ s'.1 ≤ inp.size ∧ i ≤ r.1 ∧ ErrOk inp.size i c s'.2) _
        (fun s hs' => spWsStep_sat inp i c r.1 s hs') (inp.size - i + 1) (r.1, c)
        ⟨Nat.le_refl _, hp.2.1, hp.1, ErrOk.refl _ _ _⟩ (by have := hp.1; show inp.size - r.1 < inp.size - i + 1; omega)) extra

theorem symbolEnd_fuel_enough (extra : Nat) : symbolEndF (inp.size - i + 1 + extra) inp i c = symbolEnd inp i c := by
  unfold symbolEnd symbolEndF
  split
  · rw [iter_fuel_enough _ _ _ _
      (iter_sat (symUnqStep inp) (fun s => inp.size - s.1) (fun s' => i ≤ s'.1 ∧ s'.1 ≤ inp.size) _
        (fun s hs' => symUnqStep_sat inp i s hs') (inp.size - i + 1) (i, 0) ⟨Nat.le_refl _, hi⟩
        (by show inp.size - i < inp.size - i + 1; omega)) extra]
  · rw [iter_fuel_enough _ _ _ _
      (iter_sat (symQStep inp) (fun s => inp.size - s) (fun s' => i ≤ s' ∧ s' ≤ inp.size) _
        (fun s hs' => symQStep_sat inp i s hs') (inp.size - i + 1) i ⟨Nat.le_refl _, hi⟩
        (by show inp.size - i < inp.size - i + 1; omega)) extra]

theorem skipConstant_fuel_enough (extra : Nat) : skipConstantF (inp.size - i + 1 + extra) inp i c = skipConstant inp i c :=
  iter_fuel_enough _ _ _ _ (skipConstant_sat inp i c i c (Nat.le_refl _) hi (ErrOk.refl _ _ _)) extra

theorem generic_fuel_enough (extra : Nat) : genericF (inp.size - i + 1 + extra) inp i c = generic inp i c :=
  iter_fuel_enough _ _ _ _ (generic_sat inp i c i c (Nat.le_refl _) hi (ErrOk.refl _ _ _)) extra

theorem gString_fuel_enough (extra : Nat) : gStringF (inp.size - i + 1 + extra) inp i c = gString inp i c := by
  obtain ⟨r, hr, hp⟩ := stringStart_sat inp i c i c (Nat.le_refl _) hi (ErrOk.refl _ _ _)
  unfold gString gStringF
  rw [hr]
  show (iter (gStrStep inp) (inp.size - i + 1 + extra) r >>= _) = (iter (gStrStep inp) (inp.size - i + 1) r >>= _)
  rw [iter_fuel_enough _ _ _ _
      (iter_sat (gStrStep inp) (fun s => inp.size - s.1)
        (fun s' => r.1 ≤ s'.1 ∧ s'.1 ≤ inp.size ∧ i ≤ r.1 ∧ ErrOk inp.size i c s'.2) _
        (fun s hs' => gStrStep_sat inp i c r.1 s hs') (inp.size - i + 1) r
        ⟨Nat.le_refl _, hp.1.2.1, hp.1.1, hp.1.2.2⟩ (by have := hp.1.1; show inp.size - r.1 < inp.size - i + 1; omega)) extra]

/-! ### the nesting stack of `generic_json` stays inside `stack[MAX_NEST]` -/

/-- every state the state machine of `generic_json` goes through has at most `MAX_NEST` stack entries (pushes and reads outside
the array would moreover be `.oob`, excluded by `generic_no_oob`) -/
theorem generic_nesting_bounded (s : GState) (h : Reach (gStep inp) ⟨true, i, [], c⟩ s) : s.stk.length ≤ MAX_NEST :=
  (Reach.inv (μ := fun s => inp.size - s.i) (fun s hs' => gStep_sat inp i c i s hs')
    (show GInv inp i c i ⟨true, i, [], c⟩ from ⟨Nat.le_refl _, hi, Nat.le_refl _, ErrOk.refl _ _ _, Nat.zero_le _⟩) h).2.2.2.2

/-- … and also stays inside the input -/
theorem generic_states_in_range (s : GState) (h : Reach (gStep inp) ⟨true, i, [], c⟩ s) : i ≤ s.i ∧ s.i ≤ inp.size :=
  have g := Reach.inv (μ := fun s => inp.size - s.i) (fun s hs' => gStep_sat inp i c i s hs')
    (show GInv inp i c i ⟨true, i, [], c⟩ from ⟨Nat.le_refl _, hi, Nat.le_refl _, ErrOk.refl _ _ _, Nat.zero_le _⟩) h
  ⟨g.1, g.2.1⟩

end

/-- the result of a loop comes from a state reachable from the start (so `Reach` covers what `iter` runs through) -/
theorem iter_reach {σ ρ : Type} (step : σ → M (Next σ ρ)) (fuel : Nat) (s0 : σ) (r : ρ) (h : iter step fuel s0 = .ok r) :
    ∃ s, Reach step s0 s ∧ step s = .ok (.done r) := by
  suffices H : ∀ fuel s, Reach step s0 s → iter step fuel s = .ok r → ∃ s', Reach step s0 s' ∧ step s' = .ok (.done r) from
    H fuel s0 .refl h
  intro fuel
  induction fuel with
  | zero => intro s _ h; simp [iter] at h
  | succ f ih =>
    intro s hr h
    unfold iter at h
    cases hs : step s with
    | error e => rw [hs] at h; cases h
    | ok x =>
      rw [hs] at h
      cases x with
      | cont s' => exact ih s' (hr.next hs) h
      | done r' =>
        have : r' = r := by cases h; rfl
        subst this
        exact ⟨s, hr, hs⟩

/-! ### sanity: the guarded reads do catch an off-by-one

`escU` with `end - buf < 5` instead of `< 6` (a mutation of the C code that ASan reports on the same input, see OUT/): the
model answers `.oob` for the 5 bytes `\u00e`. -/
def escU_mutant (inp : Array Nat) (i : Nat) (c : Ctx) : M (Nat × Ctx) :=
  if inp.size - i < 5 then .ok (setError c i inp.size E_invalid_escape) else
  decodeHex4 inp (i + 2) >>= fun u =>
  if u.isNone then .ok (setError c i inp.size E_invalid_escape) else escPair inp i c (u.getD 0)

example : escU_mutant #[92, 117, 48, 48, 101] 0 {} = .error .oob := by rfl
example : escU #[92, 117, 48, 48, 101] 0 {} = .ok (5, { error := E_invalid_escape, pos := 1, errorLoc := 0 }) := by rfl
example : rd #[32] 1 = .error .oob := by rfl

end Flatcc.JsonScan
