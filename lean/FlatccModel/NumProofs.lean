import FlatccModel.Num
/-! Helper lemmas for the integer print/scan model. Property theorems are in `Props/C19.lean`. -/
namespace Flatcc.Num

theorem decval_append (a b : List Nat) :
    decval (a ++ b) = b.foldl (fun acc c => acc * 10 + (c - 48)) (decval a) := by
  unfold decval; rw [List.foldl_append]

theorem decval_append1 (a : List Nat) (x : Nat) : decval (a ++ [x]) = decval a * 10 + (x - 48) := by
  rw [decval_append]; rfl

theorem decval_append2 (a : List Nat) (x y : Nat) :
    decval (a ++ [x, y]) = (decval a * 10 + (x - 48)) * 10 + (y - 48) := by
  rw [decval_append]; rfl

theorem allDigits_append {a b : List Nat} (ha : AllDigits a) (hb : AllDigits b) : AllDigits (a ++ b) := by
  intro c hc
  rcases List.mem_append.mp hc with h | h
  · exact ha c h
  · exact hb c h

/-- every plan prints exactly the decimal digits of `n`, `planDigits` of them -/
theorem runPlan_spec (plan : List St) : ∀ n, n < 10 ^ planDigits plan →
    decval (runPlan plan n) = n ∧ AllDigits (runPlan plan n) ∧ (runPlan plan n).length = planDigits plan := by
  induction plan with
  | nil =>
    intro n h
    simp only [planDigits, Nat.pow_zero] at h
    have : n = 0 := by omega
    subst this
    exact ⟨rfl, fun c hc => by simp [runPlan] at hc, rfl⟩
  | cons s r ih =>
    intro n h
    cases s with
    | pair =>
      simp only [planDigits] at h
      have hp : 10 ^ (planDigits r + 2) = 10 ^ planDigits r * 100 := by
        rw [Nat.pow_succ, Nat.pow_succ]; omega
      rw [hp] at h
      have hd : n / 100 < 10 ^ planDigits r := Nat.div_lt_of_lt_mul (by omega)
      obtain ⟨h1, h2, h3⟩ := ih (n / 100) hd
      simp only [runPlan, planDigits]
      refine ⟨?_, ?_, ?_⟩
      · rw [decval_append2, h1]; omega
      · apply allDigits_append h2
        intro c hc
        simp only [List.mem_cons, List.mem_nil_iff, or_false] at hc
        rcases hc with hc | hc <;> omega
      · rw [List.length_append, h3]; rfl
    | short =>
      simp only [planDigits] at h
      have hp : 10 ^ (planDigits r + 1) = 10 ^ planDigits r * 10 := by rw [Nat.pow_succ]
      rw [hp] at h
      have hd : n / 10 < 10 ^ planDigits r := Nat.div_lt_of_lt_mul (by omega)
      obtain ⟨h1, h2, h3⟩ := ih (n / 10) hd
      simp only [runPlan, planDigits]
      refine ⟨?_, ?_, ?_⟩
      · rw [decval_append1, h1]; omega
      · apply allDigits_append h2
        intro c hc
        simp only [List.mem_cons, List.mem_nil_iff, or_false] at hc
        omega
      · rw [List.length_append, h3]; rfl
    | last =>
      simp only [planDigits, Nat.pow_one] at h
      simp only [runPlan, planDigits]
      refine ⟨?_, ?_, rfl⟩
      · unfold decval; simp only [List.foldl]; omega
      · intro c hc
        simp only [List.mem_cons, List.mem_nil_iff, or_false] at hc
        omega

/-- generic digit-loop value -/
def valFrom (l : List Nat) (x : Nat) : Nat := l.foldl (fun acc c => acc * 10 + (c - 48)) x

theorem valFrom_mono (ds : List Nat) (x : Nat) : x ≤ valFrom ds x := by
  induction ds generalizing x with
  | nil => exact Nat.le_refl _
  | cons d ds ih =>
    unfold valFrom; simp only [List.foldl]
    exact Nat.le_trans (by omega) (ih (x * 10 + (d - 48)))

theorem decval_eq_valFrom (l : List Nat) : decval l = valFrom l 0 := rfl

/-- a terminator: end of input, or a byte that is not a digit -/
def NonDigitHead (rest : List Nat) : Prop := ∀ c cs, rest = c :: cs → isDigit c = false

/-- The repaired loop computes the exact value or reports overflow; it never wraps. -/
theorem digitLoop_spec (ds : List Nat) (hd : AllDigits ds) (rest : List Nat) (hr : NonDigitHead rest) :
    ∀ (x cnt : Nat), x < 18446744073709551616 →
    (valFrom ds x < 18446744073709551616 ∧ digitLoop (ds ++ rest) x cnt = (some (valFrom ds x), cnt + ds.length)) ∨
    (valFrom ds x ≥ 18446744073709551616 ∧ (digitLoop (ds ++ rest) x cnt).1 = none) := by
  induction ds with
  | nil =>
    intro x cnt hx
    left
    refine ⟨hx, ?_⟩
    simp only [List.nil_append, List.length_nil, Nat.add_zero, valFrom, List.foldl]
    cases rest with
    | nil => rfl
    | cons c cs =>
      have := hr c cs rfl
      simp only [digitLoop, this]
      rfl
  | cons d ds ih =>
    intro x cnt hx
    have hdd : 48 ≤ d ∧ d ≤ 57 := hd d (List.mem_cons_self)
    have hds : AllDigits ds := fun e he => hd e (List.mem_cons_of_mem _ he)
    have hdig : isDigit d = true := by
      unfold isDigit; simp only [Bool.and_eq_true, decide_eq_true_eq]; exact hdd
    simp only [List.cons_append, digitLoop, hdig, if_true]
    have hv : valFrom (d :: ds) x = valFrom ds (x * 10 + (d - 48)) := rfl
    rw [hv]
    split
    · right
      refine ⟨?_, rfl⟩
      have := valFrom_mono ds (x * 10 + (d - 48))
      omega
    · have := ih hds (x * 10 + (d - 48)) (cnt + 1) (by omega)
      rcases this with ⟨h1, h2⟩ | ⟨h1, h2⟩
      · left; refine ⟨h1, ?_⟩; rw [h2]; simp only [List.length_cons]; congr 1; omega
      · right; exact ⟨h1, h2⟩

theorem drop_length_append (a b : List Nat) : (a ++ b).drop a.length = b := by
  simp

end Flatcc.Num
