/-!
# Which tables and unions get a recursive sorter (`mark_sortable` in codegen_c_sorter.c)

The generator marks a table or union `sortable` when one of its (non-deprecated) members carries `sorted`, or when a member
refers (single or vector) to a table or union that is marked. It iterates passes over all types **in declaration order, updating
in place**, and stops when a pass reports the same number of sortable types as the pass before. The theorem: whatever the
declaration order, the result is exactly reachability of a `sorted` vector.
-/
namespace Flatcc.Sortable

structure Ty where
  direct : Bool          -- a non-deprecated member carries `sorted`
  refs : List Nat        -- tables / unions (indices in declaration order) that non-deprecated members refer to
  deriving Repr

abbrev Marks := List Bool

def get (m : Marks) (i : Nat) : Bool := (m[i]?).getD false

/-- what `mark_member_sortable` returns for type `i` given the marks so far -/
def cond (ts : List Ty) (m : Marks) (i : Nat) : Bool :=
  get m i || match ts[i]? with
    | none => false
    | some t => t.direct || t.refs.any (fun r => get m r)

def stepAt (ts : List Ty) (m : Marks) (i : Nat) : Marks := m.set i (cond ts m i)

/-- one pass over all types in declaration order, in place -/
def pass (ts : List Ty) (m : Marks) : Marks := (List.range ts.length).foldl (stepAt ts) m

/-- the pass's `count`: every type reports its own mark right after its update, and later steps of the pass do not touch it -/
def count (m : Marks) : Nat := m.countP (fun b => b)

/-- `while (old_count != count)`; `none` = the fuel ran out -/
def loop (ts : List Ty) : Nat → Marks → Option Nat → Option Marks
  | 0, _, _ => none
  | f + 1, m, old =>
    let m' := pass ts m
    if old = some (count m') then some m' else loop ts f m' (some (count m'))

/-- `int old_count = -1, count = 0; while (old_count != count) { old_count = count; count = <pass> }`: the first pass always runs and
    is compared with 0, the count of the initial (all clear) marks -/
def markSortable (ts : List Ty) : Option Marks := loop ts (ts.length + 2) (List.replicate ts.length false) (some 0)

/-- a `sorted` vector is reachable from type `i` -/
inductive Reach (ts : List Ty) : Nat → Prop
  | direct {i : Nat} {t : Ty} : ts[i]? = some t → t.direct = true → Reach ts i
  | step {i r : Nat} {t : Ty} : ts[i]? = some t → r ∈ t.refs → Reach ts r → Reach ts i

/-! ## basic facts -/

theorem get_set (m : Marks) (i j : Nat) (b : Bool) :
    get (m.set i b) j = if i = j ∧ i < m.length then b else get m j := by
  unfold get
  rw [List.getElem?_set]
  by_cases h : i = j
  · subst h
    by_cases hl : i < m.length
    · simp [hl]
    · simp [hl, List.getElem?_eq_none (Nat.le_of_not_lt hl)]
  · simp [h]

theorem get_of_ge (m : Marks) (i : Nat) (h : m.length ≤ i) : get m i = false := by
  unfold get; rw [List.getElem?_eq_none h]; rfl

/-- pointwise order on marks of the same length -/
def Le (a b : Marks) : Prop := a.length = b.length ∧ ∀ i, get a i = true → get b i = true

theorem Le.refl (a : Marks) : Le a a := ⟨rfl, fun _ h => h⟩
theorem Le.trans {a b c : Marks} (h1 : Le a b) (h2 : Le b c) : Le a c := ⟨h1.1.trans h2.1, fun i h => h2.2 i (h1.2 i h)⟩

theorem ext_get (a b : Marks) (hl : a.length = b.length) (h : ∀ i, get a i = get b i) : a = b := by
  apply List.ext_getElem?
  intro i
  have := h i
  unfold get at this
  by_cases hi : i < a.length
  · have hb : i < b.length := hl ▸ hi
    rw [List.getElem?_eq_getElem hi, List.getElem?_eq_getElem hb] at this ⊢
    simpa using this
  · rw [List.getElem?_eq_none (Nat.le_of_not_lt hi), List.getElem?_eq_none (hl ▸ Nat.le_of_not_lt hi)]

theorem Le.antisymm {a b : Marks} (h1 : Le a b) (h2 : Le b a) : a = b := by
  apply ext_get a b h1.1
  intro i
  cases ha : get a i with
  | true => exact (h1.2 i ha).symm
  | false =>
    cases hb : get b i with
    | false => rfl
    | true => have := h2.2 i hb; rw [ha] at this; cases this

theorem stepAt_le (ts : List Ty) (m : Marks) (i : Nat) : Le m (stepAt ts m i) := by
  refine ⟨by simp [stepAt], fun j h => ?_⟩
  unfold stepAt
  rw [get_set]
  split
  · rename_i hij
    obtain ⟨rfl, _⟩ := hij
    unfold cond
    simp [h]
  · exact h

theorem foldl_le (ts : List Ty) : ∀ (L : List Nat) (m : Marks), Le m (L.foldl (stepAt ts) m) := by
  intro L
  induction L with
  | nil => intro m; exact Le.refl m
  | cons i L ih => intro m; exact (stepAt_le ts m i).trans (ih _)

theorem pass_le (ts : List Ty) (m : Marks) : Le m (pass ts m) := foldl_le ts _ m

/-! ## soundness: only reachable types are marked -/

def Sound (ts : List Ty) (m : Marks) : Prop := ∀ i, get m i = true → Reach ts i

theorem stepAt_sound (ts : List Ty) (m : Marks) (i : Nat) (h : Sound ts m) : Sound ts (stepAt ts m i) := by
  intro j hj
  unfold stepAt at hj
  rw [get_set] at hj
  split at hj
  · rename_i hij
    obtain ⟨rfl, _⟩ := hij
    unfold cond at hj
    cases hm : get m i with
    | true => exact h i hm
    | false =>
      rw [hm] at hj
      cases ht : ts[i]? with
      | none => rw [ht] at hj; simp at hj
      | some t =>
        rw [ht] at hj
        simp only [Bool.false_or, Bool.or_eq_true, List.any_eq_true] at hj
        rcases hj with hd | ⟨r, hr, hg⟩
        · exact Reach.direct ht hd
        · exact Reach.step ht hr (h r hg)
  · exact h j hj

theorem foldl_sound (ts : List Ty) : ∀ (L : List Nat) (m : Marks), Sound ts m → Sound ts (L.foldl (stepAt ts) m) := by
  intro L
  induction L with
  | nil => intro m h; exact h
  | cons i L ih => intro m h; exact ih _ (stepAt_sound ts m i h)

theorem pass_sound (ts : List Ty) (m : Marks) (h : Sound ts m) : Sound ts (pass ts m) := foldl_sound ts _ m h

/-! ## a pass that changes nothing leaves a closed set -/

def Closed (ts : List Ty) (m : Marks) : Prop := ∀ i, i < ts.length → cond ts m i = get m i

theorem foldl_fix (ts : List Ty) : ∀ (L : List Nat) (m : Marks), L.foldl (stepAt ts) m = m →
    ∀ i ∈ L, stepAt ts m i = m := by
  intro L
  induction L with
  | nil => intro m _ i hi; cases hi
  | cons j L ih =>
    intro m hfix i hi
    have h1 : Le m (stepAt ts m j) := stepAt_le ts m j
    have h2 : Le (stepAt ts m j) (List.foldl (stepAt ts) (stepAt ts m j) L) := foldl_le ts L _
    have hfix' : List.foldl (stepAt ts) (stepAt ts m j) L = m := hfix
    rw [hfix'] at h2
    have hj : stepAt ts m j = m := (Le.antisymm h1 h2).symm
    rcases List.mem_cons.mp hi with rfl | hi
    · exact hj
    · rw [hj] at hfix'
      exact ih m hfix' i hi

theorem pass_fix_closed (ts : List Ty) (m : Marks) (hl : m.length = ts.length) (h : pass ts m = m) : Closed ts m := by
  intro i hi
  have := foldl_fix ts _ m h i (List.mem_range.mpr hi)
  have hg := congrArg (fun x => get x i) this
  simp only [stepAt] at hg
  rw [get_set] at hg
  simpa [hl, hi] using hg

/-! ## completeness of a closed set -/

theorem closed_complete (ts : List Ty) (m : Marks) (h : Closed ts m) : ∀ i, Reach ts i → get m i = true := by
  intro i hr
  induction hr with
  | @direct i t ht hd =>
    have hi : i < ts.length := by
      rcases Nat.lt_or_ge i ts.length with h | h
      · exact h
      · rw [List.getElem?_eq_none h] at ht; cases ht
    rw [← h i hi]; unfold cond; rw [ht]; simp [hd]
  | @step i r t ht hr _ ih =>
    have hi : i < ts.length := by
      rcases Nat.lt_or_ge i ts.length with h | h
      · exact h
      · rw [List.getElem?_eq_none h] at ht; cases ht
    rw [← h i hi]; unfold cond; rw [ht]
    have : t.refs.any (fun r => get m r) = true := List.any_eq_true.mpr ⟨r, hr, ih⟩
    simp [this]

/-! ## equal counts mean equal marks -/

theorem count_le_of_le : ∀ (a b : Marks), Le a b → count a ≤ count b ∧ (count a = count b → a = b) := by
  intro a
  induction a with
  | nil =>
    intro b h
    have : b = [] := List.eq_nil_of_length_eq_zero h.1.symm
    subst this; exact ⟨Nat.le_refl _, fun _ => rfl⟩
  | cons x a ih =>
    intro b h
    cases b with
    | nil => cases h.1
    | cons y b =>
      have hab : Le a b := ⟨by simpa using h.1, fun i hi => by
        have := h.2 (i + 1) (by simpa [get] using hi); simpa [get] using this⟩
      have hxy : x = true → y = true := fun hx => by
        have := h.2 0 (by simpa [get] using hx); simpa [get] using this
      obtain ⟨hle, heq⟩ := ih b hab
      unfold count at *
      cases x <;> cases y <;> simp only [List.countP_cons_of_pos, List.countP_cons_of_neg, Bool.false_eq_true,
        not_false_eq_true] <;> simp at hxy
      · exact ⟨hle, fun e => by rw [heq e]⟩
      · refine ⟨by omega, fun e => ?_⟩
        have : List.countP (fun b => b) a + 1 ≤ List.countP (fun b => b) b + 1 := by omega
        omega
      · exact ⟨by omega, fun e => by rw [heq (by omega)]⟩

theorem count_le_length (m : Marks) : count m ≤ m.length := List.countP_le_length

/-! ## the loop -/

theorem loop_spec (ts : List Ty) : ∀ (f : Nat) (m : Marks) (old : Option Nat) (r : Marks),
    m.length = ts.length → Sound ts m → (∀ c, old = some c → c = count m) →
    loop ts f m old = some r → r.length = ts.length ∧ Sound ts r ∧ Closed ts r := by
  intro f
  induction f with
  | zero => intro m old r _ _ _ h; simp [loop] at h
  | succ f ih =>
    intro m old r hl hs hold h
    have hle := pass_le ts m
    have hl' : (pass ts m).length = ts.length := hle.1.symm.trans hl
    have hs' := pass_sound ts m hs
    simp only [loop] at h
    split at h
    · rename_i heq
      cases h
      have hc : count m = count (pass ts m) := (hold _ heq).symm
      have hfix : m = pass ts m := (count_le_of_le m _ hle).2 hc
      refine ⟨hl', hs', ?_⟩
      apply pass_fix_closed ts _ hl'
      rw [← hfix]; exact hfix.symm
    · exact ih _ _ r hl' hs' (fun c hc => by cases hc; rfl) h

theorem loop_terminates (ts : List Ty) : ∀ (f : Nat) (m : Marks) (old : Option Nat),
    m.length = ts.length → (∀ c, old = some c → c = count m) →
    (ts.length - count m) + (if old = none then 3 else 2) ≤ f → (loop ts f m old).isSome = true := by
  intro f
  induction f with
  | zero => intro m old _ _ h; split at h <;> omega
  | succ f ih =>
    intro m old hl hold hf
    have hle := pass_le ts m
    have hl' : (pass ts m).length = ts.length := hle.1.symm.trans hl
    have hcl := (count_le_of_le m _ hle).1
    have hcn : count (pass ts m) ≤ ts.length := hl' ▸ count_le_length _
    simp only [loop]
    split
    · rfl
    · rename_i hne
      apply ih _ _ hl' (fun c hc => by cases hc; rfl)
      simp only [reduceCtorEq, if_false]
      cases old with
      | none => simp only [if_true] at hf; omega
      | some c =>
        have hc := hold c rfl
        simp only [reduceCtorEq, if_false] at hf
        have : count (pass ts m) ≠ count m := fun e => hne (by rw [e, hc])
        omega

/-! ## the theorem -/

theorem replicate_sound (ts : List Ty) (n : Nat) : Sound ts (List.replicate n false) := by
  intro i h
  unfold get at h
  rw [List.getElem?_replicate] at h
  split at h <;> simp at h

theorem count_replicate_false (n : Nat) : count (List.replicate n false) = 0 := by
  induction n with
  | zero => rfl
  | succ n ih => simpa [count, List.replicate_succ] using ih

/-- `mark_sortable` terminates within `#types + 2` passes, whatever the declaration order -/
theorem markSortable_terminates (ts : List Ty) : (markSortable ts).isSome = true := by
  unfold markSortable
  apply loop_terminates ts _ _ _ (by simp) (fun c hc => by cases hc; exact (count_replicate_false _).symm)
  simp only [reduceCtorEq, if_false, count_replicate_false]; omega

/-- and a type is marked exactly when a `sorted` vector is reachable from it -/
theorem markSortable_iff_reach (ts : List Ty) (r : Marks) (h : markSortable ts = some r) :
    r.length = ts.length ∧ ∀ i, get r i = true ↔ Reach ts i := by
  obtain ⟨hl, hs, hc⟩ := loop_spec ts _ _ _ r (by simp) (replicate_sound ts _)
    (fun c hc => by cases hc; exact (count_replicate_false _).symm) h
  exact ⟨hl, fun i => ⟨hs i, closed_complete ts r hc i⟩⟩

/-- the result does not depend on the order in which the types are declared: renumbering the types by a permutation `p`
    (with inverse `q`) renumbers the reachable set the same way -/
theorem reach_renumber (ts ts' : List Ty) (p : Nat → Nat)
    (hmap : ∀ i t, ts[i]? = some t → ts'[p i]? = some { direct := t.direct, refs := t.refs.map p }) :
    ∀ i, Reach ts i → Reach ts' (p i) := by
  intro i h
  induction h with
  | direct ht hd => exact Reach.direct (hmap _ _ ht) hd
  | step ht hr _ ih => exact Reach.step (hmap _ _ ht) (List.mem_map.mpr ⟨_, hr, rfl⟩) ih

/-- example: a chain declared leaf-last needs several passes, a chain declared leaf-first needs one; both give the same set -/
def chainDown : List Ty := [⟨false, [1]⟩, ⟨false, [2]⟩, ⟨false, [3]⟩, ⟨true, []⟩, ⟨false, []⟩]
def chainUp : List Ty := [⟨false, []⟩, ⟨true, []⟩, ⟨false, [1]⟩, ⟨false, [2]⟩, ⟨false, [3]⟩]
example : markSortable chainDown = some [true, true, true, true, false] := by decide
example : markSortable chainUp = some [false, true, true, true, true] := by decide

/-- `j` can be reached from `i` through non-deprecated table / union members (what a chain of generated sorters walks) -/
inductive Path (ts : List Ty) : Nat → Nat → Prop
  | refl (i : Nat) : Path ts i i
  | step {i r j : Nat} {t : Ty} : ts[i]? = some t → r ∈ t.refs → Path ts r j → Path ts i j

theorem reach_of_path {ts : List Ty} {i j : Nat} {t : Ty} (hp : Path ts i j) (hj : ts[j]? = some t) (hd : t.direct = true) :
    Reach ts i := by
  induction hp with
  | refl i => exact Reach.direct hj hd
  | step ht hr _ ih => exact Reach.step ht hr (ih hj)

theorem path_of_reach {ts : List Ty} {i : Nat} (h : Reach ts i) :
    ∃ j t, Path ts i j ∧ ts[j]? = some t ∧ t.direct = true := by
  induction h with
  | @direct i t ht hd => exact ⟨i, t, Path.refl i, ht, hd⟩
  | step ht hr _ ih =>
    obtain ⟨j, t', hp, hj, hd⟩ := ih
    exact ⟨j, t', Path.step ht hr hp, hj, hd⟩

end Flatcc.Sortable
