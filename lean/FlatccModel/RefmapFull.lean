import FlatccModel.RefmapFullLemmas
/-!
# Reference map: full refinement (C18)

For every hash function and every history of public calls, the executable model of
`src/runtime/refmap.c` (`Refmap.lean`) agrees with the abstract map `spec`, and the rehash loop
inside `resize` never itself exceeds the load factor.
-/
namespace Flatcc.Refmap

/-! ## abstract content of a slot list -/

/-- association-list lookup with default `d`; empty slots (`src = 0`) are skipped -/
def lk : List Slot → Nat → Int → Int
  | [], _, d => d
  | x :: r, k, d => if x.1 ≠ 0 ∧ x.1 = k then x.2 else lk r k d

/-- occupied slots have pairwise distinct keys -/
abbrev KD (L : List Slot) : Prop := List.Pairwise (fun a b : Slot => a.1 ≠ 0 → b.1 ≠ a.1) L

theorem lk_cons (x : Slot) (r : List Slot) (k : Nat) (d : Int) :
    lk (x :: r) k d = if x.1 ≠ 0 ∧ x.1 = k then x.2 else lk r k d := rfl

theorem lk_absent (L : List Slot) (k : Nat) (d : Int) (h : ∀ x ∈ L, ¬ (x.1 ≠ 0 ∧ x.1 = k)) : lk L k d = d := by
  induction L with
  | nil => rfl
  | cons x r ih =>
    rw [lk_cons]
    rw [if_neg (h x List.mem_cons_self)]
    exact ih (fun y hy => h y (List.mem_cons_of_mem _ hy))

theorem lk_func (L : List Slot) (k : Nat) (d r : Int) (hk : k ≠ 0) (hex : ∃ x ∈ L, x.1 = k)
    (hf : ∀ x ∈ L, x.1 = k → x.2 = r) : lk L k d = r := by
  induction L with
  | nil => obtain ⟨x, hx, _⟩ := hex; simp at hx
  | cons y l ih =>
    rw [lk_cons]
    by_cases c : y.1 = k
    · rw [if_pos ⟨by rw [c]; exact hk, c⟩]
      exact hf y List.mem_cons_self c
    · rw [if_neg (fun h => c h.2)]
      apply ih
      · obtain ⟨x, hx, hxk⟩ := hex
        rcases List.mem_cons.mp hx with e | e
        · subst e; exact absurd hxk c
        · exact ⟨x, e, hxk⟩
      · exact fun x hx => hf x (List.mem_cons_of_mem _ hx)

theorem KD_of_Inv (hash : Nat → Nat) (s : RM) (I : Inv hash s) : KD s.table.toList := by
  show List.Pairwise _ _
  rw [List.pairwise_iff_getElem]
  intro i j hi hj hij hne
  have hi' : i < s.table.size := by simpa using hi
  have hj' : j < s.table.size := by simpa using hj
  have e1 := srcAt_toList s i _ (List.getElem?_eq_getElem hi)
  have e2 := srcAt_toList s j _ (List.getElem?_eq_getElem hj)
  intro heq
  rw [← e1] at hne; rw [← e1, ← e2] at heq
  have := I.nodup i j (by rw [← I.size]; exact hi') (by rw [← I.size]; exact hj') hne heq.symm
  omega

/-- under `Inv`, the association list of the table is `find` -/
theorem lk_table (hash : Nat → Nat) (s : RM) (I : Inv hash s) (k : Nat) :
    lk s.table.toList k 0 = find hash s k := by
  by_cases hk : k = 0
  · subst hk
    rw [find_zero hash s I]
    exact lk_absent _ _ _ (fun x _ h => h.1 h.2)
  by_cases hp : ∃ t, t < s.buckets ∧ srcAt s t = k
  · obtain ⟨t, ht, hts⟩ := hp
    have hts' : t < s.table.size := by rw [I.size]; exact ht
    have b := find_present hash s I t ht (by rw [hts]; exact hk)
    rw [hts] at b
    rw [b]
    apply lk_func _ _ _ _ hk
    · exact ⟨_, List.mem_of_getElem? (toList_get s t hts'), hts⟩
    · intro x hx hxk
      obtain ⟨i, hi⟩ := List.mem_iff_getElem?.mp hx
      have hil := lt_of_toList_get s i x hi
      have e1 := srcAt_toList s i x hi
      have := I.nodup i t (by rw [← I.size]; exact hil) ht (by rw [e1, hxk]; exact hk) (by rw [e1, hxk, hts])
      rw [← refAt_toList s i x hi, this]
  · rw [find_absent hash s I k (fun t ht e => hp ⟨t, ht, e⟩)]
    apply lk_absent
    intro x hx h
    obtain ⟨i, hi⟩ := List.mem_iff_getElem?.mp hx
    have hil := lt_of_toList_get s i x hi
    exact hp ⟨i, by rw [← I.size]; exact hil, by rw [srcAt_toList s i x hi]; exact h.2⟩

/-! ## good states -/

/-- a map with an allocated table: probe invariant, and `count` is the number of occupied slots -/
structure GoodT (hash : Nat → Nat) (m : Map) : Prop where
  inv : Inv hash m.rm
  cnt : m.count = nz m.rm.table.toList

/-- reachable states: never a nested resize; either no table at all (initial / cleared) or `GoodT` -/
def Good (hash : Nat → Nat) (m : Map) : Prop :=
  m.nested = false ∧ ((m.rm.buckets = 0 ∧ m.count = 0 ∧ m.rm.table = #[]) ∨ GoodT hash m)

theorem find'_eq (hash : Nat → Nat) (m : Map) (G : GoodT hash m) (k : Nat) : find' hash m k = find hash m.rm k := by
  unfold find'
  split
  · next h => rw [find_of_count_zero hash m.rm G.inv (by rw [← G.cnt]; exact h)]
  · rfl

theorem find'_empty (hash : Nat → Nat) (m : Map) (h : m.count = 0) (k : Nat) : find' hash m k = 0 := by
  unfold find'; simp [h]

/-! ## the probe-and-store step on maps -/

theorem insertSlot_rm (hash : Nat → Nat) (m : Map) (src : Nat) (ref : Int) :
    (insertSlot hash m src ref).rm = insertCore hash m.rm src ref := by
  unfold insertSlot insertCore
  simp only []
  split <;> rfl

theorem insertSlot_nested (hash : Nat → Nat) (m : Map) (src : Nat) (ref : Int) :
    (insertSlot hash m src ref).nested = m.nested := by
  unfold insertSlot
  simp only []
  split <;> rfl

theorem insertSlot_count (hash : Nat → Nat) (m : Map) (src : Nat) (ref : Int) :
    (insertSlot hash m src ref).count =
      m.count + (if srcAt m.rm (walk m.rm (hash src) src 0 m.rm.buckets) = 0 then 1 else 0) := by
  unfold insertSlot
  simp only []
  split <;> rfl

theorem insertSlot_spec (hash : Nat → Nat) (m : Map) (G : GoodT hash m) (src : Nat) (ref : Int) (hsrc : src ≠ 0)
    (hroom : m.count + 2 ≤ m.rm.buckets) :
    GoodT hash (insertSlot hash m src ref) ∧
    (insertSlot hash m src ref).nested = m.nested ∧
    (insertSlot hash m src ref).rm.buckets = m.rm.buckets ∧
    find hash (insertSlot hash m src ref).rm src = ref ∧
    (∀ k, k ≠ src → find hash (insertSlot hash m src ref).rm k = find hash m.rm k) ∧
    (insertSlot hash m src ref).count ≤ m.count + 1 ∧
    ((∀ t, t < m.rm.buckets → srcAt m.rm t ≠ src) → (insertSlot hash m src ref).count = m.count + 1) ∧
    (∀ t, t < m.rm.buckets → srcAt (insertSlot hash m src ref).rm t = src ∨
        srcAt (insertSlot hash m src ref).rm t = srcAt m.rm t) := by
  obtain ⟨a1, a2, a3, a4, _, a6⟩ := insertCore_spec hash m.rm G.inv src ref hsrc (by rw [← G.cnt]; exact hroom)
  rw [insertSlot_rm, insertSlot_nested, insertSlot_count]
  refine ⟨⟨?_, ?_⟩, rfl, rfl, a2, a3, ?_, ?_, a6⟩
  · rw [insertSlot_rm]; exact a1
  · rw [insertSlot_rm, insertSlot_count, a4, G.cnt]
  · split <;> omega
  · intro habs
    obtain ⟨i0, _, hw, hz, _⟩ := walk_absent hash m.rm G.inv src habs
    rw [hw, hz]; simp

/-! ## resize -/

/-- the body of the rehash loop of `resize` -/
def rehashStep (hash : Nat → Nat) (acc : Map) (slot : Slot) : Map :=
  if slot.1 = 0 then acc
  else
    let acc := if aboveLoad acc.count acc.rm.buckets then { acc with nested := true } else acc
    insertSlot hash acc slot.1 slot.2

def freshMap (buckets : Nat) (nested : Bool) : Map :=
  { count := 0, rm := { buckets := buckets, table := Array.replicate buckets (0, 0) }, nested := nested }

theorem resize_eq (hash : Nat → Nat) (m : Map) (count : Nat) :
    resize hash m count =
      if m.rm.buckets = growLoop (if count < m.count then m.count else count)
          ((if count < m.count then m.count else count) + 64) minBuckets then m
      else m.rm.table.toList.foldl (rehashStep hash)
        (freshMap (growLoop (if count < m.count then m.count else count)
          ((if count < m.count then m.count else count) + 64) minBuckets) m.nested) := by
  unfold resize
  simp only [← Array.foldl_toList]
  rfl

theorem fresh_good (hash : Nat → Nat) (b : Nat) (nested : Bool) (hb : 0 < b) : GoodT hash (freshMap b nested) := by
  have hsrc : ∀ j, srcAt (freshMap b nested).rm j = 0 := by
    intro j
    unfold srcAt freshMap
    simp only []
    by_cases hj : j < b
    · rw [getElem!_pos _ j (by simpa using hj)]; simp
    · rw [getElem!_neg _ j (by simpa using hj)]; rfl
  refine ⟨⟨?_, hb, ⟨0, hb, hsrc 0⟩, ?_, ?_⟩, ?_⟩
  · simp [freshMap]
  · intro j1 j2 _ _ h; exact absurd (hsrc j1) h
  · intro t i _ h; exact absurd (hsrc t) h
  · simp [freshMap, nz_replicate]

theorem rehash_fold (hash : Nat → Nat) (C B : Nat) (hC : aboveLoad C B = false) :
    ∀ (L : List Slot) (acc : Map), GoodT hash acc → acc.rm.buckets = B → acc.count + nz L ≤ C → KD L →
      (∀ x ∈ L, x.1 ≠ 0 → ∀ t, t < B → srcAt acc.rm t ≠ x.1) →
      GoodT hash (L.foldl (rehashStep hash) acc) ∧
      (L.foldl (rehashStep hash) acc).rm.buckets = B ∧
      (L.foldl (rehashStep hash) acc).count = acc.count + nz L ∧
      (L.foldl (rehashStep hash) acc).nested = acc.nested ∧
      ∀ k, find hash (L.foldl (rehashStep hash) acc).rm k = lk L k (find hash acc.rm k) := by
  intro L
  induction L with
  | nil => intro acc G hB _ _ _; exact ⟨G, hB, rfl, rfl, fun _ => rfl⟩
  | cons x L ih =>
    intro acc G hB hcnt hKD hnew
    rw [List.foldl_cons]
    have hKD' := List.pairwise_cons.mp hKD
    by_cases hx : x.1 = 0
    · have e : rehashStep hash acc x = acc := by unfold rehashStep; simp [hx]
      rw [e]
      have hn : nz (x :: L) = nz L := by simp [nz, hx]
      rw [hn] at hcnt ⊢
      obtain ⟨b1, b2, b3, b4, b5⟩ := ih acc G hB hcnt hKD'.2 (fun y hy => hnew y (List.mem_cons_of_mem _ hy))
      refine ⟨b1, b2, b3, b4, ?_⟩
      intro k; rw [b5 k]
      rw [lk_cons, if_neg (fun h => h.1 hx)]
    · have hn : nz (x :: L) = 1 + nz L := by simp [nz, hx]
      rw [hn] at hcnt ⊢
      have hload : aboveLoad acc.count acc.rm.buckets = false := by
        rw [hB]; exact aboveLoad_mono _ _ _ (by omega) hC
      have hroomC := aboveLoad_room C B hC
      have e : rehashStep hash acc x = insertSlot hash acc x.1 x.2 := by
        unfold rehashStep; simp [hx, hload]
      rw [e]
      obtain ⟨c1, c2, c3, c4, c5, _, c7, c8⟩ :=
        insertSlot_spec hash acc G x.1 x.2 hx (by rw [hB]; omega)
      have c7' := c7 (by rw [hB]; exact hnew x List.mem_cons_self hx)
      obtain ⟨b1, b2, b3, b4, b5⟩ := ih (insertSlot hash acc x.1 x.2) c1 (by rw [c3]; exact hB)
        (by rw [c7']; omega) hKD'.2 (by
          intro y hy hy0 t ht
          rcases c8 t (by rw [hB]; exact ht) with h | h
          · rw [h]; exact fun e => hKD'.1 y hy hx e.symm
          · rw [h]; exact hnew y (List.mem_cons_of_mem _ hy) hy0 t ht)
      refine ⟨b1, b2, by rw [b3, c7']; omega, by rw [b4, c2], ?_⟩
      intro k; rw [b5 k]
      rw [lk_cons]
      by_cases hk : x.1 = k
      · rw [if_pos ⟨hx, hk⟩]
        subst hk
        rw [c4]
        exact lk_absent _ _ _ (fun y hy h => hKD'.1 y hy hx h.2)
      · rw [if_neg (fun h => hk h.2), c5 k (fun e => hk e.symm)]

theorem srcAt_fresh (b : Nat) (nested : Bool) (j : Nat) : srcAt (freshMap b nested).rm j = 0 := by
  unfold srcAt freshMap
  simp only []
  by_cases hj : j < b
  · rw [getElem!_pos _ j (by simpa using hj)]; simp
  · rw [getElem!_neg _ j (by simpa using hj)]; rfl

/-- `resize` from any good state: allocated table, same content, below the load factor, no nested resize -/
theorem resize_spec (hash : Nat → Nat) (m : Map) (n : Nat) (G : Good hash m) :
    GoodT hash (resize hash m n) ∧ (resize hash m n).nested = false ∧
    aboveLoad (resize hash m n).count (resize hash m n).rm.buckets = false ∧
    (resize hash m n).count = m.count ∧
    ∀ k, find' hash (resize hash m n) k = find' hash m k := by
  rw [resize_eq]
  have hCm : m.count ≤ (if n < m.count then m.count else n) := by split <;> omega
  generalize (if n < m.count then m.count else n) = C at hCm ⊢
  obtain ⟨hb8, hload⟩ := growLoop_ok C
  generalize growLoop C (C + 64) minBuckets = B at hb8 hload ⊢
  obtain ⟨hnest, hG⟩ := G
  split
  · next hb =>
    rcases hG with ⟨h0, _, _⟩ | hT
    · omega
    · exact ⟨hT, hnest, by rw [hb]; exact aboveLoad_mono _ _ _ hCm hload, rfl, fun _ => rfl⟩
  · have hL : m.count = nz m.rm.table.toList ∧ KD m.rm.table.toList ∧
        ∀ k, find' hash m k = lk m.rm.table.toList k 0 := by
      rcases hG with ⟨_, hc, ht⟩ | hT
      · rw [ht, hc]
        exact ⟨rfl, List.Pairwise.nil, fun k => find'_empty hash m hc k⟩
      · exact ⟨hT.cnt, KD_of_Inv hash _ hT.inv, fun k => by rw [find'_eq hash m hT, lk_table hash _ hT.inv]⟩
    obtain ⟨hc, hkd, hf⟩ := hL
    have F := fresh_good hash B m.nested (by omega)
    obtain ⟨b1, b2, b3, b4, b5⟩ := rehash_fold hash C B hload m.rm.table.toList (freshMap B m.nested) F rfl
      (by show 0 + _ ≤ C; omega) hkd
      (by intro x _ hx t _; rw [srcAt_fresh]; exact fun e => hx e.symm)
    have hcount : (List.foldl (rehashStep hash) (freshMap B m.nested) m.rm.table.toList).count = m.count := by
      rw [b3, hc]; show 0 + _ = _; omega
    refine ⟨b1, by rw [b4]; exact hnest, ?_, hcount, ?_⟩
    · rw [b2, hcount]; exact aboveLoad_mono _ _ _ hCm hload
    · intro k
      rw [find'_eq hash _ b1, b5, hf, find_of_count_zero hash _ F.inv (by rw [← F.cnt]; rfl)]

/-! ## the public operations -/

theorem insert_spec (hash : Nat → Nat) (m : Map) (s : Nat) (r : Int) (G : Good hash m) :
    Good hash (insert hash m s r).1 ∧
    ∀ k, find' hash (insert hash m s r).1 k = if s = k ∧ s ≠ 0 then r else find' hash m k := by
  unfold insert
  by_cases hs : s = 0
  · simp [hs, G]
  simp only [hs, if_false]
  have h1 : GoodT hash (if aboveLoad m.count m.rm.buckets then resize hash m (m.count * 2) else m) ∧
      (if aboveLoad m.count m.rm.buckets then resize hash m (m.count * 2) else m).nested = false ∧
      aboveLoad (if aboveLoad m.count m.rm.buckets then resize hash m (m.count * 2) else m).count
        (if aboveLoad m.count m.rm.buckets then resize hash m (m.count * 2) else m).rm.buckets = false ∧
      ∀ k, find' hash (if aboveLoad m.count m.rm.buckets then resize hash m (m.count * 2) else m) k =
        find' hash m k := by
    by_cases hl : aboveLoad m.count m.rm.buckets = true
    · simp only [hl, if_true]
      obtain ⟨a1, a2, a3, _, a5⟩ := resize_spec hash m (m.count * 2) G
      exact ⟨a1, a2, a3, a5⟩
    · have hl' : aboveLoad m.count m.rm.buckets = false := by simpa using hl
      rw [if_neg hl]
      refine ⟨?_, G.1, hl', fun _ => rfl⟩
      rcases G.2 with ⟨h0, _, _⟩ | hT
      · have := aboveLoad_room _ _ hl'; omega
      · exact hT
  generalize (if aboveLoad m.count m.rm.buckets then resize hash m (m.count * 2) else m) = m1 at h1
  obtain ⟨g1, g2, g3, g4⟩ := h1
  obtain ⟨c1, c2, _, c4, c5, _, _, _⟩ := insertSlot_spec hash m1 g1 s r hs (aboveLoad_room _ _ g3)
  refine ⟨⟨by rw [c2]; exact g2, Or.inr c1⟩, ?_⟩
  intro k
  rw [find'_eq hash _ c1]
  by_cases hk : s = k
  · subst hk; simp [hs, c4]
  · rw [c5 k (fun e => hk e.symm), ← find'_eq hash m1 g1, g4]; simp [hk]

theorem reset_spec (hash : Nat → Nat) (m : Map) (G : Good hash m) :
    Good hash (reset m) ∧ ∀ k, find' hash (reset m) k = 0 := by
  refine ⟨⟨G.1, ?_⟩, fun k => find'_empty hash _ rfl k⟩
  rcases G.2 with ⟨h0, hc, ht⟩ | hT
  · left
    refine ⟨h0, rfl, ?_⟩
    unfold reset; simp [hc, ht]
  · right
    by_cases hc : m.count = 0
    · have e : (reset m).rm = m.rm := by unfold reset; simp [hc]
      exact ⟨by rw [e]; exact hT.inv, by rw [e, ← hT.cnt, hc]; rfl⟩
    · have e : (reset m).rm = (freshMap m.rm.buckets false).rm := by unfold reset freshMap; simp [hc]
      have F := fresh_good hash m.rm.buckets false hT.inv.pos
      exact ⟨by rw [e]; exact F.inv, by rw [e, ← F.cnt]; rfl⟩

theorem init_good (hash : Nat → Nat) : Good hash Map.init := ⟨rfl, Or.inl ⟨rfl, rfl, rfl⟩⟩

/-- one public call: the good-state invariant is kept and the content changes as `spec` says -/
theorem step_spec (hash : Nat → Nat) (m : Map) (op : Op) (rest : List Op) (G : Good hash m)
    (h : ∀ k, find' hash m k = spec rest k) :
    Good hash (step hash m op).1 ∧ ∀ k, find' hash (step hash m op).1 k = spec (op :: rest) k := by
  cases op with
  | ins s r =>
    obtain ⟨a, b⟩ := insert_spec hash m s r G
    refine ⟨a, fun k => ?_⟩
    show find' hash (insert hash m s r).1 k = if s = k ∧ s ≠ 0 then r else spec rest k
    rw [b, h]
  | fnd s => exact ⟨G, h⟩
  | rsz n =>
    obtain ⟨a1, a2, _, _, a5⟩ := resize_spec hash m n G
    exact ⟨⟨a2, Or.inr a1⟩, fun k => (a5 k).trans (h k)⟩
  | rst => exact reset_spec hash m G
  | clr => exact ⟨init_good hash, fun k => rfl⟩

/-! ## the refinement theorems -/

/-- run a history (oldest first) from the initial map -/
def run (hash : Nat → Nat) (ops : List Op) : Map := ops.foldl (fun m op => (step hash m op).1) Map.init

theorem run_snoc (hash : Nat → Nat) (ops : List Op) (op : Op) :
    run hash (ops ++ [op]) = (step hash (run hash ops) op).1 := by
  unfold run; rw [List.foldl_append]; rfl

/-- every reachable state is good and represents `spec` of its history (newest first) -/
theorem run_spec (hash : Nat → Nat) : ∀ (l : List Op),
    Good hash (run hash l.reverse) ∧ ∀ k, find' hash (run hash l.reverse) k = spec l k := by
  intro l
  induction l with
  | nil => exact ⟨init_good hash, fun _ => rfl⟩
  | cons op l ih =>
    rw [List.reverse_cons, run_snoc]
    exact step_spec hash _ op l ih.1 ih.2

end Flatcc.Refmap
