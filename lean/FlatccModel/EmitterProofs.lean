import FlatccModel.Emitter
/-! Refinement lemmas: every emitter operation acts on the abstract stream as prepend / append. -/
namespace Flatcc.Emitter

/-- reachable-state invariant: a page has room (`page ≥ 2`), and an emitter that has no page holds nothing -/
structure WFEm (s : Em) : Prop where
  page2 : 2 ≤ s.page
  empty : s.started = false → s.fpages = [] ∧ s.mf = [] ∧ s.mb = [] ∧ s.bpages = []

theorem content_pushFront (s : Em) (d : List Nat) : (pushFront s d).content = d ++ s.content := by
  unfold pushFront Em.content
  cases h : s.fpages with
  | nil => simp [List.append_assoc]
  | cons p r => simp [List.append_assoc]

theorem getLast?_eq_some_split {α} (l : List α) (p : α) (h : l.getLast? = some p) : l = l.dropLast ++ [p] := by
  have hne : l ≠ [] := by intro e; rw [e] at h; simp at h
  have := List.dropLast_concat_getLast hne
  rw [List.getLast?_eq_getLast hne] at h
  injection h with h
  rw [h] at this
  exact this.symm

theorem content_pushBack (s : Em) (d : List Nat) : (pushBack s d).content = s.content ++ d := by
  unfold pushBack Em.content
  cases h : s.bpages.getLast? with
  | none =>
    have : s.bpages = [] := by
      cases hb : s.bpages with
      | nil => rfl
      | cons a r => rw [hb] at h; simp [List.getLast?] at h
    simp [this, List.append_assoc]
  | some p =>
    have e := getLast?_eq_some_split s.bpages p h
    simp only []
    conv => rhs; rw [e]
    simp [List.append_assoc]

theorem content_advanceFront (s : Em) : (advanceFront s).content = s.content := by
  unfold advanceFront Em.content
  split
  · rfl
  · split <;> simp

theorem content_advanceBack (s : Em) : (advanceBack s).content = s.content := by
  unfold advanceBack Em.content
  split
  · rfl
  · split <;> simp

theorem wf_pushFront {s : Em} (w : WFEm s) (hs : s.started = true) (d : List Nat) : WFEm (pushFront s d) := by
  unfold pushFront
  cases h : s.fpages <;> exact ⟨w.page2, fun hn => by simp [hs] at hn⟩

theorem started_pushFront (s : Em) (d : List Nat) : (pushFront s d).started = s.started := by
  unfold pushFront; cases s.fpages <;> rfl

theorem page_pushFront (s : Em) (d : List Nat) : (pushFront s d).page = s.page := by
  unfold pushFront; cases s.fpages <;> rfl

theorem wf_pushBack {s : Em} (w : WFEm s) (hs : s.started = true) (d : List Nat) : WFEm (pushBack s d) := by
  unfold pushBack
  cases h : s.bpages.getLast? <;> exact ⟨w.page2, fun hn => by simp [hs] at hn⟩

theorem started_pushBack (s : Em) (d : List Nat) : (pushBack s d).started = s.started := by
  unfold pushBack; cases s.bpages.getLast? <;> rfl

theorem wf_advanceFront {s : Em} (w : WFEm s) : WFEm (advanceFront s) ∧ (advanceFront s).started = true := by
  unfold advanceFront
  split
  · exact ⟨⟨w.page2, fun hn => by simp at hn⟩, rfl⟩
  · rename_i h
    have hs : s.started = true := by simpa using h
    split <;> exact ⟨⟨w.page2, fun hn => by simp [hs] at hn⟩, hs⟩

theorem wf_advanceBack {s : Em} (w : WFEm s) : WFEm (advanceBack s) ∧ (advanceBack s).started = true := by
  unfold advanceBack
  split
  · exact ⟨⟨w.page2, fun hn => by simp at hn⟩, rfl⟩
  · rename_i h
    have hs : s.started = true := by simpa using h
    split <;> exact ⟨⟨w.page2, fun hn => by simp [hs] at hn⟩, hs⟩

theorem frontLeft_started {s : Em} (h : s.frontLeft ≠ 0) : s.started = true := by
  unfold Em.frontLeft at h
  cases hs : s.started with
  | true => rfl
  | false => simp [hs] at h

theorem backLeft_started {s : Em} (h : s.backLeft ≠ 0) : s.started = true := by
  unfold Em.backLeft at h
  cases hs : s.started with
  | true => rfl
  | false => simp [hs] at h

/-- after taking a page there is room in front -/
theorem frontLeft_advanceFront {s : Em} (w : WFEm s) (h0 : s.frontLeft = 0) : (advanceFront s).frontLeft ≠ 0 := by
  have hp := w.page2
  unfold advanceFront
  split
  · rename_i hn
    have hs : s.started = false := by simpa using hn
    obtain ⟨e1, e2, _, _⟩ := w.empty hs
    unfold Em.frontLeft
    simp only [Bool.not_true, Bool.false_eq_true, if_false, e1, e2, List.length_nil]
    omega
  · split <;> (unfold Em.frontLeft; rename_i hn _; have hs : s.started = true := by simpa using hn
               simp only [hs, Bool.not_true, Bool.false_eq_true, if_false, List.length_nil]; omega)

theorem backLeft_advanceBack {s : Em} (w : WFEm s) (h0 : s.backLeft = 0) : (advanceBack s).backLeft ≠ 0 := by
  have hp := w.page2
  unfold advanceBack
  split
  · rename_i hn
    have hs : s.started = false := by simpa using hn
    obtain ⟨_, _, e3, e4⟩ := w.empty hs
    unfold Em.backLeft
    simp only [Bool.not_true, Bool.false_eq_true, if_false, e3, e4, List.getLast?_nil, List.length_nil]
    omega
  · split <;> (unfold Em.backLeft; rename_i hn _; have hs : s.started = true := by simpa using hn
               simp only [hs, Bool.not_true, Bool.false_eq_true, if_false, List.getLast?_append, List.getLast?_singleton,
                 Option.some_or, List.length_nil]; omega)

/-- `copy_front` prepends all of `d` (given the loop's fuel) -/
theorem copyFront_spec : ∀ fuel (s : Em) (d : List Nat), WFEm s →
    2 * d.length + (if s.frontLeft = 0 then 1 else 0) ≤ fuel →
    (copyFront fuel s d).content = d ++ s.content ∧ WFEm (copyFront fuel s d) ∧
    ((copyFront fuel s d).started = true ∨ d = []) := by
  intro fuel
  induction fuel with
  | zero =>
    intro s d w h
    have : d = [] := by cases d <;> simp_all
    subst this
    exact ⟨by simp [copyFront], w, Or.inr rfl⟩
  | succ fuel ih =>
    intro s d w h
    unfold copyFront
    by_cases he : d.isEmpty = true
    · have : d = [] := by simpa using he
      subst this
      simp only [List.isEmpty_nil, if_true, List.nil_append]
      exact ⟨trivial, w, Or.inr trivial⟩
    · have hne : d ≠ [] := by simpa using he
      have hlen : 0 < d.length := List.length_pos_iff.mpr hne
      simp only [he, Bool.false_eq_true, if_false]
      by_cases h0 : s.frontLeft = 0
      · simp only [h0, if_true] at h ⊢
        have wa := wf_advanceFront w
        have hl := frontLeft_advanceFront w h0
        have := ih (advanceFront s) d wa.1 (by simp only [hl, if_false]; omega)
        rw [content_advanceFront] at this
        exact ⟨this.1, this.2.1, this.2.2⟩
      · simp only [h0, if_false] at h ⊢
        have hs := frontLeft_started h0
        have hk : 1 ≤ min d.length s.frontLeft := by omega
        have hk2 : min d.length s.frontLeft ≤ d.length := Nat.min_le_left _ _
        have wp := wf_pushFront w hs (d.drop (d.length - min d.length s.frontLeft))
        have := ih (pushFront s (d.drop (d.length - min d.length s.frontLeft))) (d.take (d.length - min d.length s.frontLeft)) wp
          (by simp only [List.length_take]; split <;> omega)
        rw [content_pushFront, ← List.append_assoc, List.take_append_drop] at this
        refine ⟨this.1, this.2.1, ?_⟩
        rcases this.2.2 with h1 | h1
        · exact Or.inl h1
        · left
          rw [h1]; unfold copyFront
          cases fuel <;> simp [started_pushFront, hs]

theorem copyBack_spec : ∀ fuel (s : Em) (d : List Nat), WFEm s →
    2 * d.length + (if s.backLeft = 0 then 1 else 0) ≤ fuel →
    (copyBack fuel s d).content = s.content ++ d ∧ WFEm (copyBack fuel s d) := by
  intro fuel
  induction fuel with
  | zero =>
    intro s d w h
    have : d = [] := by cases d <;> simp_all
    subst this
    exact ⟨by simp [copyBack], w⟩
  | succ fuel ih =>
    intro s d w h
    unfold copyBack
    by_cases he : d.isEmpty = true
    · have : d = [] := by simpa using he
      subst this
      simp only [List.isEmpty_nil, if_true, List.append_nil]
      exact ⟨trivial, w⟩
    · have hne : d ≠ [] := by simpa using he
      have hlen : 0 < d.length := List.length_pos_iff.mpr hne
      simp only [he, Bool.false_eq_true, if_false]
      by_cases h0 : s.backLeft = 0
      · simp only [h0, if_true] at h ⊢
        have wa := wf_advanceBack w
        have hl := backLeft_advanceBack w h0
        have := ih (advanceBack s) d wa.1 (by simp only [hl, if_false]; omega)
        rw [content_advanceBack] at this
        exact this
      · simp only [h0, if_false] at h ⊢
        have hs := backLeft_started h0
        have hk : 1 ≤ min d.length s.backLeft := by omega
        have wp := wf_pushBack w hs (d.take (min d.length s.backLeft))
        have := ih (pushBack s (d.take (min d.length s.backLeft))) (d.drop (min d.length s.backLeft)) wp
          (by simp only [List.length_drop]; split <;> omega)
        rw [content_pushBack, List.append_assoc, List.take_append_drop] at this
        exact this

end Flatcc.Emitter
