import FlatccModel.CharArray
import FlatccModel.Props.C04
import FlatccModel.Props.C05
/-!
# `flatcc_json_parser_char_array`: memory safety of the destination, content, print/parse round trip

For EVERY input text, array size `N` and flag combination (no assumption on the bytes).
-/
namespace Flatcc.CharArray
open Flatcc.Json Flatcc.Props.C04

/-! ## small facts -/

theorem zeros_length (n : Nat) : (zeros n).length = n := by simp [zeros]

theorem memcpy_length (src : List Nat) (k : Nat) : (memcpy src k).length = k := by
  induction k generalizing src with
  | zero => cases src <;> simp [memcpy]
  | succ k ih => cases src <;> simp [memcpy, ih]

/-- `memcpy` never reads behind its source when `k` is within it: it is `take` -/
theorem memcpy_eq_take (src : List Nat) (k : Nat) (h : k ≤ src.length) : memcpy src k = src.take k := by
  induction k generalizing src with
  | zero => cases src <;> simp [memcpy]
  | succ k ih =>
    cases src with
    | nil => simp at h
    | cons c r => simp only [memcpy, List.take_succ_cons]; rw [ih r (by simpa using h)]

theorem memcpy_self (src : List Nat) : memcpy src src.length = src := by
  rw [memcpy_eq_take _ _ (Nat.le_refl _), List.take_length]

theorem runLen_le (buf : List Nat) : runLen buf ≤ buf.length := by
  induction buf with
  | nil => simp [runLen]
  | cons c r ih => simp only [runLen]; split <;> simp <;> omega

/-! ## the string scanner of `Json.lean` without fuel -/

/-- `parseBody` with the fuel `parseString` gives it -/
def pb (buf acc : List Nat) : Option (List Nat × List Nat) := parseBody (buf.length + 1) buf acc

theorem pb_nil (acc : List Nat) : pb [] acc = none := by simp [pb, parseBody]

theorem pb_fuel (buf acc : List Nat) (fuel : Nat) (h : buf.length + 1 ≤ fuel) : parseBody fuel buf acc = pb buf acc := by
  have := C04_string_fuel_enough buf acc (fuel - (buf.length + 1))
  rw [show buf.length + 1 + (fuel - (buf.length + 1)) = fuel by omega] at this
  exact this

theorem decodeEscape_shorter (r code r' : List Nat) (h : decodeEscape r = some (code, r')) : r'.length < r.length := by
  obtain ⟨pre, hne, he⟩ := decodeEscape_suffix r code r' h
  have : 0 < pre.length := by cases pre with | nil => exact absurd rfl hne | cons _ _ => simp
  rw [he, List.length_append]; omega

theorem pb_cons (c : Nat) (r acc : List Nat) :
    pb (c :: r) acc =
      if c = 34 then some (acc, r)
      else if c < 32 then none
      else if c = 92 then
        match decodeEscape r with
        | some (code, r') => pb r' (acc ++ code)
        | none => none
      else pb r (acc ++ [c]) := by
  unfold pb
  simp only [List.length_cons, parseBody]
  split
  · rfl
  · split
    · rfl
    · split
      · cases hd : decodeEscape r with
        | none => rfl
        | some p =>
          obtain ⟨code, r'⟩ := p
          have := decodeEscape_shorter r code r' hd
          simp only []
          exact pb_fuel r' (acc ++ code) (r.length + 1) (by omega)
      · rfl

theorem plain_iff (c : Nat) : plain c = true ↔ c ≠ 34 ∧ 32 ≤ c ∧ c ≠ 92 := by
  simp [plain, Bool.and_eq_true, and_assoc]

/-- `string_part` consumes the plain run: the scanner continues behind it with the run appended -/
theorem pb_run (buf acc : List Nat) : pb buf acc = pb (buf.drop (runLen buf)) (acc ++ buf.take (runLen buf)) := by
  induction buf generalizing acc with
  | nil => simp [runLen]
  | cons c r ih =>
    simp only [runLen]
    split
    · rename_i hp
      obtain ⟨h1, h2, h3⟩ := (plain_iff c).1 hp
      rw [pb_cons, if_neg h1, if_neg (by omega), if_neg h3, ih]
      simp
    · simp

/-- the byte `string_part` stops at is not plain -/
theorem runLen_stop (buf : List Nat) (c : Nat) (r : List Nat) (h : buf.drop (runLen buf) = c :: r) : plain c = false := by
  induction buf with
  | nil => simp at h
  | cons d t ih =>
    simp only [runLen] at h
    split at h
    · simp only [List.drop_succ_cons] at h; exact ih h
    · rename_i hp
      simp only [List.drop_zero, List.cons.injEq] at h
      rw [← h.1]; simpa using hp

theorem parseBody_prefix (fuel : Nat) (buf acc s rest : List Nat) (h : parseBody fuel buf acc = some (s, rest)) :
    ∃ t, s = acc ++ t := by
  induction fuel generalizing buf acc with
  | zero => simp [parseBody] at h
  | succ n ih =>
    cases buf with
    | nil => simp [parseBody] at h
    | cons c r =>
      simp only [parseBody] at h
      split at h
      · simp at h; exact ⟨[], by simp [h.1]⟩
      · split at h
        · simp at h
        · split at h
          · split at h
            · obtain ⟨t, ht⟩ := ih _ _ h
              exact ⟨_, ht.trans (List.append_assoc _ _ _)⟩
            · simp at h
          · obtain ⟨t, ht⟩ := ih _ _ h
            exact ⟨_, ht.trans (List.append_assoc _ _ _)⟩

theorem pb_length (buf acc s rest : List Nat) (h : pb buf acc = some (s, rest)) : acc.length ≤ s.length := by
  obtain ⟨t, ht⟩ := parseBody_prefix _ _ _ _ _ h
  rw [ht, List.length_append]; omega

/-! ## memory safety of the destination

`WInv`: the C variable `n` is exactly what is left of the array. It holds initially, every store keeps it, and under it
every store fits: the checked variant (which compares every store with the real array) never fails a check. -/

def WInv (N : Nat) (st : St) : Prop := st.written.length + st.room = N

theorem write_unchecked (N : Nat) (st : St) (bytes : List Nat) :
    write false N st bytes = .ok ⟨st.written ++ bytes, st.room - bytes.length⟩ := by simp [write]

theorem write_chk (N : Nat) (st : St) (bytes : List Nat) (hw : WInv N st) (hb : bytes.length ≤ st.room) :
    write true N st bytes = write false N st bytes := by
  unfold WInv at hw
  have h1 : ¬ bytes.length > st.room := by omega
  have h2 : ¬ st.written.length + bytes.length > N := by omega
  simp [write, h1, h2]

theorem write_winv (N : Nat) (st : St) (bytes : List Nat) (hw : WInv N st) (hb : bytes.length ≤ st.room) :
    WInv N ⟨st.written ++ bytes, st.room - bytes.length⟩ := by
  unfold WInv at *; simp only [List.length_append]; omega

/-- **No single copy exceeds the remaining room.** What `copy` stores is at most `n` bytes long, whatever the piece and
the flags; it fails only with `array_overflow`, and only without `skip_array_overflow`. -/
theorem copy_within_room (N : Nat) (f : Flags) (st : St) (mark : List Nat) (k : Nat) :
    (copy false N f st mark k = .error .overflow ∧ k > st.room ∧ f.skipOverflow = false)
    ∨ ∃ bytes, bytes.length ≤ st.room ∧ bytes = memcpy mark (min k st.room)
        ∧ copy false N f st mark k = .ok ⟨st.written ++ bytes, st.room - bytes.length⟩
        ∧ copy true N f st mark k = write true N st bytes := by
  unfold copy
  by_cases hk : k > st.room
  · rw [if_pos hk, if_pos hk]
    cases hs : f.skipOverflow with
    | false => left; simp [hk]
    | true =>
      right
      refine ⟨memcpy mark st.room, by rw [memcpy_length]; omega, by rw [Nat.min_eq_right (by omega)], ?_, ?_⟩
      · simp [write_unchecked]
      · simp
  · rw [if_neg hk, if_neg hk]
    right
    refine ⟨memcpy mark k, by rw [memcpy_length]; omega, by rw [Nat.min_eq_left (by omega)], ?_, rfl⟩
    simp [write_unchecked]

theorem copy_chk (N : Nat) (f : Flags) (st : St) (mark : List Nat) (k : Nat) (hw : WInv N st) :
    copy true N f st mark k = copy false N f st mark k := by
  rcases copy_within_room N f st mark k with ⟨h, hk, hs⟩ | ⟨bytes, hb, _, h1, h2⟩
  · rw [h]; simp [copy, hk, hs]
  · rw [h2, h1, write_chk N st bytes hw hb, write_unchecked]

theorem copy_winv (N : Nat) (f : Flags) (st st' : St) (mark : List Nat) (k : Nat) (hw : WInv N st)
    (h : copy false N f st mark k = .ok st') : WInv N st' := by
  rcases copy_within_room N f st mark k with ⟨h', _, _⟩ | ⟨bytes, hb, _, h1, _⟩
  · rw [h'] at h; cases h
  · rw [h1] at h; cases h; exact write_winv N st bytes hw hb

theorem finish_chk (N : Nat) (f : Flags) (pending : Option Err) (st : St) (buf : List Nat) (hw : WInv N st) :
    finish true N f pending st buf = finish false N f pending st buf := by
  unfold finish
  rw [write_chk N st (zeros st.room) hw (by rw [zeros_length]; omega)]

theorem afterEscape_chk (N : Nat) (f : Flags) (st : St) (esc : Option (List Nat × List Nat)) (hw : WInv N st) :
    afterEscape true N f st esc = afterEscape false N f st esc := by
  unfold afterEscape
  cases esc with
  | none => rfl
  | some p => obtain ⟨code, buf2⟩ := p; simp only []; rw [copy_chk N f st code code.length hw]

theorem afterEscape_winv (N : Nat) (f : Flags) (st : St) (esc : Option (List Nat × List Nat)) (buf' : List Nat) (st' : St)
    (hw : WInv N st) (h : afterEscape false N f st esc = .more buf' st') : WInv N st' := by
  unfold afterEscape at h
  cases esc with
  | none => simp at h
  | some p =>
    obtain ⟨code, buf2⟩ := p
    simp only [] at h
    split at h
    · simp at h
    · cases hc : copy false N f st code code.length with
      | error e => rw [hc] at h; simp at h
      | ok st2 =>
        rw [hc] at h; simp only [Step.more.injEq] at h
        rw [← h.2]; exact copy_winv N f st st2 code code.length hw hc

theorem afterPart_chk (N : Nat) (f : Flags) (st : St) (mark : List Nat) (k : Nat) (hw : WInv N st) :
    afterPart true N f st mark k = afterPart false N f st mark k := by
  unfold afterPart
  cases mark.drop k with
  | nil => rfl
  | cons c r1 =>
    simp only []
    rw [copy_chk N f st mark k hw]
    cases hc : copy false N f st mark k with
    | error e => rfl
    | ok st1 =>
      have hw1 := copy_winv N f st st1 mark k hw hc
      simp only []
      rw [finish_chk N f none st1 (c :: r1) hw1, afterEscape_chk N f st1 (decodeEscape r1) hw1]

theorem afterPart_winv (N : Nat) (f : Flags) (st : St) (mark : List Nat) (k : Nat) (buf' : List Nat) (st' : St)
    (hw : WInv N st) (h : afterPart false N f st mark k = .more buf' st') : WInv N st' := by
  unfold afterPart at h
  cases hd : mark.drop k with
  | nil => rw [hd] at h; simp at h
  | cons c r1 =>
    rw [hd] at h
    simp only [] at h
    split at h
    · simp at h
    · cases hc : copy false N f st mark k with
      | error e => rw [hc] at h; simp at h
      | ok st1 =>
        have hw1 := copy_winv N f st st1 mark k hw hc
        rw [hc] at h; simp only [] at h
        split at h
        · simp at h
        · split at h
          · exact afterEscape_winv N f st1 _ buf' st' hw1 h
          · simp at h

theorem step_chk (N : Nat) (f : Flags) (buf : List Nat) (st : St) (hw : WInv N st) :
    step true N f buf st = step false N f buf st := by
  unfold step
  cases buf with
  | nil => rfl
  | cons c r => simp only []; rw [finish_chk N f none st (c :: r) hw, afterPart_chk N f st (c :: r) _ hw]

/-- the invariant is kept by every round of the loop -/
theorem step_winv (N : Nat) (f : Flags) (buf : List Nat) (st : St) (buf' : List Nat) (st' : St)
    (hw : WInv N st) (h : step false N f buf st = .more buf' st') : WInv N st' := by
  unfold step at h
  cases buf with
  | nil => simp at h
  | cons c r =>
    simp only [] at h
    split at h
    · simp at h
    · exact afterPart_winv N f st _ _ buf' st' hw h

theorem loop_chk (N : Nat) (f : Flags) (fuel : Nat) (buf : List Nat) (st : St) (hw : WInv N st) :
    loop true N f fuel buf st = loop false N f fuel buf st := by
  induction fuel generalizing buf st with
  | zero => rfl
  | succ n ih =>
    simp only [loop]
    rw [step_chk N f buf st hw]
    cases hs : step false N f buf st with
    | done r => rfl
    | more buf' st' => exact ih buf' st' (step_winv N f buf st buf' st' hw hs)

/-- **Every store of `flatcc_json_parser_char_array` lies inside the `N` byte array**, on every path (also the failing
ones): the variant that checks every `memcpy` / `memset` against the array (and against a wrap-around of `n -= k`) is the
unchecked function. -/
theorem charArrayG_eq (N : Nat) (f : Flags) (text : List Nat) : charArrayG N f text = charArray N f text := by
  have h0 : WInv N ⟨[], N⟩ := by simp [WInv]
  unfold charArrayG charArray run
  cases text with
  | nil => exact finish_chk N f _ _ _ h0
  | cons c r =>
    simp only []
    rw [finish_chk N f none _ _ h0, finish_chk N f (some .expectedString) _ _ h0, loop_chk N f _ r _ h0]

/-! ## content: the loop against the string scanner of `Json.lean` -/

/-- the error classes a caller can get; the two internal ones are excluded, `overflow` / `underflow` only come with the
flag values that enable them -/
def Genuine (f : Flags) : Err → Prop
  | .overflow => f.skipOverflow = false
  | .underflow => f.rejectUnderflow = true
  | .writeOutside => False
  | .outOfFuel => False
  | _ => True

/-- `r` is the answer the specification gives for the scanner outcome `o` -/
def Agrees (N : Nat) (f : Flags) (o : Option (List Nat × List Nat)) (r : Res) : Prop :=
  match o with
  | some (s, rest) => r = specResult N f s rest
  | none => ∃ e, r = .error e ∧ Genuine f e

/-- the destination against the scanner's accumulator: it holds the first `N` bytes of `acc`, `n` is what is left, and
without `skip_array_overflow` nothing has been dropped -/
structure SInv (N : Nat) (f : Flags) (st : St) (acc : List Nat) : Prop where
  written : st.written = acc.take N
  room : st.room = N - acc.length
  fits : f.skipOverflow = false → acc.length ≤ N

theorem copy_spec (N : Nat) (f : Flags) (st : St) (acc mark : List Nat) (k : Nat) (hi : SInv N f st acc)
    (hk : k ≤ mark.length) :
    (copy false N f st mark k = .error .overflow ∧ f.skipOverflow = false ∧ (acc ++ mark.take k).length > N)
    ∨ ∃ st', copy false N f st mark k = .ok st' ∧ SInv N f st' (acc ++ mark.take k) := by
  obtain ⟨hwr, hro, hfi⟩ := hi
  have hlen : (acc ++ mark.take k).length = acc.length + k := by
    rw [List.length_append, List.length_take, Nat.min_eq_left hk]
  rcases copy_within_room N f st mark k with ⟨h, hgt, hs⟩ | ⟨bytes, hb, hbytes, h1, _⟩
  · left
    have := hfi hs
    exact ⟨h, hs, by rw [hlen]; omega⟩
  · right
    refine ⟨_, h1, ?_⟩
    have hm : min k st.room ≤ mark.length := by omega
    rw [memcpy_eq_take _ _ hm] at hbytes
    have hbl : bytes.length = min k st.room := by rw [hbytes, List.length_take]; omega
    refine ⟨?_, ?_, ?_⟩
    · show st.written ++ bytes = (acc ++ mark.take k).take N
      rw [List.take_append, List.take_take, hwr, hbytes, hro, Nat.min_comm]
    · show st.room - bytes.length = N - (acc ++ mark.take k).length
      rw [hlen, hbl]; omega
    · intro hs
      have := hfi hs
      rw [hlen]
      by_cases hgt : k > st.room
      · exfalso
        have : copy false N f st mark k = .error .overflow := by simp [copy, hgt, hs]
        rw [this] at h1; cases h1
      · omega

theorem finish_spec (N : Nat) (f : Flags) (st : St) (acc rest : List Nat) (hi : SInv N f st acc) :
    finish false N f none st (34 :: rest) = specResult N f acc rest := by
  obtain ⟨hwr, hro, hfi⟩ := hi
  unfold finish specResult
  rw [write_unchecked]
  simp only [stringEnd, setErr, Option.getD_none, if_true]
  have hov : ¬ (acc.length > N ∧ f.skipOverflow = false) := fun ⟨a, b⟩ => by have := hfi b; omega
  rw [if_neg hov]
  by_cases hr : st.room ≠ 0
  · rw [if_pos hr]
    cases hu : f.rejectUnderflow with
    | true => rw [if_pos (show acc.length < N ∧ true = true from ⟨by omega, rfl⟩)]; rfl
    | false => simp [hwr, hro]
  · rw [if_neg hr]
    have : N - acc.length = 0 := by omega
    rw [if_neg (by omega), this, hwr]; simp [zeros]

theorem agrees_overflow (N : Nat) (f : Flags) (o : Option (List Nat × List Nat)) (m : Nat) (hs : f.skipOverflow = false)
    (hm : m > N) (hle : ∀ s rest, o = some (s, rest) → m ≤ s.length) : Agrees N f o (.error .overflow) := by
  unfold Agrees
  cases o with
  | none => exact ⟨_, rfl, hs⟩
  | some p =>
    obtain ⟨s, rest⟩ := p
    have := hle s rest rfl
    simp only [specResult]
    rw [if_pos ⟨by omega, hs⟩]

/-- what a round of the loop has to establish -/
def StepOk (N : Nat) (f : Flags) (o : Option (List Nat × List Nat)) : Step → Prop
  | .done r => Agrees N f o r
  | .more buf' st' => ∃ acc', SInv N f st' acc' ∧ o = pb buf' acc'

theorem afterEscape_spec (N : Nat) (f : Flags) (st : St) (acc : List Nat) (esc : Option (List Nat × List Nat))
    (hi : SInv N f st acc) :
    StepOk N f (match esc with | some (code, r') => pb r' (acc ++ code) | none => none) (afterEscape false N f st esc) := by
  unfold afterEscape
  cases esc with
  | none => exact ⟨_, rfl, trivial⟩
  | some p =>
    obtain ⟨code, buf2⟩ := p
    simp only []
    split
    · rename_i he
      have : buf2 = [] := by simpa using he
      subst this
      rw [pb_nil]; exact ⟨_, rfl, trivial⟩
    · have hc := copy_spec N f st acc code code.length hi (Nat.le_refl _)
      rw [List.take_length] at hc
      rcases hc with ⟨h, hs, hgt⟩ | ⟨st2, h, hi2⟩
      · rw [h]
        exact agrees_overflow N f _ _ hs hgt (fun s rest e => pb_length _ _ _ _ e)
      · rw [h]; exact ⟨_, hi2, rfl⟩

theorem afterPart_spec (N : Nat) (f : Flags) (st : St) (acc buf : List Nat) (hi : SInv N f st acc) :
    StepOk N f (pb buf acc) (afterPart false N f st buf (runLen buf)) := by
  rw [pb_run]
  unfold afterPart
  cases hd : buf.drop (runLen buf) with
  | nil => rw [pb_nil]; exact ⟨_, rfl, trivial⟩
  | cons c r1 =>
    have hpl := runLen_stop buf c r1 hd
    simp only []
    split
    · rename_i hc
      rw [pb_cons, if_neg (by omega), if_pos hc]; exact ⟨_, rfl, trivial⟩
    · rename_i hc
      rcases copy_spec N f st acc buf (runLen buf) hi (runLen_le buf) with ⟨h, hs, hgt⟩ | ⟨st1, h, hi1⟩
      · rw [h]
        exact agrees_overflow N f _ _ hs hgt (fun s rest e => pb_length _ _ _ _ e)
      · rw [h]
        simp only []
        split
        · rename_i h34
          subst h34
          rw [pb_cons, if_pos rfl]
          exact finish_spec N f st1 _ r1 hi1
        · rename_i h34
          have h92 : c = 92 := by
            cases hc92 : decide (c = 92) with
            | true => simpa using hc92
            | false =>
              have : c ≠ 92 := by simpa using hc92
              have := (plain_iff c).2 ⟨h34, by omega, this⟩
              rw [hpl] at this; cases this
          rw [if_pos h92, pb_cons, if_neg h34, if_neg hc, if_pos h92]
          exact afterEscape_spec N f st1 _ (decodeEscape r1) hi1

theorem step_spec (N : Nat) (f : Flags) (st : St) (acc buf : List Nat) (hi : SInv N f st acc) :
    StepOk N f (pb buf acc) (step false N f buf st) := by
  unfold step
  cases buf with
  | nil => rw [pb_nil]; exact ⟨_, rfl, trivial⟩
  | cons c r =>
    simp only []
    split
    · rename_i h34
      subst h34
      rw [pb_cons, if_pos rfl]
      exact finish_spec N f st acc r hi
    · exact afterPart_spec N f st acc (c :: r) hi

/-! ### progress: every round consumes input, so the fuel `length + 1` is never what ends the loop -/

theorem afterEscape_more_lt (chk : Bool) (N : Nat) (f : Flags) (st : St) (r1 : List Nat) (buf' : List Nat) (st' : St)
    (h : afterEscape chk N f st (decodeEscape r1) = .more buf' st') : buf'.length < r1.length ∧ buf' ≠ [] := by
  unfold afterEscape at h
  cases hd : decodeEscape r1 with
  | none => rw [hd] at h; simp at h
  | some p =>
    obtain ⟨code, buf2⟩ := p
    rw [hd] at h
    simp only [] at h
    split at h
    · simp at h
    · rename_i hne
      cases hc : copy chk N f st code code.length with
      | error e => rw [hc] at h; simp at h
      | ok st2 =>
        rw [hc] at h; simp only [Step.more.injEq] at h
        rw [← h.1]
        exact ⟨decodeEscape_shorter r1 code buf2 hd, by intro e; rw [e] at hne; simp at hne⟩

theorem afterPart_more_lt (chk : Bool) (N : Nat) (f : Flags) (st : St) (mark : List Nat) (k : Nat) (buf' : List Nat) (st' : St)
    (h : afterPart chk N f st mark k = .more buf' st') : buf'.length < mark.length ∧ buf' ≠ [] := by
  unfold afterPart at h
  cases hd : mark.drop k with
  | nil => rw [hd] at h; simp at h
  | cons c r1 =>
    have hl : r1.length < mark.length := by
      have := congrArg List.length hd
      simp only [List.length_drop, List.length_cons] at this; omega
    rw [hd] at h
    simp only [] at h
    split at h
    · simp at h
    · cases hc : copy chk N f st mark k with
      | error e => rw [hc] at h; simp at h
      | ok st1 =>
        rw [hc] at h; simp only [] at h
        split at h
        · simp at h
        · split at h
          · have := afterEscape_more_lt chk N f st1 r1 buf' st' h
            exact ⟨by omega, this.2⟩
          · simp at h

theorem step_more_lt (chk : Bool) (N : Nat) (f : Flags) (buf : List Nat) (st : St) (buf' : List Nat) (st' : St)
    (h : step chk N f buf st = .more buf' st') : buf'.length < buf.length := by
  unfold step at h
  cases buf with
  | nil => simp at h
  | cons c r =>
    simp only [] at h
    split at h
    · simp at h
    · exact (afterPart_more_lt chk N f st _ _ buf' st' h).1

/-- the loop condition `*buf != '"'` never dereferences `end`: the loop is only re-entered on non-empty input -/
theorem step_more_nonempty (chk : Bool) (N : Nat) (f : Flags) (buf : List Nat) (st : St) (buf' : List Nat) (st' : St)
    (h : step chk N f buf st = .more buf' st') : buf' ≠ [] := by
  unfold step at h
  cases buf with
  | nil => simp at h
  | cons c r =>
    simp only [] at h
    split at h
    · simp at h
    · exact (afterPart_more_lt chk N f st _ _ buf' st' h).2

theorem loop_fuel (chk : Bool) (N : Nat) (f : Flags) (fuel1 fuel2 : Nat) (buf : List Nat) (st : St)
    (h1 : buf.length < fuel1) (h2 : buf.length < fuel2) : loop chk N f fuel1 buf st = loop chk N f fuel2 buf st := by
  induction fuel1 generalizing fuel2 buf st with
  | zero => omega
  | succ n ih =>
    cases fuel2 with
    | zero => omega
    | succ m =>
      simp only [loop]
      cases hs : step chk N f buf st with
      | done r => rfl
      | more buf' st' =>
        have := step_more_lt chk N f buf st buf' st' hs
        exact ih m buf' st' (by omega) (by omega)

/-- **Totality.** More fuel than `length + 1` changes nothing. -/
theorem loop_fuel_enough (chk : Bool) (N : Nat) (f : Flags) (buf : List Nat) (st : St) (extra : Nat) :
    loop chk N f (buf.length + 1 + extra) buf st = loop chk N f (buf.length + 1) buf st :=
  loop_fuel chk N f _ _ buf st (by omega) (by omega)

theorem loop_spec (N : Nat) (f : Flags) (fuel : Nat) (buf : List Nat) (st : St) (acc : List Nat)
    (hf : buf.length < fuel) (hi : SInv N f st acc) : Agrees N f (pb buf acc) (loop false N f fuel buf st) := by
  induction fuel generalizing buf st acc with
  | zero => omega
  | succ n ih =>
    simp only [loop]
    have hs := step_spec N f st acc buf hi
    cases hst : step false N f buf st with
    | done r => rw [hst] at hs; exact hs
    | more buf' st' =>
      rw [hst] at hs
      obtain ⟨acc', hi', he⟩ := hs
      have := step_more_lt false N f buf st buf' st' hst
      rw [he]
      exact ih buf' st' acc' (by omega) hi'

/-! ## the whole function -/

theorem sinv_init (N : Nat) (f : Flags) : SInv N f ⟨[], N⟩ [] := ⟨by simp, by simp, by intro; simp⟩

/-- an error raised by `string_start` is what the call reports, whatever the tail of the function does -/
theorem finish_pending (N : Nat) (f : Flags) (e : Err) (st : St) (buf : List Nat) :
    finish false N f (some e) st buf = .error e := by
  unfold finish
  rw [write_unchecked]
  simp only [stringEnd, setErr, Option.getD_some]
  split
  · split <;> rfl
  · rfl

theorem parseString_no_quote (c : Nat) (r : List Nat) (h : c ≠ 34) : parseString (c :: r) = none := by
  unfold parseString
  split
  · rename_i heq; simp only [List.cons.injEq] at heq; exact absurd heq.1 h
  · rfl

/-- the model against the string scanner, every case at once -/
theorem charArray_agrees (N : Nat) (f : Flags) (text : List Nat) : Agrees N f (parseString text) (charArray N f text) := by
  unfold charArray run
  cases text with
  | nil => rw [finish_pending]; exact ⟨_, rfl, trivial⟩
  | cons c r =>
    simp only []
    by_cases h34 : c = 34
    · subst h34
      rw [if_pos rfl]
      cases r with
      | nil =>
        have : parseString [34] = none := by decide
        rw [this]
        simp only [List.isEmpty_nil, if_true, finish, write_unchecked, stringEnd, setErr, Option.getD_none]
        split
        · split
          · rename_i hu; exact ⟨_, rfl, hu⟩
          · exact ⟨_, rfl, trivial⟩
        · exact ⟨_, rfl, trivial⟩
      | cons d t =>
        simp only [List.isEmpty_cons, Bool.false_eq_true, if_false]
        exact loop_spec N f _ (d :: t) _ [] (by omega) (sinv_init N f)
    · rw [if_neg h34, finish_pending, parseString_no_quote c r h34]; exact ⟨_, rfl, trivial⟩

/-- **Full characterisation, well-formed strings.** If the text is a JSON string with unescaped content `s` followed by
`rest`, the call
* fails with `array_overflow` when `s` is longer than the array and `skip_array_overflow` is not set,
* fails with `array_underflow` when `s` is shorter and `reject_array_underflow` is set,
* otherwise stores `s` truncated to `N` bytes (the cut may fall inside a run or inside the bytes of one escape, e.g. in
  the middle of a UTF-8 sequence) and zero padded to `N` bytes, and returns the position behind the closing quote. -/
theorem charArray_spec (N : Nat) (f : Flags) (text s rest : List Nat) (h : parseString text = some (s, rest)) :
    charArray N f text = specResult N f s rest := by
  have := charArray_agrees N f text
  rw [h] at this; exact this

/-- **Full characterisation, everything else.** If the text is not a well-formed JSON string the call fails (it never
reports success), with `array_overflow` only when that flag allows it (a too long piece in front of the syntax error),
with `array_underflow` only with `reject_array_underflow`; the two internal error values never occur. -/
theorem charArray_spec_none (N : Nat) (f : Flags) (text : List Nat) (h : parseString text = none) :
    ∃ e, charArray N f text = .error e ∧ Genuine f e := by
  have := charArray_agrees N f text
  rw [h] at this; exact this

theorem specResult_ok_inv (N : Nat) (f : Flags) (s rest w rest' : List Nat) (h : specResult N f s rest = .ok (w, rest')) :
    w = s.take N ++ zeros (N - s.length) ∧ rest' = rest
    ∧ (s.length ≤ N ∨ f.skipOverflow = true) ∧ (N ≤ s.length ∨ f.rejectUnderflow = false) := by
  unfold specResult at h
  split at h
  · cases h
  · split at h
    · cases h
    · rename_i h1 h2
      simp only [Except.ok.injEq, Prod.mk.injEq] at h
      refine ⟨h.1.symm, h.2.symm, ?_, ?_⟩
      · cases hs : f.skipOverflow with
        | true => right; rfl
        | false => left; exact Nat.le_of_not_gt (fun g => h1 ⟨g, hs⟩)
      · cases hu : f.rejectUnderflow with
        | false => right; rfl
        | true => left; exact Nat.le_of_not_gt (fun g => h2 ⟨g, hu⟩)

/-- **Content.** A successful call parsed a well-formed string and the array holds its unescaped content truncated to
`N` bytes and zero padded. -/
theorem charArray_content (N : Nat) (f : Flags) (text w rest : List Nat) (h : charArray N f text = .ok (w, rest)) :
    ∃ s, parseString text = some (s, rest) ∧ w = s.take N ++ zeros (N - s.length) := by
  cases hp : parseString text with
  | none =>
    obtain ⟨e, he, _⟩ := charArray_spec_none N f text hp
    rw [he] at h; cases h
  | some p =>
    obtain ⟨s, rest'⟩ := p
    rw [charArray_spec N f text s rest' hp] at h
    obtain ⟨hw, hr, _, _⟩ := specResult_ok_inv N f s rest' w rest h
    subst hr; exact ⟨s, rfl, hw⟩

/-- **Exactly `N` bytes are stored by a successful call** (the model appends what each `memcpy` / `memset` stores,
whatever its length: none of them went past the array, and nothing of the array is left unset). -/
theorem charArray_writes_exactly_N (N : Nat) (f : Flags) (text w rest : List Nat) (h : charArray N f text = .ok (w, rest)) :
    w.length = N := by
  obtain ⟨s, _, hw⟩ := charArray_content N f text w rest h
  rw [hw, List.length_append, List.length_take, zeros_length]; omega

/-- when exactly a call succeeds -/
theorem charArray_ok_iff (N : Nat) (f : Flags) (text w rest : List Nat) :
    charArray N f text = .ok (w, rest) ↔
      ∃ s, parseString text = some (s, rest) ∧ (s.length ≤ N ∨ f.skipOverflow = true)
        ∧ (N ≤ s.length ∨ f.rejectUnderflow = false) ∧ w = s.take N ++ zeros (N - s.length) := by
  constructor
  · intro h
    cases hp : parseString text with
    | none =>
      obtain ⟨e, he, _⟩ := charArray_spec_none N f text hp
      rw [he] at h; cases h
    | some p =>
      obtain ⟨s, rest'⟩ := p
      rw [charArray_spec N f text s rest' hp] at h
      obtain ⟨hw, hr, h1, h2⟩ := specResult_ok_inv N f s rest' w rest h
      subst hr; exact ⟨s, rfl, h1, h2, hw⟩
  · rintro ⟨s, hp, h1, h2, hw⟩
    rw [charArray_spec N f text s rest hp, hw]
    unfold specResult
    rw [if_neg (by rintro ⟨a, b⟩; rcases h1 with h1 | h1 <;> simp_all <;> omega),
      if_neg (by rintro ⟨a, b⟩; rcases h2 with h2 | h2 <;> simp_all <;> omega)]

/-- the content fits: stored unchanged, zero padded -/
theorem charArray_fits (N : Nat) (f : Flags) (text s rest : List Nat) (hp : parseString text = some (s, rest))
    (hl : s.length ≤ N) (hu : f.rejectUnderflow = false ∨ s.length = N) :
    charArray N f text = .ok (s ++ zeros (N - s.length), rest) := by
  have h2 : N ≤ s.length ∨ f.rejectUnderflow = false := by
    rcases hu with hu | hu
    · exact Or.inr hu
    · left; omega
  exact (charArray_ok_iff N f text _ rest).2 ⟨s, hp, Or.inl hl, h2, by rw [List.take_of_length_le hl]⟩

theorem charArray_overflow (N : Nat) (f : Flags) (text s rest : List Nat) (hp : parseString text = some (s, rest))
    (hl : s.length > N) (hs : f.skipOverflow = false) : charArray N f text = .error .overflow := by
  rw [charArray_spec N f text s rest hp]; unfold specResult; rw [if_pos ⟨hl, hs⟩]

theorem charArray_truncates (N : Nat) (f : Flags) (text s rest : List Nat) (hp : parseString text = some (s, rest))
    (hl : s.length > N) (hs : f.skipOverflow = true) : charArray N f text = .ok (s.take N, rest) := by
  rw [(charArray_ok_iff N f text (s.take N) rest).2 ⟨s, hp, Or.inr hs, Or.inl (by omega), ?_⟩]
  rw [show N - s.length = 0 by omega]; simp [zeros]

theorem charArray_underflow (N : Nat) (f : Flags) (text s rest : List Nat) (hp : parseString text = some (s, rest))
    (hl : s.length < N) (hu : f.rejectUnderflow = true) : charArray N f text = .error .underflow := by
  rw [charArray_spec N f text s rest hp]; unfold specResult
  rw [if_neg (by rintro ⟨a, _⟩; omega), if_pos ⟨hl, hu⟩]

/-- every error the function can report is one of the caller-visible classes: the store check of the checked variant
and the fuel limit are never what ends a call -/
theorem charArray_error_genuine (N : Nat) (f : Flags) (text : List Nat) (e : Err) (h : charArray N f text = .error e) :
    Genuine f e := by
  cases hp : parseString text with
  | none =>
    obtain ⟨e', he, hg⟩ := charArray_spec_none N f text hp
    rw [he] at h; cases h; exact hg
  | some p =>
    obtain ⟨s, rest⟩ := p
    rw [charArray_spec N f text s rest hp] at h
    unfold specResult at h
    split at h
    · rename_i h1; cases h; exact h1.2
    · split at h
      · rename_i h2; cases h; exact h2.2
      · cases h

theorem finish_not_silent (N : Nat) (f : Flags) (st : St) (buf w : List Nat) :
    finish false N f none st buf ≠ .error (.silentEnd w) := by
  unfold finish
  rw [write_unchecked]
  simp only [stringEnd, setErr, Option.getD_none]
  intro h
  repeat (first | (split at h) | cases h)

/-- also the call that ends silently (`Err.silentEnd`) stayed inside the array -/
theorem loop_silent_bound (N : Nat) (f : Flags) (fuel : Nat) (buf : List Nat) (st : St) (w : List Nat) (hw : WInv N st)
    (h : loop false N f fuel buf st = .error (.silentEnd w)) : w.length ≤ N := by
  induction fuel generalizing buf st with
  | zero => simp [loop] at h
  | succ n ih =>
    simp only [loop] at h
    cases hs : step false N f buf st with
    | more buf' st' => rw [hs] at h; exact ih buf' st' (step_winv N f buf st buf' st' hw hs) h
    | done r =>
      rw [hs] at h; simp only [] at h; subst h
      unfold step at hs
      cases buf with
      | nil => simp at hs
      | cons c r =>
        simp only [] at hs
        split at hs
        · simp only [Step.done.injEq] at hs; exact absurd hs (finish_not_silent N f st _ w)
        · unfold afterPart at hs
          cases hd : (c :: r).drop (runLen (c :: r)) with
          | nil => rw [hd] at hs; simp at hs
          | cons c1 r1 =>
            rw [hd] at hs; simp only [] at hs
            split at hs
            · simp at hs
            · cases hc : copy false N f st (c :: r) (runLen (c :: r)) with
              | error e =>
                rw [hc] at hs; simp only [Step.done.injEq, Except.error.injEq] at hs
                rcases copy_within_room N f st (c :: r) (runLen (c :: r)) with ⟨h', _, _⟩ | ⟨_, _, _, h1, _⟩
                · rw [h'] at hc; cases hc; cases hs
                · rw [h1] at hc; cases hc
              | ok st1 =>
                have hw1 := copy_winv N f st st1 _ _ hw hc
                rw [hc] at hs; simp only [] at hs
                split at hs
                · simp only [Step.done.injEq] at hs; exact absurd hs (finish_not_silent N f st1 _ w)
                · split at hs
                  · unfold afterEscape at hs
                    cases he : decodeEscape r1 with
                    | none => rw [he] at hs; simp at hs
                    | some p =>
                      obtain ⟨code, buf2⟩ := p
                      rw [he] at hs; simp only [] at hs
                      split at hs
                      · simp only [Step.done.injEq, Except.error.injEq, Err.silentEnd.injEq] at hs
                        rw [← hs]; unfold WInv at hw1; omega
                      · cases hc2 : copy false N f st1 code code.length with
                        | error e =>
                          rw [hc2] at hs; simp only [Step.done.injEq, Except.error.injEq] at hs
                          rcases copy_within_room N f st1 code code.length with ⟨h', _, _⟩ | ⟨_, _, _, h1, _⟩
                          · rw [h'] at hc2; cases hc2; cases hs
                          · rw [h1] at hc2; cases hc2
                        | ok st2 => rw [hc2] at hs; simp at hs
                  · simp at hs

theorem charArray_silent_bound (N : Nat) (f : Flags) (text w : List Nat)
    (h : charArray N f text = .error (.silentEnd w)) : w.length ≤ N := by
  unfold charArray run at h
  cases text with
  | nil => rw [finish_pending] at h; cases h
  | cons c r =>
    simp only [] at h
    split at h
    · split at h
      · exact absurd h (finish_not_silent N f _ _ w)
      · exact loop_silent_bound N f _ r _ w (by simp [WInv]) h
    · rw [finish_pending] at h; cases h

/-- **Memory safety, as a statement about the checked variant**: comparing every store with the array never fails -/
theorem charArrayG_never_outside (N : Nat) (f : Flags) (text : List Nat) : charArrayG N f text ≠ .error .writeOutside := by
  rw [charArrayG_eq]
  intro h; exact charArray_error_genuine N f text _ h

theorem charArray_never_out_of_fuel (N : Nat) (f : Flags) (text : List Nat) : charArray N f text ≠ .error .outOfFuel := by
  intro h; exact charArray_error_genuine N f text _ h

/-! ## printer side and round trip -/

theorem stripZeros_length_le (a : List Nat) : (stripZeros a).length ≤ a.length := by
  induction a with
  | nil => simp [stripZeros]
  | cons c r ih => simp only [stripZeros]; split <;> simp <;> omega

/-- `print_char_array` drops trailing NULs and nothing else -/
theorem stripZeros_pad (a : List Nat) : stripZeros a ++ zeros (a.length - (stripZeros a).length) = a := by
  induction a with
  | nil => simp [stripZeros, zeros]
  | cons c r ih =>
    simp only [stripZeros]
    split
    · rename_i h
      have he : stripZeros r = [] := by simpa using h.2
      rw [he] at ih
      simp only [List.length_nil, Nat.sub_zero, List.nil_append] at ih
      simp only [List.nil_append, List.length_nil, Nat.sub_zero, List.length_cons]
      rw [h.1]
      show List.replicate (r.length + 1) 0 = 0 :: r
      rw [List.replicate_succ]
      exact congrArg _ ih
    · have := stripZeros_length_le r
      simp only [List.length_cons, List.cons_append]
      rw [show r.length + 1 - ((stripZeros r).length + 1) = r.length - (stripZeros r).length by omega, ih]

theorem stripZeros_ne (a : List Nat) (h : stripZeros a ≠ a) : (stripZeros a).length < a.length := by
  have h1 := stripZeros_length_le a
  have h2 := stripZeros_pad a
  by_cases he : (stripZeros a).length = a.length
  · rw [he, Nat.sub_self] at h2; simp [zeros] at h2; exact absurd h2 h
  · omega

/-- the arrays the printer prints in full: those that do not end with a NUL -/
theorem stripZeros_eq_self_iff (a : List Nat) : stripZeros a = a ↔ a.getLast? ≠ some 0 := by
  induction a with
  | nil => simp [stripZeros]
  | cons c r ih =>
    cases r with
    | nil =>
      simp only [stripZeros, List.isEmpty_nil, and_true, List.getLast?_singleton]
      by_cases hc : c = 0 <;> simp [hc]
    | cons d t =>
      rw [List.getLast?_cons_cons, ← ih]
      have hu : stripZeros (c :: d :: t)
          = if c = 0 ∧ (stripZeros (d :: t)).isEmpty then [] else c :: stripZeros (d :: t) := rfl
      rw [hu]
      constructor
      · intro h
        split at h
        · cases h
        · simp only [List.cons.injEq, true_and] at h; exact h
      · intro h
        rw [h]; simp

/-- **Print → parse round trip of a char array.** `print_char_array` followed by `flatcc_json_parser_char_array` gives
back EVERY array (embedded NULs, control characters, quotes, invalid UTF-8, trailing NULs: stripped by the printer and
padded back by the parser), for either value of `skip_array_overflow`, provided the parser is allowed to pad
(`reject_array_underflow` not set) or the array has no trailing NUL. -/
theorem charArray_roundtrip (N : Nat) (f : Flags) (a rest : List Nat) (hN : a.length = N)
    (hu : f.rejectUnderflow = false ∨ stripZeros a = a) :
    charArray N f (printCharArray a ++ rest) = .ok (a, rest) := by
  have hp := Flatcc.Props.C05.C05_string_roundtrip (stripZeros a) rest
  have hl := stripZeros_length_le a
  unfold printCharArray
  have h2 : f.rejectUnderflow = false ∨ (stripZeros a).length = N := by
    rcases hu with hu | hu
    · exact Or.inl hu
    · right; rw [hu]; exact hN
  rw [charArray_fits N f _ _ rest hp (by omega) h2, ← hN, stripZeros_pad]

/-- the arrays that do NOT round-trip: with `reject_array_underflow` an array with a trailing NUL (which the printer
strips) is refused by the parser -/
theorem charArray_roundtrip_rejects (N : Nat) (f : Flags) (a rest : List Nat) (hN : a.length = N)
    (hu : f.rejectUnderflow = true) (hz : stripZeros a ≠ a) :
    charArray N f (printCharArray a ++ rest) = .error .underflow := by
  have hp := Flatcc.Props.C05.C05_string_roundtrip (stripZeros a) rest
  unfold printCharArray
  exact charArray_underflow N f _ _ rest hp (by have := stripZeros_ne a hz; omega) hu

/-! ## examples (non-vacuity, the truncation subtlety, counterexamples) -/

-- "ab\n" into [char:4]: padded
example : charArray 4 ⟨false, false⟩ [34, 97, 98, 92, 110, 34, 44] = .ok ([97, 98, 10, 0], [44]) := by decide
-- the same with reject_array_underflow
example : charArray 4 ⟨false, true⟩ [34, 97, 98, 92, 110, 34, 44] = .error .underflow := by decide
-- "a😀" (a + U+1F600 = 5 bytes) into [char:2]: overflow, or with skip_array_overflow a cut INSIDE the UTF-8 sequence
example : charArray 2 ⟨false, false⟩ [34, 97, 92, 117, 100, 56, 51, 100, 92, 117, 100, 101, 48, 48, 34] = .error .overflow := by decide
example : charArray 2 ⟨true, false⟩ [34, 97, 92, 117, 100, 56, 51, 100, 92, 117, 100, 101, 48, 48, 34] = .ok ([97, 0xf0], []) := by decide
-- once the room is 0 every later piece copies nothing; `[char:0]` accepts any string with skip_array_overflow
example : charArray 0 ⟨true, true⟩ [34, 97, 92, 110, 98, 34, 125] = .ok ([], [125]) := by decide
-- counterexample to an unconditional round trip: [65, 0] prints as "A" and is refused with reject_array_underflow
example : printCharArray [65, 0] = [34, 65, 34] := by decide
example : charArray 2 ⟨false, true⟩ (printCharArray [65, 0]) = .error .underflow := by decide
example : charArray 2 ⟨false, false⟩ (printCharArray [65, 0]) = .ok ([65, 0], []) := by decide
-- an embedded NUL survives (printed as \u0000)
example : charArray 3 ⟨false, true⟩ (printCharArray [0, 0, 7] ++ [44]) = .ok ([0, 0, 7], [44]) := by decide

/-- **Finding (not a memory-safety issue).** When the input ends right behind a complete escape sequence, the C function
executes `if (buf == end) return end;` behind a *successful* `string_escape`: it returns `end` with NO error recorded,
the decoded escape not stored and the rest of the array neither filled nor zeroed. Here: `"ab\n` into `[char:4]` stores
`ab` only. A caller sees the same return value as for a string whose closing quote is the last byte of the input. -/
example : charArray 4 ⟨false, false⟩ [34, 97, 98, 92, 110] = .error (.silentEnd [97, 98]) := by decide

end Flatcc.CharArray
