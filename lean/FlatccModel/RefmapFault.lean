import FlatccModel.RefmapFull
/-!
# Reference map under allocation failure (C13 / C18)

`flatcc_refmap_resize` needs the allocator only when the target table is neither the current one nor the
embedded `min_table`.  When the allocator refuses, `resize` returns -1 and `insert` returns not-found (0)
without storing; the map is left exactly as it was.  Every public call takes a flag `allocOk`
(does the allocator satisfy a request made during this call?).
-/
namespace Flatcc.Refmap

/-- bucket count `flatcc_refmap_resize(count)` moves to -/
def targetBuckets (m : Map) (count : Nat) : Nat :=
  growLoop (if count < m.count then m.count else count) ((if count < m.count then m.count else count) + 64) minBuckets

/-- `resize` calls the allocator: the target is not the current table and not the embedded one -/
def needsAlloc (m : Map) (count : Nat) : Bool :=
  decide (m.rm.buckets ≠ targetBuckets m count) && decide (targetBuckets m count ≠ minBuckets)

/-- `flatcc_refmap_resize` with a refusing allocator -/
def resizeF (hash : Nat → Nat) (m : Map) (count : Nat) : Map × Int :=
  if needsAlloc m count then (m, -1) else (resize hash m count, 0)

/-- `flatcc_refmap_insert` with a refusing allocator -/
def insertF (hash : Nat → Nat) (m : Map) (src : Nat) (ref : Int) : Map × Int :=
  if src = 0 then (m, ref)
  else if aboveLoad m.count m.rm.buckets && needsAlloc m (m.count * 2) then (m, 0)
  else insert hash m src ref

/-- one public call with the allocator's answer for this call -/
def stepF (hash : Nat → Nat) (m : Map) (op : Op) (allocOk : Bool) : Map × Int :=
  if allocOk then step hash m op else
  match op with
  | .ins s r => insertF hash m s r
  | .rsz n => resizeF hash m n
  | op => step hash m op

/-- what the call amounts to for the abstract map: a refused insert stores nothing -/
def effective (m : Map) (op : Op) (allocOk : Bool) : Op :=
  if allocOk then op else
  match op with
  | .ins s r => if s ≠ 0 ∧ aboveLoad m.count m.rm.buckets = true ∧ needsAlloc m (m.count * 2) = true then .fnd s else .ins s r
  | op => op

/-- a refused allocation is reported and leaves the map untouched -/
theorem resizeF_atomic (hash : Nat → Nat) (m : Map) (n : Nat) (h : (resizeF hash m n).2 ≠ 0) :
    (resizeF hash m n).1 = m ∧ (resizeF hash m n).2 = -1 := by
  unfold resizeF at h ⊢
  split
  · exact ⟨rfl, rfl⟩
  · next hn => simp [hn] at h

theorem insertF_refused (hash : Nat → Nat) (m : Map) (s : Nat) (r : Int)
    (h : effective m (.ins s r) false = .fnd s) :
    insertF hash m s r = (m, 0) := by
  unfold effective at h
  simp only [Bool.false_eq_true, if_false] at h
  split at h
  · next hc =>
    unfold insertF
    rw [if_neg hc.1]
    simp [hc.2.1, hc.2.2]
  · cases h

theorem insertF_served (hash : Nat → Nat) (m : Map) (s : Nat) (r : Int)
    (h : effective m (.ins s r) false = .ins s r) :
    insertF hash m s r = insert hash m s r := by
  unfold effective at h
  simp only [Bool.false_eq_true, if_false] at h
  split at h
  · cases h
  · next hc =>
    unfold insertF
    by_cases hs : s = 0
    · simp [hs, insert]
    · rw [if_neg hs]
      have : (aboveLoad m.count m.rm.buckets && needsAlloc m (m.count * 2)) = false := by
        cases ha : aboveLoad m.count m.rm.buckets <;> cases hb : needsAlloc m (m.count * 2) <;> simp_all
      simp [this]

theorem resize_noalloc (hash : Nat → Nat) (m : Map) (n : Nat) : (resizeF hash m n).1 = m ∨ (resizeF hash m n).1 = resize hash m n := by
  unfold resizeF; split
  · exact Or.inl rfl
  · exact Or.inr rfl

/-- one call under any allocator answer keeps the good-state invariant and changes the content as the
abstract map says for the effective operation -/
theorem stepF_spec (hash : Nat → Nat) (m : Map) (op : Op) (ok : Bool) (rest : List Op) (G : Good hash m)
    (h : ∀ k, find' hash m k = spec rest k) :
    Good hash (stepF hash m op ok).1 ∧ ∀ k, find' hash (stepF hash m op ok).1 k = spec (effective m op ok :: rest) k := by
  cases ok with
  | true =>
    have e1 : stepF hash m op true = step hash m op := by unfold stepF; simp
    have e2 : effective m op true = op := by unfold effective; simp
    rw [e1, e2]; exact step_spec hash m op rest G h
  | false =>
    cases op with
    | ins s r =>
      have e1 : stepF hash m (.ins s r) false = insertF hash m s r := by unfold stepF; simp
      rw [e1]
      have hcase : effective m (.ins s r) false = .fnd s ∨ effective m (.ins s r) false = .ins s r := by
        unfold effective; simp only [Bool.false_eq_true, if_false]; split
        · exact Or.inl rfl
        · exact Or.inr rfl
      rcases hcase with hc | hc
      · rw [insertF_refused hash m s r hc, hc]
        exact ⟨G, h⟩
      · rw [insertF_served hash m s r hc, hc]
        exact step_spec hash m (.ins s r) rest G h
    | rsz n =>
      have e1 : stepF hash m (.rsz n) false = resizeF hash m n := by unfold stepF; simp
      have e2 : effective m (.rsz n) false = .rsz n := by unfold effective; simp
      rw [e1, e2]
      rcases resize_noalloc hash m n with hr | hr
      · rw [hr]; exact ⟨G, h⟩
      · rw [hr]; exact step_spec hash m (.rsz n) rest G h
    | fnd s =>
      have e1 : stepF hash m (.fnd s) false = step hash m (.fnd s) := by unfold stepF; simp
      have e2 : effective m (.fnd s) false = .fnd s := by unfold effective; simp
      rw [e1, e2]; exact step_spec hash m _ rest G h
    | rst =>
      have e1 : stepF hash m .rst false = step hash m .rst := by unfold stepF; simp
      have e2 : effective m .rst false = .rst := by unfold effective; simp
      rw [e1, e2]; exact step_spec hash m _ rest G h
    | clr =>
      have e1 : stepF hash m .clr false = step hash m .clr := by unfold stepF; simp
      have e2 : effective m .clr false = .clr := by unfold effective; simp
      rw [e1, e2]; exact step_spec hash m _ rest G h

/-- run a history of (call, allocator answer) pairs, oldest first; returns the map and the effective history, newest first -/
def runF (hash : Nat → Nat) (ops : List (Op × Bool)) : Map × List Op :=
  ops.foldl (fun st o => ((stepF hash st.1 o.1 o.2).1, effective st.1 o.1 o.2 :: st.2)) (Map.init, [])

theorem runF_spec (hash : Nat → Nat) (ops : List (Op × Bool)) :
    Good hash (runF hash ops).1 ∧ ∀ k, find' hash (runF hash ops).1 k = spec (runF hash ops).2 k := by
  unfold runF
  have gen : ∀ (l : List (Op × Bool)) (st : Map × List Op), Good hash st.1 → (∀ k, find' hash st.1 k = spec st.2 k) →
      Good hash (l.foldl (fun st o => ((stepF hash st.1 o.1 o.2).1, effective st.1 o.1 o.2 :: st.2)) st).1 ∧
      ∀ k, find' hash (l.foldl (fun st o => ((stepF hash st.1 o.1 o.2).1, effective st.1 o.1 o.2 :: st.2)) st).1 k =
        spec (l.foldl (fun st o => ((stepF hash st.1 o.1 o.2).1, effective st.1 o.1 o.2 :: st.2)) st).2 k := by
    intro l
    induction l with
    | nil => intro st G h; exact ⟨G, h⟩
    | cons o l ih =>
      intro st G h
      rw [List.foldl_cons]
      obtain ⟨a, b⟩ := stepF_spec hash st.1 o.1 o.2 st.2 G h
      exact ih _ a b
  exact gen ops (Map.init, []) (init_good hash) (fun _ => rfl)

end Flatcc.Refmap
