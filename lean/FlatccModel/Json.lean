/-!
# JSON strings: the printer's escaping (`json_printer.c: print_string / print_escape`) and the parser's
scanning and unescaping (`json_parser.c: flatcc_json_parser_string_part / string_escape / build_string`)

Bytes are `Nat`s below 256. The parser model covers every escape the C code accepts (`\x`, `\u` with UTF-16
surrogate pairs, the single-letter escapes), not only the ones the printer produces.
-/
namespace Flatcc.Json

def hexDigit (x : Nat) : Nat := if x < 10 then 48 + x else 87 + x      -- '0'.. / 'a'..

/-- `print_escape` -/
def escapeByte (c : Nat) : List Nat :=
  if c = 34 then [92, 34] else if c = 92 then [92, 92]
  else if c = 9 then [92, 116] else if c = 12 then [92, 102] else if c = 13 then [92, 114]
  else if c = 10 then [92, 110] else if c = 8 then [92, 98]
  else [92, 117, 48, 48, hexDigit (c / 16), hexDigit (c % 16)]

/-- what `print_string` emits for one byte -/
def printByte (c : Nat) : List Nat := if c ≥ 32 ∧ c ≠ 34 ∧ c ≠ 92 then [c] else escapeByte c

/-- `print_string`: opening quote, every byte literally or escaped, closing quote -/
def printString (s : List Nat) : List Nat := 34 :: (s.flatMap printByte ++ [34])

/-- value of a hex digit, upper or lower case -/
def hexVal (c : Nat) : Option Nat :=
  if 48 ≤ c ∧ c ≤ 57 then some (c - 48)
  else if 97 ≤ c ∧ c ≤ 102 then some (c - 87)
  else if 65 ≤ c ∧ c ≤ 70 then some (c - 55) else none

def hex4 (a b c d : Nat) : Option Nat :=
  match hexVal a, hexVal b, hexVal c, hexVal d with
  | some x, some y, some z, some w => some (x * 4096 + y * 256 + z * 16 + w)
  | _, _, _, _ => none

/-- `decode_unicode_char`: UTF-8 encoding of a code point -/
def utf8 (u : Nat) : List Nat :=
  if u ≤ 0x7f then [u]
  else if u ≤ 0x7ff then [0xc0 + u / 64, 0x80 + u % 64]
  else if u ≤ 0xffff then [0xe0 + u / 4096, 0x80 + u / 64 % 64, 0x80 + u % 64]
  else [0xf0 + u / 262144, 0x80 + u / 4096 % 64, 0x80 + u / 64 % 64, 0x80 + u % 64]

/-- `flatcc_json_parser_string_escape` after the backslash: decoded bytes and the rest of the input -/
def decodeEscape : List Nat → Option (List Nat × List Nat)
  | 120 :: a :: b :: r => (match hexVal a, hexVal b with | some x, some y => some ([x * 16 + y], r) | _, _ => none)
  | 117 :: a :: b :: c :: d :: r =>
    match hex4 a b c d with
    | none => none
    | some u =>
      if 0xd800 ≤ u ∧ u ≤ 0xdbff then
        match r with
        | 92 :: 117 :: a2 :: b2 :: c2 :: d2 :: r2 =>
          (match hex4 a2 b2 c2 d2 with
           | some u2 => if 0xdc00 ≤ u2 ∧ u2 ≤ 0xdfff then some (utf8 ((u - 0xd800) * 1024 + (u2 - 0xdc00) + 65536), r2) else some (utf8 u, r)
           | none => some (utf8 u, r))
        | _ => some (utf8 u, r)
      else some (utf8 u, r)
  | 116 :: r => some ([9], r) | 110 :: r => some ([10], r) | 114 :: r => some ([13], r)
  | 98 :: r => some ([8], r) | 102 :: r => some ([12], r)
  | 34 :: r => some ([34], r) | 92 :: r => some ([92], r) | 47 :: r => some ([47], r)
  | _ => none

/-- the string body after the opening quote (`string_part` + `string_escape` in a loop): content and the input after the
closing quote; `none`: unterminated string, control character, invalid escape -/
def parseBody : Nat → List Nat → List Nat → Option (List Nat × List Nat)
  | 0, _, _ => none
  | _ + 1, [], _ => none
  | fuel + 1, c :: r, acc =>
    if c = 34 then some (acc, r)
    else if c < 32 then none
    else if c = 92 then
      match decodeEscape r with
      | some (bytes, r') => parseBody fuel r' (acc ++ bytes)
      | none => none
    else parseBody fuel r (acc ++ [c])

def parseString (input : List Nat) : Option (List Nat × List Nat) :=
  match input with
  | 34 :: r => parseBody (r.length + 1) r []
  | _ => none

end Flatcc.Json
