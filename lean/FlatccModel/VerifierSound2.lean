import FlatccModel.VerifierSound
/-! Soundness, part 2: table descriptor invariant, vtable reads, field slots. -/
namespace Flatcc.Verifier

/-- what `verify_table` has established about the descriptor it hands to the field calls -/
structure TDInv (c : Ctx) (td : TD) : Prop where
  tab4 : td.table + 4 ≤ c.n
  taba : td.table % 4 = 0
  vt   : readVtBase c td.table = td.vtable
  vsz  : td.vsize = r16 c td.vtable
  vin  : td.vtable + td.vsize ≤ c.n
  vev  : td.vsize % 2 = 0
  vge  : td.vsize ≥ 4
  vta  : td.vtable % 2 = 0
  tin  : td.table + td.tsize ≤ c.n

theorem readVt_spec {c : Ctx} {M : Nat} (P : Placed c M) (td : TD) (id : Nat) (hid : id < 32766)
    (inv : TDInv c td) :
    (∀ a ∈ (readVt c td.table id).2, Safe c a) ∧
    readVtEntry c td id = .ok (readVt c td.table id).1 := by
  have hvo : w16 ((id + 2) * 2) = (id + 2) * 2 := by unfold w16; omega
  have h2m : 2 ∣ 4 := by decide
  unfold readVt readVtEntry
  simp only [inv.vt, hvo, ← inv.vsz]
  have := inv.vin; have := inv.tab4; have := inv.taba; have := inv.vta; have := inv.vge; have := inv.vev
  by_cases h : td.vsize ≥ 2 * (id + 3)
  · have h2 : ¬ ((id + 2) * 2 ≥ td.vsize) := by omega
    simp only [h, h2, if_true, if_false]
    refine ⟨?_, ?_⟩
    · intro a ha
      simp only [List.mem_cons, List.mem_nil_iff, or_false] at ha
      rcases ha with rfl | rfl | rfl
      · exact safe4 P (by omega) (by omega)
      · exact safe_rel P h2m (by omega) (by omega)
      · exact safe_rel P h2m (by omega) (by omega)
    · unfold rd16
      have : td.vtable + (id + 2) * 2 + 2 ≤ c.n := by omega
      simp only [this, if_true]
      unfold r16
      have e : td.vtable + 2 * (id + 2) = td.vtable + (id + 2) * 2 := by omega
      rw [e]
  · have h2 : (id + 2) * 2 ≥ td.vsize := by omega
    simp only [h, h2, if_true, if_false]
    refine ⟨?_, trivial⟩
    intro a ha
    simp only [List.mem_cons, List.mem_nil_iff, or_false] at ha
    rcases ha with rfl | rfl
    · exact safe4 P (by omega) (by omega)
    · exact safe_rel P h2m (by omega) (by omega)

theorem readVt_lt (c : Ctx) (table id : Nat) : (readVt c table id).1 < 65536 := by
  unfold readVt
  simp only []
  split
  · exact r16_lt _ _
  · simp

/-- the slot of an offset field: absent, or a verified 4-byte slot inside the table -/
theorem getOffsetField_spec {c : Ctx} {M : Nat} (P : Placed c M) (td : TD) (id : Nat) (req : Bool) (hid : id < 32766)
    (inv : TDInv c td) {r} (h : getOffsetField c td id req = .ok r) :
    ((readVt c td.table id).1 = 0 ∧ r = none) ∨
    ((readVt c td.table id).1 ≠ 0 ∧ r = some ((readVt c td.table id).1 + td.table) ∧
      Safe c ⟨td.table + (readVt c td.table id).1, 4, 4⟩ ∧
      td.table + (readVt c td.table id).1 + 4 ≤ c.n ∧ (td.table + (readVt c td.table id).1) % 4 = 0) := by
  have hs := (readVt_spec P td id hid inv).2
  unfold getOffsetField at h
  obtain ⟨vte, h0, h⟩ := bind_ok h
  rw [hs] at h0
  injection h0 with h0
  subst h0
  by_cases hz : (readVt c td.table id).1 = 0
  · left
    simp only [hz, if_true] at h
    obtain ⟨_, _, h⟩ := bind_ok h
    exact ⟨hz, (pure_ok h).symm⟩
  · right
    simp only [hz, if_false] at h
    obtain ⟨_, h1, h⟩ := bind_ok h
    obtain ⟨_, h2, h⟩ := bind_ok h
    have g1 := guard_ok h1; have g2 := guard_ok h2
    simp only [decide_eq_true_eq] at g1 g2
    have := inv.tin
    have e : td.table + (readVt c td.table id).1 = (readVt c td.table id).1 + td.table := by omega
    refine ⟨hz, (pure_ok h).symm, ?_, by omega, by omega⟩
    exact safe4 P (by omega) (by omega)

/-- `flatcc_verify_field`: absent, or the scalar/struct lies inside the table and is aligned at its absolute address -/
theorem verifyField_spec {c : Ctx} {M : Nat} (P : Placed c M) (td : TD) (id : Nat) (req : Bool) (size align : Nat)
    (hid : id < 32766) (hal : align ∣ M) (inv : TDInv c td)
    (h : verifyField c td id req size align = .ok ()) :
    (readVt c td.table id).1 = 0 ∨
    ((readVt c td.table id).1 ≠ 0 ∧ Safe c ⟨td.table + (readVt c td.table id).1, size, align⟩) := by
  have hs := (readVt_spec P td id hid inv).2
  unfold verifyField at h
  obtain ⟨vte, h0, h⟩ := bind_ok h
  rw [hs] at h0
  injection h0 with h0
  subst h0
  by_cases hz : (readVt c td.table id).1 = 0
  · left; exact hz
  · right
    simp only [hz, if_false] at h
    obtain ⟨_, h1, h⟩ := bind_ok h
    have g1 := guard_ok h1; have g2 := guard_ok h
    simp only [decide_eq_true_eq] at g1 g2
    have := inv.tin
    refine ⟨hz, by show td.table + (readVt c td.table id).1 + size ≤ c.n; omega, ?_⟩
    -- (vte + table + w32 A) % align = 0 is the alignment of the absolute address
    rw [w32_mod (P.pow hal), abs_mod' (P.pow hal)] at g2
    have e : td.table + (readVt c td.table id).1 = (readVt c td.table id).1 + td.table := by omega
    show (c.A + (td.table + (readVt c td.table id).1)) % align = 0
    rw [e]
    exact g2

/-- the header part of `verify_table` establishes the descriptor invariant -/
theorem verifyTable_header {c : Ctx} {M : Nat} (P : Placed c M) (S : Schema) (fuel base offset : Nat) (ttl : Int) (t : Nat)
    (hb : base < 4294967296) (ho : offset < 4294967296)
    (h : verifyTable S c (fuel+1) base offset ttl t = .ok ()) :
    ∃ td, TDInv c td ∧ td.table = base + offset ∧ td.ttl = ttl - 1 ∧ verifyFields S c fuel td (S.table t) = .ok () := by
  unfold verifyTable at h
  obtain ⟨_, h1, h⟩ := bind_ok h
  obtain ⟨_, h2, h⟩ := bind_ok h
  have hc := checkHeader_ok hb ho (guard_ok h2)
  obtain ⟨so, h3, h⟩ := bind_ok h
  obtain ⟨_, h4, h⟩ := bind_ok h
  obtain ⟨_, h4b, h⟩ := bind_ok h
  obtain ⟨_, h5, h⟩ := bind_ok h
  obtain ⟨vsize, h6, h⟩ := bind_ok h
  obtain ⟨_, h7, h⟩ := bind_ok h
  obtain ⟨_, h8, h⟩ := bind_ok h
  obtain ⟨tsize, h9, h⟩ := bind_ok h
  obtain ⟨_, h10, h⟩ := bind_ok h
  have g4 := guard_ok h4; have g4b := guard_ok h4b; have g5 := guard_ok h5; have g7 := guard_ok h7
  have g8 := guard_ok h8; have g10 := guard_ok h10
  simp only [Bool.and_eq_true, decide_eq_true_eq] at g4 g5 g7 g8 g10
  rw [hc.1] at h3 h6 h9 g4 g4b g5 g7 g10 h
  obtain ⟨hso1, hso2⟩ := rd32_ok h3
  obtain ⟨hv1, hv2⟩ := rd16_ok h6
  obtain ⟨ht1, ht2⟩ := rd16_ok h9
  have hsolt := r32_lt c (base + offset)
  have hsz := P.size
  -- the reader's vtable pointer equals the verifier's vbase
  have hvt : readVtBase c (base + offset) = sub32 (base + offset) so := by
    unfold readVtBase sub32
    rw [← hso2]
    unfold sub32 at g4 g4b
    simp only []
    split
    · rename_i hpos
      simp only [hpos, if_true, decide_eq_true_eq] at g4b
      omega
    · rename_i hneg
      simp only [hneg, if_false, decide_eq_true_eq] at g4b
      omega
  unfold sub32 at g10
  refine ⟨_, ⟨?_, ?_, ?_, ?_, ?_, ?_, ?_, ?_, ?_⟩, rfl, rfl, h⟩ <;> simp only []
  · omega
  · exact hc.2.2.1
  · exact hvt
  · exact hv2
  · exact g7.1
  · exact g7.2
  · exact g8
  · exact g4.2
  · omega

end Flatcc.Verifier
