import FlatccModel.VerifierSound2
/-! Soundness, part 3: well-formed descriptors, members, element loops, the field induction. -/
namespace Flatcc.Verifier

/-- what the schema compiler guarantees about the calls it generates (`M` = largest alignment) -/
def FieldWF (M : Nat) (f : Field) : Prop :=
  f.id < 32766 ∧
  match f.kind with
  | .scalar _ align => align ∣ M
  | .vector esz align maxc => align ∣ M ∧ maxc * esz < 4294967296
  | .union _ => 1 ≤ f.id
  | .unionVector _ => 1 ≤ f.id
  | .nestedTable _ align => align ∣ M
  | .nestedStruct size align => align ∣ M ∧ size < 4294967296
  | _ => True

def MemberWF (M : Nat) : Member → Prop
  | .struct size align => align ∣ M ∧ size < 4294967296
  | _ => True

structure WF (S : Schema) (M : Nat) : Prop where
  fields : ∀ fs ∈ S.tables, ∀ f ∈ fs, FieldWF M f
  members : ∀ ms ∈ S.unions, ∀ cm ∈ ms, MemberWF M cm.2

theorem getD_mem_or_nil {α} (l : List (List α)) (t : Nat) : l.getD t [] ∈ l ∨ l.getD t [] = [] := by
  by_cases h : t < l.length
  · left; simp [List.getD, List.getElem?_eq_getElem h]
  · right; simp [List.getD, List.getElem?_eq_none (by omega : l.length ≤ t)]

theorem WF.table {S M} (w : WF S M) (t : Nat) : ∀ f ∈ S.table t, FieldWF M f := by
  unfold Schema.table
  rcases getD_mem_or_nil S.tables t with hm | he
  · exact w.fields _ hm
  · rw [he]; intro f hf; contradiction

theorem lookupMember_mem {ms : List (Nat × Member)} {ty : Nat} {m : Member}
    (h : lookupMember ms ty = some m) : ∃ c, (c, m) ∈ ms := by
  induction ms with
  | nil => simp [lookupMember] at h
  | cons cm r ih =>
    obtain ⟨c, m'⟩ := cm
    unfold lookupMember at h
    split at h
    · injection h with h; subst h; exact ⟨c, List.mem_cons_self⟩
    · obtain ⟨c', hc'⟩ := ih h; exact ⟨c', List.mem_cons_of_mem _ hc'⟩

theorem WF.member {S M} (w : WF S M) (u ty : Nat) {m} (h : lookupMember (S.union u) ty = some m) : MemberWF M m := by
  obtain ⟨c, hc⟩ := lookupMember_mem h
  unfold Schema.union at hc
  rcases getD_mem_or_nil S.unions u with hm | he
  · exact w.members _ hm _ hc
  · rw [he] at hc; contradiction

/-- induction hypothesis of the main theorem: tables verified with this much fuel are safe to read -/
def TableSound (S : Schema) (c : Ctx) (fuel : Nat) : Prop :=
  ∀ base offset ttl t, base < 4294967296 → offset < 4294967296 →
    verifyTable S c fuel base offset ttl t = .ok () →
    ∀ fuel' a, a ∈ tableAcc S c fuel' (base + offset) t → Safe c a

/-- the same for every buffer at every address: what a nested buffer needs (it is verified as a buffer of its own) -/
def TableSoundAll (S : Schema) (M fuel : Nat) : Prop := ∀ c, Placed c M → TableSound S c fuel

/-- an accepted header check is all the placement the soundness proof needs -/
theorem verifyHeader_placed {c : Ctx} {M id : Nat} (hm4 : 4 ∣ M) (hmp : M ∣ 4294967296)
    (h : verifyHeader c id = .ok ()) : Placed c M ∧ 8 ≤ c.n := by
  unfold verifyHeader at h
  obtain ⟨_, g1, h⟩ := bind_ok h
  obtain ⟨_, g2, h⟩ := bind_ok h
  obtain ⟨_, g3, h⟩ := bind_ok h
  have k1 := guard_ok g1; have k2 := guard_ok g2; have k3 := guard_ok g3
  simp only [decide_eq_true_eq] at k1 k2 k3
  exact ⟨⟨hm4, hmp, k1, by omega⟩, k3⟩

theorem r32_sub (c : Ctx) (s len i : Nat) : r32 (sub c s len) i = r32 c (s + i) := by
  unfold r32 sub
  simp only [Nat.add_assoc]

/-- a read that is safe inside a nested buffer is safe in the enclosing buffer -/
theorem safe_shift {c : Ctx} {s len : Nat} (hr : s + len ≤ c.n) {a : Access} (h : Safe (sub c s len) a) :
    Safe c (shiftAcc s a) := by
  unfold Safe at h ⊢
  unfold shiftAcc
  have h1 : a.addr + a.len ≤ len := h.1
  have h2 : (c.A + s + a.addr) % a.align = 0 := h.2
  refine ⟨by show s + a.addr + a.len ≤ c.n; omega, ?_⟩
  show (c.A + (s + a.addr)) % a.align = 0
  rw [← Nat.add_assoc]; exact h2

theorem member_sound {c : Ctx} {M : Nat} (P : Placed c M) (S : Schema) (fuel : Nat) (IH : TableSound S c fuel)
    (m : Option Member) (hm : ∀ m', m = some m' → MemberWF M m') (b o : Nat) (ttl : Int)
    (hb : b < 4294967296) (ho : o < 4294967296)
    (h : verifyMember S c fuel b o ttl m = .ok ()) :
    ∀ fuel' a, a ∈ memberAcc S c fuel' (b + o) m → Safe c a := by
  intro fuel' a ha
  cases m with
  | none => unfold memberAcc at ha; contradiction
  | some m' =>
    cases m' with
    | table t =>
      unfold verifyMember at h
      unfold memberAcc at ha
      exact IH b o ttl t hb ho h fuel' a ha
    | struct size align =>
      unfold verifyMember at h
      unfold memberAcc at ha
      have hw := hm _ rfl
      unfold MemberWF at hw
      simp only [List.mem_cons, List.mem_nil_iff, or_false] at ha
      subst ha
      exact verifyStruct_safe P (Nat.le_refl _) ho hw.2 hw.1 h
    | string =>
      unfold verifyMember at h
      unfold memberAcc at ha
      exact verifyString_safe P hb ho h a ha

theorem verifyTables_safe {c : Ctx} {M : Nat} (P : Placed c M) (S : Schema) (fuel : Nat) (IH : TableSound S c fuel)
    (ttl : Int) (t : Nat) :
    ∀ cnt base, base % 4 = 0 → base + 4 * cnt ≤ c.n → verifyTables S c fuel ttl t cnt base = .ok () →
      ∀ fuel' a, a ∈ tableElemsAcc S c fuel' t cnt base → Safe c a := by
  intro cnt
  induction cnt with
  | zero => intro base _ _ _ fuel' a ha; simp [tableElemsAcc] at ha
  | succ cnt ih =>
    intro base hb4 hrange h fuel' a ha
    have hsz := P.size
    unfold verifyTables at h
    obtain ⟨o, h1, h⟩ := bind_ok h
    obtain ⟨_, h2, h⟩ := bind_ok h
    obtain ⟨_, ho2⟩ := rd32_ok h1
    have holt := r32_lt c base
    have hw : w32 (base + 4) = base + 4 := by unfold w32; omega
    rw [hw] at h
    unfold tableElemsAcc at ha
    simp only [List.mem_append, List.mem_cons] at ha
    rcases ha with (rfl | ha) | ha
    · exact safe4 P (by omega) hb4
    · rw [← ho2] at ha
      exact IH base o ttl t (by omega) (by omega) h2 fuel' a ha
    · exact ih (base + 4) (by omega) (by omega) h fuel' a ha

theorem verifyUnions_safe {c : Ctx} {M : Nat} (P : Placed c M) (S : Schema) (w : WF S M) (fuel : Nat) (IH : TableSound S c fuel)
    (ttl : Int) (u : Nat) :
    ∀ cnt tbase base, base % 4 = 0 → base + 4 * cnt ≤ c.n → tbase + cnt ≤ c.n →
      verifyUnions S c fuel ttl u cnt tbase base = .ok () →
      ∀ fuel' a, a ∈ unionElemsAcc S c fuel' u cnt tbase base → Safe c a := by
  intro cnt
  induction cnt with
  | zero => intro tbase base _ _ _ _ fuel' a ha; simp [unionElemsAcc] at ha
  | succ cnt ih =>
    intro tbase base hb4 hrange htr h fuel' a ha
    have hsz := P.size
    unfold verifyUnions at h
    obtain ⟨elem, h1, h⟩ := bind_ok h
    obtain ⟨ty, h2, h⟩ := bind_ok h
    obtain ⟨_, h3, h⟩ := bind_ok h
    obtain ⟨_, he2⟩ := rd32_ok h1
    obtain ⟨_, hty⟩ := rd8_ok h2
    have helt := r32_lt c base
    have hw : w32 (base + 4) = base + 4 := by unfold w32; omega
    rw [hw] at h
    unfold unionElemsAcc at ha
    simp only [List.mem_append] at ha
    rcases ha with ha | ha
    · by_cases hz : elem = 0
      · simp only [hz, if_true] at h3
        have g := guard_ok h3
        simp only [beq_iff_eq] at g
        rw [← hty, g] at ha
        simp at ha
      · simp only [hz, if_false] at h3
        obtain ⟨_, h4, h3⟩ := bind_ok h3
        by_cases ht0 : r8 c tbase = 0
        · simp only [ht0, if_true] at ha; contradiction
        · simp only [ht0, if_false, List.mem_cons] at ha
          rcases ha with rfl | ha
          · exact safe4 P (by omega) hb4
          · rw [← he2, ← hty] at ha
            exact member_sound P S fuel IH _ (fun m' hm' => w.member u ty hm') base elem ttl (by omega) (by omega) h3 fuel' a ha
    · exact ih (tbase + 1) (base + 4) (by omega) (by omega) (by omega) h fuel' a ha

end Flatcc.Verifier
