/-! Calibration: flatcc refmap (open addressing, linear probe, no delete) — core find/insert refinement. -/
namespace Flatcc.Refmap

abbrev Slot := Nat × Int

structure RM where
  buckets : Nat
  table : Array Slot          -- src = 0 ⇒ empty
  deriving Repr

def srcAt (s : RM) (j : Nat) : Nat := (s.table[j]!).1
def refAt (s : RM) (j : Nat) : Int := (s.table[j]!).2

/-- the probe loop of insert/find: returns the first slot on the probe path that is empty or holds `src` -/
def walk (s : RM) (k src : Nat) : Nat → Nat → Nat
  | i, 0 => (k + i) % s.buckets
  | i, fuel+1 =>
    if srcAt s ((k + i) % s.buckets) = 0 then (k + i) % s.buckets
    else if srcAt s ((k + i) % s.buckets) = src then (k + i) % s.buckets
    else walk s k src (i + 1) fuel

def find (hash : Nat → Nat) (s : RM) (src : Nat) : Int :=
  let j := walk s (hash src) src 0 s.buckets
  if srcAt s j = 0 then 0 else refAt s j

def insertCore (hash : Nat → Nat) (s : RM) (src : Nat) (ref : Int) : RM :=
  let j := walk s (hash src) src 0 s.buckets
  { s with table := s.table.setIfInBounds j (src, ref) }

/-- abstract content: the ref stored under src, if any -/
def lookup (s : RM) (src : Nat) : Option Int :=
  ((List.range s.buckets).find? (fun j => srcAt s j = src)).map (refAt s)

structure Inv (hash : Nat → Nat) (s : RM) : Prop where
  size : s.table.size = s.buckets
  pos : 0 < s.buckets
  empty : ∃ e, e < s.buckets ∧ srcAt s e = 0
  nodup : ∀ j1 j2, j1 < s.buckets → j2 < s.buckets → srcAt s j1 ≠ 0 → srcAt s j1 = srcAt s j2 → j1 = j2
  path : ∀ t i, t < s.buckets → srcAt s t ≠ 0 → i < s.buckets →
      (hash (srcAt s t) + i) % s.buckets = t →
      ∀ i', i' < i → srcAt s ((hash (srcAt s t) + i') % s.buckets) ≠ 0

theorem probe_surj (k N j : Nat) (hN : 0 < N) (hj : j < N) : ∃ i, i < N ∧ (k + i) % N = j := by
  have hr : k % N < N := Nat.mod_lt _ hN
  by_cases h : k % N ≤ j
  · refine ⟨j - k % N, by omega, ?_⟩
    rw [Nat.add_mod, Nat.mod_eq_of_lt (show (j - k % N) < N by omega)]
    have : k % N + (j - k % N) = j := by omega
    rw [this, Nat.mod_eq_of_lt hj]
  · refine ⟨j + N - k % N, by omega, ?_⟩
    rw [Nat.add_mod, Nat.mod_eq_of_lt (show (j + N - k % N) < N by omega)]
    have : k % N + (j + N - k % N) = j + N := by omega
    rw [this, Nat.add_mod_right, Nat.mod_eq_of_lt hj]

theorem probe_inj (k N i1 i2 : Nat) (h1 : i1 < N) (h2 : i2 < N) (h : (k + i1) % N = (k + i2) % N) : i1 = i2 := by
  have hN : 0 < N := by omega
  have e1 : (k + i1) % N = (k % N + i1) % N := by rw [Nat.add_mod, Nat.mod_eq_of_lt h1]
  have e2 : (k + i2) % N = (k % N + i2) % N := by rw [Nat.add_mod, Nat.mod_eq_of_lt h2]
  rw [e1, e2] at h
  have hr : k % N < N := Nat.mod_lt _ hN
  generalize k % N = r at *
  have m1 : (r + i1) % N = if r + i1 < N then r + i1 else r + i1 - N := by
    split
    · exact Nat.mod_eq_of_lt (by assumption)
    · rw [Nat.mod_eq_sub_mod (by omega)]; exact Nat.mod_eq_of_lt (by omega)
  have m2 : (r + i2) % N = if r + i2 < N then r + i2 else r + i2 - N := by
    split
    · exact Nat.mod_eq_of_lt (by assumption)
    · rw [Nat.mod_eq_sub_mod (by omega)]; exact Nat.mod_eq_of_lt (by omega)
  rw [m1, m2] at h
  split at h <;> split at h <;> omega

end Flatcc.Refmap

namespace Flatcc.Refmap

def stop (s : RM) (k src i : Nat) : Prop :=
  srcAt s ((k + i) % s.buckets) = 0 ∨ srcAt s ((k + i) % s.buckets) = src

theorem walk_least (s : RM) (k src : Nat) :
    ∀ (fuel i : Nat), (∃ m, i ≤ m ∧ m < i + fuel ∧ stop s k src m) →
      ∃ i0, i ≤ i0 ∧ i0 < i + fuel ∧ walk s k src i fuel = (k + i0) % s.buckets ∧ stop s k src i0 ∧
        ∀ i', i ≤ i' → i' < i0 → ¬ stop s k src i' := by
  intro fuel
  induction fuel with
  | zero => intro i ⟨m, h1, h2, _⟩; omega
  | succ fuel ih =>
    intro i ⟨m, hm1, hm2, hm3⟩
    unfold walk
    by_cases h0 : srcAt s ((k + i) % s.buckets) = 0
    · simp only [h0, if_true]
      exact ⟨i, Nat.le_refl _, by omega, rfl, Or.inl h0, fun i' h1 h2 => by omega⟩
    · by_cases h1 : srcAt s ((k + i) % s.buckets) = src
      · simp only [h1, if_true]
        refine ⟨i, Nat.le_refl _, by omega, ?_, Or.inr h1, fun i' h1 h2 => by omega⟩
        split <;> rfl
      · simp only [h0, h1, if_false]
        have hmi : m ≠ i := by
          intro e; subst e; rcases hm3 with h | h
          · exact h0 h
          · exact h1 h
        obtain ⟨i0, a1, a2, a3, a4, a5⟩ := ih (i + 1) ⟨m, by omega, by omega, hm3⟩
        refine ⟨i0, by omega, by omega, a3, a4, ?_⟩
        intro i' b1 b2
        by_cases e : i' = i
        · subst e; intro hs; rcases hs with h | h
          · exact h0 h
          · exact h1 h
        · exact a5 i' (by omega) b2

theorem walk_found (hash : Nat → Nat) (s : RM) (I : Inv hash s) (t : Nat) (ht : t < s.buckets)
    (hne : srcAt s t ≠ 0) : walk s (hash (srcAt s t)) (srcAt s t) 0 s.buckets = t := by
  obtain ⟨i, hi, hit⟩ := probe_surj (hash (srcAt s t)) s.buckets t I.pos ht
  have hstop : stop s (hash (srcAt s t)) (srcAt s t) i := by unfold stop; rw [hit]; exact Or.inr rfl
  obtain ⟨i0, a1, a2, a3, a4, a5⟩ := walk_least s (hash (srcAt s t)) (srcAt s t) s.buckets 0 ⟨i, Nat.zero_le _, by omega, hstop⟩
  rw [a3]
  by_cases e : i0 = i
  · rw [e]; exact hit
  · have hlt : i0 < i := by
      by_cases h : i0 < i
      · exact h
      · exact absurd hstop (a5 i (Nat.zero_le _) (by omega))
    exfalso
    rcases a4 with h | h
    · exact I.path t i ht hne hi hit i0 hlt h
    · have hj : (hash (srcAt s t) + i0) % s.buckets < s.buckets := Nat.mod_lt _ I.pos
      have := I.nodup _ t hj ht (by rw [h]; exact hne) h
      exact e (probe_inj _ _ _ _ (by omega) hi (this.trans hit.symm))

theorem walk_absent (hash : Nat → Nat) (s : RM) (I : Inv hash s) (src : Nat)
    (habs : ∀ t, t < s.buckets → srcAt s t ≠ src) :
    ∃ i0, i0 < s.buckets ∧ walk s (hash src) src 0 s.buckets = (hash src + i0) % s.buckets ∧
      srcAt s ((hash src + i0) % s.buckets) = 0 ∧
      ∀ i', i' < i0 → srcAt s ((hash src + i') % s.buckets) ≠ 0 := by
  obtain ⟨e, he, hee⟩ := I.empty
  obtain ⟨i, hi, hie⟩ := probe_surj (hash src) s.buckets e I.pos he
  have hstop : stop s (hash src) src i := by unfold stop; rw [hie]; exact Or.inl hee
  obtain ⟨i0, a1, a2, a3, a4, a5⟩ := walk_least s (hash src) src s.buckets 0 ⟨i, Nat.zero_le _, by omega, hstop⟩
  refine ⟨i0, by omega, a3, ?_, ?_⟩
  · rcases a4 with h | h
    · exact h
    · exact absurd h (habs _ (Nat.mod_lt _ I.pos))
  · intro i' hi' h0
    exact a5 i' (Nat.zero_le _) hi' (Or.inl h0)

theorem find_present (hash : Nat → Nat) (s : RM) (I : Inv hash s) (t : Nat) (ht : t < s.buckets)
    (hne : srcAt s t ≠ 0) : find hash s (srcAt s t) = refAt s t := by
  unfold find
  simp only [walk_found hash s I t ht hne, hne, if_false]

theorem find_absent (hash : Nat → Nat) (s : RM) (I : Inv hash s) (src : Nat)
    (habs : ∀ t, t < s.buckets → srcAt s t ≠ src) : find hash s src = 0 := by
  obtain ⟨i0, _, h2, h3, _⟩ := walk_absent hash s I src habs
  unfold find
  simp only [h2, h3, if_true]


theorem get_set (a : Array Slot) (j k : Nat) (v : Slot) (hj : j < a.size) :
    (a.setIfInBounds j v)[k]! = if k = j then v else a[k]! := by
  by_cases hk : k < a.size
  · have hk' : k < (a.setIfInBounds j v).size := by simpa using hk
    rw [getElem!_pos (a.setIfInBounds j v) k hk', Array.getElem_setIfInBounds hk, getElem!_pos a k hk]
    by_cases e : j = k
    · simp [e]
    · have : k ≠ j := fun h => e h.symm
      simp [e, this]
  · have hk' : ¬ k < (a.setIfInBounds j v).size := by simpa using hk
    have : k ≠ j := by omega
    simp only [this, if_false]
    rw [getElem!_neg (a.setIfInBounds j v) k hk', getElem!_neg a k hk]

/-- inserting a *new* key into the empty slot found by the probe -/
theorem insert_new (hash : Nat → Nat) (s : RM) (I : Inv hash s) (src : Nat) (ref : Int) (hsrc : src ≠ 0)
    (habs : ∀ t, t < s.buckets → srcAt s t ≠ src)
    (hroom : ∃ e1 e2, e1 < s.buckets ∧ e2 < s.buckets ∧ e1 ≠ e2 ∧ srcAt s e1 = 0 ∧ srcAt s e2 = 0) :
    Inv hash (insertCore hash s src ref) ∧
    find hash (insertCore hash s src ref) src = ref ∧
    (∀ t, t < s.buckets → srcAt s t ≠ 0 →
        srcAt (insertCore hash s src ref) t = srcAt s t ∧ refAt (insertCore hash s src ref) t = refAt s t) := by
  obtain ⟨i0, hi0, hw, hz, hpath⟩ := walk_absent hash s I src habs
  have hjlt : (hash src + i0) % s.buckets < s.buckets := Nat.mod_lt _ I.pos
  have hjs : (hash src + i0) % s.buckets < s.table.size := by rw [I.size]; exact hjlt
  -- pointwise description of the new table
  have hsrc' : ∀ k, srcAt (insertCore hash s src ref) k =
      if k = (hash src + i0) % s.buckets then src else srcAt s k := by
    intro k; unfold insertCore srcAt; simp only [hw]
    rw [get_set _ _ _ _ hjs]; split <;> rfl
  have href' : ∀ k, refAt (insertCore hash s src ref) k =
      if k = (hash src + i0) % s.buckets then ref else refAt s k := by
    intro k; unfold insertCore refAt; simp only [hw]
    rw [get_set _ _ _ _ hjs]; split <;> rfl
  have hb : (insertCore hash s src ref).buckets = s.buckets := rfl
  have I' : Inv hash (insertCore hash s src ref) := by
    refine ⟨?_, ?_, ?_, ?_, ?_⟩
    · show (s.table.setIfInBounds _ _).size = s.buckets
      rw [Array.size_setIfInBounds]; exact I.size
    · exact I.pos
    · obtain ⟨e1, e2, h1, h2, hne, z1, z2⟩ := hroom
      by_cases c : e1 = (hash src + i0) % s.buckets
      · refine ⟨e2, h2, ?_⟩
        rw [hsrc']; have : e2 ≠ (hash src + i0) % s.buckets := by rw [← c]; exact fun h => hne h.symm
        simp only [this, if_false]; exact z2
      · refine ⟨e1, h1, ?_⟩
        rw [hsrc']; simp only [c, if_false]; exact z1
    · intro j1 j2 h1 h2 hne heq
      rw [hb] at h1 h2
      rw [hsrc'] at hne heq
      rw [hsrc' j2] at heq
      by_cases c1 : j1 = (hash src + i0) % s.buckets <;> by_cases c2 : j2 = (hash src + i0) % s.buckets
      · rw [c1, c2]
      · simp only [c1, c2, if_true, if_false] at heq
        exact absurd heq.symm (habs j2 h2)
      · simp only [c1, c2, if_true, if_false] at heq
        exact absurd heq (habs j1 h1)
      · simp only [c1, c2, if_false] at heq hne
        exact I.nodup j1 j2 h1 h2 hne heq
    · intro t i ht hne hi hit i' hi'
      rw [hb] at ht hi hit ⊢
      simp only [hsrc'] at hne hit ⊢
      by_cases c : t = (hash src + i0) % s.buckets
      · simp only [c, if_true] at hit hne ⊢
        have : i = i0 := probe_inj _ _ _ _ hi hi0 hit
        subst this
        split
        · exact hsrc
        · exact hpath i' hi'
      · simp only [c, if_false] at hit hne ⊢
        split
        · exact hsrc
        · exact I.path t i ht hne hi hit i' hi'
  refine ⟨I', ?_, ?_⟩
  · have hnew : srcAt (insertCore hash s src ref) ((hash src + i0) % s.buckets) = src := by
      rw [hsrc']; simp
    have := find_present hash _ I' ((hash src + i0) % s.buckets) (by rw [hb]; exact hjlt) (by rw [hnew]; exact hsrc)
    rw [hnew] at this
    rw [this, href']; simp
  · intro t ht hne
    have c : t ≠ (hash src + i0) % s.buckets := by
      intro e; rw [e] at hne; exact hne hz
    rw [hsrc', href']; simp [c]

end Flatcc.Refmap
