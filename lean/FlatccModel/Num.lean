/-!
# Integer ↔ text (C19, shared by C05 and C08)

Model of
* `include/flatcc/portable/pprintint.h`  (`print_uint8/16/32/64`, `print_int8/16/32/64`)
* `src/runtime/json_parser.c`            (`flatcc_json_parser_integer`)
* `include/flatcc/flatcc_json_parser.h`  (`flatcc_json_parser_coerce_<type>`)
* `include/flatcc/portable/pparseint.h`  (`parse_integer`: the same digit loop)

Text is a `List Nat` of byte values.  C unsigned arithmetic is `Nat` with explicit `%`.
-/
namespace Flatcc.Num

def U64 : Nat := 18446744073709551616

/-! ## Printing -/

/-- one step of the unrolled printing switch: `__print_stage` (two digits), `__print_short_stage`
(one digit, `n % 10`), or the final `p[-1] = (char)n + '0'` (one digit, *no* reduction). -/
inductive St | pair | short | last
  deriving Repr, DecidableEq

/-- characters produced by a plan, leftmost first (the C code writes right-to-left, first step = rightmost). -/
def runPlan : List St → Nat → List Nat
  | [], _ => []
  | .pair :: r, n => runPlan r (n / 100) ++ [48 + n % 100 / 10, 48 + n % 100 % 10]
  | .short :: r, n => runPlan r (n / 10) ++ [48 + n % 10]
  | .last :: _, n => [(48 + n) % 256]

def planDigits : List St → Nat
  | [] => 0
  | .pair :: r => planDigits r + 2
  | .short :: r => planDigits r + 1
  | .last :: _ => 1

def pairs (k : Nat) : List St := List.replicate k .pair

/-- digit count decision trees, literally as in the source -/
def klen8 (n : Nat) : Nat := if n ≥ 100 then 3 else if n ≥ 10 then 2 else 1

def klen16 (n : Nat) : Nat :=
  if n ≥ 1000 then (if n ≥ 10000 then 5 else 4)
  else (if n ≥ 100 then 3 else if n ≥ 10 then 2 else 1)

def klen32 (n : Nat) : Nat :=
  if n ≥ 10000 then
    (if n ≥ 10000000 then
      (if n ≥ 1000000000 then 10 else if n ≥ 100000000 then 9 else 8)
     else (if n ≥ 1000000 then 7 else if n ≥ 100000 then 6 else 5))
  else
    (if n ≥ 100 then (if n ≥ 1000 then 4 else 3) else (if n ≥ 10 then 2 else 1))

/-- only used for `n ≥ 10^9`; thresholds are `c * 10^9` written out -/
def klen64 (n : Nat) : Nat :=
  if n ≥ 10000000000000 then
    (if n ≥ 10000000000000000 then
      (if n ≥ 1000000000000000000 then
        (if n ≥ 10000000000000000000 then 20 else 19)
       else if n ≥ 100000000000000000 then 18 else 17)
     else (if n ≥ 1000000000000000 then 16 else if n ≥ 100000000000000 then 15 else 14))
  else
    (if n ≥ 100000000000 then (if n ≥ 1000000000000 then 13 else 12)
     else (if n ≥ 10000000000 then 11 else 10))

/-- u8/u16/u32: odd k ⇒ (k-1)/2 pair stages then the bare last digit; even k ⇒ k/2 pair stages -/
def planSmall (k : Nat) : List St := pairs (k / 2) ++ (if k % 2 = 1 then [.last] else [])

/-- u64 for n ≥ 10^9: odd k ⇒ (k-9)/2 pairs, a short stage, 4 pairs; even k ⇒ (k-8)/2 + 4 pairs -/
def plan64 (k : Nat) : List St :=
  if k % 2 = 1 then pairs ((k - 9) / 2) ++ [.short] ++ pairs 4 else pairs ((k - 8) / 2 + 4)

def printU8 (n : Nat) : List Nat := runPlan (planSmall (klen8 n)) n
def printU16 (n : Nat) : List Nat := runPlan (planSmall (klen16 n)) n
def printU32 (n : Nat) : List Nat := runPlan (planSmall (klen32 n)) n
def printU64 (n : Nat) : List Nat :=
  if n < 1000000000 then printU32 n else runPlan (plan64 (klen64 n)) n

/-- signed printing: `'-'` then the magnitude through the unsigned printer.  The C negates in the
signed type; for `MIN` that is the well-known wrap to the same bit pattern, whose unsigned cast is
`|MIN|`, which is what `Int.natAbs` gives. -/
def printI (pu : Nat → List Nat) (i : Int) : List Nat :=
  if i < 0 then 45 :: pu i.natAbs else pu i.natAbs

def printI8 := printI printU8
def printI16 := printI printU16
def printI32 := printI printU32
def printI64 := printI printU64

/-! ## Exact decimal value of a digit text (specification side) -/

def isDigit (c : Nat) : Bool := decide (48 ≤ c) && decide (c ≤ 57)

def decval (l : List Nat) : Nat := l.foldl (fun acc c => acc * 10 + (c - 48)) 0

def AllDigits (l : List Nat) : Prop := ∀ c ∈ l, 48 ≤ c ∧ c ≤ 57

/-! ## Scanning -/

/-- the digit loop of `flatcc_json_parser_integer` / `parse_integer` (range test *before* the
multiplication: the repaired code, see known_findings `int-scan-wrap`).
Returns `(none, _)` on overflow, else `(some value, digits consumed)`. -/
def digitLoop : List Nat → Nat → Nat → Option Nat × Nat
  | [], x, cnt => (some x, cnt)
  | c :: cs, x, cnt =>
    if isDigit c then
      if x > (18446744073709551615 - (c - 48)) / 10 then (none, cnt)
      else digitLoop cs (x * 10 + (c - 48)) (cnt + 1)
    else (some x, cnt)

/-- the loop as it was before the repair: `x0 = x; x = x*10 + d (mod 2^64); if (x0 > x) overflow` -/
def digitLoopOld : List Nat → Nat → Nat → Option Nat × Nat
  | [], x, cnt => (some x, cnt)
  | c :: cs, x, cnt =>
    if isDigit c then
      if x > (x * 10 + (c - 48)) % 18446744073709551616 then (none, cnt)
      else digitLoopOld cs ((x * 10 + (c - 48)) % 18446744073709551616) (cnt + 1)
    else (some x, cnt)

inductive IntRes
  | nomatch                                   -- pointer returned unchanged, no error
  | ok (neg : Bool) (v : Nat) (consumed : Nat)
  | range                                     -- overflow / underflow error
  | floatUnexpected
  deriving Repr, DecidableEq

/-- `flatcc_json_parser_integer` on the bytes `[buf, end)` -/
def jsonIntegerWith (loop : List Nat → Nat → Nat → Option Nat × Nat) (buf : List Nat) : IntRes :=
  match buf with
  | [] => .nomatch
  | c :: cs =>
    let neg := c == 45
    let rest := if neg then cs else buf
    match loop rest 0 0 with
    | (none, _) => .range
    | (some x, cnt) =>
      let consumed := cnt + (if neg then 1 else 0)
      if consumed = 0 then .nomatch
      else match rest.drop cnt with
        | d :: _ => if d = 101 ∨ d = 69 ∨ d = 46 then .floatUnexpected else .ok neg x consumed
        | [] => .ok neg x consumed

def jsonInteger := jsonIntegerWith digitLoop

/-- `coerce_uint8/16/32/64`: `lim` = 2^bits -/
def coerceU (lim : Nat) (neg : Bool) (v : Nat) : Option Nat :=
  if neg then none else if v > lim - 1 then none else some v

/-- `coerce_int8/16/32/64`: `m` = 2^(bits-1).  The store is `(basetype)-(int64_t)value`, i.e. the
two's complement of `value` truncated to the type and read back signed. -/
def coerceS (m : Nat) (neg : Bool) (v : Nat) : Option Int :=
  if neg then
    if v > m then none
    else
      let t := ((18446744073709551616 - v) % 18446744073709551616) % (2 * m)
      some (if t < m then (t : Int) else (t : Int) - (2 * m : Nat))
  else
    if v > m - 1 then none else some (v : Int)

def coerceBool (neg : Bool) (v : Nat) : Option Nat :=
  if neg then none else some (if v = 0 then 0 else 1)

end Flatcc.Num
