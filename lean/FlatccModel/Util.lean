/-! Line-protocol helpers shared by the driver (`Main.lean`). Executable glue only — no theorem depends on it. -/
namespace Flatcc.Util

def hexVal (c : Char) : Nat :=
  if '0' ≤ c ∧ c ≤ '9' then c.toNat - 48
  else if 'a' ≤ c ∧ c ≤ 'f' then c.toNat - 87
  else if 'A' ≤ c ∧ c ≤ 'F' then c.toNat - 55 else 0

/-- "0a1b" → [10, 27]; "-" → [] -/
def hexToBytes (s : String) : List Nat :=
  let rec go : List Char → List Nat → List Nat
    | a :: b :: r, acc => go r ((hexVal a * 16 + hexVal b) :: acc)
    | _, acc => acc.reverse
  if s == "-" then [] else go s.toList []

def hexDigit (n : Nat) : Char := if n < 10 then Char.ofNat (48 + n) else Char.ofNat (87 + n)

def bytesToHex (l : List Nat) : String :=
  if l.isEmpty then "-" else String.ofList (l.flatMap (fun b => [hexDigit (b / 16 % 16), hexDigit (b % 16)]))

def bytesToStr (l : List Nat) : String := String.ofList (l.map Char.ofNat)

def toInt? (s : String) : Option Int := s.toInt?

def natArg (s : String) : Nat := s.toNat?.getD 0
def intArg (s : String) : Int := s.toInt?.getD 0

end Flatcc.Util
