import FlatccModel.Generated.Consts
/-!
# Default emitter (`src/runtime/emitter.c`): page ring as a content model

The ring of fixed-size pages is modelled by what each page *holds*: `fpages` are the pages in front
of the page the stream started on (outermost first; all but the first are full), `mf ++ mb` is the
content of the start page (front part grows down from the middle, back part grows up), `bpages`
the pages behind it (all but the last are full).  Chunking (`k = min(size, left)`), the fast path,
page allocation / reuse of spare ring pages and `reset` follow the C code; byte positions inside a
page are not represented (only the C copy-out can observe them, and that is what the theorems are about).
-/
namespace Flatcc.Emitter

structure Em where
  page : Nat                      -- FLATCC_EMITTER_PAGE_SIZE
  started : Bool                  -- E->front != 0
  fpages : List (List Nat)
  mf : List Nat
  mb : List Nat
  bpages : List (List Nat)
  used : Nat
  spare : Nat                     -- allocated ring pages currently holding nothing
  capacity : Nat
  usedAverage : Nat
  deriving Repr

def Em.init (page : Nat) : Em :=
  { page := page, started := false, fpages := [], mf := [], mb := [], bpages := [], used := 0, spare := 0, capacity := 0, usedAverage := 0 }

/-- the stream the emitter holds, in address order -/
def Em.content (s : Em) : List Nat := s.fpages.flatten ++ s.mf ++ s.mb ++ s.bpages.flatten

/-- `E->front_left` -/
def Em.frontLeft (s : Em) : Nat :=
  if !s.started then 0 else
  match s.fpages with
  | [] => s.page / 2 - s.mf.length
  | p :: _ => s.page - p.length

/-- `E->back_left` -/
def Em.backLeft (s : Em) : Nat :=
  if !s.started then 0 else
  match s.bpages.getLast? with
  | none => (s.page - s.page / 2) - s.mb.length
  | some p => s.page - p.length

/-- take a page for the front (or the very first page): reuse a spare ring page or allocate -/
def advanceFront (s : Em) : Em :=
  if !s.started then { s with started := true, capacity := s.capacity + s.page }
  else if s.spare > 0 then { s with fpages := [] :: s.fpages, spare := s.spare - 1 }
  else { s with fpages := [] :: s.fpages, capacity := s.capacity + s.page }

def advanceBack (s : Em) : Em :=
  if !s.started then { s with started := true, capacity := s.capacity + s.page }
  else if s.spare > 0 then { s with bpages := s.bpages ++ [[]], spare := s.spare - 1 }
  else { s with bpages := s.bpages ++ [[]], capacity := s.capacity + s.page }

/-- prepend `d` to the outermost front page (caller guarantees it fits) -/
def pushFront (s : Em) (d : List Nat) : Em :=
  match s.fpages with
  | [] => { s with mf := d ++ s.mf }
  | p :: r => { s with fpages := (d ++ p) :: r }

def pushBack (s : Em) (d : List Nat) : Em :=
  match s.bpages.getLast? with
  | none => { s with mb := s.mb ++ d }
  | some p => { s with bpages := s.bpages.dropLast ++ [p ++ d] }

/-- `copy_front(E, data, size)`: chunks are taken from the END of `data` -/
def copyFront : Nat → Em → List Nat → Em
  | 0, s, _ => s
  | fuel+1, s, d =>
    if d.isEmpty then s
    else if s.frontLeft = 0 then copyFront fuel (advanceFront s) d
    else
      let k := min d.length s.frontLeft
      copyFront fuel (pushFront s (d.drop (d.length - k))) (d.take (d.length - k))

/-- `copy_back(E, data, size)` -/
def copyBack : Nat → Em → List Nat → Em
  | 0, s, _ => s
  | fuel+1, s, d =>
    if d.isEmpty then s
    else if s.backLeft = 0 then copyBack fuel (advanceBack s) d
    else
      let k := min d.length s.backLeft
      copyBack fuel (pushBack s (d.take k)) (d.drop k)

def fuelFor (_s : Em) (n : Nat) : Nat := 2 * n + 2

/-- `flatcc_emitter(E, iov, iov_count, offset, len)` with `offset < 0`: the pieces in address order -/
def emitFront (s : Em) (iov : List (List Nat)) : Em :=
  let len := (iov.map List.length).sum
  let s := { s with used := s.used + len }
  if len ≤ s.frontLeft then pushFront s iov.flatten
  else iov.reverse.foldl (fun s piece => copyFront (fuelFor s piece.length) s piece) s

/-- … with `offset ≥ 0` -/
def emitBack (s : Em) (iov : List (List Nat)) : Em :=
  let len := (iov.map List.length).sum
  let s := { s with used := s.used + len }
  if len ≤ s.backLeft then pushBack s iov.flatten
  else iov.foldl (fun s piece => copyBack (fuelFor s piece.length) s piece) s

/-- `flatcc_emitter_get_direct_buffer`: available iff front and back are the same page -/
def directBuffer (s : Em) : Option (List Nat) :=
  if s.started && s.fpages.isEmpty && s.bpages.isEmpty then some (s.mf ++ s.mb) else none

/-- `flatcc_emitter_copy_buffer(E, buf, size)`: `none` = returns NULL -/
def copyBuffer (s : Em) (size : Nat) : Option (List Nat) :=
  if size < s.used then none else if !s.started then none else some s.content

/-- `flatcc_emitter_reset`: keeps pages according to the adaptive average -/
def freeLoop (page : Nat) (avg : Nat) : Nat → Nat → Nat → Nat × Nat
  | 0, spare, cap => (spare, cap)
  | fuel+1, spare, cap => if avg * 2 < cap ∧ spare > 0 then freeLoop page avg fuel (spare - 1) (cap - page) else (spare, cap)

def reset (s : Em) : Em :=
  if !s.started then s else
  let total := s.spare + s.fpages.length + s.bpages.length
  let avg0 := if s.usedAverage = 0 then s.used else s.usedAverage
  let avg := avg0 * 3 / 4 + s.used / 4
  let (spare, cap) := freeLoop s.page avg total total s.capacity
  { s with fpages := [], mf := [], mb := [], bpages := [], used := 0, spare := spare, capacity := cap, usedAverage := avg }

end Flatcc.Emitter
