import FlatccModel.Builder
/-!
# Builder: alignment of every created object, the table frame invariant, and what a reader finds

Helper lemmas for `Props/C02.lean`, `Props/C03.lean`, `Props/C15.lean`.
-/
namespace Flatcc.Builder

theorem sub_emod_self (x a : Int) : (x - x % a) % a = 0 := by
  have : x - x % a = a * (x / a) := by have := Int.emod_def x a; omega
  rw [this]; exact Int.mul_emod_right _ _

theorem frontPad_spec (s : BS) (size align : Nat) (h : 0 < align) :
    (s.emitStart - size - frontPad s size align) % (align : Int) = 0 := by
  unfold frontPad
  have h0 : (0 : Int) ≤ (s.emitStart - size) % (align : Int) := Int.emod_nonneg _ (by omega)
  rw [Int.toNat_of_nonneg h0]
  exact sub_emod_self _ _

theorem frontPad_lt (s : BS) (size align : Nat) (h : 0 < align) : frontPad s size align < align := by
  unfold frontPad
  have h1 : (s.emitStart - size) % (align : Int) < align := Int.emod_lt_of_pos _ (by omega)
  have h0 : (0 : Int) ≤ (s.emitStart - size) % (align : Int) := Int.emod_nonneg _ (by omega)
  omega

theorem emitFront_ref (s : BS) (b : List Nat) : (emitFront s b).2 = s.emitStart - b.length := by
  simp [emitFront, BS.emitStart]; omega

theorem emitFront_start (s : BS) (b : List Nat) : (emitFront s b).1.emitStart = s.emitStart - b.length := by
  simp [emitFront, BS.emitStart]; omega

theorem emitFront_front (s : BS) (b : List Nat) : (emitFront s b).1.front = b ++ s.front := rfl
theorem emitFront_back (s : BS) (b : List Nat) : (emitFront s b).1.back = s.back := rfl

theorem setMinAlign_start (s : BS) (a : Nat) : (setMinAlign s a).emitStart = s.emitStart := by
  unfold setMinAlign; split <;> rfl

theorem setMinAlign_frontPad (s : BS) (a size al : Nat) : frontPad (setMinAlign s a) size al = frontPad s size al := by
  unfold frontPad; rw [setMinAlign_start]

theorem setMinAlign_ge (s : BS) (a : Nat) : a ≤ (setMinAlign s a).minAlign ∧ s.minAlign ≤ (setMinAlign s a).minAlign := by
  unfold setMinAlign; split <;> simp <;> omega

theorem le32_length (x : Nat) : (le32 x).length = 4 := rfl
theorem le16_length (x : Nat) : (le16 x).length = 2 := rfl
theorem zeros_length (n : Nat) : (zeros n).length = n := by simp [zeros]

/-! ## alignment of created objects -/

/-- a string (its length field) starts at a 4-aligned address -/
theorem createString_aligned (s : BS) (d : List Nat) : (createString s d).2 % 4 = 0 := by
  unfold createString
  rw [emitFront_ref]
  have := frontPad_spec s (d.length + 1) 4 (by omega)
  simp only [List.length_append, le32_length, zeros_length]
  push_cast at this ⊢
  omega

/-- the byte after the string's content is inside the emitted object and is zero -/
theorem createString_terminated (s : BS) (d : List Nat) :
    ((createString s d).1.front.drop (4 + d.length)).head? = some 0 := by
  unfold createString
  simp only [emitFront_front, List.append_assoc]
  rw [List.drop_append, List.drop_eq_nil_of_le (by simp [le32_length]), List.nil_append]
  simp only [le32_length, Nat.add_sub_cancel_left]
  rw [List.drop_append, List.drop_eq_nil_of_le (by simp), List.nil_append]
  simp [zeros, List.replicate_succ']
  generalize frontPad s (d.length + 1) 4 = n
  cases n <;> simp [List.replicate_succ]

/-- the first element of a vector is aligned to max(align, 4); hence the length field in front of it is 4-aligned -/
theorem createVector_aligned (s : BS) (d : List Nat) (count align : Nat) :
    ((createVector s d count align).2 + 4) % ((max align 4 : Nat) : Int) = 0 := by
  unfold createVector
  simp only []
  rw [emitFront_ref, setMinAlign_frontPad, setMinAlign_start]
  have := frontPad_spec s d.length (max align 4) (by omega)
  simp only [List.length_append, le32_length, zeros_length]
  have e : s.emitStart - ↑(4 + d.length + frontPad s d.length (max align 4)) + 4
      = s.emitStart - ↑d.length - ↑(frontPad s d.length (max align 4)) := by push_cast; omega
  rw [e]; exact this

theorem createStruct_aligned (s : BS) (d : List Nat) (align : Nat) (h : 0 < align) :
    (createStruct s d align).2 % (align : Int) = 0 := by
  unfold createStruct
  simp only []
  rw [emitFront_ref, setMinAlign_frontPad, setMinAlign_start]
  have := frontPad_spec s d.length align h
  simp only [List.length_append, zeros_length]
  have e : s.emitStart - ↑(d.length + frontPad s d.length align) = s.emitStart - ↑d.length - ↑(frontPad s d.length align) := by push_cast; omega
  rw [e]; exact this

/-- a vtable emitted in front starts at an even address -/
theorem createVtable_front_aligned (s : BS) (vt : List Nat) (h : ¬ (s.nestId = 0 ∧ s.clustering)) :
    ((createVtable s vt).2 - 1) % 2 = 0 := by
  unfold createVtable
  rw [if_neg h]
  simp only []
  rw [emitFront_ref]
  have := frontPad_spec s vt.length 2 (by omega)
  simp only [List.length_append, zeros_length]
  push_cast at this ⊢
  omega

/-! ## the table frame -/

def slice (l : List Nat) (i n : Nat) : List Nat := (l.drop i).take n

theorem alignUp_ge (x a : Nat) (h : 0 < a) : x ≤ alignUp x a := by
  unfold alignUp
  have h1 := Nat.div_add_mod (x + a - 1) a
  have h2 := Nat.mod_lt (x + a - 1) h
  rw [Nat.mul_comm] at h1
  omega

theorem alignUp_mod (x a : Nat) : alignUp x a % a = 0 := by
  unfold alignUp; exact Nat.mul_mod_left _ _

theorem slice_append_left (a b : List Nat) (i n : Nat) (h : i + n ≤ a.length) : slice (a ++ b) i n = slice a i n := by
  unfold slice
  rw [List.drop_append_of_le_length (by omega), List.take_append_of_le_length (by simp; omega)]

theorem slice_append_right (a b : List Nat) : slice (a ++ b) a.length b.length = b := by
  unfold slice; simp

/-- what `layoutStep` guarantees about one added field, stated on any later layout `t`: the vtable entry `e`, the
position and content of the field, and that no (other) offset field overlaps it -/
def FieldOK (t : TableLayout) (id : Nat) (v : FieldVal) : Prop :=
  ∃ e, (id, e) ∈ t.vs ∧ 4 ≤ e ∧
    match v with
    | .inl size align bytes =>
        (e - 4) % align = 0 ∧ e - 4 + size ≤ t.data.length ∧
        slice t.data (e - 4) size = (bytes ++ zeros (size - bytes.length)).take size ∧
        (∀ o ∈ t.offsets, o.1 + 4 ≤ e - 4 ∨ e - 4 + size ≤ o.1)
    | .off r => (e - 4) % 4 = 0 ∧ e ≤ t.data.length ∧ (e - 4, r) ∈ t.offsets ∧
        (∀ o ∈ t.offsets, o = (e - 4, r) ∨ o.1 + 4 ≤ e - 4 ∨ e ≤ o.1)

def OffsBound (t : TableLayout) : Prop := ∀ o ∈ t.offsets, o.1 + 4 ≤ t.data.length

theorem layoutStep_data_prefix (t : TableLayout) (f : Nat × FieldVal) : ∃ x, (layoutStep t f).data = t.data ++ x := by
  unfold layoutStep; split
  · exact ⟨_, List.append_assoc _ _ _⟩
  · exact ⟨_, List.append_assoc _ _ _⟩

theorem layoutStep_vs (t : TableLayout) (f : Nat × FieldVal) : ∃ e, (layoutStep t f).vs = t.vs ++ [(f.1, e)] := by
  unfold layoutStep; split <;> exact ⟨_, rfl⟩

/-- the offsets after a step: the old ones, plus possibly one at or beyond the old end of the data -/
theorem layoutStep_offsets (t : TableLayout) (f : Nat × FieldVal) :
    ∀ o ∈ (layoutStep t f).offsets, o ∈ t.offsets ∨ (t.data.length ≤ o.1 ∧ o.1 + 4 ≤ (layoutStep t f).data.length) := by
  unfold layoutStep; split
  · intro o ho; exact Or.inl ho
  · intro o ho
    simp only [List.mem_append, List.mem_singleton] at ho
    rcases ho with h | h
    · exact Or.inl h
    · subst h
      have := alignUp_ge t.data.length 4 (by omega)
      refine Or.inr ⟨this, ?_⟩
      simp only [List.length_append, zeros_length, le32_length]; omega

theorem layoutStep_offsets_sub (t : TableLayout) (f : Nat × FieldVal) : ∀ x ∈ t.offsets, x ∈ (layoutStep t f).offsets := by
  unfold layoutStep; split <;> simp_all

theorem OffsBound_step (t : TableLayout) (f : Nat × FieldVal) (h : OffsBound t) : OffsBound (layoutStep t f) := by
  intro o ho
  obtain ⟨x, hx⟩ := layoutStep_data_prefix t f
  rcases layoutStep_offsets t f o ho with h1 | h1
  · have := h o h1; rw [hx]; simp; omega
  · exact h1.2

theorem FieldOK_step (t : TableLayout) (f : Nat × FieldVal) (id : Nat) (v : FieldVal) (h : FieldOK t id v) :
    FieldOK (layoutStep t f) id v := by
  obtain ⟨e, hm, h4, hv⟩ := h
  obtain ⟨x, hx⟩ := layoutStep_data_prefix t f
  obtain ⟨e', he'⟩ := layoutStep_vs t f
  refine ⟨e, by rw [he']; simp [hm], h4, ?_⟩
  cases v with
  | inl size align bytes =>
    obtain ⟨ha, hb, hc, hd⟩ := hv
    refine ⟨ha, by rw [hx]; simp; omega, ?_, ?_⟩
    · rw [hx, slice_append_left _ _ _ _ hb]; exact hc
    · intro o ho
      rcases layoutStep_offsets t f o ho with h1 | h1
      · exact hd o h1
      · right; omega
  | off r =>
    obtain ⟨ha, hb, hc, hd⟩ := hv
    refine ⟨ha, by rw [hx]; simp; omega, layoutStep_offsets_sub t f _ hc, ?_⟩
    intro o ho
    rcases layoutStep_offsets t f o ho with h1 | h1
    · exact hd o h1
    · right; right; omega

theorem FieldOK_new (t : TableLayout) (f : Nat × FieldVal) (hob : OffsBound t)
    (hpos : ∀ size align bytes, f.2 = .inl size align bytes → 0 < align) : FieldOK (layoutStep t f) f.1 f.2 := by
  obtain ⟨id, v⟩ := f
  cases v with
  | inl size align bytes =>
    have h : 0 < align := hpos size align bytes rfl
    have hge := alignUp_ge t.data.length align h
    refine ⟨alignUp t.data.length align + 4, by simp [layoutStep], by omega, ?_⟩
    simp only [Nat.add_sub_cancel]
    have hs : ((bytes ++ zeros (size - bytes.length)).take size).length = size := by
      simp [zeros_length]; omega
    have hl : (t.data ++ zeros (alignUp t.data.length align - t.data.length)).length = alignUp t.data.length align := by
      simp [zeros_length]; omega
    refine ⟨alignUp_mod _ _, ?_, ?_, ?_⟩
    · simp only [layoutStep]; rw [List.length_append, hl, hs]; omega
    · simp only [layoutStep]
      have := slice_append_right (t.data ++ zeros (alignUp t.data.length align - t.data.length)) ((bytes ++ zeros (size - bytes.length)).take size)
      rw [hl, hs] at this; exact this
    · intro o ho
      have : o ∈ t.offsets := by simpa [layoutStep] using ho
      have := hob o this
      left; omega
  | off r =>
    have hge := alignUp_ge t.data.length 4 (by omega)
    refine ⟨alignUp t.data.length 4 + 4, by simp [layoutStep], by omega, ?_⟩
    simp only [Nat.add_sub_cancel]
    refine ⟨alignUp_mod _ _, ?_, by simp [layoutStep], ?_⟩
    · simp only [layoutStep, List.length_append, zeros_length, le32_length]; omega
    · intro o ho
      simp only [layoutStep, List.mem_append, List.mem_singleton] at ho
      rcases ho with h | h
      · have := hob o h; right; left; omega
      · exact Or.inl h

/-- every field added to the table frame is where the vtable says, with the content given, whatever is added later -/
theorem layout_fields_aux (fs : List (Nat × FieldVal)) (t0 : TableLayout) (pre : List (Nat × FieldVal))
    (hpos : ∀ f ∈ fs, ∀ size align bytes, f.2 = .inl size align bytes → 0 < align)
    (hob : OffsBound t0) (h0 : ∀ f ∈ pre, FieldOK t0 f.1 f.2) :
    OffsBound (fs.foldl layoutStep t0) ∧ ∀ f ∈ pre ++ fs, FieldOK (fs.foldl layoutStep t0) f.1 f.2 := by
  induction fs generalizing t0 pre with
  | nil => exact ⟨hob, by simpa using h0⟩
  | cons g gs ih =>
    have := ih (layoutStep t0 g) (pre ++ [g]) (fun f hf => hpos f (by simp [hf])) (OffsBound_step _ _ hob)
      (by
        intro f hf
        rcases List.mem_append.mp hf with h | h
        · exact FieldOK_step _ _ _ _ (h0 f h)
        · simp at h; subst h; exact FieldOK_new _ _ hob (hpos f (by simp)))
    refine ⟨this.1, fun f hf => ?_⟩
    have := this.2 f (by simpa using hf)
    simpa using this

theorem layout_fields (fs : List (Nat × FieldVal))
    (hpos : ∀ f ∈ fs, ∀ size align bytes, f.2 = .inl size align bytes → 0 < align) :
    OffsBound (layoutTable fs) ∧ ∀ f ∈ fs, FieldOK (layoutTable fs) f.1 f.2 := by
  have := layout_fields_aux fs layoutInit [] hpos (by intro o ho; simp [layoutInit] at ho) (by simp)
  simpa [layoutTable] using this

/-! ## offset patching -/

theorem patchAt_length (d : List Nat) (p : Nat) (v : List Nat) (h : p + v.length ≤ d.length) : (patchAt d p v).length = d.length := by
  simp [patchAt]; omega

theorem patchAt_self (d : List Nat) (p : Nat) (v : List Nat) (h : p + v.length ≤ d.length) : slice (patchAt d p v) p v.length = v := by
  unfold patchAt slice
  have : (d.take p).length = p := by simp; omega
  rw [List.append_assoc, List.drop_append_of_le_length (by omega), List.drop_eq_nil_of_le (by omega)]
  simp

theorem patchAt_before (d : List Nat) (p : Nat) (v : List Nat) (q n : Nat) (h1 : q + n ≤ p) (h : p + v.length ≤ d.length) :
    slice (patchAt d p v) q n = slice d q n := by
  unfold patchAt
  rw [List.append_assoc, slice_append_left _ _ _ _ (by simp; omega)]
  unfold slice
  rw [List.drop_take, List.take_take]
  congr 1; omega

theorem patchAt_after (d : List Nat) (p : Nat) (v : List Nat) (q n : Nat) (h1 : p + v.length ≤ q) (h : p + v.length ≤ d.length) :
    slice (patchAt d p v) q n = slice d q n := by
  unfold patchAt slice
  have hl : (d.take p ++ v).length = p + v.length := by simp; omega
  rw [List.drop_append, List.drop_eq_nil_of_le (by omega), List.nil_append, hl, List.drop_drop]
  congr 2; omega
theorem patchVal_length (b : Int) (p : Nat) (r : Int) : (patchVal b p r).length = 4 := rfl

theorem patchAll_length (base : Int) (d : List Nat) (L : List (Nat × Int)) (hb : ∀ o ∈ L, o.1 + 4 ≤ d.length) :
    (patchAll base d L).length = d.length := by
  induction L generalizing d with
  | nil => rfl
  | cons x xs ih =>
    have hx := hb x (by simp)
    have hl := patchAt_length d x.1 (patchVal base x.1 x.2) (by rw [patchVal_length]; exact hx)
    have := ih (patchAt d x.1 (patchVal base x.1 x.2)) (fun o ho => by rw [hl]; exact hb o (by simp [ho]))
    simp only [patchAll, List.foldl_cons] at this ⊢
    rw [this, hl]

/-- a region no patch touches keeps its content -/
theorem patchAll_untouched (base : Int) (d : List Nat) (L : List (Nat × Int)) (q n : Nat)
    (hb : ∀ o ∈ L, o.1 + 4 ≤ d.length) (hd : ∀ o ∈ L, o.1 + 4 ≤ q ∨ q + n ≤ o.1) :
    slice (patchAll base d L) q n = slice d q n := by
  induction L generalizing d with
  | nil => rfl
  | cons x xs ih =>
    have hx := hb x (by simp)
    have hl := patchAt_length d x.1 (patchVal base x.1 x.2) (by rw [patchVal_length]; exact hx)
    have := ih (patchAt d x.1 (patchVal base x.1 x.2)) (fun o ho => by rw [hl]; exact hb o (by simp [ho])) (fun o ho => hd o (by simp [ho]))
    simp only [patchAll, List.foldl_cons] at this ⊢
    rw [this]
    rcases hd x (by simp) with h | h
    · exact patchAt_after _ _ _ _ _ (by rw [patchVal_length]; exact h) (by rw [patchVal_length]; exact hx)
    · exact patchAt_before _ _ _ _ _ h (by rw [patchVal_length]; exact hx)

/-- a patched position holds its value if every other patch is the same patch or elsewhere -/
theorem patchAll_keeps (base : Int) (d : List Nat) (L : List (Nat × Int)) (p : Nat) (r : Int)
    (hb : ∀ o ∈ L, o.1 + 4 ≤ d.length) (hd : ∀ o ∈ L, o = (p, r) ∨ o.1 + 4 ≤ p ∨ p + 4 ≤ o.1)
    (hp : p + 4 ≤ d.length) (h0 : slice d p 4 = patchVal base p r) :
    slice (patchAll base d L) p 4 = patchVal base p r := by
  induction L generalizing d with
  | nil => exact h0
  | cons x xs ih =>
    have hx := hb x (by simp)
    have hl := patchAt_length d x.1 (patchVal base x.1 x.2) (by rw [patchVal_length]; exact hx)
    have hstep : slice (patchAt d x.1 (patchVal base x.1 x.2)) p 4 = patchVal base p r := by
      rcases hd x (by simp) with h | h | h
      · subst h; exact patchAt_self _ _ _ (by rw [patchVal_length]; exact hp)
      · rw [patchAt_after _ _ _ _ _ (by rw [patchVal_length]; exact h) (by rw [patchVal_length]; exact hx)]; exact h0
      · rw [patchAt_before _ _ _ _ _ h (by rw [patchVal_length]; exact hx)]; exact h0
    have := ih (patchAt d x.1 (patchVal base x.1 x.2)) (fun o ho => by rw [hl]; exact hb o (by simp [ho])) (fun o ho => hd o (by simp [ho]))
      (by rw [hl]; exact hp) hstep
    simpa only [patchAll, List.foldl_cons] using this

theorem patchAll_patched (base : Int) (d : List Nat) (L : List (Nat × Int)) (p : Nat) (r : Int)
    (hb : ∀ o ∈ L, o.1 + 4 ≤ d.length) (hd : ∀ o ∈ L, o = (p, r) ∨ o.1 + 4 ≤ p ∨ p + 4 ≤ o.1)
    (hm : (p, r) ∈ L) : slice (patchAll base d L) p 4 = patchVal base p r := by
  induction L generalizing d with
  | nil => simp at hm
  | cons x xs ih =>
    have hx := hb x (by simp)
    have hl := patchAt_length d x.1 (patchVal base x.1 x.2) (by rw [patchVal_length]; exact hx)
    have hb' : ∀ o ∈ xs, o.1 + 4 ≤ (patchAt d x.1 (patchVal base x.1 x.2)).length := fun o ho => by rw [hl]; exact hb o (by simp [ho])
    have hd' : ∀ o ∈ xs, o = (p, r) ∨ o.1 + 4 ≤ p ∨ p + 4 ≤ o.1 := fun o ho => hd o (by simp [ho])
    by_cases hxe : x = (p, r)
    · subst hxe
      have := patchAll_keeps base _ xs p r hb' hd' (by rw [hl]; exact hx) (patchAt_self _ _ _ (by rw [patchVal_length]; exact hx))
      simpa only [patchAll, List.foldl_cons] using this
    · have hm' : (p, r) ∈ xs := by
        rcases List.mem_cons.mp hm with h | h
        · exact absurd h.symm hxe
        · exact h
      have := ih _ hb' hd' hm'
      simpa only [patchAll, List.foldl_cons] using this
/-! ## vtable content and lookup -/

theorem flatten_chunk {α} (L : List (List α)) (k : Nat) (h : ∀ x ∈ L, x.length = k) (i : Nat) (hi : i < L.length) :
    (L.flatten.drop (k * i)).take k = L[i] := by
  induction L generalizing i with
  | nil => simp at hi
  | cons x xs ih =>
    have hx : x.length = k := h x (by simp)
    cases i with
    | zero => simp [hx]
    | succ j =>
      have e : k * (j + 1) = x.length + k * j := by rw [hx, Nat.mul_succ]; omega
      simp only [List.flatten_cons, e, List.getElem_cons_succ]
      rw [List.drop_append]
      have : (List.drop (x.length + k * j) x) = [] := by apply List.drop_eq_nil_of_le; omega
      rw [this]
      simp only [Nat.add_sub_cancel_left, List.nil_append]
      exact ih (fun y hy => h y (by simp [hy])) j (by simpa using hi)

/-- little-endian 16-bit read at byte position `i` (`__flatbuffers_voffset_read_from_pe`) -/
def rd16 (l : List Nat) (i : Nat) : Nat := match slice l i 2 with | [a, b] => a + 256 * b | _ => 0
def rd32 (l : List Nat) (i : Nat) : Nat :=
  match slice l i 4 with | [a, b, c, d] => a + 256 * b + 65536 * c + 16777216 * d | _ => 0

theorem rd16_of_slice (l : List Nat) (i x : Nat) (h : slice l i 2 = le16 x) (hx : x < 65536) : rd16 l i = x := by
  unfold rd16; rw [h]; simp only [le16]; omega
theorem rd32_of_slice (l : List Nat) (i x : Nat) (h : slice l i 4 = le32 x) (hx : x < 4294967296) : rd32 l i = x := by
  unfold rd32; rw [h]; simp only [le32]; omega

/-- `__flatbuffers_read_vt`: the vtable entry of field `id`, 0 when the vtable is too short -/
def vtLookup (vt : List Nat) (id : Nat) : Nat := if 4 + 2 * id + 2 ≤ rd16 vt 0 then rd16 vt (4 + 2 * id) else 0

def vtEntryOf (t : TableLayout) (id : Nat) : Nat := match t.vs.find? (fun e => e.1 == id) with | some e => e.2 | none => 0

theorem vtableBytes_eq (t : TableLayout) : vtableBytes t = le16 (2 * (t.idEnd + 2)) ++ le16 (t.data.length + 4) ++
    ((List.range t.idEnd).map (fun id => le16 (vtEntryOf t id))).flatten := rfl

theorem vtableBytes_size (t : TableLayout) : slice (vtableBytes t) 0 2 = le16 (2 * (t.idEnd + 2)) := by
  rw [vtableBytes_eq]; simp [slice, le16]

theorem vtableBytes_entry (t : TableLayout) (id : Nat) (h : id < t.idEnd) :
    slice (vtableBytes t) (4 + 2 * id) 2 = le16 (vtEntryOf t id) := by
  rw [vtableBytes_eq]
  unfold slice
  rw [List.drop_append, List.drop_eq_nil_of_le (by simp [le16]), List.nil_append]
  have : 4 + 2 * id - (le16 (2 * (t.idEnd + 2)) ++ le16 (t.data.length + 4)).length = 2 * id := by simp [le16]
  rw [this]
  have := flatten_chunk ((List.range t.idEnd).map (fun id => le16 (vtEntryOf t id))) 2 (by simp [le16]) id (by simpa using h)
  rw [this]; simp

theorem vtLookup_vtableBytes (t : TableLayout) (id : Nat) (h : id < t.idEnd) (hs : 2 * (t.idEnd + 2) < 65536) (he : vtEntryOf t id < 65536) :
    vtLookup (vtableBytes t) id = vtEntryOf t id := by
  unfold vtLookup
  rw [rd16_of_slice _ _ _ (vtableBytes_size t) hs, rd16_of_slice _ _ _ (vtableBytes_entry t id h) he]
  rw [if_pos (by omega)]

theorem vtLookup_beyond (t : TableLayout) (id : Nat) (h : t.idEnd ≤ id) (hs : 2 * (t.idEnd + 2) < 65536) :
    vtLookup (vtableBytes t) id = 0 := by
  unfold vtLookup
  rw [rd16_of_slice _ _ _ (vtableBytes_size t) hs, if_neg (by omega)]

theorem find_of_nodup (vs : List (Nat × Nat)) (id e : Nat) (hm : (id, e) ∈ vs) (hn : (vs.map Prod.fst).Nodup) :
    vs.find? (fun x => x.1 == id) = some (id, e) := by
  induction vs with
  | nil => simp at hm
  | cons x xs ih =>
    simp only [List.map_cons, List.nodup_cons] at hn
    rcases List.mem_cons.mp hm with h | h
    · subst h; simp
    · have hne : x.1 ≠ id := by
        intro hx; apply hn.1; rw [hx]; exact List.mem_map.mpr ⟨(id, e), h, rfl⟩
      rw [List.find?_cons_of_neg (by simpa using hne)]
      exact ih h hn.2

theorem layoutStep_ids (t : TableLayout) (f : Nat × FieldVal) :
    (layoutStep t f).vs.map Prod.fst = t.vs.map Prod.fst ++ [f.1] ∧ (layoutStep t f).idEnd = max t.idEnd (f.1 + 1) := by
  unfold layoutStep; split <;> simp

theorem layout_ids_aux (fs : List (Nat × FieldVal)) (t0 : TableLayout) :
    (fs.foldl layoutStep t0).vs.map Prod.fst = t0.vs.map Prod.fst ++ fs.map Prod.fst ∧
    t0.idEnd ≤ (fs.foldl layoutStep t0).idEnd ∧ ∀ f ∈ fs, f.1 < (fs.foldl layoutStep t0).idEnd := by
  induction fs generalizing t0 with
  | nil => simp
  | cons g gs ih =>
    obtain ⟨h1, h2, h3⟩ := ih (layoutStep t0 g)
    obtain ⟨s1, s2⟩ := layoutStep_ids t0 g
    refine ⟨by simp [h1, s1], by simp only [List.foldl_cons]; omega, ?_⟩
    intro f hf
    rcases List.mem_cons.mp hf with h | h
    · subst h; simp only [List.foldl_cons]; omega
    · exact h3 f h

theorem layout_ids (fs : List (Nat × FieldVal)) :
    (layoutTable fs).vs.map Prod.fst = fs.map Prod.fst ∧ ∀ f ∈ fs, f.1 < (layoutTable fs).idEnd := by
  have := layout_ids_aux fs layoutInit
  exact ⟨by simpa [layoutTable, layoutInit] using this.1, this.2.2⟩

/-- an id that was never added has entry 0 -/
theorem vtEntryOf_absent (t : TableLayout) (id : Nat) (h : id ∉ t.vs.map Prod.fst) : vtEntryOf t id = 0 := by
  unfold vtEntryOf
  have : t.vs.find? (fun e => e.1 == id) = none := by
    rw [List.find?_eq_none]; intro x hx hc
    exact h (List.mem_map.mpr ⟨x, hx, by simpa using hc⟩)
  rw [this]
/-! ## what `create_table` emits -/

/-- the address `create_table` returns -/
def tableBase (s : BS) (t : TableLayout) : Int :=
  s.emitStart - (frontPad s t.data.length (max t.align 4) + t.data.length + 4 : Nat)

/-- the bytes `create_table` emits (vtable offset field, patched data, padding), in address order -/
def tableImage (s : BS) (t : TableLayout) (vtRef : Int) : List Nat :=
  le32 (u32 (tableBase s t - (vtRef - 1))) ++ patchAll (tableBase s t) t.data t.offsets ++
    zeros (frontPad s t.data.length (max t.align 4))

theorem createTable_eq (s : BS) (t : TableLayout) (vtRef : Int) :
    createTable s t vtRef = emitFront (setMinAlign s (max t.align 4)) (tableImage s t vtRef) := by
  unfold createTable tableImage tableBase
  simp only [setMinAlign_frontPad, setMinAlign_start]

theorem tableImage_length (s : BS) (t : TableLayout) (vtRef : Int) (hob : OffsBound t) :
    (tableImage s t vtRef).length = 4 + t.data.length + frontPad s t.data.length (max t.align 4) := by
  unfold tableImage
  simp only [List.length_append, le32_length, zeros_length, patchAll_length _ _ _ hob]

theorem createTable_ref (s : BS) (t : TableLayout) (vtRef : Int) (hob : OffsBound t) :
    (createTable s t vtRef).2 = tableBase s t := by
  rw [createTable_eq, emitFront_ref, setMinAlign_start, tableImage_length _ _ _ hob]
  unfold tableBase; push_cast; omega

/-- the first field position of a table (table start + 4) is aligned to the table's alignment -/
theorem tableBase_aligned (s : BS) (t : TableLayout) : (tableBase s t + 4) % ((max t.align 4 : Nat) : Int) = 0 := by
  have := frontPad_spec s t.data.length (max t.align 4) (by omega)
  have e : tableBase s t + 4 = s.emitStart - ↑t.data.length - ↑(frontPad s t.data.length (max t.align 4)) := by
    unfold tableBase; push_cast; omega
  rw [e]; exact this

/-- reading inside the data part of the emitted table -/
theorem tableImage_slice (s : BS) (t : TableLayout) (vtRef : Int) (e n : Nat) (h4 : 4 ≤ e) (hob : OffsBound t)
    (hn : e - 4 + n ≤ t.data.length) :
    slice (tableImage s t vtRef) e n = slice (patchAll (tableBase s t) t.data t.offsets) (e - 4) n := by
  unfold tableImage
  rw [List.append_assoc]
  unfold slice
  rw [List.drop_append, List.drop_eq_nil_of_le (by simp [le32_length]; omega), List.nil_append, le32_length]
  rw [List.drop_append_of_le_length (by rw [patchAll_length _ _ _ hob]; omega)]
  rw [List.take_append_of_le_length (by simp [patchAll_length _ _ _ hob]; omega)]

/-! ## table alignment -/

theorem layoutStep_align (t : TableLayout) (f : Nat × FieldVal) :
    (layoutStep t f).align = match f.2 with | .inl _ a _ => max t.align a | .off _ => t.align := by
  obtain ⟨id, v⟩ := f
  cases v <;> rfl

theorem max_pow2 (a b : Nat) : max (2 ^ a) (2 ^ b) = 2 ^ max a b := by
  rcases Nat.le_total a b with h | h
  · rw [Nat.max_eq_right h, Nat.max_eq_right (Nat.pow_le_pow_right (by omega) h)]
  · rw [Nat.max_eq_left h, Nat.max_eq_left (Nat.pow_le_pow_right (by omega) h)]

theorem layout_align_aux (fs : List (Nat × FieldVal)) (t0 : TableLayout) (k0 : Nat) (h0 : t0.align = 2 ^ k0)
    (hp : ∀ f ∈ fs, ∀ size align bytes, f.2 = .inl size align bytes → ∃ k, align = 2 ^ k) :
    ∃ k, k0 ≤ k ∧ (fs.foldl layoutStep t0).align = 2 ^ k ∧
      ∀ f ∈ fs, ∀ size align bytes, f.2 = .inl size align bytes → align ∣ (fs.foldl layoutStep t0).align := by
  induction fs generalizing t0 k0 with
  | nil => exact ⟨k0, Nat.le_refl _, h0, by simp⟩
  | cons g gs ih =>
    have hstep : ∃ k1, k0 ≤ k1 ∧ (layoutStep t0 g).align = 2 ^ k1 ∧
        (∀ size align bytes, g.2 = .inl size align bytes → ∃ j, j ≤ k1 ∧ align = 2 ^ j) := by
      rw [layoutStep_align]
      cases hg : g.2 with
      | inl sz a b =>
        obtain ⟨j, hj⟩ := hp g (by simp) sz a b hg
        refine ⟨max k0 j, by omega, by simp only [h0, hj, max_pow2], ?_⟩
        intro size align bytes he
        injection he with _ h2 _
        exact ⟨j, by omega, by rw [← h2, hj]⟩
      | off r => exact ⟨k0, Nat.le_refl _, h0, by intro _ _ _ he; cases he⟩
    obtain ⟨k1, hk, ha, hg⟩ := hstep
    obtain ⟨k, hk2, hal, hdv⟩ := ih (layoutStep t0 g) k1 ha (fun f hf => hp f (by simp [hf]))
    refine ⟨k, by omega, hal, ?_⟩
    intro f hf size align bytes he
    rcases List.mem_cons.mp hf with h | h
    · subst h
      obtain ⟨j, hj, hje⟩ := hg size align bytes he
      simp only [List.foldl_cons]
      rw [hal, hje]; exact Nat.pow_dvd_pow 2 (by omega)
    · exact hdv f h size align bytes he

/-- with power-of-two alignments (API contract) the table's alignment is a power of two ≥ 4 that every field's alignment divides -/
theorem layout_align (fs : List (Nat × FieldVal))
    (hp : ∀ f ∈ fs, ∀ size align bytes, f.2 = .inl size align bytes → ∃ k, align = 2 ^ k) :
    ∃ k, 2 ≤ k ∧ (layoutTable fs).align = 2 ^ k ∧
      ∀ f ∈ fs, ∀ size align bytes, f.2 = .inl size align bytes → align ∣ (layoutTable fs).align :=
  layout_align_aux fs layoutInit 2 rfl hp
/-! ## buffer header -/

theorem bufPrep_facts (s : BS) (al : Nat) (nested : Bool) :
    (bufPrep s al nested).emitStart = s.emitStart ∧ (bufPrep s al nested).withSize = s.withSize ∧
    al ≤ (bufPrep s al nested).minAlign ∧ (bufPrep s al nested).front = s.front := by
  unfold bufPrep
  cases nested
  · simp only [Bool.false_eq_true, if_false]
    by_cases h : backPad s al = 0
    · simp only [h, if_true]
      refine ⟨setMinAlign_start _ _, ?_, (setMinAlign_ge _ _).1, ?_⟩ <;> (unfold setMinAlign; split <;> rfl)
    · simp only [h, if_false]
      refine ⟨by rw [setMinAlign_start]; rfl, ?_, (setMinAlign_ge _ _).1, ?_⟩ <;> (unfold setMinAlign; split <;> rfl)
  · simp only [if_true]
    refine ⟨setMinAlign_start _ _, ?_, (setMinAlign_ge _ _).1, ?_⟩ <;> (unfold setMinAlign; split <;> rfl)

end Flatcc.Builder
