import FlatccModel.Refmap
/-!
# Reference map: helper lemmas for the full refinement (`RefmapFull.lean`)

* counting of occupied slots (`nz`), existence of empty slots from the count;
* association-list lookup `lk` (the abstract content of a slot list);
* the general probe-and-store lemma `insertCore_spec` (new key *or* update in place);
* arithmetic of the load factor and of `growLoop`.
-/
namespace Flatcc.Refmap

/-! ## counting occupied slots -/

/-- number of occupied slots (`src ≠ 0`) in a slot list -/
def nz : List Slot → Nat
  | [] => 0
  | x :: r => (if x.1 = 0 then 0 else 1) + nz r

theorem nz_replicate (n : Nat) : nz (List.replicate n ((0, 0) : Slot)) = 0 := by
  induction n with
  | zero => rfl
  | succ n ih => simp [List.replicate_succ, nz, ih]

theorem nz_le_length (L : List Slot) : nz L ≤ L.length := by
  induction L with
  | nil => simp [nz]
  | cons x r ih => simp only [nz, List.length_cons]; split <;> omega

theorem nz_set (L : List Slot) : ∀ (j : Nat) (x v : Slot), L[j]? = some x →
    nz (L.set j v) + (if x.1 = 0 then 0 else 1) = nz L + (if v.1 = 0 then 0 else 1) := by
  induction L with
  | nil => intro j x v h; simp at h
  | cons y r ih =>
    intro j x v h
    cases j with
    | zero =>
      simp at h; subst h
      simp only [List.set_cons_zero, nz]; omega
    | succ j =>
      simp at h
      have := ih j x v h
      simp only [List.set_cons_succ, nz]; omega

theorem nz_zero_all (L : List Slot) (h : nz L = 0) : ∀ x ∈ L, x.1 = 0 := by
  induction L with
  | nil => intro x hx; simp at hx
  | cons y r ih =>
    intro x hx
    simp only [nz] at h
    rcases List.mem_cons.mp hx with e | e
    · subst e
      by_cases c : x.1 = 0
      · exact c
      · simp [c] at h
    · exact ih (by omega) x e

theorem nz_one_empty (L : List Slot) (h : nz L + 1 ≤ L.length) :
    ∃ (i : Nat) (x : Slot), L[i]? = some x ∧ x.1 = 0 := by
  induction L with
  | nil => simp at h
  | cons y r ih =>
    by_cases c : y.1 = 0
    · exact ⟨0, y, List.getElem?_cons_zero, c⟩
    · simp only [nz, c, if_false, List.length_cons] at h
      obtain ⟨i, x, h1, h2⟩ := ih (by omega)
      exact ⟨i + 1, x, by rw [List.getElem?_cons_succ]; exact h1, h2⟩

theorem nz_two_empty (L : List Slot) (h : nz L + 2 ≤ L.length) :
    ∃ (i j : Nat) (x y : Slot), i ≠ j ∧ L[i]? = some x ∧ L[j]? = some y ∧ x.1 = 0 ∧ y.1 = 0 := by
  induction L with
  | nil => simp at h
  | cons z r ih =>
    by_cases c : z.1 = 0
    · simp only [nz, c, if_true, List.length_cons] at h
      obtain ⟨i, x, h1, h2⟩ := nz_one_empty r (by omega)
      exact ⟨0, i + 1, z, x, by omega, List.getElem?_cons_zero, by rw [List.getElem?_cons_succ]; exact h1, c, h2⟩
    · simp only [nz, c, if_false, List.length_cons] at h
      obtain ⟨i, j, x, y, hne, h1, h2, h3, h4⟩ := ih (by omega)
      exact ⟨i + 1, j + 1, x, y, by omega, by rw [List.getElem?_cons_succ]; exact h1, by rw [List.getElem?_cons_succ]; exact h2, h3, h4⟩

/-! ## slot access through `toList` -/

theorem srcAt_toList (s : RM) (j : Nat) (x : Slot) (h : s.table.toList[j]? = some x) : srcAt s j = x.1 := by
  unfold srcAt
  rw [Array.getElem?_toList] at h
  have hj : j < s.table.size := by
    by_cases c : j < s.table.size
    · exact c
    · rw [Array.getElem?_eq_none (by omega)] at h; cases h
  rw [getElem!_pos s.table j hj]
  rw [Array.getElem?_eq_getElem hj] at h
  cases h; rfl

theorem refAt_toList (s : RM) (j : Nat) (x : Slot) (h : s.table.toList[j]? = some x) : refAt s j = x.2 := by
  unfold refAt
  rw [Array.getElem?_toList] at h
  have hj : j < s.table.size := by
    by_cases c : j < s.table.size
    · exact c
    · rw [Array.getElem?_eq_none (by omega)] at h; cases h
  rw [getElem!_pos s.table j hj]
  rw [Array.getElem?_eq_getElem hj] at h
  cases h; rfl

theorem toList_get (s : RM) (j : Nat) (hj : j < s.table.size) :
    s.table.toList[j]? = some (srcAt s j, refAt s j) := by
  unfold srcAt refAt
  rw [Array.getElem?_toList, Array.getElem?_eq_getElem hj, getElem!_pos s.table j hj]

theorem lt_of_toList_get (s : RM) (j : Nat) (x : Slot) (h : s.table.toList[j]? = some x) : j < s.table.size := by
  rw [Array.getElem?_toList] at h
  by_cases c : j < s.table.size
  · exact c
  · rw [Array.getElem?_eq_none (by omega)] at h; cases h

/-- two empty slots from the count -/
theorem two_empty (s : RM) (hsz : s.table.size = s.buckets) (h : nz s.table.toList + 2 ≤ s.buckets) :
    ∃ e1 e2, e1 < s.buckets ∧ e2 < s.buckets ∧ e1 ≠ e2 ∧ srcAt s e1 = 0 ∧ srcAt s e2 = 0 := by
  obtain ⟨i, j, x, y, hne, h1, h2, h3, h4⟩ := nz_two_empty s.table.toList (by simpa [hsz] using h)
  refine ⟨i, j, ?_, ?_, hne, ?_, ?_⟩
  · rw [← hsz]; exact lt_of_toList_get s i x h1
  · rw [← hsz]; exact lt_of_toList_get s j y h2
  · rw [srcAt_toList s i x h1]; exact h3
  · rw [srcAt_toList s j y h2]; exact h4

/-- no occupied slot when the count is zero -/
theorem all_empty (s : RM) (h : nz s.table.toList = 0) (t : Nat) (ht : t < s.table.size) : srcAt s t = 0 := by
  have := toList_get s t ht
  exact nz_zero_all _ h _ (List.mem_of_getElem? this)

/-! ## the probe-and-store step, new key or update in place -/

theorem find_zero (hash : Nat → Nat) (s : RM) (I : Inv hash s) : find hash s 0 = 0 := by
  obtain ⟨e, he, hee⟩ := I.empty
  obtain ⟨i, hi, hie⟩ := probe_surj (hash 0) s.buckets e I.pos he
  have hstop : stop s (hash 0) 0 i := by unfold stop; rw [hie]; exact Or.inl hee
  obtain ⟨i0, _, _, a3, a4, _⟩ := walk_least s (hash 0) 0 s.buckets 0 ⟨i, Nat.zero_le _, by omega, hstop⟩
  unfold find
  simp only [a3]
  have : srcAt s ((hash 0 + i0) % s.buckets) = 0 := by
    rcases a4 with h | h <;> exact h
  simp [this]

/-- `find` as a function of the table content -/
theorem find_of_count_zero (hash : Nat → Nat) (s : RM) (I : Inv hash s) (h : nz s.table.toList = 0) (k : Nat) :
    find hash s k = 0 := by
  by_cases hk : k = 0
  · subst hk; exact find_zero hash s I
  · apply find_absent hash s I
    intro t ht
    rw [all_empty s h t (by rw [I.size]; exact ht)]
    exact fun e => hk e.symm

/-- where the probe of `insert` ends, and what the store does to the table -/
theorem insertCore_desc (hash : Nat → Nat) (s : RM) (I : Inv hash s) (src : Nat) (ref : Int) (hsrc : src ≠ 0) :
    ∃ j, j < s.buckets ∧ walk s (hash src) src 0 s.buckets = j ∧
      ((srcAt s j = 0 ∧ ∀ t, t < s.buckets → srcAt s t ≠ src) ∨ srcAt s j = src) ∧
      (∀ k, srcAt (insertCore hash s src ref) k = if k = j then src else srcAt s k) ∧
      (∀ k, refAt (insertCore hash s src ref) k = if k = j then ref else refAt s k) := by
  have key : ∀ j, j < s.buckets → walk s (hash src) src 0 s.buckets = j →
      (∀ k, srcAt (insertCore hash s src ref) k = if k = j then src else srcAt s k) ∧
      (∀ k, refAt (insertCore hash s src ref) k = if k = j then ref else refAt s k) := by
    intro j hj hw
    have hjs : j < s.table.size := by rw [I.size]; exact hj
    constructor
    · intro k; unfold insertCore srcAt; simp only [hw]
      rw [get_set _ _ _ _ hjs]; split <;> rfl
    · intro k; unfold insertCore refAt; simp only [hw]
      rw [get_set _ _ _ _ hjs]; split <;> rfl
  by_cases hp : ∃ t, t < s.buckets ∧ srcAt s t = src
  · obtain ⟨t, ht, hts⟩ := hp
    have hw := walk_found hash s I t ht (by rw [hts]; exact hsrc)
    rw [hts] at hw
    exact ⟨t, ht, hw, Or.inr hts, (key t ht hw).1, (key t ht hw).2⟩
  · have habs : ∀ t, t < s.buckets → srcAt s t ≠ src := fun t ht e => hp ⟨t, ht, e⟩
    obtain ⟨i0, _, hw, hz, _⟩ := walk_absent hash s I src habs
    have hj : (hash src + i0) % s.buckets < s.buckets := Nat.mod_lt _ I.pos
    exact ⟨_, hj, hw, Or.inl ⟨hz, habs⟩, (key _ hj hw).1, (key _ hj hw).2⟩

/-- `Inv` only depends on the keys -/
theorem Inv_of_srcAt_eq (hash : Nat → Nat) (s s' : RM) (I : Inv hash s) (hb : s'.buckets = s.buckets)
    (hsz : s'.table.size = s.table.size) (h : ∀ k, srcAt s' k = srcAt s k) : Inv hash s' := by
  refine ⟨?_, ?_, ?_, ?_, ?_⟩
  · rw [hsz, hb]; exact I.size
  · rw [hb]; exact I.pos
  · obtain ⟨e, he, hee⟩ := I.empty
    exact ⟨e, by rw [hb]; exact he, by rw [h]; exact hee⟩
  · intro j1 j2; rw [hb]; simp only [h]; exact I.nodup j1 j2
  · intro t i; rw [hb]; simp only [h]; exact I.path t i

theorem insertCore_spec (hash : Nat → Nat) (s : RM) (I : Inv hash s) (src : Nat) (ref : Int) (hsrc : src ≠ 0)
    (hroom : nz s.table.toList + 2 ≤ s.buckets) :
    Inv hash (insertCore hash s src ref) ∧
    find hash (insertCore hash s src ref) src = ref ∧
    (∀ k, k ≠ src → find hash (insertCore hash s src ref) k = find hash s k) ∧
    nz (insertCore hash s src ref).table.toList =
      nz s.table.toList + (if srcAt s (walk s (hash src) src 0 s.buckets) = 0 then 1 else 0) ∧
    (srcAt s (walk s (hash src) src 0 s.buckets) = 0 → ∀ t, t < s.buckets → srcAt s t ≠ src) ∧
    (∀ t, t < s.buckets → srcAt (insertCore hash s src ref) t = src ∨
        srcAt (insertCore hash s src ref) t = srcAt s t) := by
  obtain ⟨j, hj, hw, hcase, hS, hR⟩ := insertCore_desc hash s I src ref hsrc
  have hb : (insertCore hash s src ref).buckets = s.buckets := rfl
  have hjs : j < s.table.size := by rw [I.size]; exact hj
  have I' : Inv hash (insertCore hash s src ref) := by
    rcases hcase with ⟨hz, habs⟩ | hp
    · exact (insert_new hash s I src ref hsrc habs (two_empty s I.size hroom)).1
    · apply Inv_of_srcAt_eq hash s _ I hb
      · show (s.table.setIfInBounds _ _).size = s.table.size
        rw [Array.size_setIfInBounds]
      · intro k; rw [hS]; split
        · next e => rw [e, hp]
        · rfl
  have hj0 : srcAt s j = 0 ∨ srcAt s j = src := by
    rcases hcase with ⟨hz, _⟩ | hp
    · exact Or.inl hz
    · exact Or.inr hp
  refine ⟨I', ?_, ?_, ?_, ?_, ?_⟩
  · have hnew : srcAt (insertCore hash s src ref) j = src := by rw [hS]; simp
    have := find_present hash _ I' j (by rw [hb]; exact hj) (by rw [hnew]; exact hsrc)
    rw [hnew] at this
    rw [this, hR]; simp
  · intro k hk
    by_cases hk0 : k = 0
    · subst hk0; rw [find_zero hash _ I', find_zero hash s I]
    by_cases hp : ∃ t, t < s.buckets ∧ srcAt s t = k
    · obtain ⟨t, ht, hts⟩ := hp
      have htj : t ≠ j := by
        intro e; subst e
        rcases hj0 with h | h
        · exact hk0 (hts.symm.trans h)
        · exact hk (hts.symm.trans h)
      have h1 : srcAt (insertCore hash s src ref) t = k := by rw [hS]; simp [htj, hts]
      have a := find_present hash _ I' t (by rw [hb]; exact ht) (by rw [h1]; exact hk0)
      have b := find_present hash s I t ht (by rw [hts]; exact hk0)
      rw [h1] at a; rw [hts] at b
      rw [a, b, hR]; simp [htj]
    · have habs : ∀ t, t < s.buckets → srcAt s t ≠ k := fun t ht e => hp ⟨t, ht, e⟩
      rw [find_absent hash s I k habs]
      apply find_absent hash _ I'
      intro t ht
      rw [hS]; split
      · exact fun e => hk e.symm
      · exact habs t ht
  · rw [hw]
    have hl : (insertCore hash s src ref).table.toList = s.table.toList.set j (src, ref) := by
      unfold insertCore; simp only [hw]; exact Array.toList_setIfInBounds
    have := nz_set s.table.toList j (srcAt s j, refAt s j) (src, ref) (toList_get s j hjs)
    rw [hl]
    have e1 : (if ((src, ref) : Slot).1 = 0 then 0 else 1) = 1 := by simp [hsrc]
    rw [e1] at this
    by_cases hz : srcAt s j = 0
    · simp only [hz, if_true] at this ⊢; omega
    · simp only [hz, if_false] at this ⊢; omega
  · rw [hw]; intro hz
    rcases hcase with ⟨_, habs⟩ | hp
    · exact habs
    · exact absurd (hp.symm.trans hz) hsrc
  · intro t _
    rw [hS]; split
    · exact Or.inl rfl
    · exact Or.inr rfl

/-! ## load factor arithmetic -/

theorem aboveLoad_false_iff (c b : Nat) : aboveLoad c b = false ↔ c < b * 179 / 256 := by
  unfold aboveLoad loadN
  simp only [decide_eq_false_iff_not]; omega

theorem aboveLoad_room (c b : Nat) (h : aboveLoad c b = false) : c + 2 ≤ b := by
  rw [aboveLoad_false_iff] at h; omega

theorem aboveLoad_mono (c c' b : Nat) (hc : c ≤ c') (h : aboveLoad c' b = false) : aboveLoad c b = false := by
  rw [aboveLoad_false_iff] at *; omega

theorem growLoop_spec (count : Nat) : ∀ (fuel b : Nat), 8 ≤ b → 8 * count + 8 ≤ b + 8 * fuel →
    8 ≤ growLoop count fuel b ∧ aboveLoad count (growLoop count fuel b) = false := by
  intro fuel
  induction fuel with
  | zero =>
    intro b hb h
    refine ⟨hb, ?_⟩
    unfold growLoop
    rw [aboveLoad_false_iff]; omega
  | succ fuel ih =>
    intro b hb h
    unfold growLoop
    by_cases c : aboveLoad count b = true
    · simp only [c, if_true]
      exact ih (b * 2) (by omega) (by omega)
    · simp only [c]
      exact ⟨hb, by simpa using c⟩

theorem growLoop_ok (count : Nat) :
    8 ≤ growLoop count (count + 64) minBuckets ∧ aboveLoad count (growLoop count (count + 64) minBuckets) = false :=
  growLoop_spec count (count + 64) 8 (Nat.le_refl _) (by omega)

end Flatcc.Refmap

