import FlatccModel.Generated.Consts
/-!
# The JSON runtime's generic scanners with explicit, guarded reads

Model of `src/runtime/json_parser.c` / `include/flatcc/flatcc_json_parser.h` as compiled with the default configuration on
x86-64 (`FLATCC_ALLOW_UNALIGNED_ACCESS = 1`, `FLATCC_JSON_PARSE_WIDE_SPACE = 0` — the `= 1` build of `space_ext` is modelled
too, selected by `Ctx.wide` —, no SSE4.2, `FLATCC_JSON_PARSE_ALLOW_UNQUOTED = 1`,
`FLATCC_JSON_PARSE_ALLOW_TRAILING_COMMA = 1`, `FLATCC_JSON_PARSE_GENERIC_MAX_NEST = 512`, `char` signed):

* `flatcc_json_parser_set_error`, `_space`, `_space_ext`, `_symbol_start`, `_symbol_end`, `_constant_start`,
  `_string_start`, `_string_end`, `_string_part`, `_string_escape`, `_object_start/_end`, `_array_start/_end`,
  `_skip_constant`, `_unmatched_symbol`, `__flatcc_json_parser_number`, `_generic_json`.

The input is `inp : Array Nat` (bytes), `end` is `inp.size`, a `const char *` is a position `Nat`. EVERY dereference of the C
code is a call of `rd`, placed where the C code dereferences and guarded only by the tests the C code makes; `rd` answers
`.error .oob` outside `[0, size)`. The nesting stack of `generic_json` is read and written through `peek` / `push`, which answer
`.oob` outside the C array `stack[MAX_NEST]`. Hence "never `.oob`" (JsonScanProofs.lean) is the memory-safety statement.

Loops and `goto`s are state machines run by `iter` with a fuel; `.error .fuel` is the only artificial outcome and is proved
unreachable for the fuel `size - pos + 1` (and the result independent of any larger fuel).

`set_error` returns `end`, records only the first error (`error`, `error_loc`, `pos`); the C callers carry on with `buf = end`
and the model does the same.
-/
namespace Flatcc.JsonScan

inductive Err where
  | oob | fuel
  deriving DecidableEq, Repr

abbrev M := Except Err

/-- one round of a loop: go on with a new state, or leave the function with a result -/
inductive Next (σ ρ : Type) where
  | cont (s : σ)
  | done (r : ρ)

/-- run a state machine for at most `fuel` rounds -/
def iter {σ ρ : Type} (step : σ → M (Next σ ρ)) : Nat → σ → M ρ
  | 0, _ => .error .fuel
  | f + 1, s => step s >>= fun x =>
    match x with
    | .cont s' => iter step f s'
    | .done r => .ok r

/-- `FLATCC_JSON_PARSE_GENERIC_MAX_NEST` -/
def MAX_NEST : Nat := Flatcc.Consts.jsonParseGenericMaxNest   -- regenerated from the headers on every run

/-! error numbers of `enum flatcc_json_parser_error_no` -/
def E_deep_nesting : Nat := 2
def E_expected_colon : Nat := 4
def E_unexpected_character : Nat := 5
def E_invalid_numeric : Nat := 6
def E_unbalanced_array : Nat := 9
def E_unbalanced_object : Nat := 10
def E_unknown_symbol : Nat := 13
def E_expected_string : Nat := 16
def E_invalid_character : Nat := 17
def E_invalid_escape : Nat := 18
def E_unterminated_string : Nat := 20
def E_expected_object : Nat := 21
def E_expected_array : Nat := 22

/-- `flatcc_json_parser_f_skip_unknown` -/
def F_skip_unknown : Nat := 1

/-- the fields of `flatcc_json_parser_t` the scanners touch -/
structure Ctx where
  flags : Nat := 0
  unquoted : Bool := false
  line : Nat := 1
  lineStart : Nat := 0
  error : Nat := 0
  pos : Nat := 0
  errorLoc : Nat := 0
  /-- not a field of the C struct: the compile-time setting `FLATCC_JSON_PARSE_WIDE_SPACE` (default 0), carried here so that
  both builds of `space_ext` are modelled and proved -/
  wide : Bool := false
  deriving Repr, DecidableEq

/-- the byte at offset `i` (meaningful for `i < size` only) -/
def byteAt (inp : Array Nat) (i : Nat) : Nat := inp.getD i 0

/-- `*p` for `p = buf + i`: only inside the given bytes -/
def rd (inp : Array Nat) (i : Nat) : M Nat :=
  if i < inp.size then .ok (byteAt inp i) else .error .oob

/-! `char` is signed: comparisons of a byte `b` (0..255) with a constant `k` in 0..127 -/
def sgt (b k : Nat) : Bool := decide (b < 128) && decide (k < b)      -- (char)b > k
def slt (b k : Nat) : Bool := decide (128 ≤ b) || decide (b < k)      -- (char)b < k
def sle (b k : Nat) : Bool := !sgt b k
def sge (b k : Nat) : Bool := !slt b k

/-- `flatcc_json_parser_set_error`: the first error wins; returns `end` -/
def setError (c : Ctx) (loc n err : Nat) : Nat × Ctx :=
  (n, if c.error = 0 then { c with error := err, pos := loc + 1 - c.lineStart, errorLoc := loc } else c)

/-- `while (buf != end && p(*buf)) ++buf;` as a state machine -/
def scanStep (p : Nat → Bool) (inp : Array Nat) (i : Nat) : M (Next Nat Nat) :=
  if i ≠ inp.size then
    rd inp i >>= fun b => if p b then .ok (.cont (i + 1)) else .ok (.done i)
  else .ok (.done i)

def scanWhileF (p : Nat → Bool) (fuel : Nat) (inp : Array Nat) (i : Nat) : M Nat := iter (scanStep p inp) fuel i
def scanWhile (p : Nat → Bool) (inp : Array Nat) (i : Nat) : M Nat := scanWhileF p (inp.size - i + 1) inp i

/-! ### `flatcc_json_parser_space_ext`, `flatcc_json_parser_space` -/

/-- fast path, after the 16-bit test: `if (*buf == 0x20) ++buf; if (*buf > 0x20) return buf; break;` -/
def spFast2 (inp : Array Nat) (i : Nat) : M (Nat × Bool) :=
  rd inp i >>= fun b1 =>
  rd inp (if b1 = 32 then i + 1 else i) >>= fun b2 =>
  .ok (if b1 = 32 then i + 1 else i, sgt b2 32)

/-- `while (end - buf >= 16) { … break; }` as compiled with `FLATCC_JSON_PARSE_WIDE_SPACE = 0` (the default):
the position and whether the function returns it right away -/
def spFastDefault (inp : Array Nat) (i : Nat) : M (Nat × Bool) :=
  if inp.size - i ≥ 16 then
    rd inp i >>= fun b =>
    if sgt b 32 then .ok (i, true) else
    -- ((uint16_t *)buf)[0] == 0x2020
    rd inp i >>= fun lo => rd inp (i + 1) >>= fun hi =>
    spFast2 inp (if lo + 256 * hi = 8224 then i + 2 else i)
  else .ok (i, false)

/-! unaligned little-endian loads `*(uint16_t *)p`, `*(uint32_t *)p`, `*(uint64_t *)p`: every byte through `rd` -/
def rd16 (inp : Array Nat) (i : Nat) : M Nat := rd inp i >>= fun a => rd inp (i + 1) >>= fun b => .ok (a + 256 * b)
def rd32 (inp : Array Nat) (i : Nat) : M Nat := rd16 inp i >>= fun a => rd16 inp (i + 2) >>= fun b => .ok (a + 65536 * b)
def rd64 (inp : Array Nat) (i : Nat) : M Nat := rd32 inp i >>= fun a => rd32 inp (i + 4) >>= fun b => .ok (a + 4294967296 * b)

/-- label `descend:` (`FLATCC_JSON_PARSE_WIDE_SPACE = 1`) up to the `break` -/
def spDescend (inp : Array Nat) (i : Nat) : M (Nat × Bool) :=
  rd32 inp i >>= fun w =>
  rd16 inp (if w = 0x20202020 then i + 4 else i) >>= fun h =>
  spFast2 inp (if h = 0x2020 then (if w = 0x20202020 then i + 4 else i) + 2 else (if w = 0x20202020 then i + 4 else i))

/-- one round of `while (end - buf >= 16)` with `FLATCC_JSON_PARSE_WIDE_SPACE = 1` -/
def spWideStep (inp : Array Nat) (i : Nat) : M (Next Nat (Nat × Bool)) :=
  if inp.size - i ≥ 16 then
    rd inp i >>= fun b =>
    if sgt b 32 then .ok (.done (i, true)) else
    rd64 inp i >>= fun w0 =>
    if w0 ≠ 0x2020202020202020 then spDescend inp i >>= fun r => .ok (.done r) else
    rd64 inp (i + 8) >>= fun w1 =>
    if w1 ≠ 0x2020202020202020 then spDescend inp (i + 8) >>= fun r => .ok (.done r) else
    .ok (.cont (i + 16))
  else .ok (.done (i, false))

def spFastWideF (fuel : Nat) (inp : Array Nat) (i : Nat) : M (Nat × Bool) := iter (spWideStep inp) fuel i
def spFastWide (inp : Array Nat) (i : Nat) : M (Nat × Bool) := spFastWideF (inp.size - i + 1) inp i

def spFast (wide : Bool) (inp : Array Nat) (i : Nat) : M (Nat × Bool) :=
  if wide then spFastWide inp i else spFastDefault inp i

def isSp (b : Nat) : Bool := decide (b = 32)

/-- label `again:` up to the second loop: fast path, then `while (buf != end && *buf == 0x20) ++buf;` -/
def spHead (wide : Bool) (inp : Array Nat) (i : Nat) : M (Nat × Bool) :=
  spFast wide inp i >>= fun r =>
  if r.2 then .ok r else scanWhile isSp inp r.1 >>= fun j => .ok (j, false)

/-- `buf += (end - buf > 1 && buf[1] == 0x0a)` -/
def spCr (inp : Array Nat) (i : Nat) : M Nat :=
  if inp.size - i > 1 then rd inp (i + 1) >>= fun b => .ok (if b = 10 then i + 1 else i) else .ok i

/-- one round of `while (buf != end && *buf <= 0x20) switch (*buf) …` (`goto again` re-runs `spHead`) -/
def spWsStep (inp : Array Nat) (s : Nat × Ctx) : M (Next (Nat × Ctx) (Nat × Ctx)) :=
  if s.1 ≠ inp.size then
    rd inp s.1 >>= fun b =>
    if sle b 32 then
      if b = 13 then
        spCr inp s.1 >>= fun j => .ok (.cont (j + 1, { s.2 with line := s.2.line + 1, lineStart := j + 1 }))
      else if b = 10 then .ok (.cont (s.1 + 1, { s.2 with line := s.2.line + 1, lineStart := s.1 + 1 }))
      else if b = 9 then .ok (.cont (s.1 + 1, s.2))
      else if b = 32 then
        spHead s.2.wide inp s.1 >>= fun r => if r.2 then .ok (.done (r.1, s.2)) else .ok (.cont (r.1, s.2))
      else .ok (.done (setError s.2 s.1 inp.size E_unexpected_character))
    else .ok (.done s)
  else .ok (.done s)

def spaceExtF (fuel : Nat) (inp : Array Nat) (i : Nat) (c : Ctx) : M (Nat × Ctx) :=
  spHead c.wide inp i >>= fun r =>
  if r.2 then .ok (r.1, c) else iter (spWsStep inp) fuel (r.1, c)

/-- `flatcc_json_parser_space_ext` -/
def spaceExt (inp : Array Nat) (i : Nat) (c : Ctx) : M (Nat × Ctx) := spaceExtF (inp.size - i + 1) inp i c

/-- `flatcc_json_parser_space` (inline, header) -/
def space (inp : Array Nat) (i : Nat) (c : Ctx) : M (Nat × Ctx) :=
  if inp.size - i > 1 then
    rd inp i >>= fun b0 =>
    if sgt b0 32 then .ok (i, c)
    else if b0 = 32 then
      rd inp (i + 1) >>= fun b1 => if sgt b1 32 then .ok (i + 1, c) else spaceExt inp i c
    else spaceExt inp i c
  else spaceExt inp i c

/-! ### strings -/

/-- `flatcc_json_parser_string_start` -/
def stringStart (inp : Array Nat) (i : Nat) (c : Ctx) : M (Nat × Ctx) :=
  if i = inp.size then .ok (setError c i inp.size E_expected_string)
  else rd inp i >>= fun b =>
    if b ≠ 34 then .ok (setError c i inp.size E_expected_string) else .ok (i + 1, c)

/-- `flatcc_json_parser_string_end` -/
def stringEnd (inp : Array Nat) (i : Nat) (c : Ctx) : M (Nat × Ctx) :=
  if i = inp.size then .ok (setError c i inp.size E_unterminated_string)
  else rd inp i >>= fun b =>
    if b ≠ 34 then .ok (setError c i inp.size E_unterminated_string) else .ok (i + 1, c)

/-- loop condition of `string_part`: `*buf != '"' && (unsigned char)*buf >= 0x20 && *buf != '\\'` -/
def isPlain (b : Nat) : Bool := decide (b ≠ 34) && decide (b ≥ 32) && decide (b ≠ 92)

/-- `flatcc_json_parser_string_part` -/
def stringPart (inp : Array Nat) (i : Nat) (c : Ctx) : M (Nat × Ctx) :=
  scanWhile isPlain inp i >>= fun j =>
  if j = inp.size then .ok (setError c j inp.size E_unterminated_string)
  else rd inp j >>= fun b =>
    if b = 34 then .ok (j, c)
    else if slt b 32 then .ok (setError c j inp.size E_invalid_character)
    else .ok (j, c)

/-- a hex digit as the C code tests it: `'0'..'9'`, or after `c |= 0x20` in `'a'..'f'` (signed `char`) -/
def isHex (c : Nat) : Bool :=
  (decide (48 ≤ c) && decide (c ≤ 57)) || (decide (c < 128) && decide (97 ≤ c ||| 32) && decide (c ||| 32 ≤ 102))
def hexV (c : Nat) : Nat := if 48 ≤ c ∧ c ≤ 57 then c - 48 else (c ||| 32) - 87

/-- `decode_hex4`: the four bytes are read one after the other, stopping at the first non-digit -/
def decodeHex4 (inp : Array Nat) (i : Nat) : M (Option Nat) :=
  rd inp i >>= fun a => if !isHex a then .ok none else
  rd inp (i + 1) >>= fun b => if !isHex b then .ok none else
  rd inp (i + 2) >>= fun c => if !isHex c then .ok none else
  rd inp (i + 3) >>= fun d => if !isHex d then .ok none else
  .ok (some (hexV a * 4096 + hexV b * 256 + hexV c * 16 + hexV d))

/-- `case 'x'` of `string_escape` -/
def escX (inp : Array Nat) (i : Nat) (c : Ctx) : M (Nat × Ctx) :=
  if inp.size - i < 4 then .ok (setError c i inp.size E_invalid_escape) else
  rd inp (i + 2) >>= fun a => if !isHex a then .ok (setError c i inp.size E_invalid_escape) else
  rd inp (i + 3) >>= fun b => if !isHex b then .ok (setError c i inp.size E_invalid_escape) else
  .ok (i + 4, c)

/-- `case 'u'` after the first `\uXXXX` decoded to `u`: the surrogate pair test, with C's short-circuit order -/
def escPair (inp : Array Nat) (i : Nat) (c : Ctx) (u : Nat) : M (Nat × Ctx) :=
  if 0xd800 ≤ u ∧ u ≤ 0xdbff ∧ inp.size - i ≥ 12 then
    rd inp (i + 6) >>= fun b6 => if b6 ≠ 92 then .ok (i + 6, c) else
    rd inp (i + 7) >>= fun b7 => if b7 ≠ 117 then .ok (i + 6, c) else
    decodeHex4 inp (i + 8) >>= fun u2 =>
    if u2.isSome ∧ 0xdc00 ≤ u2.getD 0 ∧ u2.getD 0 ≤ 0xdfff then
      -- decode_utf16_surrogate_pair fails above 0x10ffff
      if (u - 0xd800) * 0x400 + (u2.getD 0 - 0xdc00) + 0x10000 > 0x10ffff then .ok (setError c i inp.size E_invalid_escape)
      else .ok (i + 12, c)
    else .ok (i + 6, c)
  else .ok (i + 6, c)

/-- `case 'u'` of `string_escape` -/
def escU (inp : Array Nat) (i : Nat) (c : Ctx) : M (Nat × Ctx) :=
  if inp.size - i < 6 then .ok (setError c i inp.size E_invalid_escape) else
  decodeHex4 inp (i + 2) >>= fun u =>
  if u.isNone then .ok (setError c i inp.size E_invalid_escape) else escPair inp i c (u.getD 0)

/-- `flatcc_json_parser_string_escape` (the decoded `code` is not modelled here; see Json.lean `decodeEscape`) -/
def stringEscape (inp : Array Nat) (i : Nat) (c : Ctx) : M (Nat × Ctx) :=
  if inp.size - i < 2 then .ok (setError c i inp.size E_invalid_escape) else
  rd inp i >>= fun b0 => if b0 ≠ 92 then .ok (setError c i inp.size E_invalid_escape) else
  rd inp (i + 1) >>= fun b1 =>
  if b1 = 120 then escX inp i c
  else if b1 = 117 then escU inp i c
  else if b1 = 116 ∨ b1 = 110 ∨ b1 = 114 ∨ b1 = 98 ∨ b1 = 102 ∨ b1 = 34 ∨ b1 = 92 ∨ b1 = 47 then .ok (i + 2, c)
  else .ok (setError c i inp.size E_invalid_escape)

/-! ### symbols -/

/-- `flatcc_json_parser_symbol_start` -/
def symbolStart (inp : Array Nat) (i : Nat) (c : Ctx) : M (Nat × Ctx) :=
  if i = inp.size then .ok (i, c) else
  rd inp i >>= fun b =>
  if b = 34 then .ok (i + 1, { c with unquoted := false })
  else if b = 46 then .ok (setError c i inp.size E_unexpected_character)
  else .ok (i, { c with unquoted := true })

/-- identifier characters of unquoted symbols / constants: `_ . (c & 0x80) 0-9`, then `c |= 0x20; a-z` -/
def isIdent (b : Nat) : Bool :=
  decide (b = 95) || decide (b = 46) || decide (128 ≤ b) || (decide (48 ≤ b) && decide (b ≤ 57))
  || (decide (97 ≤ b ||| 32) && decide (b ||| 32 ≤ 122))

/-- unquoted loop of `symbol_end`; state: position and `clast` -/
def symUnqStep (inp : Array Nat) (s : Nat × Nat) : M (Next (Nat × Nat) (Nat × Nat)) :=
  if s.1 ≠ inp.size then
    rd inp s.1 >>= fun b =>
    if sgt b 32 then (if isIdent b then .ok (.cont (s.1 + 1, b)) else .ok (.done (s.1, b)))
    else .ok (.done s)
  else .ok (.done s)

/-- quoted loop of `symbol_end` -/
def symQStep (inp : Array Nat) (i : Nat) : M (Next Nat Nat) :=
  if i ≠ inp.size then
    rd inp i >>= fun b =>
    if b ≠ 34 then
      (if b = 92 then (if inp.size - i < 2 then .ok (.done i) else .ok (.cont (i + 2))) else .ok (.cont (i + 1)))
    else .ok (.done i)
  else .ok (.done i)

def symbolEndF (fuel : Nat) (inp : Array Nat) (i : Nat) (c : Ctx) : M (Nat × Ctx) :=
  if c.unquoted then
    iter (symUnqStep inp) fuel (i, 0) >>= fun r =>
    if r.2 = 46 then .ok (setError c r.1 inp.size E_unexpected_character) else .ok (r.1, c)
  else
    iter (symQStep inp) fuel i >>= fun j =>
    if j = inp.size then .ok (setError c j inp.size E_unterminated_string)
    else rd inp j >>= fun b =>
      if b ≠ 34 then .ok (setError c j inp.size E_unterminated_string) else .ok (j + 1, c)

/-- `flatcc_json_parser_symbol_end` -/
def symbolEnd (inp : Array Nat) (i : Nat) (c : Ctx) : M (Nat × Ctx) := symbolEndF (inp.size - i + 1) inp i c

/-- `flatcc_json_parser_constant_start` -/
def constantStart (inp : Array Nat) (i : Nat) (c : Ctx) : M (Nat × Ctx) :=
  symbolStart inp i c >>= fun r => if !r.2.unquoted then space inp r.1 r.2 else .ok r

/-! ### objects and arrays; the third component is `*more` -/

/-- `object_start` (`open = '{'`, `close = '}'`, `err = expected_object`) / `array_start` -/
def groupStart (opn cls err : Nat) (inp : Array Nat) (i : Nat) (c : Ctx) : M (Nat × Ctx × Bool) :=
  if i = inp.size then .ok ((setError c i inp.size err).1, (setError c i inp.size err).2, false) else
  rd inp i >>= fun b =>
  if b ≠ opn then .ok ((setError c i inp.size err).1, (setError c i inp.size err).2, false) else
  space inp (i + 1) c >>= fun r =>
  if r.1 ≠ inp.size then
    rd inp r.1 >>= fun b2 =>
    if b2 = cls then space inp (r.1 + 1) r.2 >>= fun r2 => .ok (r2.1, r2.2, false)
    else .ok (r.1, r.2, true)
  else .ok (r.1, r.2, true)

def objectStart := groupStart 123 125 E_expected_object
def arrayStart := groupStart 91 93 E_expected_array

/-- `object_end` (`cls = '}'`, `err = unbalanced_object`) / `array_end`, with `FLATCC_JSON_PARSE_ALLOW_TRAILING_COMMA` -/
def groupEnd (cls err : Nat) (inp : Array Nat) (i : Nat) (c : Ctx) : M (Nat × Ctx × Bool) :=
  space inp i c >>= fun r =>
  if r.1 = inp.size then .ok (r.1, r.2, false) else
  rd inp r.1 >>= fun b =>
  if b ≠ 44 then
    (if b ≠ cls then .ok ((setError r.2 r.1 inp.size err).1, (setError r.2 r.1 inp.size err).2, false)
     else space inp (r.1 + 1) r.2 >>= fun r2 => .ok (r2.1, r2.2, false))
  else
    space inp (r.1 + 1) r.2 >>= fun r2 =>
    if r2.1 = inp.size then .ok ((setError r2.2 r2.1 inp.size err).1, (setError r2.2 r2.1 inp.size err).2, false) else
    rd inp r2.1 >>= fun b2 =>
    if b2 = cls then space inp (r2.1 + 1) r2.2 >>= fun r3 => .ok (r3.1, r3.2, false)
    else .ok (r2.1, r2.2, true)

def objectEnd := groupEnd 125 E_unbalanced_object
def arrayEnd := groupEnd 93 E_unbalanced_array

/-! ### `flatcc_json_parser_skip_constant` -/

/-- `(c & 0x80) || c == '_' || (c >= '0' && c <= '9') || c == '.'`, else `c |= 0x20; c >= 'a' && c <= 'z'` -/
def isConstCh (b : Nat) : Bool :=
  decide (128 ≤ b) || decide (b = 95) || (decide (48 ≤ b) && decide (b ≤ 57)) || decide (b = 46)
  || (decide (97 ≤ b ||| 32) && decide (b ||| 32 ≤ 122))

def skipConstStep (inp : Array Nat) (s : Nat × Ctx) : M (Next (Nat × Ctx) (Nat × Ctx)) :=
  if s.1 ≠ inp.size then
    rd inp s.1 >>= fun b =>
    if isConstCh b then .ok (.cont (s.1 + 1, s.2))
    else space inp s.1 s.2 >>= fun r => if r.1 = s.1 then .ok (.done r) else .ok (.cont r)
  else .ok (.done s)

def skipConstantF (fuel : Nat) (inp : Array Nat) (i : Nat) (c : Ctx) : M (Nat × Ctx) := iter (skipConstStep inp) fuel (i, c)
def skipConstant (inp : Array Nat) (i : Nat) (c : Ctx) : M (Nat × Ctx) := skipConstantF (inp.size - i + 1) inp i c

/-! ### `__flatcc_json_parser_number` -/

/-- `*buf >= '0' && *buf <= '9'` -/
def isDigit (b : Nat) : Bool := sge b 48 && sle b 57

/-- the switch at the end: `, : ] } ' ' \r \t \n \v` -/
def isNumEnd (b : Nat) : Bool :=
  decide (b = 44) || decide (b = 58) || decide (b = 93) || decide (b = 125) || decide (b = 32) || decide (b = 13)
  || decide (b = 9) || decide (b = 10) || decide (b = 11)

def numTail (inp : Array Nat) (i : Nat) (c : Ctx) : M (Nat × Ctx) :=
  if i ≠ inp.size then
    rd inp i >>= fun b => if isNumEnd b then .ok (i, c) else .ok (setError c i inp.size E_invalid_numeric)
  else .ok (setError c i inp.size E_invalid_numeric)

/-- after `e`/`E` was consumed (`i` is behind it) -/
def numExp2 (inp : Array Nat) (i : Nat) (c : Ctx) : M (Nat × Ctx) :=
  if i = inp.size then .ok (setError c i inp.size E_invalid_numeric) else
  rd inp i >>= fun s =>
  (fun i2 =>
    if i2 = inp.size then .ok (setError c i2 inp.size E_invalid_numeric) else
    rd inp i2 >>= fun d =>
    if slt d 48 || sgt d 57 then .ok (setError c i2 inp.size E_invalid_numeric) else
    scanWhile isDigit inp (i2 + 1) >>= fun j => numTail inp j c) (if s = 43 ∨ s = 45 then i + 1 else i)

def numExp (inp : Array Nat) (i : Nat) (c : Ctx) : M (Nat × Ctx) :=
  if i ≠ inp.size then
    rd inp i >>= fun b => if b = 101 ∨ b = 69 then numExp2 inp (i + 1) c else numTail inp i c
  else numTail inp i c

def numFrac (inp : Array Nat) (i : Nat) (c : Ctx) : M (Nat × Ctx) :=
  if i ≠ inp.size then
    rd inp i >>= fun b =>
    if b = 46 then
      (if i + 1 = inp.size then .ok (setError c (i + 1) inp.size E_invalid_numeric) else
       rd inp (i + 1) >>= fun d =>
       if slt d 48 || sgt d 57 then .ok (setError c (i + 1) inp.size E_invalid_numeric) else
       scanWhile isDigit inp (i + 2) >>= fun j => numExp inp j c)
    else numExp inp i c
  else numExp inp i c

/-- from `if (*buf == '0')` on -/
def numInt (inp : Array Nat) (i : Nat) (c : Ctx) : M (Nat × Ctx) :=
  rd inp i >>= fun b =>
  if b = 48 then numFrac inp (i + 1) c
  else if slt b 49 || sgt b 57 then .ok (setError c i inp.size E_invalid_numeric)
  else scanWhile isDigit inp (i + 1) >>= fun j => numFrac inp j c

/-- `__flatcc_json_parser_number` -/
def number (inp : Array Nat) (i : Nat) (c : Ctx) : M (Nat × Ctx) :=
  if i = inp.size then .ok (i, c) else
  rd inp i >>= fun b =>
  if b = 45 then
    (if i + 1 = inp.size then .ok (setError c (i + 1) inp.size E_invalid_numeric) else numInt inp (i + 1) c)
  else numInt inp i c

/-! ### `flatcc_json_parser_generic_json` -/

/-- `sp[-1]`: inside `stack[]` only when `sp != stack` -/
def peek (stk : List Nat) : M Nat :=
  match stk with
  | [] => .error .oob
  | t :: _ => .ok t

/-- `*sp++ = v`: inside `stack[]` only when `sp != spend` -/
def push (stk : List Nat) (v : Nat) : M (List Nat) :=
  if stk.length < MAX_NEST then .ok (v :: stk) else .error .oob

/-- the string loop: `while (buf != end && *buf != '"') { string_part; if (buf != end && *buf == '"') break; string_escape }` -/
def gStrStep (inp : Array Nat) (s : Nat × Ctx) : M (Next (Nat × Ctx) (Nat × Ctx)) :=
  if s.1 ≠ inp.size then
    rd inp s.1 >>= fun b =>
    if b ≠ 34 then
      stringPart inp s.1 s.2 >>= fun r =>
      if r.1 ≠ inp.size then
        rd inp r.1 >>= fun b2 =>
        if b2 = 34 then .ok (.done r) else stringEscape inp r.1 r.2 >>= fun r2 => .ok (.cont r2)
      else stringEscape inp r.1 r.2 >>= fun r2 => .ok (.cont r2)
    else .ok (.done s)
  else .ok (.done s)

/-- `case '\"'` -/
def gStringF (fuel : Nat) (inp : Array Nat) (i : Nat) (c : Ctx) : M (Nat × Ctx) :=
  stringStart inp i c >>= fun r =>
  iter (gStrStep inp) fuel r >>= fun r2 =>
  stringEnd inp r2.1 r2.2

def gString (inp : Array Nat) (i : Nat) (c : Ctx) : M (Nat × Ctx) := gStringF (inp.size - i + 1) inp i c

/-- state at the labels of `generic_json`: `again = true` at `again:`, else at the closing `while` loop -/
structure GState where
  again : Bool
  i : Nat
  stk : List Nat
  c : Ctx

/-- "Inside an object, about to read field name." `cont`: go on to the switch; `done`: `return` -/
def gField (inp : Array Nat) (i : Nat) (c : Ctx) : M (Next (Nat × Ctx) (Nat × Ctx)) :=
  symbolStart inp i c >>= fun r1 =>
  symbolEnd inp r1.1 r1.2 >>= fun r2 =>
  space inp r2.1 r2.2 >>= fun r3 =>
  if r3.1 = inp.size then .ok (.done (setError r3.2 r3.1 inp.size E_unbalanced_object)) else
  rd inp r3.1 >>= fun b =>
  if b ≠ 58 then .ok (.done (setError r3.2 r3.1 inp.size E_expected_colon)) else
  space inp (r3.1 + 1) r3.2 >>= fun r4 =>
  if r4.1 = inp.size then .ok (.done (setError r4.2 r4.1 inp.size E_unbalanced_object)) else .ok (.cont r4)

/-- `case '[':` / `case '{':` -/
def gOpen (inp : Array Nat) (i : Nat) (stk : List Nat) (c : Ctx) (cls : Nat) : M (Next GState (Nat × Ctx)) :=
  if stk.length = MAX_NEST then .ok (.done (setError c i inp.size E_deep_nesting)) else
  push stk cls >>= fun stk' =>
  space inp (i + 1) c >>= fun r =>
  if r.1 ≠ inp.size then
    rd inp r.1 >>= fun b =>
    if b = cls then .ok (.cont ⟨false, r.1, stk', r.2⟩) else .ok (.cont ⟨true, r.1, stk', r.2⟩)
  else .ok (.cont ⟨true, r.1, stk', r.2⟩)

/-- `switch (*buf)` -/
def gSwitch (inp : Array Nat) (i : Nat) (stk : List Nat) (c : Ctx) : M (Next GState (Nat × Ctx)) :=
  rd inp i >>= fun b =>
  if b = 34 then gString inp i c >>= fun r => .ok (.cont ⟨false, r.1, stk, r.2⟩)
  else if b = 45 ∨ (48 ≤ b ∧ b ≤ 57) then number inp i c >>= fun r => .ok (.cont ⟨false, r.1, stk, r.2⟩)
  else if b = 91 then gOpen inp i stk c 93
  else if b = 123 then gOpen inp i stk c 125
  else skipConstant inp i c >>= fun r =>
    if r.1 = i then .ok (.done (setError r.2 r.1 inp.size E_unexpected_character))
    else .ok (.cont ⟨false, r.1, stk, r.2⟩)

/-- from `again:` to the end of the switch -/
def gAgain (inp : Array Nat) (i : Nat) (stk : List Nat) (c : Ctx) : M (Next GState (Nat × Ctx)) :=
  if i = inp.size then .ok (.done (i, c)) else
  if stk.length ≠ 0 then
    peek stk >>= fun t =>
    if t = 125 then
      gField inp i c >>= fun x =>
      match x with
      | .cont r => gSwitch inp r.1 stk r.2
      | .done r => .ok (.done r)
    else gSwitch inp i stk c
  else gSwitch inp i stk c

/-- one round of `while (buf != end && sp != stack) { --sp; … if (more) { ++sp; goto again; } }` and what follows it -/
def gClose (inp : Array Nat) (i : Nat) (stk : List Nat) (c : Ctx) : M (Next GState (Nat × Ctx)) :=
  if i ≠ inp.size ∧ stk.length ≠ 0 then
    peek stk >>= fun t =>
    (if t = 93 then arrayEnd inp i c else objectEnd inp i c) >>= fun r =>
    if r.2.2 then .ok (.cont ⟨true, r.1, stk, r.2.1⟩) else .ok (.cont ⟨false, r.1, stk.tail, r.2.1⟩)
  else if i = inp.size ∧ stk.length ≠ 0 then
    peek stk >>= fun t =>
    .ok (.done (setError c i inp.size (if t = 93 then E_unbalanced_array else E_unbalanced_object)))
  else .ok (.done (i, c))

def gStep (inp : Array Nat) (s : GState) : M (Next GState (Nat × Ctx)) :=
  if s.again then gAgain inp s.i s.stk s.c else gClose inp s.i s.stk s.c

def genericF (fuel : Nat) (inp : Array Nat) (i : Nat) (c : Ctx) : M (Nat × Ctx) := iter (gStep inp) fuel ⟨true, i, [], c⟩

/-- `flatcc_json_parser_generic_json` -/
def generic (inp : Array Nat) (i : Nat) (c : Ctx) : M (Nat × Ctx) := genericF (inp.size - i + 1) inp i c

/-! ### `flatcc_json_parser_unmatched_symbol` -/

def unmatchedSymbol (inp : Array Nat) (i : Nat) (c : Ctx) : M (Nat × Ctx) :=
  if c.flags &&& F_skip_unknown ≠ 0 then
    symbolEnd inp i c >>= fun r1 =>
    space inp r1.1 r1.2 >>= fun r2 =>
    if r2.1 ≠ inp.size then
      rd inp r2.1 >>= fun b =>
      if b = 58 then space inp (r2.1 + 1) r2.2 >>= fun r3 => generic inp r3.1 r3.2
      else .ok (setError r2.2 r2.1 inp.size E_expected_colon)
    else .ok (setError r2.2 r2.1 inp.size E_expected_colon)
  else .ok (setError c i inp.size E_unknown_symbol)

end Flatcc.JsonScan
