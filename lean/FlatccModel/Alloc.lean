import FlatccModel.Generated.Consts
/-!
# `flatcc_builder_default_alloc`: the growth policy of the builder's internal buffers

`len` is `iov_len` of one buffer; the function returns the new `iov_len` (the content is not modelled).
-/
namespace Flatcc.Alloc

/-- `while (n < request) n *= 2;` — `fuel` bounds the loop; `request` steps suffice for n ≥ 1 -/
def growTo : Nat → Nat → Nat → Nat
  | 0, n, _ => n
  | fuel + 1, n, request => if n < request then growTo fuel (2 * n) request else n

/-- the default size per buffer kind (`hint`) -/
def base (hint request : Nat) : Nat :=
  if hint = Flatcc.Consts.allocDs then 256
  else if hint = Flatcc.Consts.allocHt then request
  else if hint = Flatcc.Consts.allocFs then Flatcc.Consts.builderFrameSize * 8
  else if hint = Flatcc.Consts.allocUs then 64
  else 32

/-- new `iov_len` after `default_alloc(b, request, _, hint)` when `realloc` succeeds -/
def defaultAlloc (len request hint : Nat) : Nat :=
  if request = 0 then 0
  else
    let n := growTo request (base hint request) request
    if request ≤ len ∧ n ≤ len / 2 then len else n

theorem growTo_spec (fuel n request : Nat) (hn : 1 ≤ n) (hf : request ≤ fuel + n) :
    request ≤ growTo fuel n request ∧ (growTo fuel n request = n ∨ growTo fuel n request < 2 * request) ∧ n ≤ growTo fuel n request := by
  induction fuel generalizing n with
  | zero => unfold growTo; exact ⟨by omega, Or.inl rfl, Nat.le_refl _⟩
  | succ f ih =>
    simp only [growTo]
    split
    · rename_i h
      obtain ⟨a, b, c⟩ := ih (2 * n) (by omega) (by omega)
      refine ⟨a, ?_, by omega⟩
      rcases b with b | b
      · right; rw [b]; omega
      · right; exact b
    · exact ⟨by omega, Or.inl rfl, Nat.le_refl _⟩

theorem base_pos (hint request : Nat) (h : 1 ≤ request) : 1 ≤ base hint request := by
  unfold base
  split
  · omega
  · split
    · exact h
    · split
      · simp [Flatcc.Consts.builderFrameSize]
      · split <;> omega

theorem base_le (hint request : Nat) : base hint request ≤ max request (max 256 (Flatcc.Consts.builderFrameSize * 8)) := by
  unfold base
  split
  · omega
  · split
    · omega
    · split
      · omega
      · split <;> omega

end Flatcc.Alloc
