import FlatccModel.VerifierSound3
/-! Soundness, part 4: one generated call (`verifyKind`) against the reads of the matching accessors, then the whole table. -/
namespace Flatcc.Verifier

theorem comm_add (a b : Nat) : a + b = b + a := Nat.add_comm a b

/-- an offset field handled by `check_field`: either absent (only vtable reads) or a verified slot -/
theorem kind_sound {c : Ctx} {M : Nat} (P : Placed c M) (S : Schema) (w : WF S M) (fuel : Nat) (IHall : TableSoundAll S M fuel)
    (td : TD) (inv : TDInv c td) (f : Field) (hf : FieldWF M f)
    (h : verifyKind S c fuel td f = .ok ()) :
    ∀ fuel' a, a ∈ fieldAcc S c fuel' td.table f → Safe c a := by
  intro fuel' a ha
  have IH : TableSound S c fuel := IHall c P
  have hsz := P.size
  have hid := hf.1
  have hvt := readVt_spec P td f.id hid inv
  have htab := inv.tab4
  unfold verifyKind at h
  unfold fieldAcc at ha
  cases hk : f.kind with
  | scalar size align =>
    simp only [hk] at h ha
    have hal : align ∣ M := by have := hf.2; simp only [hk] at this; exact this
    rcases verifyField_spec P td f.id false size align hid hal inv h with hz | ⟨hz, hs⟩
    · simp only [hz, if_true] at ha; exact hvt.1 a ha
    · simp only [hz, if_false, List.mem_append, List.mem_cons, List.mem_nil_iff, or_false] at ha
      rcases ha with ha | rfl
      · exact hvt.1 a ha
      · exact hs
  | string =>
    simp only [hk] at h ha
    obtain ⟨r, hr, h⟩ := bind_ok h
    rcases getOffsetField_spec P td f.id f.required hid inv hr with ⟨hz, _⟩ | ⟨hz, rfl, hsafe, hin, hal4⟩
    · simp only [hz, if_true] at ha; exact hvt.1 a ha
    · simp only [] at h
      obtain ⟨o, ho, h⟩ := bind_ok h
      rw [comm_add (readVt c td.table f.id).1 td.table] at ho h
      obtain ⟨_, ho2⟩ := rd32_ok ho
      have holt := r32_lt c (td.table + (readVt c td.table f.id).1)
      simp only [hz, if_false, List.mem_append, List.mem_cons] at ha
      rcases ha with ha | rfl | ha
      · exact hvt.1 a ha
      · exact hsafe
      · rw [← ho2] at ha
        exact verifyString_safe P (by omega) (by omega) h a ha
  | vector esz align maxc =>
    simp only [hk] at h ha
    have hw2 : align ∣ M ∧ maxc * esz < 4294967296 := by have := hf.2; simp only [hk] at this; exact this
    obtain ⟨r, hr, h⟩ := bind_ok h
    rcases getOffsetField_spec P td f.id f.required hid inv hr with ⟨hz, _⟩ | ⟨hz, rfl, hsafe, hin, hal4⟩
    · simp only [hz, if_true] at ha; exact hvt.1 a ha
    · simp only [] at h
      obtain ⟨o, ho, h⟩ := bind_ok h
      obtain ⟨n, hv, _⟩ := bind_ok h
      rw [comm_add (readVt c td.table f.id).1 td.table] at ho hv
      obtain ⟨_, ho2⟩ := rd32_ok ho
      have holt := r32_lt c (td.table + (readVt c td.table f.id).1)
      have hvv := verifyVector_ok P (by omega) (by omega) hw2.1 hw2.2 hv
      simp only [hz, if_false, List.mem_append, List.mem_cons] at ha
      rcases ha with ha | rfl | ha
      · exact hvt.1 a ha
      · exact hsafe
      · rw [← ho2] at ha
        exact hvv.2.2.2.2 a ha
  | stringVector =>
    simp only [hk] at h ha
    obtain ⟨r, hr, h⟩ := bind_ok h
    rcases getOffsetField_spec P td f.id f.required hid inv hr with ⟨hz, _⟩ | ⟨hz, rfl, hsafe, hin, hal4⟩
    · simp only [hz, if_true] at ha; exact hvt.1 a ha
    · simp only [] at h
      obtain ⟨o, ho, h⟩ := bind_ok h
      rw [comm_add (readVt c td.table f.id).1 td.table] at ho h
      obtain ⟨_, ho2⟩ := rd32_ok ho
      have holt := r32_lt c (td.table + (readVt c td.table f.id).1)
      unfold verifyStringVector at h
      obtain ⟨n, hv, h⟩ := bind_ok h
      have hvv := verifyVector_ok P (by omega) (by omega) P.m4 (by decide) hv
      have hb : td.table + (readVt c td.table f.id).1 + o < 4294967296 := by omega
      have e1 : w32 (td.table + (readVt c td.table f.id).1 + o) = td.table + (readVt c td.table f.id).1 + o := by
        unfold w32; omega
      have e2 : w32 (td.table + (readVt c td.table f.id).1 + o + 4) = td.table + (readVt c td.table f.id).1 + o + 4 := by
        unfold w32; omega
      rw [e1, e2] at h
      simp only [hz, if_false, List.mem_append, List.mem_cons] at ha
      rcases ha with ha | rfl | rfl | ha
      · exact hvt.1 a ha
      · exact hsafe
      · rw [← ho2]; exact safe4 P (by omega) hvv.2.2.1
      · rw [← ho2, ← hvv.1] at ha
        exact verifyStrings_safe P n _ (by omega) (by omega) h a ha
  | table t =>
    simp only [hk] at h ha
    obtain ⟨r, hr, h⟩ := bind_ok h
    rcases getOffsetField_spec P td f.id f.required hid inv hr with ⟨hz, _⟩ | ⟨hz, rfl, hsafe, hin, hal4⟩
    · simp only [hz, if_true] at ha; exact hvt.1 a ha
    · simp only [] at h
      obtain ⟨o, ho, h⟩ := bind_ok h
      rw [comm_add (readVt c td.table f.id).1 td.table] at ho h
      obtain ⟨_, ho2⟩ := rd32_ok ho
      have holt := r32_lt c (td.table + (readVt c td.table f.id).1)
      simp only [hz, if_false, List.mem_append, List.mem_cons] at ha
      rcases ha with ha | rfl | ha
      · exact hvt.1 a ha
      · exact hsafe
      · rw [← ho2] at ha
        exact IH _ _ _ _ (by omega) (by omega) h fuel' a ha
  | tableVector t =>
    simp only [hk] at h ha
    obtain ⟨r, hr, h⟩ := bind_ok h
    rcases getOffsetField_spec P td f.id f.required hid inv hr with ⟨hz, _⟩ | ⟨hz, rfl, hsafe, hin, hal4⟩
    · simp only [hz, if_true] at ha; exact hvt.1 a ha
    · simp only [] at h
      obtain ⟨o, ho, h⟩ := bind_ok h
      obtain ⟨_, _, h⟩ := bind_ok h
      obtain ⟨n, hv, h⟩ := bind_ok h
      rw [comm_add (readVt c td.table f.id).1 td.table] at ho hv h
      obtain ⟨_, ho2⟩ := rd32_ok ho
      have holt := r32_lt c (td.table + (readVt c td.table f.id).1)
      have hvv := verifyVector_ok P (by omega) (by omega) P.m4 (by decide) hv
      have e1 : w32 (td.table + (readVt c td.table f.id).1 + o) = td.table + (readVt c td.table f.id).1 + o := by
        unfold w32; omega
      have e2 : w32 (td.table + (readVt c td.table f.id).1 + o + 4) = td.table + (readVt c td.table f.id).1 + o + 4 := by
        unfold w32; omega
      rw [e1, e2] at h
      simp only [hz, if_false, List.mem_append, List.mem_cons] at ha
      rcases ha with ha | rfl | rfl | ha
      · exact hvt.1 a ha
      · exact hsafe
      · rw [← ho2]; exact safe4 P (by omega) hvv.2.2.1
      · rw [← ho2, ← hvv.1] at ha
        exact verifyTables_safe P S fuel IH _ t n _ (by omega) (by omega) h fuel' a ha
  | union u =>
    simp only [hk] at h ha
    have hid1 : 1 ≤ f.id := by have := hf.2; simp only [hk] at this; exact this
    have hidT : f.id - 1 < 32766 := by omega
    have hvtT := readVt_spec P td (f.id - 1) hidT inv
    obtain ⟨vteType, h0, h⟩ := bind_ok h
    rw [hvtT.2] at h0
    injection h0 with h0
    subst h0
    by_cases hzT : (readVt c td.table (f.id - 1)).1 = 0
    · simp only [hzT, if_true] at ha; exact hvtT.1 a ha
    · simp only [hzT, if_false] at h ha
      obtain ⟨_, hfT, h⟩ := bind_ok h
      obtain ⟨vteTable, h1, h⟩ := bind_ok h
      rw [hvt.2] at h1
      injection h1 with h1
      subst h1
      obtain ⟨ty, hty, h⟩ := bind_ok h
      obtain ⟨htyr, hty2⟩ := rd8_ok hty
      obtain ⟨_, hg, h⟩ := bind_ok h
      simp only [List.mem_append, List.mem_cons] at ha
      rcases ha with ha | rfl | ha
      · exact hvtT.1 a ha
      · exact safe1 (by omega)
      · rw [← hty2] at ha
        by_cases ht0 : ty = 0
        · simp only [ht0, if_true] at ha; contradiction
        · simp only [ht0, if_false] at ha h
          obtain ⟨r, hr, h⟩ := bind_ok h
          rcases getOffsetField_spec P td f.id f.required hid inv hr with ⟨hz, _⟩ | ⟨hz, rfl, hsafe, hin, hal4⟩
          · simp only [hz, if_true] at ha; exact hvt.1 a ha
          · simp only [] at h
            obtain ⟨o, ho, h⟩ := bind_ok h
            rw [comm_add (readVt c td.table f.id).1 td.table] at ho h
            obtain ⟨_, ho2⟩ := rd32_ok ho
            have holt := r32_lt c (td.table + (readVt c td.table f.id).1)
            simp only [hz, if_false, List.mem_append, List.mem_cons] at ha
            rcases ha with ha | rfl | ha
            · exact hvt.1 a ha
            · exact hsafe
            · rw [← ho2] at ha
              exact member_sound P S fuel IH _ (fun m' hm' => w.member u ty hm') _ _ _ (by omega) (by omega) h fuel' a ha
  | unionVector u =>
    simp only [hk] at h ha
    have hid1 : 1 ≤ f.id := by have := hf.2; simp only [hk] at this; exact this
    have hidT : f.id - 1 < 32766 := by omega
    have hvtT := readVt_spec P td (f.id - 1) hidT inv
    obtain ⟨vteType, h0, h⟩ := bind_ok h
    rw [hvtT.2] at h0
    injection h0 with h0
    subst h0
    obtain ⟨_, hpre, h⟩ := bind_ok h
    obtain ⟨rt, hrt, h⟩ := bind_ok h
    rcases getOffsetField_spec P td (f.id - 1) f.required hidT inv hrt with ⟨hzT, rfl⟩ | ⟨hzT, rfl, hsafeT, hinT, hal4T⟩
    · -- type vector absent ⇒ value vector absent: only vtable reads
      simp only [hzT, if_true] at hpre
      obtain ⟨vteTable, h1, hpre⟩ := bind_ok hpre
      rw [hvt.2] at h1
      injection h1 with h1
      subst h1
      obtain ⟨_, hg, _⟩ := bind_ok hpre
      have hz : (readVt c td.table f.id).1 = 0 := by
        have := guard_ok hg; simpa using this
      simp only [List.mem_append] at ha
      rcases ha with (ha | ha) | ha
      · simp only [hzT, if_true] at ha; exact hvtT.1 a ha
      · simp only [hz, if_true] at ha; exact hvt.1 a ha
      · simp only [hzT, if_true] at ha; contradiction
    · simp only [] at h
      obtain ⟨to, hto, h⟩ := bind_ok h
      obtain ⟨count, hvT, h⟩ := bind_ok h
      rw [comm_add (readVt c td.table (f.id - 1)).1 td.table] at hto hvT h
      obtain ⟨_, hto2⟩ := rd32_ok hto
      have htolt := r32_lt c (td.table + (readVt c td.table (f.id - 1)).1)
      have hvvT := verifyVector_ok P (by omega) (by omega) (Nat.one_dvd M) (by decide) hvT
      obtain ⟨r, hr, h⟩ := bind_ok h
      simp only [List.mem_append] at ha
      rcases ha with (ha | ha) | ha
      · -- reads of the type vector
        simp only [hzT, if_false, List.mem_append, List.mem_cons] at ha
        rcases ha with ha | rfl | ha
        · exact hvtT.1 a ha
        · exact hsafeT
        · rw [← hto2] at ha; exact hvvT.2.2.2.2 a ha
      · -- reads of the value vector field
        rcases getOffsetField_spec P td f.id (f.required || decide (count > 0)) hid inv hr with ⟨hz, _⟩ | ⟨hz, rfl, hsafe, hin, hal4⟩
        · simp only [hz, if_true] at ha; exact hvt.1 a ha
        · simp only [] at h
          obtain ⟨o, ho, h⟩ := bind_ok h
          obtain ⟨_, _, h⟩ := bind_ok h
          obtain ⟨n, hv, h⟩ := bind_ok h
          rw [comm_add (readVt c td.table f.id).1 td.table] at ho hv
          obtain ⟨_, ho2⟩ := rd32_ok ho
          have holt := r32_lt c (td.table + (readVt c td.table f.id).1)
          have hvv := verifyVector_ok P (by omega) (by omega) P.m4 (by decide) hv
          simp only [hz, if_false, List.mem_append, List.mem_cons, List.mem_nil_iff, or_false] at ha
          rcases ha with ha | rfl | rfl
          · exact hvt.1 a ha
          · exact hsafe
          · rw [← ho2]; exact safe4 P (by omega) hvv.2.2.1
      · -- element reads
        simp only [hzT, if_false] at ha
        rcases getOffsetField_spec P td f.id (f.required || decide (count > 0)) hid inv hr with ⟨hz, rfl⟩ | ⟨hz, rfl, hsafe, hin, hal4⟩
        · -- value vector absent: only allowed when the type vector is empty ⇒ no element reads
          have hcnt : count = 0 := by
            unfold getOffsetField at hr
            obtain ⟨vte, hv0, hr⟩ := bind_ok hr
            rw [hvt.2] at hv0
            injection hv0 with hv0
            subst hv0
            simp only [hz, if_true] at hr
            obtain ⟨_, hg, _⟩ := bind_ok hr
            have := guard_ok hg
            simp only [Bool.not_eq_true', Bool.or_eq_false_iff, decide_eq_false_iff_not] at this
            omega
          rw [← hto2, ← hvvT.1, hcnt] at ha
          simp [unionElemsAcc] at ha
        · simp only [] at h
          obtain ⟨o, ho, h⟩ := bind_ok h
          obtain ⟨_, _, h⟩ := bind_ok h
          obtain ⟨n, hv, h⟩ := bind_ok h
          obtain ⟨_, hneq, h⟩ := bind_ok h
          rw [comm_add (readVt c td.table f.id).1 td.table] at ho hv h
          obtain ⟨_, ho2⟩ := rd32_ok ho
          have holt := r32_lt c (td.table + (readVt c td.table f.id).1)
          have hvv := verifyVector_ok P (by omega) (by omega) P.m4 (by decide) hv
          have hnc : n = count := by have := guard_ok hneq; simpa using this
          have e1 : w32 (td.table + (readVt c td.table (f.id - 1)).1 + to) = td.table + (readVt c td.table (f.id - 1)).1 + to := by
            unfold w32; omega
          have e2 : w32 (td.table + (readVt c td.table f.id).1 + o) = td.table + (readVt c td.table f.id).1 + o := by
            unfold w32; omega
          have e3 : w32 (td.table + (readVt c td.table f.id).1 + o + 4) = td.table + (readVt c td.table f.id).1 + o + 4 := by
            unfold w32; omega
          rw [e1, e2, e3] at h
          simp only [hz, if_false] at ha
          rw [← hto2, ← ho2, ← hvvT.1, ← hnc] at ha
          have hr1 := hvvT.2.1
          have hr2 := hvv.2.1
          exact verifyUnions_safe P S w fuel IH _ u n _ _ (by omega) (by omega) (by omega) h fuel' a ha
  | nestedTable t align =>
    simp only [hk] at h ha
    have hal : align ∣ M := by have := hf.2; simp only [hk] at this; exact this
    obtain ⟨r, hr, h⟩ := bind_ok h
    rcases getOffsetField_spec P td f.id f.required hid inv hr with ⟨hz, _⟩ | ⟨hz, rfl, hsafe, hin, hal4⟩
    · simp only [hz, if_true] at ha; exact hvt.1 a ha
    · simp only [] at h
      obtain ⟨o, ho, h⟩ := bind_ok h
      obtain ⟨len, hv, h⟩ := bind_ok h
      rw [comm_add (readVt c td.table f.id).1 td.table] at ho hv h
      obtain ⟨_, ho2⟩ := rd32_ok ho
      have holt := r32_lt c (td.table + (readVt c td.table f.id).1)
      have hvv := verifyVector_ok P (by omega) (by omega) hal (by decide) hv
      have hrange := hvv.2.1
      have e1 : w32 (td.table + (readVt c td.table f.id).1 + o) = td.table + (readVt c td.table f.id).1 + o := by
        unfold w32; omega
      have e2 : w32 (td.table + (readVt c td.table f.id).1 + o + 4) = td.table + (readVt c td.table f.id).1 + o + 4 := by
        unfold w32; omega
      rw [e1, e2] at h
      unfold verifyNestedTable at h
      obtain ⟨_, hh, h⟩ := bind_ok h
      obtain ⟨ro, hro, h⟩ := bind_ok h
      obtain ⟨P', hn8⟩ := verifyHeader_placed (c := sub c (td.table + (readVt c td.table f.id).1 + o + 4) len) P.m4 P.mpow hh
      obtain ⟨_, hro2⟩ := rd32_ok hro
      have hn8' : 8 ≤ len := hn8
      simp only [hz, if_false, List.mem_append, List.mem_cons, List.mem_map] at ha
      rcases ha with ha | rfl | ha | ⟨a', ha', rfl⟩
      · exact hvt.1 a ha
      · exact hsafe
      · rw [← ho2] at ha; exact vectorAcc_bytes_safe P hvv.1 hrange hvv.2.2.1 a ha
      · rw [← ho2, ← hvv.1] at ha'
        rw [← ho2]
        apply safe_shift (len := len) (by omega)
        rcases ha' with rfl | ha'
        · exact safe4 P' (by show 0 + 4 ≤ len; omega) (by decide)
        · rw [← hro2] at ha'
          have := IHall _ P' 0 ro td.ttl t (by omega) (by rw [hro2]; exact r32_lt _ _) h fuel' a'
          rw [Nat.zero_add] at this
          exact this ha'
  | nestedStruct size align =>
    simp only [hk] at h ha
    have hw2 : align ∣ M ∧ size < 4294967296 := by have := hf.2; simp only [hk] at this; exact this
    obtain ⟨r, hr, h⟩ := bind_ok h
    rcases getOffsetField_spec P td f.id f.required hid inv hr with ⟨hz, _⟩ | ⟨hz, rfl, hsafe, hin, hal4⟩
    · simp only [hz, if_true] at ha; exact hvt.1 a ha
    · simp only [] at h
      obtain ⟨o, ho, h⟩ := bind_ok h
      obtain ⟨len, hv, h⟩ := bind_ok h
      rw [comm_add (readVt c td.table f.id).1 td.table] at ho hv h
      obtain ⟨_, ho2⟩ := rd32_ok ho
      have holt := r32_lt c (td.table + (readVt c td.table f.id).1)
      have hvv := verifyVector_ok P (by omega) (by omega) hw2.1 (by decide) hv
      have hrange := hvv.2.1
      have e1 : w32 (td.table + (readVt c td.table f.id).1 + o) = td.table + (readVt c td.table f.id).1 + o := by
        unfold w32; omega
      have e2 : w32 (td.table + (readVt c td.table f.id).1 + o + 4) = td.table + (readVt c td.table f.id).1 + o + 4 := by
        unfold w32; omega
      rw [e1, e2] at h
      obtain ⟨_, hh, h⟩ := bind_ok h
      obtain ⟨ro, hro, h⟩ := bind_ok h
      obtain ⟨P', hn8⟩ := verifyHeader_placed (c := sub c (td.table + (readVt c td.table f.id).1 + o + 4) len) P.m4 P.mpow hh
      obtain ⟨_, hro2⟩ := rd32_ok hro
      have hs := verifyStruct_safe P' (Nat.le_refl _) (by rw [hro2]; exact r32_lt _ _) hw2.2 hw2.1 h
      rw [Nat.zero_add, hro2, r32_sub, Nat.add_zero] at hs
      have hn8' : 8 ≤ len := hn8
      simp only [hz, if_false, List.mem_append, List.mem_cons, List.mem_nil_iff, or_false] at ha
      rcases ha with ha | rfl | ha | rfl | rfl
      · exact hvt.1 a ha
      · exact hsafe
      · rw [← ho2] at ha; exact vectorAcc_bytes_safe P hvv.1 hrange hvv.2.2.1 a ha
      · rw [← ho2]
        have := safe_shift (len := len) (by omega) (safe4 P' (by show 0 + 4 ≤ len; omega) (by decide))
        unfold shiftAcc at this
        simpa using this
      · rw [← ho2]
        have := safe_shift (len := len) (by omega) hs
        unfold shiftAcc at this
        simpa using this

theorem fields_sound {c : Ctx} {M : Nat} (P : Placed c M) (S : Schema) (w : WF S M) (fuel : Nat) (IHall : TableSoundAll S M fuel)
    (td : TD) (inv : TDInv c td) :
    ∀ fs, (∀ f ∈ fs, FieldWF M f) → verifyFields S c fuel td fs = .ok () →
      ∀ fuel' a, a ∈ fieldsAcc S c fuel' td.table fs → Safe c a := by
  intro fs
  induction fs with
  | nil => intro _ _ fuel' a ha; unfold fieldsAcc at ha; contradiction
  | cons f fs ih =>
    intro hfs h fuel' a ha
    unfold verifyFields at h
    obtain ⟨_, h1, h2⟩ := bind_ok h
    unfold fieldsAcc at ha
    simp only [List.mem_append] at ha
    rcases ha with ha | ha
    · exact kind_sound P S w fuel IHall td inv f (hfs f List.mem_cons_self) h1 fuel' a ha
    · exact ih (fun g hg => hfs g (List.mem_cons_of_mem _ hg)) h2 fuel' a ha

/-- every table the verifier model accepts is safe to read through every accessor, to any depth -/
theorem table_sound_all (M : Nat) (S : Schema) (w : WF S M) : ∀ fuel, TableSoundAll S M fuel := by
  intro fuel
  induction fuel with
  | zero => intro c _ base offset ttl t _ _ h; unfold verifyTable at h; contradiction
  | succ fuel ih =>
    intro c P base offset ttl t hb ho h fuel' a ha
    obtain ⟨td, inv, htab, _, hf⟩ := verifyTable_header P S fuel base offset ttl t hb ho h
    cases fuel' with
    | zero => unfold tableAcc at ha; contradiction
    | succ fuel' =>
      unfold tableAcc at ha
      rw [← htab] at ha
      exact fields_sound P S w fuel ih td inv _ (w.table t) hf fuel' a ha

/-- every table the verifier model accepts is safe to read through every accessor, to any depth -/
theorem table_sound {c : Ctx} {M : Nat} (P : Placed c M) (S : Schema) (w : WF S M) : ∀ fuel, TableSound S c fuel :=
  fun fuel => table_sound_all M S w fuel c P

end Flatcc.Verifier
