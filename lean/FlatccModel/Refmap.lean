import FlatccModel.RefmapCore
import FlatccModel.Generated.Consts
/-!
# Reference map (`src/runtime/refmap.c`): full executable model on top of the probe core.

`RM` (from `RefmapCore`) holds `buckets` and the slot table (`src = 0` ⇒ empty); here the element
count, the load-factor test, `resize` with rehash, `reset`, `clear` and the public `insert`/`find`.
The hash function is a parameter of every definition; `murmur` is the one the C code uses.
-/
namespace Flatcc.Refmap

/-- MurmurHash3 64-bit finalizer of `_flatcc_refmap_hash` with the default seed -/
def murmur (src : Nat) : Nat :=
  let x := (src % 18446744073709551616) ^^^ 0x2f693b52
  let x := x ^^^ (x >>> 33)
  let x := (x * 0xff51afd7ed558ccd) % 18446744073709551616
  let x := x ^^^ (x >>> 33)
  let x := (x * 0xc4ceb9fe1a85ec53) % 18446744073709551616
  x ^^^ (x >>> 33)

/-- `(size_t)(FLATCC_REFMAP_LOAD_FACTOR * 256.0f)` = 179 for 0.7f; regenerated constant is per mille -/
def loadN : Nat := 179
def minBuckets : Nat := 8

/-- `_flatcc_refmap_above_load_factor` -/
def aboveLoad (count buckets : Nat) : Bool := decide (count ≥ buckets * loadN / 256)

structure Map where
  count : Nat
  rm : RM
  /-- set if the rehash loop of `resize` would itself have triggered a resize (never, see theorems) -/
  nested : Bool := false
  deriving Repr

def Map.init : Map := { count := 0, rm := { buckets := 0, table := #[] } }

/-- the probe-and-store part of `flatcc_refmap_insert` (after the load test) -/
def insertSlot (hash : Nat → Nat) (m : Map) (src : Nat) (ref : Int) : Map :=
  let j := walk m.rm (hash src) src 0 m.rm.buckets
  if srcAt m.rm j = 0 then
    { m with count := m.count + 1, rm := { m.rm with table := m.rm.table.setIfInBounds j (src, ref) } }
  else
    { m with rm := { m.rm with table := m.rm.table.setIfInBounds j (src, ref) } }

/-- `while (above_load_factor(count, buckets)) buckets *= 2;` -/
def growLoop (count : Nat) : Nat → Nat → Nat
  | 0, b => b
  | fuel+1, b => if aboveLoad count b then growLoop count fuel (b * 2) else b

/-- `flatcc_refmap_resize` (allocation failure is modelled in the C13 machinery, not here) -/
def resize (hash : Nat → Nat) (m : Map) (count : Nat) : Map :=
  let count := if count < m.count then m.count else count
  let buckets := growLoop count (count + 64) minBuckets
  if m.rm.buckets = buckets then m else
  let fresh : Map := { count := 0, rm := { buckets := buckets, table := Array.replicate buckets (0, 0) }, nested := m.nested }
  m.rm.table.foldl (fun acc slot =>
    if slot.1 = 0 then acc
    else
      let acc := if aboveLoad acc.count acc.rm.buckets then { acc with nested := true } else acc
      insertSlot hash acc slot.1 slot.2) fresh

/-- `flatcc_refmap_insert`; returns the new map and the returned reference -/
def insert (hash : Nat → Nat) (m : Map) (src : Nat) (ref : Int) : Map × Int :=
  if src = 0 then (m, ref) else
  let m := if aboveLoad m.count m.rm.buckets then resize hash m (m.count * 2) else m
  (insertSlot hash m src ref, ref)

/-- `flatcc_refmap_find` -/
def find' (hash : Nat → Nat) (m : Map) (src : Nat) : Int :=
  if m.count = 0 then 0 else find hash m.rm src

/-- `flatcc_refmap_reset`: keeps the table size, removes all items -/
def reset (m : Map) : Map :=
  { m with count := 0, rm := { m.rm with table := if m.count = 0 then m.rm.table else Array.replicate m.rm.buckets (0, 0) } }

/-- `flatcc_refmap_clear` -/
def clear (_ : Map) : Map := Map.init

inductive Op
  | ins (src : Nat) (ref : Int)
  | fnd (src : Nat)
  | rsz (n : Nat)
  | rst
  | clr
  deriving Repr

/-- one public call; the `Int` is what the C function returns (0 for void / resize success) -/
def step (hash : Nat → Nat) (m : Map) : Op → Map × Int
  | .ins s r => insert hash m s r
  | .fnd s => (m, find' hash m s)
  | .rsz n => (resize hash m n, 0)
  | .rst => (reset m, 0)
  | .clr => (clear m, 0)

/-- the abstract map the property speaks of: last reference stored under each address since the last reset/clear -/
def spec : List Op → Nat → Int
  | [], _ => 0
  | op :: rest, k =>
    match op with
    | .ins s r => if s = k ∧ s ≠ 0 then r else spec rest k
    | .fnd _ => spec rest k
    | .rsz _ => spec rest k
    | .rst => 0
    | .clr => 0

/-- executable form of the invariant (checked on every state of the correspondence run; the proofs use `Inv`) -/
def adjDistinct : List Nat → Bool
  | a :: b :: r => a != b && adjDistinct (b :: r)
  | _ => true

def invOk (hash : Nat → Nat) (m : Map) : Bool :=
  let N := m.rm.buckets
  let occ := (m.rm.table.toList.filter (fun s => s.1 != 0)).map (·.1)
  m.rm.table.size == N &&
  (N == 0 || (decide (m.count < N) && occ.length == m.count &&
    adjDistinct (occ.toArray.qsort (· < ·)).toList &&
    (List.range N).all (fun t =>
      let src := srcAt m.rm t
      src == 0 || (
        -- the probe path from the home slot to t is hole-free
        (let home := hash src % N
         let dist := (t + N - home) % N
         (List.range dist).all (fun i => srcAt m.rm ((home + i) % N) != 0))))))

end Flatcc.Refmap
