import FlatccModel.Find
/-!
# scan / rscan, comparators, offset-relative swap (generated reader + sort text)

Model of the generic text `codegen_c_reader.c` / `codegen_c_sort.c` emit into
`flatbuffers_common_reader.h`: `__flatbuffers_scan_by_field`, `__flatbuffers_rscan_by_field`,
`__flatbuffers_scalar_cmp`, `__flatbuffers_string_n_cmp`, `__flatbuffers_string_cmp`,
`__flatbuffers_uoffset_swap`.
-/
namespace Flatcc.Sort

/-! ## scan / rscan -/

/-- `for (i = b; i < e; ++i) if (D(elem i, key) == 0) return i;`  (fuel = e - b suffices) -/
def scanLoop (cmp : Nat → Int) : Nat → Nat → Nat → Option Nat
  | 0, _, _ => none
  | f+1, i, e => if i < e then (if cmp i = 0 then some i else scanLoop cmp f (i + 1) e) else none

/-- `N_vec_scan_ex(vec, begin, end, key)`: `end` is clamped to the vector length
(`flatbuffers_end = (size_t)-1` therefore means "to the end") -/
def scan (cmp : Nat → Int) (len b e : Nat) : Option Nat :=
  scanLoop cmp (min e len - b) b (min e len)

/-- `i = e; while (i-- > b) if (D(elem i, key) == 0) return i;` -/
def rscanLoop (cmp : Nat → Int) (b : Nat) : Nat → Option Nat
  | 0 => none
  | i+1 => if i + 1 > b then (if cmp i = 0 then some i else rscanLoop cmp b i) else none

def rscan (cmp : Nat → Int) (len b e : Nat) : Option Nat := rscanLoop cmp b (min e len)

theorem scanLoop_some (cmp : Nat → Int) : ∀ f i e r, scanLoop cmp f i e = some r →
    i ≤ r ∧ r < e ∧ cmp r = 0 ∧ ∀ j, i ≤ j → j < r → cmp j ≠ 0 := by
  intro f
  induction f with
  | zero => intro i e r h; simp [scanLoop] at h
  | succ f ih =>
    intro i e r h
    unfold scanLoop at h
    split at h
    · split at h
      · injection h with h; subst h
        exact ⟨Nat.le_refl _, by assumption, by assumption, fun j h1 h2 => by omega⟩
      · obtain ⟨h1, h2, h3, h4⟩ := ih _ _ _ h
        refine ⟨by omega, h2, h3, ?_⟩
        intro j hj1 hj2
        by_cases hji : j = i
        · subst hji; assumption
        · exact h4 j (by omega) hj2
    · contradiction

theorem scanLoop_none (cmp : Nat → Int) : ∀ f i e, e - i ≤ f → scanLoop cmp f i e = none →
    ∀ j, i ≤ j → j < e → cmp j ≠ 0 := by
  intro f
  induction f with
  | zero => intro i e hf _ j h1 h2; omega
  | succ f ih =>
    intro i e hf h j h1 h2
    unfold scanLoop at h
    split at h
    · split at h
      · contradiction
      · by_cases hji : j = i
        · subst hji; assumption
        · exact ih _ _ (by omega) h j (by omega) h2
    · omega

theorem rscanLoop_some (cmp : Nat → Int) (b : Nat) : ∀ e r, rscanLoop cmp b e = some r →
    b ≤ r ∧ r < e ∧ cmp r = 0 ∧ ∀ j, r < j → j < e → cmp j ≠ 0 := by
  intro e
  induction e with
  | zero => intro r h; simp [rscanLoop] at h
  | succ e ih =>
    intro r h
    unfold rscanLoop at h
    split at h
    · split at h
      · injection h with h; subst h
        exact ⟨by omega, by omega, by assumption, fun j h1 h2 => by omega⟩
      · obtain ⟨h1, h2, h3, h4⟩ := ih _ h
        refine ⟨h1, by omega, h3, ?_⟩
        intro j hj1 hj2
        by_cases hje : j = e
        · subst hje; assumption
        · exact h4 j hj1 (by omega)
    · contradiction

theorem rscanLoop_none (cmp : Nat → Int) (b : Nat) : ∀ e, rscanLoop cmp b e = none →
    ∀ j, b ≤ j → j < e → cmp j ≠ 0 := by
  intro e
  induction e with
  | zero => intro _ j _ h; omega
  | succ e ih =>
    intro h j h1 h2
    unfold rscanLoop at h
    split at h
    · split at h
      · contradiction
      · by_cases hje : j = e
        · subst hje; assumption
        · exact ih h j h1 (by omega)
    · omega

/-! ## comparators -/

/-- `__flatbuffers_scalar_cmp` / `__flatbuffers_scalar_diff` -/
def scalarCmp (x y : Int) : Int := if x < y then -1 else if x > y then 1 else 0

/-- `strncmp(a, b, n)` on byte lists that are followed by a NUL terminator in memory;
only the sign of the result is meaningful. Bytes compare as `unsigned char`. -/
def strncmp : List Nat → List Nat → Nat → Int
  | _, _, 0 => 0
  | [], [], _ => 0
  | [], y :: _, _ => if y = 0 then 0 else -1
  | x :: _, [], _ => if x = 0 then 0 else 1
  | x :: xs, y :: ys, n+1 =>
    if x < y then -1 else if x > y then 1 else if x = 0 then 0 else strncmp xs ys n

/-- `__flatbuffers_string_n_cmp(v, s, n)`: `v` a flatbuffer string (length known), `s` the first `n` bytes of the key -/
def stringNCmp (v s : List Nat) : Int :=
  let x := strncmp v s (min v.length s.length)
  if x ≠ 0 then x else if v.length < s.length then -1 else if v.length > s.length then 1 else 0

/-- `__flatbuffers_string_cmp(v, s, _)` = `strcmp(v, s)`, both NUL-terminated in memory -/
def strcmp (v s : List Nat) : Int := strncmp v s (max v.length s.length + 1)

/-- plain lexicographic comparison of byte lists (specification) -/
def lexCmp : List Nat → List Nat → Int
  | [], [] => 0
  | [], _ :: _ => -1
  | _ :: _, [] => 1
  | x :: xs, y :: ys => if x < y then -1 else if x > y then 1 else lexCmp xs ys

def NulFree (l : List Nat) : Prop := ∀ c ∈ l, c ≠ 0

theorem lexCmp_refl (x : List Nat) : lexCmp x x = 0 := by
  induction x with
  | nil => rfl
  | cons a x ih => simp [lexCmp, ih]

theorem lexCmp_range (x y : List Nat) : lexCmp x y = -1 ∨ lexCmp x y = 0 ∨ lexCmp x y = 1 := by
  induction x generalizing y with
  | nil => cases y <;> simp [lexCmp]
  | cons a x ih =>
    cases y with
    | nil => simp [lexCmp]
    | cons b y =>
      simp only [lexCmp]
      split
      · simp
      · split
        · simp
        · exact ih y

theorem lexCmp_antisymm (x y : List Nat) : lexCmp y x = -(lexCmp x y) := by
  induction x generalizing y with
  | nil => cases y <;> simp [lexCmp]
  | cons a x ih =>
    cases y with
    | nil => simp [lexCmp]
    | cons b y =>
      simp only [lexCmp]
      by_cases h1 : a < b
      · have : ¬ b < a := by omega
        simp [h1, this]
      · by_cases h2 : a > b
        · simp [h1, h2]
        · have : ¬ b < a := by omega
          have : ¬ b > a := by omega
          have e : a = b := by omega
          subst e
          simp only [Nat.lt_irrefl, gt_iff_lt, if_false]
          exact ih y

theorem lexCmp_trans_lt (x y z : List Nat) (h1 : lexCmp x y < 0) (h2 : lexCmp y z ≤ 0) : lexCmp x z < 0 := by
  induction x generalizing y z with
  | nil =>
    cases y with
    | nil => simp [lexCmp] at h1
    | cons b y =>
      cases z with
      | nil => simp [lexCmp] at h2
      | cons c z => simp [lexCmp]
  | cons a x ih =>
    cases y with
    | nil => simp [lexCmp] at h1
    | cons b y =>
      cases z with
      | nil => simp [lexCmp] at h2
      | cons c z =>
        simp only [lexCmp] at h1 h2 ⊢
        by_cases hab : a < b
        · by_cases hbc : b < c
          · have : a < c := by omega
            simp [this]
          · by_cases hbc2 : b > c
            · simp [hbc, hbc2] at h2
            · have : a < c := by omega
              simp [this]
        · by_cases hab2 : a > b
          · simp [hab, hab2] at h1
          · simp only [hab, hab2, if_false] at h1
            have e : a = b := by omega
            subst e
            by_cases hbc : a < c
            · simp [hbc]
            · by_cases hbc2 : a > c
              · simp [hbc, hbc2] at h2
              · simp only [hbc, hbc2, if_false] at h2 ⊢
                exact ih y z h1 h2

theorem lexCmp_trans_le (x y z : List Nat) (h1 : lexCmp x y ≤ 0) (h2 : lexCmp y z ≤ 0) : lexCmp x z ≤ 0 := by
  induction x generalizing y z with
  | nil => cases z <;> simp [lexCmp]
  | cons a x ih =>
    cases y with
    | nil => simp [lexCmp] at h1
    | cons b y =>
      cases z with
      | nil => simp [lexCmp] at h2
      | cons c z =>
        simp only [lexCmp] at h1 h2 ⊢
        by_cases hab : a < b
        · by_cases hbc : b < c
          · have : a < c := by omega
            simp [this]
          · by_cases hbc2 : b > c
            · simp [hbc, hbc2] at h2
            · have : a < c := by omega
              simp [this]
        · by_cases hab2 : a > b
          · simp [hab, hab2] at h1
          · simp only [hab, hab2, if_false] at h1
            have e : a = b := by omega
            subst e
            by_cases hbc : a < c
            · simp [hbc]
            · by_cases hbc2 : a > c
              · simp [hbc, hbc2] at h2
              · simp only [hbc, hbc2, if_false] at h2 ⊢
                exact ih y z h1 h2

/-- on NUL-free strings the generated comparator is lexicographic byte order -/
theorem strncmp_min_eq (v s : List Nat) (hv : NulFree v) (hs : NulFree s) :
    let x := strncmp v s (min v.length s.length)
    (if x ≠ 0 then x else if v.length < s.length then -1 else if v.length > s.length then 1 else 0) = lexCmp v s := by
  induction v generalizing s with
  | nil =>
    cases s with
    | nil => simp [strncmp, lexCmp]
    | cons b s => simp [strncmp, lexCmp]
  | cons a v ih =>
    cases s with
    | nil => simp [strncmp, lexCmp]
    | cons b s =>
      have ha : a ≠ 0 := hv a (List.mem_cons_self)
      have hv' : NulFree v := fun c hc => hv c (List.mem_cons_of_mem _ hc)
      have hs' : NulFree s := fun c hc => hs c (List.mem_cons_of_mem _ hc)
      have hm : min (a :: v).length (b :: s).length = min v.length s.length + 1 := by
        simp only [List.length_cons]; omega
      simp only [hm, strncmp, lexCmp]
      by_cases h1 : a < b
      · simp [h1]
      · by_cases h2 : a > b
        · simp [h1, h2]
        · simp only [h1, h2, ha, if_false]
          have := ih s hv' hs'
          simp only [] at this
          simp only [List.length_cons, Nat.add_lt_add_iff_right, gt_iff_lt]
          exact this

theorem stringNCmp_eq_lex (v s : List Nat) (hv : NulFree v) (hs : NulFree s) : stringNCmp v s = lexCmp v s := by
  unfold stringNCmp
  exact strncmp_min_eq v s hv hs

/-- scalar keys of every integer type (values as `Int`): `__flatbuffers_scalar_diff(x, y) < 0` -/
def scalarLt (x y : Int) : Bool := decide (scalarCmp x y < 0)

/-- string keys without embedded NUL (any bytes 1..255, any lengths, prefixes of one another):
`__flatbuffers_string_diff(x, y) < 0` -/
def NFString := { l : List Nat // NulFree l }
instance : Inhabited NFString := ⟨⟨[], fun _ h => by simp at h⟩⟩

def stringLt (x y : NFString) : Bool := decide (stringNCmp x.1 y.1 < 0)

/-! ## offset-relative swap -/

/-- `__flatbuffers_uoffset_swap(vec, a, b)`: element `i` sits at byte `4*i` of the vector body and
stores a 32-bit offset relative to its own position.  All arithmetic is `uoffset_t` (mod 2^32). -/
def uoffsetSwap (v : Array Nat) (a b : Nat) : Array Nat :=
  let d : Int := (((a : Int) - (b : Int)) * 4) % 4294967296
  let ta : Int := ((v[b]! : Int) - d) % 4294967296
  let tb : Int := ((v[a]! : Int) + d) % 4294967296
  (v.setIfInBounds a ta.toNat).setIfInBounds b tb.toNat

/-- position (relative to the vector body) that element `i` points at -/
def target (v : Array Nat) (i : Nat) : Nat := 4 * i + v[i]!

end Flatcc.Sort
