import FlatccModel.Base64
/-!
# base64 (`pbase64.h`) — theorems

For BOTH alphabets, with and without padding, and for EVERY byte string `s`:

* `encode_length`            the encoder writes exactly `base64_encoded_size` characters
* `decode_encode`            decoding the encoder's output (same alphabet, padded or not, with or without the
                             skipspace modifier, unlimited `dst_len`) returns 0, the original bytes, all input consumed
* `decodeLim_encode`         the same with any `dst_len ≥ s.length` — in particular the parser's `base64_decoded_size(len)`
* `decodedSize_bound`        `s.length ≤ base64_decoded_size(encoded length)` (the parser's allocation suffices)
* `encode_alphabet`, `encode_no_escape`   the output is alphabet characters and `=` only: never `"`/`\`/control/non-ASCII
* `decode_never_overruns`, `decodeLim_never_overruns`   for EVERY input text and mode: at most `base64_decoded_size(len)`
                             bytes are written, at most `dst_len` if one is given, `mark ≤ len` (no `size_t` wrap in
                             `*src_len -= mark`)
* `printRooms_eq_encode`, `printChunks_eq_encode`   the printer's chunking writes exactly `encode s mode`, whatever the
                             flush points are; `print_chunk_in_bounds`: a chunk never reads past the data
* `parse_print`              json_parser's base64 vector decode applied to json_printer's text gives back `s`
-/
namespace Flatcc.Base64

/-! ## tables -/

theorem dec_alpha_rfc : ∀ d : Fin 64, decRfc (alphaRfc d.val) = d.val := by decide
theorem dec_alpha_url : ∀ d : Fin 64, decUrl (alphaUrl d.val) = d.val := by decide
theorem dec_alpha_rfc_skip : ∀ d : Fin 64, decRfcSkip (alphaRfc d.val) = d.val := by decide
theorem dec_alpha_url_skip : ∀ d : Fin 64, decUrlSkip (alphaUrl d.val) = d.val := by decide

/-- an ASCII letter, digit, or one of `+ / - _` -/
def isB64Char (b : Nat) : Bool :=
  (65 ≤ b && b ≤ 90) || (97 ≤ b && b ≤ 122) || (48 ≤ b && b ≤ 57) || b == 43 || b == 47 || b == 45 || b == 95

theorem alpha_rfc_char : ∀ d : Fin 64, isB64Char (alphaRfc d.val) = true := by decide
theorem alpha_url_char : ∀ d : Fin 64, isB64Char (alphaUrl d.val) = true := by decide

/-! ## decoding the encoder's output -/

/-- `T` decodes what `A` encodes; `'='` is the pad symbol -/
structure Pair (A T : Nat → Nat) : Prop where
  inv : ∀ d, d < 64 → T (A d) = d
  pad : T 61 = 66

variable {A T : Nat → Nat}

theorem decGo_sym0 (c : Nat) (h : T c < 64) (rest : List Nat) (lim : Option Nat) (mark : Nat) :
    decGo T (c :: rest) [] lim mark = decGo T rest [T c] lim mark := by
  simp [decGo, h]

theorem decGo_sym1 (c a : Nat) (h : T c < 64) (rest : List Nat) (lim : Option Nat) (mark : Nat) :
    decGo T (c :: rest) [a] lim mark = decGo T rest [a, T c] lim mark := by
  simp [decGo, h]

theorem decGo_sym2 (c a b : Nat) (h : T c < 64) (rest : List Nat) (lim : Option Nat) (mark : Nat) :
    decGo T (c :: rest) [a, b] lim mark = decGo T rest [a, b, T c] lim mark := by
  simp [decGo, h]

theorem decGo_sym3_none (c h0 h1 h2 : Nat) (h : T c < 64) (rest : List Nat) (mark : Nat) :
    decGo T (c :: rest) [h0, h1, h2] none mark =
      (decGo T rest [] none rest.length).push
        [(h0 * 4 + h1 / 16) % 256, (h1 * 16 + h2 / 4) % 256, (h2 * 64 + T c) % 256] := by
  simp [decGo, h, limLt]

theorem decGo_sym3_some (c h0 h1 h2 l : Nat) (h : T c < 64) (hl : 3 ≤ l) (rest : List Nat) (mark : Nat) :
    decGo T (c :: rest) [h0, h1, h2] (some l) mark =
      if l - 3 = 0 then ⟨0, [(h0 * 4 + h1 / 16) % 256, (h1 * 16 + h2 / 4) % 256, (h2 * 64 + T c) % 256], rest.length⟩
      else (decGo T rest [] (some (l - 3)) rest.length).push
        [(h0 * 4 + h1 / 16) % 256, (h1 * 16 + h2 / 4) % 256, (h2 * 64 + T c) % 256] := by
  have : ¬ l < 3 := by omega
  simp [decGo, h, limLt, this]

theorem decGo_encGo (hp : Pair A T) (pad : Bool) (s : List Nat) :
    ∀ (lim : Option Nat) (mark : Nat), (∀ b ∈ s, b < 256) → (∀ l, lim = some l → s.length ≤ l ∧ 0 < l) →
      decGo T (encGo A pad s) [] lim mark = ⟨0, s, 0⟩ := by
  induction s using encGo.induct with
  | case1 s0 s1 s2 rest ih =>
    intro lim mark hs hl
    have h0 : s0 < 256 := hs s0 (by simp)
    have h1 : s1 < 256 := hs s1 (by simp)
    have h2 : s2 < 256 := hs s2 (by simp)
    have hr : ∀ b ∈ rest, b < 256 := fun b hb => hs b (by simp [hb])
    have e0 := hp.inv (s0 / 4) (by omega)
    have e1 := hp.inv (s0 % 4 * 16 + s1 / 16) (by omega)
    have e2 := hp.inv (s1 % 16 * 4 + s2 / 64) (by omega)
    have e3 := hp.inv (s2 % 64) (by omega)
    have b0 : (s0 / 4 * 4 + (s0 % 4 * 16 + s1 / 16) / 16) % 256 = s0 := by omega
    have b1 : ((s0 % 4 * 16 + s1 / 16) * 16 + (s1 % 16 * 4 + s2 / 64) / 4) % 256 = s1 := by omega
    have b2 : ((s1 % 16 * 4 + s2 / 64) * 64 + s2 % 64) % 256 = s2 := by omega
    rw [encGo, decGo_sym0 _ (by omega), decGo_sym1 _ _ (by omega), decGo_sym2 _ _ _ (by omega)]
    cases lim with
    | none =>
      rw [decGo_sym3_none _ _ _ _ (by omega), ih none _ hr (by simp)]
      simp [DecSt.push, e0, e1, e2, e3, b0, b1, b2]
    | some l =>
      have hl' := hl l rfl
      simp only [List.length_cons] at hl'
      rw [decGo_sym3_some _ _ _ _ _ (by omega) (by omega)]
      split
      · have : rest = [] := by
          cases rest with
          | nil => rfl
          | cons _ _ => simp only [List.length_cons] at hl'; omega
        subst this
        simp [encGo, e0, e1, e2, e3, b0, b1, b2]
      · rw [ih (some (l - 3)) _ hr (by intro l' h'; cases h'; omega)]
        simp [DecSt.push, e0, e1, e2, e3, b0, b1, b2]
  | case2 s0 s1 =>
    intro lim mark hs hl
    have h0 : s0 < 256 := hs s0 (by simp)
    have h1 : s1 < 256 := hs s1 (by simp)
    have e0 := hp.inv (s0 / 4) (by omega)
    have e1 := hp.inv (s0 % 4 * 16 + s1 / 16) (by omega)
    have e2 := hp.inv (s1 % 16 * 4) (by omega)
    have b0 : (s0 / 4 * 4 + (s0 % 4 * 16 + s1 / 16) / 16) % 256 = s0 := by omega
    have d : (s1 % 16 * 4) * 64 % 256 = 0 := by omega
    have hl2 : limLt lim 2 = false := by
      cases lim with
      | none => rfl
      | some l => have := hl l rfl; simp only [List.length_cons, List.length_nil] at this; simp [limLt]; omega
    rw [encGo, decGo_sym0 _ (by omega), decGo_sym1 _ _ (by omega), decGo_sym2 _ _ _ (by omega)]
    cases pad <;> simp [decGo, decTail, stripPad, hp.pad, e0, e1, e2, b0, d, hl2] <;> omega
  | case3 s0 =>
    intro lim mark hs hl
    have h0 : s0 < 256 := hs s0 (by simp)
    have e0 := hp.inv (s0 / 4) (by omega)
    have e1 := hp.inv (s0 % 4 * 16) (by omega)
    have d : (s0 % 4 * 16) * 16 % 256 = 0 := by omega
    have hl1 : limLt lim 1 = false := by
      cases lim with
      | none => rfl
      | some l => have := hl l rfl; simp only [List.length_cons, List.length_nil] at this; simp [limLt]; omega
    rw [encGo, decGo_sym0 _ (by omega), decGo_sym1 _ _ (by omega)]
    cases pad <;> simp [decGo, decTail, stripPad, hp.pad, e0, e1, d, hl1] <;> omega
  | case4 =>
    intro lim mark _ _
    simp [encGo, decGo, decTail]

theorem decodedSize_eq (n : Nat) : decodedSize n = n / 4 * 3 + (n % 4 - 1) := by
  unfold decodedSize; (repeat' split) <;> omega

theorem decodedSize_mono {a b : Nat} (h : a ≤ b) : decodedSize a ≤ decodedSize b := by
  rw [decodedSize_eq, decodedSize_eq]; omega

theorem encodedSize_add3 (n mode : Nat) : encodedSize (n + 3) mode = encodedSize n mode + 4 := by
  unfold encodedSize; (repeat' split) <;> omega

theorem decTail_out_le (hold : List Nat) (lim : Option Nat) (mark r : Nat) :
    (decTail hold lim mark r).out.length ≤ decodedSize hold.length := by
  unfold decTail
  split
  · simp
  · (repeat' split) <;> simp [decodedSize]
  · (repeat' split) <;> simp [decodedSize]
  · simp

theorem decTail_out_lim (hold : List Nat) (l mark r : Nat) :
    (decTail hold (some l) mark r).out.length ≤ l := by
  unfold decTail
  split
  · simp
  · (repeat' split) <;> simp_all [limLt] <;> omega
  · (repeat' split) <;> simp_all [limLt] <;> omega
  · simp

theorem decTail_mark_le (hold : List Nat) (lim : Option Nat) (mark r N : Nat) (hm : mark ≤ N) (hr : r ≤ N) :
    (decTail hold lim mark r).mark ≤ N := by
  unfold decTail
  split
  · simpa
  · (repeat' split) <;> simpa
  · (repeat' split) <;> simpa
  · simpa

theorem stripPad_length_le (T : Nat → Nat) (n : Nat) (l : List Nat) : (stripPad T n l).length ≤ l.length := by
  induction n generalizing l with
  | zero => simp [stripPad]
  | succ n ih =>
    cases l with
    | nil => simp [stripPad]
    | cons c r =>
      simp only [stripPad]
      split
      · have := ih r; simp only [List.length_cons]; omega
      · simp

/-! ## sizes -/

theorem encGo_length (A : Nat → Nat) (mode : Nat) (s : List Nat) :
    (encGo A (padBit mode) s).length = encodedSize s.length mode := by
  induction s using encGo.induct with
  | case1 s0 s1 s2 rest ih =>
    simp only [encGo, List.length_cons, ih]
    rw [show rest.length + 1 + 1 + 1 = rest.length + 3 by omega, encodedSize_add3]
  | case2 s0 s1 => unfold encodedSize padBit; by_cases h : mode / 128 % 2 = 1 <;> simp [encGo, h]
  | case3 s0 => unfold encodedSize padBit; by_cases h : mode / 128 % 2 = 1 <;> simp [encGo, h]
  | case4 => simp [encGo, encodedSize]

/-- `encode_length` -/
theorem encode_length (s : List Nat) (mode : Nat) (hm : baseMode mode ≤ 1) :
    (encode s mode).length = encodedSize s.length mode := by
  unfold encode encAlphabet
  by_cases h0 : baseMode mode = 0
  · simp [h0, encGo_length]
  · have h1 : baseMode mode = 1 := by omega
    simp [h1, encGo_length]

theorem decodedSize_encodedSize (n mode : Nat) : n ≤ decodedSize (encodedSize n mode) := by
  rw [decodedSize_eq]; unfold encodedSize; (repeat' split) <;> omega

/-- `decodedSize_bound`: the parser's `flatcc_builder_extend_vector(ctx, base64_decoded_size(len))` has room for `s` -/
theorem decodedSize_bound (s : List Nat) (mode : Nat) (hm : baseMode mode ≤ 1) :
    s.length ≤ decodedSize (encode s mode).length := by
  rw [encode_length s mode hm]; exact decodedSize_encodedSize _ _

/-! ## mode plumbing -/

theorem pair_rfc : Pair alphaRfc decRfc := ⟨fun d h => dec_alpha_rfc ⟨d, h⟩, by decide⟩
theorem pair_url : Pair alphaUrl decUrl := ⟨fun d h => dec_alpha_url ⟨d, h⟩, by decide⟩
theorem pair_rfc_skip : Pair alphaRfc decRfcSkip := ⟨fun d h => dec_alpha_rfc_skip ⟨d, h⟩, by decide⟩
theorem pair_url_skip : Pair alphaUrl decUrlSkip := ⟨fun d h => dec_alpha_url_skip ⟨d, h⟩, by decide⟩

theorem pair_of_modes (mode dm : Nat) (hm : baseMode mode ≤ 1) (hd : baseMode dm = baseMode mode) :
    ∃ A T, encAlphabet mode = some A ∧ decTable dm = some T ∧ Pair A T := by
  unfold encAlphabet decTable
  by_cases h0 : baseMode mode = 0
  · rw [hd]; simp only [h0, if_true]
    cases skipBit dm
    · exact ⟨_, _, rfl, rfl, pair_rfc⟩
    · exact ⟨_, _, rfl, rfl, pair_rfc_skip⟩
  · have h1 : baseMode mode = 1 := by omega
    rw [hd]; simp only [h1, if_true, show ¬ (1 = 0) by omega, if_false]
    cases skipBit dm
    · exact ⟨_, _, rfl, rfl, pair_url⟩
    · exact ⟨_, _, rfl, rfl, pair_url_skip⟩

/-- Round trip with an output limit: `dst_len` is 0 (unlimited) or at least `s.length`. `mode` is any encode mode with a
supported alphabet (padding or not), `dm` any decode mode with the same alphabet (skipspace or not). -/
theorem decodeLim_encode (s : List Nat) (mode dm dstLen : Nat) (hs : ∀ b ∈ s, b < 256)
    (hm : baseMode mode ≤ 1) (hd : baseMode dm = baseMode mode) (hl : dstLen = 0 ∨ s.length ≤ dstLen) :
    decodeLim dstLen (encode s mode) dm = ⟨0, s, (encode s mode).length⟩ := by
  obtain ⟨A, T, hA, hT, hp⟩ := pair_of_modes mode dm hm hd
  unfold decodeLim encode
  simp only [hA, hT]
  rw [decGo_encGo hp (padBit mode) s _ _ hs]
  · simp
  · intro l h
    by_cases h0 : dstLen = 0
    · simp [h0] at h
    · simp only [h0, if_false, Option.some.injEq] at h; omega

/-- `decode_encode` -/
theorem decode_encode (s : List Nat) (mode dm : Nat) (hs : ∀ b ∈ s, b < 256)
    (hm : baseMode mode ≤ 1) (hd : baseMode dm = baseMode mode) :
    decode (encode s mode) dm = ⟨0, s, (encode s mode).length⟩ :=
  decodeLim_encode s mode dm 0 hs hm hd (Or.inl rfl)

/-! ## the encoder's output needs no JSON escaping -/

theorem encGo_mem (A : Nat → Nat) (pad : Bool) (s : List Nat) :
    (∀ b ∈ s, b < 256) → ∀ c ∈ encGo A pad s, c = 61 ∨ ∃ d, d < 64 ∧ c = A d := by
  induction s using encGo.induct with
  | case1 s0 s1 s2 rest ih =>
    intro hs c hc
    have h0 : s0 < 256 := hs s0 (by simp)
    have h1 : s1 < 256 := hs s1 (by simp)
    have h2 : s2 < 256 := hs s2 (by simp)
    simp only [encGo, List.mem_cons] at hc
    rcases hc with h | h | h | h | h
    · exact Or.inr ⟨_, by omega, h⟩
    · exact Or.inr ⟨_, by omega, h⟩
    · exact Or.inr ⟨_, by omega, h⟩
    · exact Or.inr ⟨_, by omega, h⟩
    · exact ih (fun b hb => hs b (by simp [hb])) c h
  | case2 s0 s1 =>
    intro hs c hc
    have h0 : s0 < 256 := hs s0 (by simp)
    have h1 : s1 < 256 := hs s1 (by simp)
    simp only [encGo, List.mem_cons] at hc
    rcases hc with h | h | h | h
    · exact Or.inr ⟨_, by omega, h⟩
    · exact Or.inr ⟨_, by omega, h⟩
    · exact Or.inr ⟨_, by omega, h⟩
    · cases pad <;> simp at h; exact Or.inl h
  | case3 s0 =>
    intro hs c hc
    have h0 : s0 < 256 := hs s0 (by simp)
    simp only [encGo, List.mem_cons] at hc
    rcases hc with h | h | h
    · exact Or.inr ⟨_, by omega, h⟩
    · exact Or.inr ⟨_, by omega, h⟩
    · cases pad <;> simp at h; exact Or.inl h
  | case4 => intro _ c hc; simp [encGo] at hc

/-- `encode_alphabet` -/
theorem encode_alphabet (s : List Nat) (mode : Nat) (hs : ∀ b ∈ s, b < 256) :
    ∀ b ∈ encode s mode, b = 61 ∨ isB64Char b = true := by
  intro b hb
  unfold encode encAlphabet at hb
  by_cases h0 : baseMode mode = 0
  · simp only [h0, if_true] at hb
    rcases encGo_mem _ _ s hs b hb with h | ⟨d, hd, h⟩
    · exact Or.inl h
    · exact Or.inr (h ▸ alpha_rfc_char ⟨d, hd⟩)
  · by_cases h1 : baseMode mode = 1
    · simp only [h1, if_true, show ¬ (1 = 0) by omega, if_false] at hb
      rcases encGo_mem _ _ s hs b hb with h | ⟨d, hd, h⟩
      · exact Or.inl h
      · exact Or.inr (h ▸ alpha_url_char ⟨d, hd⟩)
    · simp [h0, h1] at hb

/-- printable ASCII, not `"` (34), not `\` (92): `print_uint8_vector_base64_object` may copy it between quotes as is, and
the parser's `flatcc_json_parser_string_part` runs through it to the closing quote -/
theorem encode_no_escape (s : List Nat) (mode : Nat) (hs : ∀ b ∈ s, b < 256) :
    ∀ b ∈ encode s mode, b ≠ 34 ∧ b ≠ 92 ∧ 32 ≤ b ∧ b < 127 := by
  intro b hb
  rcases encode_alphabet s mode hs b hb with h | h
  · omega
  · simp only [isB64Char, Bool.or_eq_true, Bool.and_eq_true, decide_eq_true_eq, beq_iff_eq] at h
    omega

/-! ## hostile input: the decoder stays inside `base64_decoded_size(len)`, inside `dst_len`, and inside the source -/

theorem decGo_out_le (T : Nat → Nat) (src : List Nat) :
    ∀ (hold : List Nat) (lim : Option Nat) (mark : Nat), hold.length ≤ 3 →
      (decGo T src hold lim mark).out.length ≤ decodedSize (hold.length + src.length) := by
  induction src with
  | nil => intro hold lim mark _; simpa [decGo] using decTail_out_le hold lim mark 0
  | cons c rest ih =>
    intro hold lim mark hh
    have htail : ∀ r, (decTail hold lim mark r).out.length ≤ decodedSize (hold.length + (c :: rest).length) :=
      fun r => Nat.le_trans (decTail_out_le hold lim mark r) (decodedSize_mono (by omega))
    have hskip : (decGo T rest hold lim mark).out.length ≤ decodedSize (hold.length + (c :: rest).length) :=
      Nat.le_trans (ih hold lim mark hh) (decodedSize_mono (by simp))
    have hstep : ∀ hold' : List Nat, hold'.length = hold.length + 1 → hold'.length ≤ 3 →
        (decGo T rest hold' lim mark).out.length ≤ decodedSize (hold.length + (c :: rest).length) := by
      intro hold' h1 h3
      have := ih hold' lim mark h3
      rw [show hold'.length + rest.length = hold.length + (c :: rest).length by simp only [List.length_cons]; omega] at this
      exact this
    by_cases hv : T c < 64
    · rcases hold with _ | ⟨h0, _ | ⟨h1, _ | ⟨h2, _ | ⟨h3, r⟩⟩⟩⟩
      · simpa [decGo, hv] using hstep [T c] (by simp) (by simp)
      · simpa [decGo, hv] using hstep [h0, T c] (by simp) (by simp)
      · simpa [decGo, hv] using hstep [h0, h1, T c] (by simp) (by simp)
      · have e : decodedSize ([h0, h1, h2].length + (c :: rest).length) = decodedSize (0 + rest.length) + 3 := by
          rw [decodedSize_eq, decodedSize_eq]; simp only [List.length_cons, List.length_nil]; omega
        rw [e]
        simp only [decGo, hv, if_true]
        split
        · simp
        · cases lim with
          | none =>
            have := ih [] none rest.length (by simp)
            simp only [DecSt.push, List.length_append, List.length_cons, List.length_nil] at this ⊢
            omega
          | some l =>
            simp only []
            split
            · simp
            · have := ih [] (some (l - 3)) rest.length (by simp)
              simp only [DecSt.push, List.length_append, List.length_cons, List.length_nil] at this ⊢
              omega
      · simp only [List.length_cons] at hh; omega
    · by_cases h65 : T c = 65
      · have : ¬ (65 < 64) := by omega
        simpa [decGo, h65] using hskip
      · by_cases h66 : T c = 66
        · have : ¬ (66 < 64) := by omega
          simpa [decGo, h66] using htail _
        · simpa [decGo, hv, h65, h66] using htail _

theorem decGo_out_lim (T : Nat → Nat) (src : List Nat) :
    ∀ (hold : List Nat) (l mark : Nat), (decGo T src hold (some l) mark).out.length ≤ l := by
  induction src with
  | nil => intro hold l mark; simpa [decGo] using decTail_out_lim hold l mark 0
  | cons c rest ih =>
    intro hold l mark
    by_cases hv : T c < 64
    · rcases hold with _ | ⟨h0, _ | ⟨h1, _ | ⟨h2, _ | ⟨h3, r⟩⟩⟩⟩
      · simpa [decGo, hv] using ih [T c] l mark
      · simpa [decGo, hv] using ih [h0, T c] l mark
      · simpa [decGo, hv] using ih [h0, h1, T c] l mark
      · simp only [decGo, hv, if_true]
        split
        · simp
        · rename_i hlt
          have h3 : 3 ≤ l := by simp [limLt] at hlt; omega
          split
          · simp; omega
          · have := ih [] (l - 3) rest.length
            simp only [DecSt.push, List.length_append, List.length_cons, List.length_nil] at this ⊢
            omega
      · simpa [decGo, hv] using ih (h0 :: h1 :: h2 :: h3 :: (r ++ [T c])) l mark
    · by_cases h65 : T c = 65
      · have : ¬ (65 < 64) := by omega
        simpa [decGo, h65] using ih hold l mark
      · by_cases h66 : T c = 66
        · have : ¬ (66 < 64) := by omega
          simpa [decGo, h66] using decTail_out_lim hold l mark _
        · simpa [decGo, hv, h65, h66] using decTail_out_lim hold l mark _

/-- the C variable `mark` never exceeds the source length: `*src_len -= mark` does not wrap -/
theorem decGo_mark_le (T : Nat → Nat) (src : List Nat) :
    ∀ (hold : List Nat) (lim : Option Nat) (mark N : Nat), mark ≤ N → src.length ≤ N →
      (decGo T src hold lim mark).mark ≤ N := by
  induction src with
  | nil => intro hold lim mark N hm _; simpa [decGo] using decTail_mark_le hold lim mark 0 N hm (by omega)
  | cons c rest ih =>
    intro hold lim mark N hm hN
    simp only [List.length_cons] at hN
    by_cases hv : T c < 64
    · rcases hold with _ | ⟨h0, _ | ⟨h1, _ | ⟨h2, _ | ⟨h3, r⟩⟩⟩⟩
      · simpa [decGo, hv] using ih [T c] lim mark N hm (by omega)
      · simpa [decGo, hv] using ih [h0, T c] lim mark N hm (by omega)
      · simpa [decGo, hv] using ih [h0, h1, T c] lim mark N hm (by omega)
      · simp only [decGo, hv, if_true]
        split
        · simpa
        · cases lim with
          | none => simpa [DecSt.push] using ih [] none rest.length N (by omega) (by omega)
          | some l =>
            simp only []
            split
            · simp; omega
            · simpa [DecSt.push] using ih [] (some (l - 3)) rest.length N (by omega) (by omega)
      · simpa [decGo, hv] using ih (h0 :: h1 :: h2 :: h3 :: (r ++ [T c])) lim mark N hm (by omega)
    · by_cases h65 : T c = 65
      · have : ¬ (65 < 64) := by omega
        simpa [decGo, h65] using ih hold lim mark N hm (by omega)
      · by_cases h66 : T c = 66
        · have : ¬ (66 < 64) := by omega
          have := stripPad_length_le T (7 - hold.length) rest
          simpa [decGo, h66] using decTail_mark_le hold lim mark _ N hm (by omega)
        · simpa [decGo, hv, h65, h66] using decTail_mark_le hold lim mark _ N hm (by omega)

/-- For EVERY source text, EVERY mode and EVERY `dst_len`: the decoder writes at most `base64_decoded_size(len)` bytes,
at most `dst_len` bytes when a limit is given, and reports at most `len` source bytes as parsed. -/
theorem decodeLim_never_overruns (dstLen : Nat) (src : List Nat) (mode : Nat) :
    (decodeLim dstLen src mode).decoded.length ≤ decodedSize src.length
    ∧ (0 < dstLen → (decodeLim dstLen src mode).decoded.length ≤ dstLen)
    ∧ (decodeLim dstLen src mode).srcConsumed ≤ src.length := by
  unfold decodeLim
  cases decTable mode with
  | none => simp
  | some T =>
    refine ⟨?_, ?_, ?_⟩
    · simpa using decGo_out_le T src [] _ src.length (by simp)
    · intro h
      have : ¬ dstLen = 0 := by omega
      simpa [this] using decGo_out_lim T src [] dstLen src.length
    · simp

/-- `decode_never_overruns` -/
theorem decode_never_overruns (src : List Nat) (mode : Nat) :
    (decode src mode).decoded.length ≤ decodedSize src.length ∧ (decode src mode).srcConsumed ≤ src.length :=
  ⟨(decodeLim_never_overruns 0 src mode).1, (decodeLim_never_overruns 0 src mode).2.2⟩

/-- the subtraction in `srcConsumed = len - mark` is exact (no `size_t` wrap in `*src_len -= mark`) -/
theorem decode_mark_le (T : Nat → Nat) (src : List Nat) (lim : Option Nat) :
    (decGo T src [] lim src.length).mark ≤ src.length :=
  decGo_mark_le T src [] lim src.length src.length (Nat.le_refl _) (Nat.le_refl _)

/-! ## the printer's chunking -/

theorem encGo_append (A : Nat → Nat) (pad : Bool) (a b : List Nat) :
    a.length % 3 = 0 → encGo A pad (a ++ b) = encGo A false a ++ encGo A pad b := by
  induction a using encGo.induct with
  | case1 s0 s1 s2 rest ih =>
    intro h
    simp only [List.length_cons] at h
    simp only [List.cons_append, encGo, ih (by omega)]
  | case2 s0 s1 => intro h; simp at h
  | case3 s0 => intro h; simp at h
  | case4 => intro _; simp [encGo]

theorem baseMode_unpadded (mode : Nat) : baseMode (unpadded mode) = baseMode mode := by
  unfold unpadded baseMode; split <;> omega

theorem padBit_unpadded (mode : Nat) : padBit (unpadded mode) = false := by
  unfold unpadded padBit; split <;> simp <;> omega

theorem encAlphabet_unpadded (mode : Nat) : encAlphabet (unpadded mode) = encAlphabet mode := by
  unfold encAlphabet; rw [baseMode_unpadded]

/-- a chunk of a multiple of 3 source bytes encoded without padding, then the rest: the same text as one call -/
theorem encode_append (a b : List Nat) (mode : Nat) (h : a.length % 3 = 0) :
    encode (a ++ b) mode = encode a (unpadded mode) ++ encode b mode := by
  unfold encode
  rw [encAlphabet_unpadded, padBit_unpadded]
  cases encAlphabet mode with
  | none => simp
  | some A => exact encGo_append A _ a b h

/-- `k = ((pflush - p) + 3) & ~3` output characters with `k < len = base64_encoded_size(data_len, mode)`:
the chunk `n = k * 3 / 4` is a multiple of 3 source bytes and lies inside the data (no over-read), for any mode. -/
theorem print_chunk_in_bounds (room dataLen mode : Nat)
    (h : (room + 3) / 4 * 4 < encodedSize dataLen mode) :
    (room + 3) / 4 * 4 * 3 / 4 % 3 = 0 ∧ (room + 3) / 4 * 4 * 3 / 4 ≤ dataLen := by
  unfold encodedSize at h
  refine ⟨by omega, ?_⟩
  revert h; (repeat' split) <;> intro h <;> omega

/-- whatever the sequence of flush points: the chunked output is the one-call output -/
theorem printRooms_eq_encode (rooms : List Nat) : ∀ (src : List Nat) (mode : Nat),
    printRooms rooms src mode = encode src mode := by
  induction rooms with
  | nil => intro src mode; rfl
  | cons room rooms ih =>
    intro src mode
    unfold printRooms
    split
    · split
      · exact ih src mode
      · split
        · rfl
        · rename_i hk
          obtain ⟨h3, hle⟩ := print_chunk_in_bounds room src.length mode (by omega)
          rw [ih]
          rw [← encode_append _ _ _ (by rw [List.length_take, Nat.min_eq_left hle]; exact h3), List.take_append_drop]
    · rfl

theorem printRoomsPieces_flatten (rooms : List Nat) : ∀ (src : List Nat) (mode : Nat),
    (printRoomsPieces rooms src mode).flatten = printRooms rooms src mode := by
  induction rooms with
  | nil => intro src mode; simp [printRoomsPieces, printRooms]
  | cons room rooms ih =>
    intro src mode
    unfold printRoomsPieces printRooms
    split
    · split
      · simp [ih]
      · split
        · simp
        · simp [ih]
    · simp

theorem printChunksGo_eq_encode (chunk mode : Nat) (hc : chunk % 3 = 0) (fuel : Nat) : ∀ src : List Nat,
    printChunksGo chunk mode fuel src = encode src mode := by
  induction fuel with
  | zero => intro src; rfl
  | succ f ih =>
    intro src
    unfold printChunksGo
    split
    · rename_i h
      rw [ih, ← encode_append _ _ _ (by rw [List.length_take, Nat.min_eq_left (by omega)]; exact hc),
        List.take_append_drop]
    · rfl

/-- `printChunks` with any chunk size that is a multiple of 3 source bytes -/
theorem printChunks_eq_encode (chunk : Nat) (src : List Nat) (mode : Nat) (hc : chunk % 3 = 0) :
    printChunks chunk src mode = encode src mode :=
  printChunksGo_eq_encode chunk mode hc _ src

/-! ## JSON print then parse preserves a base64 `[ubyte]` field -/

/-- any supported encode mode with the parser's alphabet, padded or not -/
theorem parse_encode (s : List Nat) (mode : Nat) (urlsafe : Bool) (hs : ∀ b ∈ s, b < 256)
    (hm : baseMode mode = if urlsafe then 1 else 0) :
    parseBase64 (encode s mode) urlsafe = some s := by
  have hm1 : baseMode mode ≤ 1 := by cases urlsafe <;> simp at hm <;> omega
  have hd : baseMode (if urlsafe then 1 else 0) = baseMode mode := by
    rw [hm]; cases urlsafe <;> decide
  have hb := decodedSize_bound s mode hm1
  unfold parseBase64
  rw [decodeLim_encode s mode _ _ hs hm1 hd (Or.inr hb)]
  simp

/-- `flatcc_json_printer_uint8_vector_base64_field` then `flatcc_json_parser_build_uint8_vector_base64`, for any
flush behaviour of the printer -/
theorem parse_print (rooms : List Nat) (s : List Nat) (urlsafe : Bool) (hs : ∀ b ∈ s, b < 256) :
    parseBase64 (printRooms rooms s (printerMode urlsafe)) urlsafe = some s := by
  rw [printRooms_eq_encode]
  exact parse_encode s _ urlsafe hs (by cases urlsafe <;> decide)

theorem stringPart_plain (t rest : List Nat) (ht : ∀ b ∈ t, b ≠ 34 ∧ b ≠ 92 ∧ 32 ≤ b ∧ b < 127) :
    stringPart (t ++ 34 :: rest) = (t, 34 :: rest) := by
  induction t with
  | nil => simp [stringPart]
  | cons c r ih =>
    have hc := ht c (by simp)
    have ih' := ih (fun b hb => ht b (by simp [hb]))
    simp only [List.cons_append, stringPart, ih']
    simp [hc.1, hc.2.1, hc.2.2.1]

/-- The field-level round trip: the printer's text for the bytes `s` (any flush behaviour, either alphabet), followed by
anything, is parsed back to exactly `s`, and the parser stops right behind the closing quote. -/
theorem parse_print_field (rooms : List Nat) (s rest : List Nat) (urlsafe : Bool) (hs : ∀ b ∈ s, b < 256) :
    parseBase64Field (printBase64Field rooms s urlsafe ++ rest) urlsafe = some (s, rest) := by
  unfold printBase64Field parseBase64Field
  rw [printRooms_eq_encode]
  have hp := stringPart_plain (encode s (printerMode urlsafe)) rest (encode_no_escape s _ hs)
  have := parse_encode s (printerMode urlsafe) urlsafe hs (by cases urlsafe <;> decide)
  simp only [List.cons_append, List.append_assoc, List.nil_append, hp, this]

/-! ## the four encode modes and the parser's two decode modes, spelled out -/

/-- `mode` ∈ {rfc4648, url, rfc4648+padding, url+padding} = {0, 1, 128, 129}; the JSON parser decodes with `mode % 2`
(`base64_mode_rfc4648` = 0 / `base64_mode_url` = 1, no modifier), which accepts both the padded and the unpadded text. -/
theorem roundtrip_all_modes (s : List Nat) (mode : Nat) (hs : ∀ b ∈ s, b < 256)
    (hmode : mode = 0 ∨ mode = 1 ∨ mode = 128 ∨ mode = 129) :
    (encode s mode).length = encodedSize s.length mode
    ∧ decode (encode s mode) (mode % 2) = ⟨0, s, (encode s mode).length⟩
    ∧ decodeLim (decodedSize (encode s mode).length) (encode s mode) (mode % 2) = ⟨0, s, (encode s mode).length⟩
    ∧ s.length ≤ decodedSize (encode s mode).length
    ∧ (∀ b ∈ encode s mode, b ≠ 34 ∧ b ≠ 92 ∧ 32 ≤ b ∧ b < 127) := by
  have hm : baseMode mode ≤ 1 := by rcases hmode with h | h | h | h <;> subst h <;> decide
  have hd : baseMode (mode % 2) = baseMode mode := by rcases hmode with h | h | h | h <;> subst h <;> decide
  exact ⟨encode_length s mode hm, decode_encode s mode _ hs hm hd,
    decodeLim_encode s mode _ _ hs hm hd (Or.inr (decodedSize_bound s mode hm)),
    decodedSize_bound s mode hm, encode_no_escape s mode hs⟩

/-! ## the C expressions as written (shift / mask / or) equal the arithmetic forms used in the model -/

set_option maxRecDepth 8000 in
theorem bits_shl4_and30 : ∀ x : Fin 256, (x.val <<< 4) &&& 0x30 = x.val % 4 * 16 := by decide
set_option maxRecDepth 8000 in
theorem bits_shl2_and3c : ∀ x : Fin 256, (x.val <<< 2) &&& 0x3c = x.val % 16 * 4 := by decide
set_option maxRecDepth 8000 in
theorem bits_and3f : ∀ x : Fin 256, x.val &&& 0x3f = x.val % 64 := by decide
theorem bits_or_16 : ∀ (x : Fin 4) (y : Fin 16), (x.val * 16) ||| y.val = x.val * 16 + y.val := by decide
theorem bits_or_4 : ∀ (x : Fin 16) (y : Fin 4), (x.val * 4) ||| y.val = x.val * 4 + y.val := by decide

/-- `((src[0] << 4) & 0x30) | (src[1] >> 4)` -/
theorem enc_digit1_bits (s0 s1 : Nat) (h0 : s0 < 256) (h1 : s1 < 256) :
    ((s0 <<< 4) &&& 0x30) ||| (s1 >>> 4) = s0 % 4 * 16 + s1 / 16 := by
  rw [bits_shl4_and30 ⟨s0, h0⟩, Nat.shiftRight_eq_div_pow]
  exact bits_or_16 ⟨s0 % 4, by omega⟩ ⟨s1 / 2 ^ 4, by omega⟩

/-- `((src[1] << 2) & 0x3c) | (src[2] >> 6)` -/
theorem enc_digit2_bits (s1 s2 : Nat) (h1 : s1 < 256) (h2 : s2 < 256) :
    ((s1 <<< 2) &&& 0x3c) ||| (s2 >>> 6) = s1 % 16 * 4 + s2 / 64 := by
  rw [bits_shl2_and3c ⟨s1, h1⟩, Nat.shiftRight_eq_div_pow]
  exact bits_or_4 ⟨s1 % 16, by omega⟩ ⟨s2 / 2 ^ 6, by omega⟩

/-- `(uint8_t)((hold[0] << 2) | (hold[1] >> 4))`, `(uint8_t)((hold[1] << 4) | (hold[2] >> 2))`,
`(uint8_t)((hold[2] << 6) | hold[3])` for table values below 64 -/
theorem dec_byte0_bits : ∀ a b : Fin 64, ((a.val <<< 2) ||| (b.val >>> 4)) % 256 = (a.val * 4 + b.val / 16) % 256 := by
  decide
theorem dec_byte1_bits : ∀ a b : Fin 64, ((a.val <<< 4) ||| (b.val >>> 2)) % 256 = (a.val * 16 + b.val / 4) % 256 := by
  decide
theorem dec_byte2_bits : ∀ a b : Fin 64, ((a.val <<< 6) ||| b.val) % 256 = (a.val * 64 + b.val) % 256 := by
  decide
/-- the dirty-tail tests `(hold[1] << 4) & 0xff`, `(hold[2] << 6) & 0xff` -/
theorem dec_dirty2_bits : ∀ a : Fin 64, (a.val <<< 4) &&& 0xff = a.val * 16 % 256 := by decide
theorem dec_dirty3_bits : ∀ a : Fin 64, (a.val <<< 6) &&& 0xff = a.val * 64 % 256 := by decide

end Flatcc.Base64
