/-! Calibration: a *verified checker* for generated JSON-parser tries (C10, route A).
    Semantics over byte lists: an 8-byte window compared lexicographically (= big-endian numeric order). -/
namespace Flatcc.Trie

abbrev Key := List Nat

inductive Tree
  | lt (tag : List Nat) (l r : Tree)          -- if window <lex tag (8 bytes) then l else r
  | eqm (n : Nat) (bs : List Nat) (t e : Tree) -- if first n bytes of window = bs (|bs| = n) then t else e
  | matchAt (idx n : Nat) (fail : Tree)        -- terminator test at window offset n
  | descend (t : Tree)
  | unmatched
  deriving Repr, Inhabited

def term : Nat := 34

/-- padded byte of the input at absolute position p -/
def byteAt (s : List Nat) (p : Nat) : Nat := s.getD p 0

def window (s : List Nat) (off : Nat) : List Nat := (List.range 8).map (fun j => byteAt s (off + j))

def lexLt : List Nat → List Nat → Bool
  | [], [] => false
  | [], _ :: _ => true
  | _ :: _, [] => false
  | a :: as, b :: bs => if a < b then true else if a > b then false else lexLt as bs

def eval : Tree → List Nat → Nat → Option Nat
  | .lt tag l r, s, off => if lexLt (window s off) tag then eval l s off else eval r s off
  | .eqm n bs t e, s, off => if (window s off).take n = bs then eval t s off else eval e s off
  | .matchAt idx n fail, s, off =>
      if s.length - off ≤ n then eval fail s off
      else if byteAt s (off + n) = term then some idx else eval fail s off
  | .descend t, s, off => eval t s (off + 8)
  | .unmatched, _, _ => none

def Matches (s : List Nat) (k : Key) : Prop :=
  k.length < s.length ∧ (∀ j, j < k.length → byteAt s j = k.getD j 0) ∧ byteAt s k.length = term

/-- soundness check: every `matchAt idx n` leaf is dominated by equality tests that pin the bytes of key idx -/
def snd (d : List Key) : Tree → (pre win : List Nat) → Bool
  | .lt _ l r, pre, win => snd d l pre win && snd d r pre win
  | .eqm n bs t e, pre, win => (bs.length == n && decide (n ≤ 8)) && snd d t pre bs && snd d e pre win
  | .matchAt idx n fail, pre, win =>
      (decide (n ≤ win.length) && (d.getD idx [] == pre ++ win.take n) && decide (idx < d.length)) && snd d fail pre win
  | .descend t, pre, win => (win.length == 8) && snd d t (pre ++ win) []
  | .unmatched, _, _ => true

/-- what is known about the input on a path -/
def Know (s : List Nat) (off : Nat) (pre win : List Nat) : Prop :=
  pre.length = off ∧ (∀ j, j < pre.length → byteAt s j = pre.getD j 0) ∧
  (∀ j, j < win.length → byteAt s (off + j) = win.getD j 0)

theorem window_take (s : List Nat) (off n : Nat) (bs : List Nat) (hn : n ≤ 8) (hb : bs.length = n)
    (h : (window s off).take n = bs) : ∀ j, j < n → byteAt s (off + j) = bs.getD j 0 := by
  intro j hj
  have : ((window s off).take n).getD j 0 = bs.getD j 0 := by rw [h]
  rw [← this]
  unfold window
  simp [List.getD, List.getElem?_take, hj, List.getElem?_map, List.getElem?_range (show j < 8 by omega)]

theorem snd_sound (d : List Key) :
    ∀ (t : Tree) (s : List Nat) (off : Nat) (pre win : List Nat) (i : Nat),
      snd d t pre win = true → Know s off pre win → eval t s off = some i →
      i < d.length ∧ Matches s (d.getD i []) := by
  intro t
  induction t with
  | lt tag l r ihl ihr =>
    intro s off pre win i hs hk he
    simp only [snd, Bool.and_eq_true] at hs
    unfold eval at he
    split at he
    · exact ihl s off pre win i hs.1 hk he
    · exact ihr s off pre win i hs.2 hk he
  | eqm n bs t e iht ihe =>
    intro s off pre win i hs hk he
    simp only [snd, Bool.and_eq_true, beq_iff_eq, decide_eq_true_eq] at hs
    unfold eval at he
    split at he
    · rename_i heq
      have hw := window_take s off n bs hs.1.1.2 hs.1.1.1 heq
      exact iht s off pre bs i hs.1.2 ⟨hk.1, hk.2.1, fun j hj => hw j (by omega)⟩ he
    · exact ihe s off pre win i hs.2 hk he
  | matchAt idx n fail ih =>
    intro s off pre win i hs hk he
    simp only [snd, Bool.and_eq_true, beq_iff_eq, decide_eq_true_eq] at hs
    unfold eval at he
    split at he
    · exact ih s off pre win i hs.2 hk he
    · rename_i hlen
      split at he
      · rename_i hterm
        injection he with he; subst he
        obtain ⟨⟨⟨hn, hkey⟩, hidx⟩, _⟩ := hs
        refine ⟨hidx, ?_⟩
        obtain ⟨hpl, hpre, hwin⟩ := hk
        have hklen : (d.getD idx []).length = off + n := by
          rw [hkey]; simp [List.length_append, List.length_take, hpl]; omega
        refine ⟨by omega, ?_, by rw [hklen]; exact hterm⟩
        intro j hj
        rw [hkey]
        by_cases c : j < pre.length
        · rw [hpre j c]; simp [List.getD, List.getElem?_append_left c]
        · have hj2 : j - pre.length < n := by omega
          have := hwin (j - pre.length) (by omega)
          have e : off + (j - pre.length) = j := by omega
          rw [e] at this
          rw [this]
          simp [List.getD, List.getElem?_append_right (show pre.length ≤ j by omega), List.getElem?_take, hj2]
      · exact ih s off pre win i hs.2 hk he
  | descend t ih =>
    intro s off pre win i hs hk he
    simp only [snd, Bool.and_eq_true, beq_iff_eq] at hs
    unfold eval at he
    obtain ⟨hpl, hpre, hwin⟩ := hk
    refine ih s (off + 8) (pre ++ win) [] i hs.2 ⟨by simp [List.length_append, hpl, hs.1], ?_, fun j hj => by simp at hj⟩ he
    intro j hj
    by_cases c : j < pre.length
    · rw [hpre j c]; simp [List.getD, List.getElem?_append_left c]
    · have hj' : j < pre.length + win.length := by simpa [List.length_append] using hj
      have := hwin (j - pre.length) (by omega)
      have e : off + (j - pre.length) = j := by omega
      rw [e] at this
      rw [this]
      simp [List.getD, List.getElem?_append_right (show pre.length ≤ j by omega)]
  | unmatched =>
    intro s off pre win i _ _ he
    simp [eval] at he


/-! ### completeness: simulate the path of key `i` -/

/-- known window bytes of an input that starts with `key ++ [term]` -/
def kwin (key : Key) (off : Nat) : List Nat := ((key ++ [term]).drop off).take 8

/-- decide `lexLt (kb ++ rest) tag` from the known prefix alone, if possible -/
def decLt : List Nat → List Nat → Option Bool
  | [], [] => some false
  | [], _ :: _ => none
  | _ :: _, [] => some false
  | a :: as, b :: bs => if a < b then some true else if a > b then some false else decLt as bs

def cmp (key : Key) (i : Nat) : Tree → Nat → Bool
  | .lt tag l r, off =>
      if tag.length = 8 then
        match decLt (kwin key off) tag with
        | some true => cmp key i l off
        | some false => cmp key i r off
        | none => false
      else false
  | .eqm n bs t e, off =>
      if n ≤ (kwin key off).length then
        (if (kwin key off).take n = bs then cmp key i t off else cmp key i e off)
      else if (kwin key off) ≠ bs.take (kwin key off).length then cmp key i e off else false
  | .matchAt idx n fail, off =>
      if off + n < key.length then cmp key i fail off
      else if off + n = key.length then idx == i
      else false
  | .descend t, off => cmp key i t (off + 8)
  | .unmatched, _ => false

theorem decLt_sound : ∀ (kb tag rest : List Nat) (r : Bool), decLt kb tag = some r →
    (kb ++ rest).length = tag.length → lexLt (kb ++ rest) tag = r := by
  intro kb
  induction kb with
  | nil =>
    intro tag rest r h hl
    cases tag with
    | nil => simp [decLt] at h; simp at hl; subst hl; subst h; rfl
    | cons b bs => simp [decLt] at h
  | cons a as ih =>
    intro tag rest r h hl
    cases tag with
    | nil => simp at hl
    | cons b bs =>
      simp only [decLt] at h
      simp only [List.cons_append, lexLt]
      split
      · rename_i hlt; simp [hlt] at h; exact h.symm
      · rename_i hnlt
        simp only [hnlt, if_false] at h
        split
        · rename_i hgt; simp [hgt] at h; exact h.symm
        · rename_i hngt
          simp only [hngt, if_false] at h
          exact ih bs rest r h (by simpa using hl)


theorem known_byte {s : List Nat} {key : Key} (hm : Matches s key) (p : Nat) (hp : p ≤ key.length) :
    byteAt s p = (key ++ [term]).getD p 0 := by
  obtain ⟨_, hk, ht⟩ := hm
  by_cases c : p < key.length
  · rw [hk p c]; simp [List.getD, List.getElem?_append_left c]
  · have : p = key.length := by omega
    subst this; rw [ht]; simp [List.getD]

theorem kwin_length (key : Key) (off : Nat) : (kwin key off).length = min 8 (key.length + 1 - off) := by
  simp [kwin, List.length_take, List.length_drop]

theorem kwin_getD (key : Key) (off j : Nat) (hj : j < (kwin key off).length) :
    (kwin key off).getD j 0 = (key ++ [term]).getD (off + j) 0 := by
  rw [kwin_length] at hj
  simp [kwin, List.getD, List.getElem?_take, List.getElem?_drop, (show j < 8 by omega)]

theorem window_length (s : List Nat) (off : Nat) : (window s off).length = 8 := by simp [window]

theorem window_getD (s : List Nat) (off j : Nat) (hj : j < 8) : (window s off).getD j 0 = byteAt s (off + j) := by
  simp [window, List.getD, List.getElem?_map, List.getElem?_range hj]

theorem window_take_kwin {s : List Nat} {key : Key} (hm : Matches s key) (off : Nat) :
    (window s off).take (kwin key off).length = kwin key off := by
  apply List.ext_getElem?
  intro j
  by_cases hj : j < (kwin key off).length
  · have h8 : j < 8 := by rw [kwin_length] at hj; omega
    have hle : off + j ≤ key.length := by rw [kwin_length] at hj; omega
    have e1 : ((window s off).take (kwin key off).length)[j]? = some (byteAt s (off + j)) := by
      rw [List.getElem?_take]; simp only [hj, if_true]
      have := window_getD s off j h8
      simp only [List.getD] at this
      have hl : j < (window s off).length := by rw [window_length]; exact h8
      rw [List.getElem?_eq_getElem hl] at this ⊢
      simp at this; rw [this]
    have e2 : (kwin key off)[j]? = some ((key ++ [term]).getD (off + j) 0) := by
      have := kwin_getD key off j hj
      simp only [List.getD] at this
      rw [List.getElem?_eq_getElem hj] at this ⊢
      simp at this; rw [this]; simp [List.getD]
    rw [e1, e2, known_byte hm _ hle]
  · have h1 : ((window s off).take (kwin key off).length)[j]? = none := by
      rw [List.getElem?_eq_none]; simp [List.length_take, window_length]; omega
    have h2 : (kwin key off)[j]? = none := by rw [List.getElem?_eq_none]; omega
    rw [h1, h2]

theorem cmp_complete (key : Key) (i : Nat) (hkey : ∀ j, j < key.length → key.getD j 0 ≠ term) :
    ∀ (t : Tree) (off : Nat) (s : List Nat), Matches s key → cmp key i t off = true → eval t s off = some i := by
  intro t
  induction t with
  | lt tag l r ihl ihr =>
    intro off s hm hc
    unfold cmp at hc
    unfold eval
    have hw : window s off = kwin key off ++ (window s off).drop (kwin key off).length := by
      conv => lhs; rw [← List.take_append_drop (kwin key off).length (window s off)]
      rw [window_take_kwin hm off]
    by_cases htl : tag.length = 8
    · simp only [htl, if_true] at hc
      cases hd : decLt (kwin key off) tag with
      | none => simp [hd] at hc
      | some b =>
        have := decLt_sound (kwin key off) tag _ b hd (by rw [← hw, window_length, htl])
        rw [← hw] at this
        cases b with
        | true => simp only [hd] at hc; simp only [this, if_true]; exact ihl off s hm hc
        | false => simp only [hd] at hc; simp [this]; exact ihr off s hm hc
    · simp [htl] at hc
  | eqm n bs t e iht ihe =>
    intro off s hm hc
    unfold cmp at hc
    unfold eval
    have htk := window_take_kwin hm off
    split at hc
    · rename_i hn
      have e : (window s off).take n = (kwin key off).take n := by
        rw [← htk, List.take_take]; congr 1; omega
      rw [e]
      split at hc
      · rename_i heq; simp only [heq, if_true]; exact iht off s hm hc
      · rename_i hne; simp only [hne, if_false]; exact ihe off s hm hc
    · rename_i hn
      split at hc
      · rename_i hne
        have : (window s off).take n ≠ bs := by
          intro h
          apply hne
          have hk : (kwin key off).length ≤ n := by omega
          rw [← h, List.take_take, Nat.min_eq_left hk]
          exact htk.symm
        simp only [this, if_false]; exact ihe off s hm hc
      · contradiction
  | matchAt idx n fail ih =>
    intro off s hm hc
    unfold cmp at hc
    unfold eval
    split at hc
    · rename_i hlt
      have hb : byteAt s (off + n) ≠ term := by rw [hm.2.1 _ hlt]; exact hkey _ hlt
      split
      · exact ih off s hm hc
      · first | exact ih off s hm hc | (rw [if_neg hb]; exact ih off s hm hc)
    · split at hc
      · rename_i heq
        have h1 : ¬ (s.length - off ≤ n) := by have := hm.1; omega
        have h2 : byteAt s (off + n) = term := by rw [heq]; exact hm.2.2
        rw [if_neg h1, if_pos h2]
        have hi : idx = i := by simpa using hc
        rw [hi]
      · contradiction
  | descend t ih =>
    intro off s hm hc
    unfold cmp at hc; unfold eval
    exact ih (off + 8) s hm hc
  | unmatched => intro off s hm hc; simp [cmp] at hc

end Flatcc.Trie
