import FlatccModel.VerifierSound3
/-!
# Decidable well-formedness of verifier descriptors

`wfB S M` is the executable form of `WF S M` (plus the two facts about `M`): it is evaluated on the
descriptors the translator extracts from the `*_verifier.h` the current compiler generated, so that
the hypothesis of the C01 theorems is checked against the real output rather than assumed.
-/
namespace Flatcc.Verifier

def fieldWFb (M : Nat) (f : Field) : Bool :=
  decide (f.id < 32766) &&
  match f.kind with
  | .scalar _ align => decide (align ∣ M)
  | .vector esz align maxc => decide (align ∣ M) && decide (maxc * esz < 4294967296)
  | .union _ => decide (1 ≤ f.id)
  | .unionVector _ => decide (1 ≤ f.id)
  | .nestedTable _ align => decide (align ∣ M)
  | .nestedStruct size align => decide (align ∣ M) && decide (size < 4294967296)
  | _ => true

def memberWFb (M : Nat) : Member → Bool
  | .struct size align => decide (align ∣ M) && decide (size < 4294967296)
  | _ => true

def wfB (S : Schema) (M : Nat) : Bool :=
  decide (4 ∣ M) && decide (M ∣ 4294967296) &&
  S.tables.all (fun fs => fs.all (fieldWFb M)) && S.unions.all (fun ms => ms.all (fun cm => memberWFb M cm.2))

/-- first offending call, for the report -/
def wfFirstBad (S : Schema) (M : Nat) : Option (Nat × Nat) :=
  (S.tables.zipIdx.filterMap (fun (fs, ti) =>
    (fs.find? (fun f => !fieldWFb M f)).map (fun f => (ti, f.id)))).head?

theorem fieldWFb_sound {M : Nat} {f : Field} (h : fieldWFb M f = true) : FieldWF M f := by
  unfold fieldWFb at h
  unfold FieldWF
  simp only [Bool.and_eq_true, decide_eq_true_eq] at h
  refine ⟨h.1, ?_⟩
  have h2 := h.2
  cases hk : f.kind <;> simp only [hk, Bool.and_eq_true, decide_eq_true_eq] at h2 ⊢ <;> first | exact h2 | trivial

theorem memberWFb_sound {M : Nat} {m : Member} (h : memberWFb M m = true) : MemberWF M m := by
  cases m <;> simp only [memberWFb, MemberWF, Bool.and_eq_true, decide_eq_true_eq] at h ⊢ <;> first | exact h | trivial

theorem wfB_sound {S : Schema} {M : Nat} (h : wfB S M = true) : 4 ∣ M ∧ M ∣ 4294967296 ∧ WF S M := by
  unfold wfB at h
  simp only [Bool.and_eq_true, decide_eq_true_eq, List.all_eq_true] at h
  obtain ⟨⟨⟨h4, hp⟩, ht⟩, hu⟩ := h
  exact ⟨h4, hp, ⟨fun fs hfs f hf => fieldWFb_sound (ht fs hfs f hf), fun ms hms cm hcm => memberWFb_sound (hu ms hms cm hcm)⟩⟩

end Flatcc.Verifier
