import FlatccModel.Generated.Consts
/-!
# JSON printer output layer (`json_printer.c`: `print`, `print_ex`, `print_indent(_ex)`, raw `print_char`
writes, `flatcc_json_printer_flush_partial`, and the three flush functions)

`buf` is the content of the output buffer `[buf, p)`; `out` what the file mode has already written.
Raw writes (`print_char`, number formatting into `ctx->p`) are not checked by the C code; the model
records the high-water mark `hi` of `p` so that "never writes outside the buffer" is a statement
about `hi ≤ size`.
-/
namespace Flatcc.PrintFlush

inductive Mode | file | fixed | dynamic
  deriving DecidableEq, Repr

structure Pr where
  mode : Mode
  size : Nat
  flushSize : Nat
  buf : List Nat
  out : List Nat
  total : Nat
  overflow : Bool
  hi : Nat
  deriving Repr

def reserve : Nat := 64

def initFixed (size : Nat) : Pr :=
  { mode := .fixed, size := size, flushSize := size - reserve, buf := [], out := [], total := 0, overflow := false, hi := 0 }
def initDynamic (size : Nat) : Pr :=
  let size := if size = 0 then 4096 else if size < reserve then reserve else size
  { mode := .dynamic, size := size, flushSize := size - reserve, buf := [], out := [], total := 0, overflow := false, hi := 0 }
def initFile : Pr :=
  { mode := .file, size := 16384 + reserve, flushSize := 16384, buf := [], out := [], total := 0, overflow := false, hi := 0 }

/-- `ctx->flush(ctx, all)` -/
def flush (s : Pr) (all : Bool) : Pr :=
  match s.mode with
  | .file =>
    if !all && decide (s.buf.length ≥ s.flushSize) then
      { s with out := s.out ++ s.buf.take s.flushSize, buf := s.buf.drop s.flushSize, total := s.total + s.flushSize }
    else { s with out := s.out ++ s.buf, buf := [], total := s.total + s.buf.length }
  | .fixed =>
    if s.buf.length ≥ s.flushSize then { s with overflow := true, total := s.total + s.buf.length, buf := [] } else s
  | .dynamic =>
    if s.buf.length < s.flushSize then s else { s with size := s.size * 2, flushSize := s.size * 2 - reserve }

/-- an unchecked write of `d` at `p` -/
def raw (s : Pr) (d : List Nat) : Pr :=
  { s with buf := s.buf ++ d, hi := max s.hi (s.buf.length + d.length) }

/-- the splitting loop of `print_ex` (after the initial flush test) -/
def printExLoop : Nat → Pr → List Nat → Pr
  | 0, s, _ => s
  | fuel+1, s, d =>
    let k := s.flushSize - s.buf.length
    if d.length > k then printExLoop fuel (flush (raw s (d.take k)) false) (d.drop k)
    else raw s d

def printEx (s : Pr) (d : List Nat) : Pr :=
  let s := if s.buf.length ≥ s.flushSize then flush s false else s
  if s.flushSize = 0 then s     -- a fixed buffer no larger than the reserve: give up (overflow has been raised)
  else printExLoop (2 * d.length + 2) s d

/-- `print(ctx, s, n)` -/
def print (s : Pr) (d : List Nat) : Pr :=
  if s.buf.length + d.length ≥ s.flushSize then printEx s d else raw s d

/-- `flatcc_json_printer_flush_partial` -/
def flushPartial (s : Pr) : Pr := if s.buf.length ≥ s.flushSize then flush s false else s

/-- what the API can do to the output layer -/
inductive Ev
  | raw (d : List Nat)        -- print_char / in-place number formatting
  | print (d : List Nat)      -- print / flatcc_json_printer_write
  | indent (n : Nat)          -- print_indent: n spaces, checked
  | fpartial                  -- flush_partial
  | flushAll                  -- flatcc_json_printer_flush
  deriving Repr

def stepEv (s : Pr) : Ev → Pr
  | .raw d => raw s d
  | .print d => print s d
  | .indent n => if s.buf.length + n > s.flushSize then printEx s (List.replicate n 32) else raw s (List.replicate n 32)
  | .fpartial => flushPartial s
  | .flushAll => flush s true

def evBytes : Ev → List Nat
  | .raw d => d
  | .print d => d
  | .indent n => List.replicate n 32
  | _ => []

/-- everything printed so far, in order (file: already written ++ buffered) -/
def text (s : Pr) : List Nat := s.out ++ s.buf

end Flatcc.PrintFlush
