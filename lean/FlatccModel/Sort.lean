/-! Calibration: flatcc's generated heap sort (codegen_c_sort.c), model + proofs. -/
namespace Flatcc.Sort

variable {α : Type} [Inhabited α]

/-- __heap_sift_down: children of `root` are `2*root` and `2*root+1` (so root 0 has the single child 1). -/
def pickChild (lt : α → α → Bool) (a : Array α) (c0 end_ : Nat) : Nat :=
  if c0 < end_ && lt a[c0]! a[c0+1]! then c0 + 1 else c0

def siftDown (lt : α → α → Bool) (a : Array α) (root end_ : Nat) : Nat → Array α
  | 0 => a
  | fuel+1 =>
    if 2 * root ≤ end_ then
      if lt a[root]! a[pickChild lt a (2 * root) end_]! then
        siftDown lt (a.swapIfInBounds root (pickChild lt a (2 * root) end_)) (pickChild lt a (2 * root) end_) end_ fuel
      else a
    else a

def heapify (lt : α → α → Bool) (a : Array α) (end_ : Nat) : Nat → Array α
  | 0 => siftDown lt a 0 end_ (end_ + 2)
  | s+1 => heapify lt (siftDown lt a (s+1) end_ (end_ + 2)) end_ s

def sortLoop (lt : α → α → Bool) (a : Array α) : Nat → Array α
  | 0 => a
  | e+1 => sortLoop lt (siftDown lt (a.swapIfInBounds 0 (e+1)) 0 e (e + 2)) e

def heapSort (lt : α → α → Bool) (a : Array α) : Array α :=
  if a.size = 0 then a else
  let e := a.size - 1
  sortLoop lt (heapify lt a e (a.size / 2)) e


theorem siftDown_size (lt : α → α → Bool) (a : Array α) (r e f : Nat) : (siftDown lt a r e f).size = a.size := by
  induction f generalizing a r with
  | zero => rfl
  | succ f ih =>
    unfold siftDown
    split
    · split
      · rw [ih]; simp
      · rfl
    · rfl

theorem siftDown_perm (lt : α → α → Bool) (a : Array α) (r e f : Nat) : (siftDown lt a r e f).Perm a := by
  induction f generalizing a r with
  | zero => exact Array.Perm.refl _
  | succ f ih =>
    unfold siftDown
    split
    · split
      · refine Array.Perm.trans (ih _ _) ?_
        rw [Array.swapIfInBounds_def]
        split
        · split
          · exact Array.swap_perm _ _
          · exact Array.Perm.refl _
        · exact Array.Perm.refl _
      · exact Array.Perm.refl _
    · exact Array.Perm.refl _

end Flatcc.Sort

namespace Flatcc.Sort
variable {α : Type} [Inhabited α]

theorem get_swap (a : Array α) (i j k : Nat) (hi : i < a.size) (hj : j < a.size) :
    (a.swapIfInBounds i j)[k]! = if k = i then a[j]! else if k = j then a[i]! else a[k]! := by
  by_cases hk : k < a.size
  · have hk' : k < (a.swapIfInBounds i j).size := by simpa using hk
    rw [getElem!_pos (a.swapIfInBounds i j) k hk', Array.getElem_swapIfInBounds,
        getElem!_pos a j hj, getElem!_pos a i hi, getElem!_pos a k hk]
    simp only [hi, hj, and_true]
    split
    · rfl
    · split <;> rfl
  · have hk' : ¬ k < (a.swapIfInBounds i j).size := by simpa using hk
    have h1 : k ≠ i := by omega
    have h2 : k ≠ j := by omega
    simp only [h1, h2, if_false]
    rw [getElem!_neg (a.swapIfInBounds i j) k hk', getElem!_neg a k hk]

end Flatcc.Sort

namespace Flatcc.Sort
variable {α : Type} [Inhabited α]

structure StrictWeak (lt : α → α → Bool) : Prop where
  irrefl : ∀ x, lt x x = false
  trans : ∀ x y z, lt x y = true → lt y z = true → lt x z = true
  ntrans : ∀ x y z, lt x y = false → lt y z = false → lt x z = false

theorem StrictWeak.asymm {lt : α → α → Bool} (O : StrictWeak lt) {x y : α} (h : lt x y = true) : lt y x = false := by
  cases hyx : lt y x with
  | false => rfl
  | true => have := O.trans x y x h hyx; rw [O.irrefl] at this; contradiction

def IsChild (p c : Nat) : Prop := (c = 2 * p ∨ c = 2 * p + 1) ∧ c ≠ p

def HeapEx (lt : α → α → Bool) (a : Array α) (lo hi ex : Nat) : Prop :=
  ∀ p c, lo ≤ p → c ≤ hi → IsChild p c → p ≠ ex → lt a[p]! a[c]! = false

def Heap (lt : α → α → Bool) (a : Array α) (lo hi : Nat) : Prop :=
  ∀ p c, lo ≤ p → c ≤ hi → IsChild p c → lt a[p]! a[c]! = false

theorem pickChild_spec (lt : α → α → Bool) (O : StrictWeak lt) (a : Array α) (r hi : Nat) (h : 2 * r ≤ hi) :
    (pickChild lt a (2 * r) hi = 2 * r ∨ pickChild lt a (2 * r) hi = 2 * r + 1) ∧ pickChild lt a (2 * r) hi ≤ hi ∧
    (∀ c, c ≤ hi → IsChild r c → lt a[pickChild lt a (2 * r) hi]! a[c]! = false) := by
  unfold pickChild
  split
  · rename_i hc
    simp only [Bool.and_eq_true, decide_eq_true_eq] at hc
    refine ⟨Or.inr rfl, by omega, ?_⟩
    intro c hc1 hc2
    rcases hc2.1 with rfl | rfl
    · exact O.asymm hc.2
    · exact O.irrefl _
  · rename_i hc
    simp only [Bool.and_eq_true, decide_eq_true_eq, not_and, Bool.not_eq_true] at hc
    refine ⟨Or.inl rfl, h, ?_⟩
    intro c hc1 hc2
    rcases hc2.1 with rfl | rfl
    · exact O.irrefl _
    · exact hc (by omega)

end Flatcc.Sort

namespace Flatcc.Sort
variable {α : Type} [Inhabited α]

theorem child_parent_unique {p q c : Nat} (h1 : IsChild p c) (h2 : IsChild q c) : p = q := by
  unfold IsChild at *; omega

theorem siftDown_heap (lt : α → α → Bool) (O : StrictWeak lt) (lo hi : Nat) :
    ∀ (fuel : Nat) (a : Array α) (r : Nat), hi < a.size → lo ≤ r → hi + 1 ≤ r + fuel →
      HeapEx lt a lo hi r →
      (∀ p c, lo ≤ p → IsChild p r → c ≤ hi → IsChild r c → lt a[p]! a[c]! = false) →
      Heap lt (siftDown lt a r hi fuel) lo hi ∧
      (∀ k, (k < r ∨ hi < k) → (siftDown lt a r hi fuel)[k]! = a[k]!) := by
  intro fuel
  induction fuel with
  | zero =>
    intro a r hhi hr hf H G
    -- r > hi: no children in range
    refine ⟨?_, fun k _ => rfl⟩
    intro p c hp hc hpc
    by_cases hpr : p = r
    · subst hpr; unfold IsChild at hpc; omega
    · exact H p c hp hc hpc hpr
  | succ fuel ih =>
    intro a r hhi hr hf H G
    unfold siftDown
    split
    · rename_i h2r
      have ps := pickChild_spec lt O a r hi h2r
      generalize hch : pickChild lt a (2 * r) hi = ch at ps ⊢
      obtain ⟨hch1, hch2, hch3⟩ := ps
      split
      · rename_i hlt
        -- swap and recurse
        have hne : ch ≠ r := by
          intro e; rw [e, O.irrefl] at hlt; contradiction
        have hrlt : r < ch := by omega
        have hrs : r < a.size := by omega
        have hcs : ch < a.size := by omega
        have hIs : IsChild r ch := ⟨by omega, hne⟩
        have hsz : hi < (a.swapIfInBounds r ch).size := by simpa using hhi
        have gs := fun k => get_swap a r ch k hrs hcs
        have Hrec : HeapEx lt (a.swapIfInBounds r ch) lo hi ch := by
          intro p c hp hc hpc hpne
          rw [gs p, gs c]
          by_cases hpr : p = r
          · subst hpr
            simp only [if_true]
            by_cases hcc : c = ch
            · subst hcc
              have : c ≠ p := hne
              simp only [this, if_false, if_true]
              exact O.asymm hlt
            · have hcp : c ≠ p := hpc.2
              simp only [hcp, hcc, if_false]
              exact hch3 c hc hpc
          · simp only [hpr, hpne, if_false]
            by_cases hcr : c = r
            · subst hcr
              simp only [if_true]
              exact G p ch hp hpc hch2 hIs
            · have hcc : c ≠ ch := by
                intro e; subst e; exact hpr (child_parent_unique hpc hIs)
              simp only [hcr, hcc, if_false]
              exact H p c hp hc hpc hpr
        have Grec : ∀ p c, lo ≤ p → IsChild p ch → c ≤ hi → IsChild ch c →
            lt (a.swapIfInBounds r ch)[p]! (a.swapIfInBounds r ch)[c]! = false := by
          intro p c hp hpch hc hchc
          have hpr : p = r := child_parent_unique hpch hIs
          subst hpr
          have hc1 : c ≠ p := by unfold IsChild at hchc; omega
          have hc2 : c ≠ ch := hchc.2
          rw [gs p, gs c]
          simp only [if_true, hc1, hc2, if_false]
          exact H ch c (by omega) hc hchc hne
        have := ih (a.swapIfInBounds r ch) ch hsz (by omega) (by omega) Hrec Grec
        refine ⟨this.1, ?_⟩
        intro k hk
        rw [this.2 k (by omega), gs k]
        have h1 : k ≠ r := by omega
        have h2 : k ≠ ch := by omega
        simp only [h1, h2, if_false]
      · rename_i hge
        simp only [Bool.not_eq_true] at hge
        refine ⟨?_, fun k _ => rfl⟩
        intro p c hp hc hpc
        by_cases hpr : p = r
        · subst hpr
          exact O.ntrans _ _ _ hge (hch3 c hc hpc)
        · exact H p c hp hc hpc hpr
    · rename_i h2r
      refine ⟨?_, fun k _ => rfl⟩
      intro p c hp hc hpc
      by_cases hpr : p = r
      · subst hpr; unfold IsChild at hpc; omega
      · exact H p c hp hc hpc hpr

end Flatcc.Sort

namespace Flatcc.Sort
variable {α : Type} [Inhabited α]

theorem siftDown_all (lt : α → α → Bool) (P : α → Prop) (hi : Nat) :
    ∀ (fuel : Nat) (a : Array α) (r : Nat), hi < a.size → (∀ k, k ≤ hi → P a[k]!) →
      ∀ k, k ≤ hi → P (siftDown lt a r hi fuel)[k]! := by
  intro fuel
  induction fuel with
  | zero => intro a r _ h; exact h
  | succ fuel ih =>
    intro a r hhi h
    unfold siftDown
    split
    · rename_i h2r
      split
      · have hc : pickChild lt a (2 * r) hi ≤ hi := by
          unfold pickChild; split
          · rename_i hc; simp only [Bool.and_eq_true, decide_eq_true_eq] at hc; omega
          · exact h2r
        have hrs : r < a.size := by omega
        have hcs : pickChild lt a (2 * r) hi < a.size := by omega
        apply ih
        · simpa using hhi
        · intro k hk
          rw [get_swap a r _ k hrs hcs]
          split
          · exact h _ hc
          · split
            · exact h r (by omega)
            · exact h k hk
      · exact h
    · exact h

theorem heapify_heap (lt : α → α → Bool) (O : StrictWeak lt) (hi : Nat) :
    ∀ (s : Nat) (a : Array α), hi < a.size → Heap lt a (s + 1) hi →
      Heap lt (heapify lt a hi s) 0 hi ∧ (∀ k, hi < k → (heapify lt a hi s)[k]! = a[k]!) ∧
      (heapify lt a hi s).size = a.size := by
  intro s
  induction s with
  | zero =>
    intro a hhi H
    unfold heapify
    have := siftDown_heap lt O 0 hi (hi + 2) a 0 hhi (Nat.le_refl _) (by omega)
      (fun p c hp hc hpc hpne => H p c (by omega) hc hpc)
      (fun p c _ hp0 _ _ => by unfold IsChild at hp0; omega)
    exact ⟨this.1, fun k hk => this.2 k (Or.inr hk), siftDown_size _ _ _ _ _⟩
  | succ s ih =>
    intro a hhi H
    unfold heapify
    have h1 := siftDown_heap lt O (s + 1) hi (hi + 2) a (s + 1) hhi (Nat.le_refl _) (by omega)
      (fun p c hp hc hpc hpne => H p c (by omega) hc hpc)
      (fun p c hp hps _ _ => by unfold IsChild at hps; omega)
    have hsz : hi < (siftDown lt a (s + 1) hi (hi + 2)).size := by rw [siftDown_size]; exact hhi
    have h2 := ih (siftDown lt a (s + 1) hi (hi + 2)) hsz h1.1
    refine ⟨h2.1, ?_, ?_⟩
    · intro k hk; rw [h2.2.1 k hk, h1.2 k (Or.inr hk)]
    · rw [h2.2.2, siftDown_size]

/-- in a heap on [0,hi] the root dominates everything -/
theorem heap_root_max (lt : α → α → Bool) (O : StrictWeak lt) (a : Array α) (hi : Nat) (H : Heap lt a 0 hi) :
    ∀ j, j ≤ hi → lt a[0]! a[j]! = false := by
  intro j
  induction j using Nat.strongRecOn with
  | _ j ih =>
    intro hj
    by_cases h0 : j = 0
    · subst h0; exact O.irrefl _
    · have hp : IsChild (j / 2) j := by unfold IsChild; omega
      have h1 := ih (j / 2) (by omega) (by omega)
      have h2 := H (j / 2) j (Nat.zero_le _) hj hp
      exact O.ntrans _ _ _ h1 h2

def SortedFrom (lt : α → α → Bool) (a : Array α) (e : Nat) : Prop :=
  (∀ i j, e < i → i < j → j < a.size → lt a[j]! a[i]! = false) ∧
  (∀ i j, i ≤ e → e < j → j < a.size → lt a[j]! a[i]! = false)

theorem sortLoop_sorted (lt : α → α → Bool) (O : StrictWeak lt) :
    ∀ (e : Nat) (a : Array α), e < a.size → Heap lt a 0 e → SortedFrom lt a e →
      SortedFrom lt (sortLoop lt a e) 0 ∧ (sortLoop lt a e).size = a.size := by
  intro e
  induction e with
  | zero => intro a _ _ S; exact ⟨S, rfl⟩
  | succ e ih =>
    intro a he H S
    unfold sortLoop
    have h0s : 0 < a.size := by omega
    have gs := fun k => get_swap a 0 (e + 1) k h0s he
    have hmax := heap_root_max lt O a (e + 1) H
    have hsz1 : e < (a.swapIfInBounds 0 (e + 1)).size := by simp; omega
    -- heap on [1,e] after the swap (parent 0 excluded)
    have HE : HeapEx lt (a.swapIfInBounds 0 (e + 1)) 0 e 0 := by
      intro p c hp hc hpc hpne
      rw [gs p, gs c]
      have : p ≠ e + 1 := by unfold IsChild at hpc; omega
      have hc0 : c ≠ 0 := by unfold IsChild at hpc; omega
      have hc1 : c ≠ e + 1 := by omega
      simp only [hpne, this, hc0, hc1, if_false]
      exact H p c hp (by omega) hpc
    have sd := siftDown_heap lt O 0 e (e + 2) (a.swapIfInBounds 0 (e + 1)) 0 hsz1 (Nat.le_refl _) (by omega) HE
      (fun p c _ hp0 _ _ => by unfold IsChild at hp0; omega)
    have hperm : (siftDown lt (a.swapIfInBounds 0 (e + 1)) 0 e (e + 2)).size = a.size := by
      rw [siftDown_size]; simp
    -- values above e are unchanged by the sift, position e+1 now holds the old root
    have hfix : ∀ k, e < k → (siftDown lt (a.swapIfInBounds 0 (e + 1)) 0 e (e + 2))[k]! =
        (if k = e + 1 then a[0]! else a[k]!) := by
      intro k hk
      rw [sd.2 k (Or.inr hk), gs k]
      have : k ≠ 0 := by omega
      simp only [this, if_false]
    have hsz2 : e < (siftDown lt (a.swapIfInBounds 0 (e + 1)) 0 e (e + 2)).size := by omega
    -- S' : sorted-from-e for the new array
    have S' : SortedFrom lt (siftDown lt (a.swapIfInBounds 0 (e + 1)) 0 e (e + 2)) e := by
      constructor
      · intro i j hi hij hj
        rw [hperm] at hj
        rw [hfix i hi, hfix j (by omega)]
        have hj1 : j ≠ e + 1 := by omega
        simp only [hj1, if_false]
        by_cases hi1 : i = e + 1
        · simp only [hi1, if_true]
          exact S.2 0 j (by omega) (by omega) hj
        · simp only [hi1, if_false]
          exact S.1 i j (by omega) hij hj
      · intro i j hi hej hj
        rw [hperm] at hj
        rw [hfix j hej]
        -- P x := "bound ≥ x" holds for all old elements at positions ≤ e of the swapped array
        have hall := siftDown_all lt (fun x => lt (if j = e + 1 then a[0]! else a[j]!) x = false) e (e + 2)
          (a.swapIfInBounds 0 (e + 1)) 0 hsz1 (by
            intro k hk
            rw [gs k]
            have hk1 : k ≠ e + 1 := by omega
            by_cases hk0 : k = 0
            · simp only [hk0, if_true]
              by_cases hj1 : j = e + 1
              · simp only [hj1, if_true]; exact hmax (e + 1) (Nat.le_refl _)
              · simp only [hj1, if_false]; exact S.2 (e + 1) j (Nat.le_refl _) (by omega) hj
            · simp only [hk0, hk1, if_false]
              by_cases hj1 : j = e + 1
              · simp only [hj1, if_true]; exact hmax k (by omega)
              · simp only [hj1, if_false]; exact S.2 k j (by omega) (by omega) hj)
        exact hall i hi
    have := ih _ hsz2 sd.1 S'
    exact ⟨this.1, by rw [this.2, hperm]⟩

theorem heapSort_sorted (lt : α → α → Bool) (O : StrictWeak lt) (a : Array α) :
    ∀ i j, i < j → j < (heapSort lt a).size → lt (heapSort lt a)[j]! (heapSort lt a)[i]! = false := by
  unfold heapSort
  split
  · intro i j _ hj; rename_i h0; omega
  · rename_i h0
    simp only []
    have hhi : a.size - 1 < a.size := by omega
    have hh := heapify_heap lt O (a.size - 1) (a.size / 2) a hhi
      (fun p c hp hc hpc => by unfold IsChild at hpc; omega)
    have hsz : a.size - 1 < (heapify lt a (a.size - 1) (a.size / 2)).size := by rw [hh.2.2]; exact hhi
    have S0 : SortedFrom lt (heapify lt a (a.size - 1) (a.size / 2)) (a.size - 1) := by
      constructor
      · intro i j hi hij hj; rw [hh.2.2] at hj; omega
      · intro i j hi hej hj; rw [hh.2.2] at hj; omega
    have := sortLoop_sorted lt O (a.size - 1) _ hsz hh.1 S0
    intro i j hij hj
    by_cases hi0 : i = 0
    · subst hi0; exact this.1.2 0 j (Nat.le_refl _) hij hj
    · exact this.1.1 i j (by omega) hij hj

theorem swapIfInBounds_perm (a : Array α) (i j : Nat) : (a.swapIfInBounds i j).Perm a := by
  rw [Array.swapIfInBounds_def]
  split
  · split
    · exact Array.swap_perm _ _
    · exact Array.Perm.refl _
  · exact Array.Perm.refl _

theorem heapify_perm (lt : α → α → Bool) (hi : Nat) : ∀ (s : Nat) (a : Array α), (heapify lt a hi s).Perm a := by
  intro s
  induction s with
  | zero => intro a; unfold heapify; exact siftDown_perm _ _ _ _ _
  | succ s ih => intro a; unfold heapify; exact Array.Perm.trans (ih _) (siftDown_perm _ _ _ _ _)

theorem sortLoop_perm (lt : α → α → Bool) : ∀ (e : Nat) (a : Array α), (sortLoop lt a e).Perm a := by
  intro e
  induction e with
  | zero => intro a; exact Array.Perm.refl _
  | succ e ih =>
    intro a; unfold sortLoop
    exact Array.Perm.trans (ih _) (Array.Perm.trans (siftDown_perm _ _ _ _ _) (swapIfInBounds_perm _ _ _))

theorem heapSort_perm (lt : α → α → Bool) (a : Array α) : (heapSort lt a).Perm a := by
  unfold heapSort
  split
  · exact Array.Perm.refl _
  · exact Array.Perm.trans (sortLoop_perm _ _ _) (heapify_perm _ _ _ _)


end Flatcc.Sort
