import FlatccModel.Reader
/-!
# Soundness of the verifier model w.r.t. the reader access model (helper lemmas)

Property theorems are in `Props/C01.lean`.
-/
namespace Flatcc.Verifier

/-! ## inversion lemmas -/

theorem bind_ok {α β ε} {e : Except ε α} {k : α → Except ε β} {r : β}
    (h : (e >>= k) = .ok r) : ∃ v, e = .ok v ∧ k v = .ok r := by
  cases e with
  | error _ => simp [bind, Except.bind] at h
  | ok v => exact ⟨v, rfl, h⟩

theorem guard_ok {b} (h : guard' b = .ok ()) : b = true := by
  unfold guard' at h; split at h <;> simp_all

theorem pure_ok {α} {a b : α} (h : (pure a : V α) = .ok b) : a = b := by
  simp [pure, Except.pure] at h; exact h

theorem rd8_ok {c i v} (h : rd8 c i = .ok v) : i < c.n ∧ v = r8 c i := by
  unfold rd8 at h; split at h
  · injection h with h; exact ⟨by assumption, h.symm⟩
  · contradiction

theorem rd16_ok {c i v} (h : rd16 c i = .ok v) : i + 2 ≤ c.n ∧ v = r16 c i := by
  unfold rd16 at h; split at h
  · injection h with h; exact ⟨by assumption, h.symm⟩
  · contradiction

theorem rd32_ok {c i v} (h : rd32 c i = .ok v) : i + 4 ≤ c.n ∧ v = r32 c i := by
  unfold rd32 at h; split at h
  · injection h with h; exact ⟨by assumption, h.symm⟩
  · contradiction

theorem r8_lt (c i) : r8 c i < 256 := by unfold r8; omega
theorem r16_lt (c i) : r16 c i < 65536 := by unfold r16; omega
theorem r32_lt (c i) : r32 c i < 4294967296 := by unfold r32; omega

/-! ## arithmetic -/

theorem mod_of_dvd_mod {x a m : Nat} (hd : a ∣ m) (h : x % m = 0) : x % a = 0 := by
  have : m ∣ x := Nat.dvd_of_mod_eq_zero h
  exact Nat.mod_eq_zero_of_dvd (Nat.dvd_trans hd this)

theorem add_mod_zero {x y a : Nat} (hx : x % a = 0) (hy : y % a = 0) : (x + y) % a = 0 := by
  have h1 : a ∣ x := Nat.dvd_of_mod_eq_zero hx
  have h2 : a ∣ y := Nat.dvd_of_mod_eq_zero hy
  exact Nat.mod_eq_zero_of_dvd (Nat.dvd_add h1 h2)

/-- `(x mod 2^32) mod a = x mod a` for the power-of-two alignments -/
theorem w32_mod {x a : Nat} (hd : a ∣ 4294967296) : w32 x % a = x % a := by
  unfold w32; exact Nat.mod_mod_of_dvd x hd

theorem checkHeader_ok {e b o : Nat} (hb : b < 4294967296) (ho : o < 4294967296)
    (h : checkHeader e b o = true) : w32 (b + o) = b + o ∧ b + o + 4 ≤ e ∧ (b + o) % 4 = 0 ∧ 0 < o := by
  unfold checkHeader w32 at h
  simp only [Bool.and_eq_true, decide_eq_true_eq] at h
  unfold w32; omega

/-! ## environment -/

/-- what the header check of every verify entry point (root or nested) establishes about the buffer it is given: the address is a
multiple of 4 and the size is at most `UOFFSET_MAX - 8`.  NO alignment of the address beyond 4 is assumed: every wider alignment is
checked by the verifier on absolute addresses.  `M` bounds the alignments the schema uses (a power of two ≥ 4). -/
structure Placed (c : Ctx) (M : Nat) : Prop where
  m4 : 4 ∣ M
  mpow : M ∣ 4294967296
  a4 : c.A % 4 = 0
  size : c.n ≤ 4294967287

theorem Placed.al4 {c M} (P : Placed c M) {a} (h : a ∣ 4) : c.A % a = 0 := mod_of_dvd_mod h P.a4
theorem Placed.pow {c M} (P : Placed c M) {a} (h : a ∣ M) : a ∣ 4294967296 := Nat.dvd_trans h P.mpow

/-- positions that are only checked relative to the buffer start (offsets, vtable entries): alignment 1, 2 or 4 -/
theorem safe_rel {c : Ctx} {M a addr len : Nat} (P : Placed c M) (ha : a ∣ 4)
    (h1 : addr + len ≤ c.n) (h2 : addr % a = 0) : Safe c ⟨addr, len, a⟩ :=
  ⟨h1, add_mod_zero (P.al4 ha) h2⟩

theorem safe4 {c : Ctx} {M addr : Nat} (P : Placed c M) (h1 : addr + 4 ≤ c.n) (h2 : addr % 4 = 0) :
    Safe c ⟨addr, 4, 4⟩ := safe_rel P (Nat.dvd_refl 4) h1 h2

/-- the low 32 bits of an address decide its alignment for every power-of-two alignment up to 2^32 -/
theorem abs_mod {A x a : Nat} (hd : a ∣ 4294967296) : w32 (w32 A + x) % a = (A + x) % a := by
  rw [w32_mod hd]
  unfold w32
  rw [Nat.add_mod, Nat.mod_mod_of_dvd A hd, ← Nat.add_mod]

theorem abs_mod' {A x a : Nat} (hd : a ∣ 4294967296) : (x + w32 A) % a = (A + x) % a := by
  unfold w32
  rw [Nat.add_mod, Nat.mod_mod_of_dvd A hd, ← Nat.add_mod, Nat.add_comm]

theorem safe1 {c : Ctx} {addr len : Nat} (h1 : addr + len ≤ c.n) : Safe c ⟨addr, len, 1⟩ :=
  ⟨h1, Nat.mod_one _⟩

/-! ## leaf verifiers -/

theorem verifyString_safe {c : Ctx} {M : Nat} (P : Placed c M) {b o : Nat} (hb : b < 4294967296) (ho : o < 4294967296)
    (h : verifyString c b o = .ok ()) : ∀ a ∈ stringAcc c (b + o), Safe c a := by
  unfold verifyString at h
  obtain ⟨_, h1, h⟩ := bind_ok h
  have hc := checkHeader_ok hb ho (guard_ok h1)
  obtain ⟨n, h2, h⟩ := bind_ok h
  obtain ⟨_, h3, h⟩ := bind_ok h
  obtain ⟨z, h4, h⟩ := bind_ok h
  rw [hc.1] at h2 h3 h4
  obtain ⟨_, hn2⟩ := rd32_ok h2
  have g3 := guard_ok h3
  simp only [decide_eq_true_eq] at g3
  have hsz := P.size
  have e4 : w32 (b + o + 4) = b + o + 4 := by unfold w32; omega
  rw [e4] at g3 h4
  unfold sub32 at g3
  obtain ⟨hz, _⟩ := rd8_ok h4
  subst hn2
  intro a ha
  unfold stringAcc at ha
  simp only [List.mem_cons, List.mem_nil_iff, or_false] at ha
  rcases ha with rfl | rfl
  · exact safe4 P (by omega) hc.2.2.1
  · exact safe1 (by omega)

theorem verifyStruct_safe {c : Ctx} {M : Nat} (P : Placed c M) {e b o size align : Nat}
    (he : e ≤ c.n) (ho : o < 4294967296) (hsize : size < 4294967296) (hal : align ∣ M)
    (h : verifyStruct c e b o size align = .ok ()) : Safe c ⟨b + o, size, align⟩ := by
  unfold verifyStruct at h
  obtain ⟨_, h1, h⟩ := bind_ok h
  obtain ⟨_, h2, h⟩ := bind_ok h
  obtain ⟨_, h3, h⟩ := bind_ok h
  have g1 := guard_ok h1; have g2 := guard_ok h2; have g3 := guard_ok h3; have g4 := guard_ok h
  simp only [Bool.not_eq_true', Bool.or_eq_false_iff, decide_eq_false_iff_not, decide_eq_true_eq] at g1 g2 g3 g4
  have hsz := P.size
  have hbo : w32 (b + o) = b + o := by unfold w32; omega
  rw [hbo, abs_mod (P.pow hal)] at g4
  unfold w32 at g2 g3
  have : (b + o + size) % 4294967296 = b + o + size := by
    by_cases hlt : b + o + size < 4294967296
    · exact Nat.mod_eq_of_lt hlt
    · exfalso
      have : (b + o + size) % 4294967296 < 4294967296 := Nat.mod_lt _ (by omega)
      omega
  rw [this] at g3
  exact ⟨by show b + o + size ≤ c.n; omega, g4⟩

/-- what a successful `verifyVector` establishes -/
theorem verifyVector_ok {c : Ctx} {M : Nat} (P : Placed c M) {b o esz align maxc n : Nat}
    (hb : b < 4294967296) (ho : o < 4294967296) (hal : align ∣ M) (hmax : maxc * esz < 4294967296)
    (h : verifyVector c b o esz align maxc = .ok n) :
    n = r32 c (b + o) ∧ b + o + 4 + n * esz ≤ c.n ∧ (b + o) % 4 = 0 ∧ 0 < o ∧
    (∀ a ∈ vectorAcc c (b + o) esz align, Safe c a) := by
  unfold verifyVector at h
  obtain ⟨_, h1, h⟩ := bind_ok h
  have hc := checkHeader_ok hb ho (guard_ok h1)
  obtain ⟨n', h2, h⟩ := bind_ok h
  rw [hc.1] at h2 h
  obtain ⟨_, hn2⟩ := rd32_ok h2
  have hsz := P.size
  have e4 : w32 (b + o + 4) = b + o + 4 := by unfold w32; omega
  simp only [e4] at h
  obtain ⟨_, h3, h⟩ := bind_ok h
  obtain ⟨_, h4, h⟩ := bind_ok h
  obtain ⟨_, h5, h⟩ := bind_ok h
  have g3 := guard_ok h3; have g4 := guard_ok h4; have g5 := guard_ok h5
  simp only [Bool.and_eq_true, decide_eq_true_eq] at g3 g4 g5
  have hn : n' = n := pure_ok h
  subst hn
  have hmul : n' * esz ≤ maxc * esz := Nat.mul_le_mul_right _ g4
  have hw : w32 (n' * esz) = n' * esz := by unfold w32; omega
  rw [hw] at g5
  unfold sub32 at g5
  have hrange : b + o + 4 + n' * esz ≤ c.n := by omega
  refine ⟨hn2, hrange, hc.2.2.1, hc.2.2.2, ?_⟩
  intro a ha
  unfold vectorAcc at ha
  simp only [List.mem_cons, List.mem_nil_iff, or_false] at ha
  rcases ha with rfl | rfl
  · exact safe4 P (by omega) hc.2.2.1
  · rw [← hn2]
    by_cases hz : n' = 0
    · simp only [hz, if_true, Nat.zero_mul]
      exact safe1 (by omega)
    · simp only [hz, if_false] at g3 ⊢
      have g31 := g3.1
      rw [abs_mod (P.pow hal)] at g31
      exact ⟨hrange, g31⟩

/-- a verified vector read as bytes (the `[ubyte]` view of a nested buffer field) -/
theorem vectorAcc_bytes_safe {c : Ctx} {M : Nat} (P : Placed c M) {v n : Nat} (hn : n = r32 c v)
    (hr : v + 4 + n * 1 ≤ c.n) (h4 : v % 4 = 0) : ∀ a ∈ vectorAcc c v 1 1, Safe c a := by
  intro a ha
  unfold vectorAcc at ha
  simp only [List.mem_cons, List.mem_nil_iff, or_false] at ha
  rcases ha with rfl | rfl
  · exact safe4 P (by omega) h4
  · have e : (if r32 c v = 0 then 1 else 1) = 1 := by split <;> rfl
    rw [e, ← hn]
    exact safe1 (by omega)

/-- the string loop: every element slot and every string it points to -/
theorem verifyStrings_safe {c : Ctx} {M : Nat} (P : Placed c M) :
    ∀ cnt base, base % 4 = 0 → base + 4 * cnt ≤ c.n → verifyStrings c cnt base = .ok () →
      ∀ a ∈ stringElemsAcc c cnt base, Safe c a := by
  intro cnt
  induction cnt with
  | zero => intro base _ _ _ a ha; simp [stringElemsAcc] at ha
  | succ cnt ih =>
    intro base hb4 hrange h a ha
    have hsz := P.size
    unfold verifyStrings at h
    obtain ⟨o, h1, h⟩ := bind_ok h
    obtain ⟨_, h2, h⟩ := bind_ok h
    obtain ⟨_, ho2⟩ := rd32_ok h1
    have holt := r32_lt c base
    have hw : w32 (base + 4) = base + 4 := by unfold w32; omega
    rw [hw] at h
    unfold stringElemsAcc at ha
    simp only [List.mem_append, List.mem_cons] at ha
    rcases ha with (rfl | ha) | ha
    · exact safe4 P (by omega) hb4
    · rw [← ho2] at ha
      exact verifyString_safe P (by omega) (by omega) h2 a ha
    · exact ih (base + 4) (by omega) (by omega) h a ha

end Flatcc.Verifier
