/-!
# Struct layout and table field ids (`semantics.c`: `analyze_struct`, `fb_align`, implicit id assignment of `process_table`)
-/
namespace Flatcc.Layout

/-- `fb_align(size, align)` = `(size + align - 1) & ~(align - 1)`; for the power-of-two alignments the compiler
admits this is rounding up to a multiple -/
def alignUp (size a : Nat) : Nat := (size + a - 1) / a * a

/-- members as `analyze_struct` sees them after resolving types: total size (element size × array length) and alignment -/
structure Member where
  size : Nat
  align : Nat
  deriving Repr

/-- the member loop: running size and alignment, offsets in declaration order -/
def layoutLoop : List Member → Nat → Nat → List Nat → Nat × Nat × List Nat
  | [], size, align, offs => (size, align, offs.reverse)
  | m :: r, size, align, offs =>
    let off := alignUp size m.align
    layoutLoop r (off + m.size) (max align m.align) (off :: offs)

/-- `analyze_struct`: `forceAlign = 0` means no force_align attribute. Result: (size, align, member offsets);
`none` when force_align is smaller than the natural alignment or the struct is empty. -/
def layoutStruct (ms : List Member) (forceAlign : Nat) : Option (Nat × Nat × List Nat) :=
  let (size, nat, offs) := layoutLoop ms 0 1 []
  if forceAlign > 0 ∧ nat > forceAlign then none else
  let align := if forceAlign > 0 then forceAlign else nat
  let size := alignUp size align
  if size = 0 then none else some (size, align, offs)

/-- table fields in declaration order: `true` = union / union vector (takes a hidden type id before it) -/
def assignIds : List Bool → Nat → List Nat
  | [], _ => []
  | isUnion :: r, next => if isUnion then (next + 1) :: assignIds r (next + 2) else next :: assignIds r (next + 1)

end Flatcc.Layout
