import FlatccModel.Find
import FlatccModel.Layout
import FlatccModel.Props.C07
import FlatccModel.Props.C16
/-!
# C20 — the binary schema is searchable and carries the layout the C code uses

The numbers the binary schema must carry are the ones the layout model computes (`Props/C07.lean`: struct offsets,
sizes, alignments; field ids) — tools/props/c20.py compares the compiler's binary schema with that model for every
generated schema. Searchability: the reflection vectors are looked up with the generated binary search (`Find.lean`,
proved in C16); the theorem below is what `sorted` buys: every stored key is found, at its first position.
-/
namespace Flatcc.Props.C20
open Flatcc.Sort

/-- **A sorted key vector is searchable.** `cmp i` is the comparison of entry `i` with the searched key (negative:
entry below key). If the comparisons are monotone (the vector is sorted by the key order) and some entry matches, the
generated binary search returns an index, that index matches, and no lower index does. -/
theorem C20_sorted_lookup_finds (cmp : Nat → Int) (len : Nat) (hm : Mono cmp len) (k : Nat) (hk : k < len) (hz : cmp k = 0) :
    ∃ i, find cmp len = some i ∧ cmp i = 0 ∧ i ≤ k ∧ ∀ j, j < i → cmp j ≠ 0 := by
  cases hf : find cmp len with
  | none =>
    have := Flatcc.Sort.C16_find_not_found cmp len hm hf k hk
    exact absurd hz this
  | some i =>
    have h := Flatcc.Sort.C16_find_lowest cmp len hm i hf
    refine ⟨i, rfl, h.2.1, ?_, fun j hj => h.2.2 j hj⟩
    by_cases hik : i ≤ k
    · exact hik
    · exact absurd hz (h.2.2 k (by omega))

end Flatcc.Props.C20
